import I18n.Spec.LocaleRe
/-
Reference semantics for C19, written from the property statement (not from the code):
the locale grammar `ll[_CC][.encoding][@modifier]` as a regular expression and as a predicate on records.
-/
namespace I18n.Spec.Locale
open I18n.Spec.LocaleRe

/-- `ll[_CC][.encoding][@modifier]`: `ll` two or more lower-case ASCII letters, `CC` two or more upper-case ASCII letters,
    encoding a non-empty run of ASCII letters, digits, `+`, `-`, modifier a non-empty run of lower-case ASCII letters;
    the whole string (nothing may follow, not even a newline). -/
def localeRegexp : Anchored :=
  ⟨.seq (.group 1 (.atLeast 2 (.cls [(97, 122)])))
    (.seq (.opt (.seq (.cls [(95, 95)]) (.group 2 (.atLeast 2 (.cls [(65, 90)])))))
      (.seq (.opt (.seq (.cls [(46, 46)]) (.group 3 (.atLeast 1 (.cls [(43, 43), (45, 45), (48, 57), (65, 90), (97, 122)])))))
        (.opt (.seq (.cls [(64, 64)]) (.group 4 (.atLeast 1 (.cls [(97, 122)]))))))),
   .endString⟩

def lowerR : List (Nat × Nat) := [(97, 122)]
def upperR : List (Nat × Nat) := [(65, 90)]
def encR : List (Nat × Nat) := [(43, 43), (45, 45), (48, 57), (65, 90), (97, 122)]

/-- the four parts of a locale name, as written -/
structure Parts where
  ll : List Char
  cc : Option (List Char)
  enc : Option (List Char)
  mod : Option (List Char)
  deriving DecidableEq, Repr

def optPart (sep : Char) : Option (List Char) → List Char
  | none => []
  | some x => sep :: x

/-- `ll[_CC][.encoding][@modifier]` -/
def Parts.render (p : Parts) : List Char :=
  p.ll ++ (optPart '_' p.cc ++ (optPart '.' p.enc ++ optPart '@' p.mod))

def runOf (rs : List (Nat × Nat)) (min : Nat) (x : List Char) : Prop :=
  min ≤ x.length ∧ ∀ c ∈ x, inRanges rs c = true

def optRunOf (rs : List (Nat × Nat)) (min : Nat) : Option (List Char) → Prop
  | none => True
  | some x => runOf rs min x

/-- the parts are well formed -/
def Parts.WF (p : Parts) : Prop :=
  runOf lowerR 2 p.ll ∧ optRunOf upperR 2 p.cc ∧ optRunOf encR 1 p.enc ∧ optRunOf lowerR 1 p.mod

/-- the locale grammar as a predicate on strings -/
def IsLocaleName (s : List Char) : Prop := ∃ p : Parts, p.WF ∧ s = p.render

end I18n.Spec.Locale
