import I18n.Spec.LocaleRe
/-
Reference semantics for C19, written from the property statement (not from the code):
the locale grammar `ll[_CC][.encoding][@modifier]` as a regular expression and as a predicate on records.
-/
namespace I18n.Spec.Locale
open I18n.Spec.LocaleRe

/-- `ll[_CC][.encoding][@modifier]`: `ll` two or more lower-case ASCII letters, `CC` two or more upper-case ASCII letters,
    encoding a non-empty run of ASCII letters, digits, `+`, `-`, modifier a non-empty run of lower-case ASCII letters;
    the whole string (nothing may follow, not even a newline). -/
def localeRegexp : Anchored :=
  ⟨.seq (.group 1 (.atLeast 2 (.cls [(97, 122)])))
    (.seq (.opt (.seq (.cls [(95, 95)]) (.group 2 (.atLeast 2 (.cls [(65, 90)])))))
      (.seq (.opt (.seq (.cls [(46, 46)]) (.group 3 (.atLeast 1 (.cls [(97, 122), (65, 90), (48, 57), (43, 43), (45, 45)])))))
        (.opt (.seq (.cls [(64, 64)]) (.group 4 (.atLeast 1 (.cls [(97, 122)]))))))),
   .endString⟩

end I18n.Spec.Locale
