/-!
# Reference notions for C20 (charset classification, lossless codecs) — independent of the model

Names and texts are lists of code points.
-/
namespace I18n.Spec.Charset

/-- the charset names the gettext manual lists as portable (gettext-tools/src/po-charset.c), as `data/encodings` must copy them -/
def gettextCharsetStrings : List String := [
  "ASCII", "US-ASCII", "ANSI_X3.4-1968", "ISO-8859-1", "ISO-8859-2", "ISO-8859-3", "ISO-8859-4", "ISO-8859-5", "ISO-8859-6",
  "ISO-8859-7", "ISO-8859-8", "ISO-8859-9", "ISO-8859-13", "ISO-8859-14", "ISO-8859-15", "KOI8-R", "KOI8-U", "KOI8-T",
  "CP850", "CP866", "CP874", "CP932", "CP949", "CP950", "CP1250", "CP1251", "CP1252", "CP1253", "CP1254", "CP1255", "CP1256",
  "CP1257", "GB2312", "EUC-JP", "EUC-KR", "EUC-TW", "BIG5", "BIG5-HKSCS", "GBK", "GB18030", "SHIFT_JIS", "JOHAB", "TIS-620",
  "VISCII", "GEORGIAN-PS", "UTF-8"]

def gettextCharsets : List (List Nat) := gettextCharsetStrings.map fun s => s.toList.map Char.toNat

/-- the tool's "ASCII repertoire": NUL EOT BEL BS HT LF VT FF CR ESC and the 95 printable characters.  (Not all 128: VISCII, which
    gettext lists as portable, reuses six other control positions for letters.) -/
def asciiRepertoire : List Nat := [0, 4, 7, 8, 9, 10, 11, 12, 13, 27] ++ (List.range 95).map (· + 32)

/-- charset names are compared without regard to ASCII case, and gettext accepts `ISO_8859-n` for `ISO-8859-n` -/
def foldCp (c : Nat) : Nat := if 65 ≤ c ∧ c ≤ 90 then c + 32 else c
def fold (s : List Nat) : List Nat := s.map foldCp
def canonical (s : List Nat) : List Nat :=
  match fold s with
  | 105 :: 115 :: 111 :: 95 :: rest => 105 :: 115 :: 111 :: 45 :: rest
  | t => t

/-- gettext lists the charset -/
def gettextLists (name : List Nat) : Bool := (gettextCharsets.map fold).contains (canonical name)

/-- a decoding table is injective on its defined entries (U+FFFE = undefined) -/
def InjectiveOnDefined (table : List Nat) : Prop :=
  ∀ (i j c : Nat), table[i]? = some c → table[j]? = some c → c ≠ 0xFFFE → i = j

/-- a valid error span inside an input of length `n` -/
def ValidSpan (n : Nat) (span : Nat × Nat) : Prop := span.1 < span.2 ∧ span.2 ≤ n

/-! ## the contract of iconv(3) the binding relies on (POSIX) -/

end I18n.Spec.Charset
