/-!
# `Spec.Printf` — what a printf(3) format string is, and what it consumes

My reading of printf(3) (Linux man-pages) / C99 §7.19.6.1 / POSIX (numbered arguments `%n$`, `*m$`) /
the glibc extensions (`%m`, `q`, `L` with integers, `Z`, `C`, `S`, the `'` and `I` flags) and of the
`<inttypes.h>` macros in the notation gettext uses for them in PO files (`%<PRId32>`).
Independent of the model (`I18n.CFmt`), which only borrows the *syntax* (`Directive`, `Item`, `render`).

A conversion specification is `%[argno$][flags][width][.precision][length]conversion`.

Decisions where the sources leave room (they are what the tool means by "type", documented here rather
than hidden):
* an argument's C type is identified by its *name*; two references to one argument must name the same type.
  `%c` is given the category type `char` (C passes an `int`; the tool keeps `%c` and `%d` apart on purpose),
  `%zd` is `ssize_t`, `%tu` is written `[unsigned ptrdiff_t]`;
* a flag, width or precision whose effect C99 calls *undefined* for a conversion is invalid; flags that are
  merely ignored (`-`, `+`, space, `I` on any conversion that formats something) are valid;
* `%n` takes no flag, width or precision, `%%` is complete as it stands (C99 §7.19.6.1p8);
* `%m` consumes nothing; an argument number on it is tolerated (within range) and does not count as a use of
  numbered arguments — `%%` and `%m` are neutral with respect to "numbered xor unnumbered".
-/
namespace I18n.Spec.Printf

/-! ## Syntax -/

/-- length modifiers -/
inductive Len | hh | h | l | ll | q | j | z | Z | t | L
  deriving DecidableEq, Repr, Inhabited

def Len.chars : Len → List Char
  | .hh => ['h', 'h'] | .h => ['h'] | .l => ['l'] | .ll => ['l', 'l'] | .q => ['q']
  | .j => ['j'] | .z => ['z'] | .Z => ['Z'] | .t => ['t'] | .L => ['L']

/-- the spelling used as a table key (`""` for no length modifier) -/
def lenName : Option Len → String
  | none => "" | some .hh => "hh" | some .h => "h" | some .l => "l" | some .ll => "ll" | some .q => "q"
  | some .j => "j" | some .z => "z" | some .Z => "Z" | some .t => "t" | some .L => "L"

def allLens : List (Option Len) :=
  [none, some .hh, some .h, some .l, some .ll, some .q, some .j, some .z, some .Z, some .t, some .L]

inductive PriKind | exact | least | fast
  deriving DecidableEq, Repr, Inhabited
inductive PriBits | b8 | b16 | b32 | b64
  deriving DecidableEq, Repr, Inhabited
/-- the part of a `PRI…` macro name after the conversion letter -/
inductive PriLen | sized (k : PriKind) (b : PriBits) | max | ptr
  deriving DecidableEq, Repr, Inhabited

def PriKind.chars : PriKind → List Char
  | .exact => [] | .least => ['L', 'E', 'A', 'S', 'T'] | .fast => ['F', 'A', 'S', 'T']
def PriBits.chars : PriBits → List Char
  | .b8 => ['8'] | .b16 => ['1', '6'] | .b32 => ['3', '2'] | .b64 => ['6', '4']
def PriLen.chars : PriLen → List Char
  | .sized k b => k.chars ++ b.chars | .max => ['M', 'A', 'X'] | .ptr => ['P', 'T', 'R']
def PriLen.name (l : PriLen) : String := String.ofList l.chars

def allPriLens : List PriLen :=
  [.sized .exact .b8, .sized .exact .b16, .sized .exact .b32, .sized .exact .b64,
   .sized .least .b8, .sized .least .b16, .sized .least .b32, .sized .least .b64,
   .sized .fast .b8, .sized .fast .b16, .sized .fast .b32, .sized .fast .b64, .max, .ptr]

/-- `[length]conversion`, or an `<inttypes.h>` macro as gettext writes it: `<PRIxLEAST32>` -/
inductive Body
  | std (len : Option Len) (conv : Char)
  | pri (conv : Char) (len : PriLen)
  deriving DecidableEq, Repr, Inhabited

/-- numerals are kept as written (digit strings): `%01$d` and `%1$d` are different strings -/
inductive Width
  | none
  | num (ds : List Char)
  | star (idx : Option (List Char))
  deriving DecidableEq, Repr, Inhabited

inductive Prec
  | none
  | num (ds : List Char)          -- possibly empty: `%.d`
  | star (idx : Option (List Char))
  deriving DecidableEq, Repr, Inhabited

structure Directive where
  index : Option (List Char)
  flags : List Char
  width : Width
  prec : Prec
  body : Body
  deriving DecidableEq, Repr, Inhabited

inductive Item
  | lit (cs : List Char)
  | dir (d : Directive)
  deriving DecidableEq, Repr, Inhabited

/-! ## Rendering -/

def renderIdx : Option (List Char) → List Char
  | none => []
  | some ds => ds ++ ['$']

def Width.render : Width → List Char
  | .none => []
  | .num ds => ds
  | .star idx => '*' :: renderIdx idx

def Prec.render : Prec → List Char
  | .none => []
  | .num ds => '.' :: ds
  | .star idx => '.' :: '*' :: renderIdx idx

def renderLen : Option Len → List Char
  | none => []
  | some ln => ln.chars

def Body.render : Body → List Char
  | .std len conv => renderLen len ++ [conv]
  | .pri conv len => ['<', 'P', 'R', 'I', conv] ++ len.chars ++ ['>']

/-- everything after the `%` -/
def Directive.renderTail (d : Directive) : List Char :=
  renderIdx d.index ++ (d.flags ++ (d.width.render ++ (d.prec.render ++ d.body.render)))

def Directive.render (d : Directive) : List Char := '%' :: d.renderTail

def Item.render : Item → List Char
  | .lit cs => cs
  | .dir d => d.render

def render : List Item → List Char
  | [] => []
  | it :: rest => it.render ++ render rest

/-! ## Lexical well-formedness -/

def flagChars : List Char := ['#', '0', ' ', '+', '\'', 'I', '-']
def convChars : List Char :=
  ['d', 'i', 'o', 'u', 'x', 'X', 'e', 'E', 'f', 'F', 'g', 'G', 'a', 'A', 'c', 's', 'C', 'S', 'p', 'n', 'm', '%']
def priConvChars : List Char := ['d', 'i', 'o', 'u', 'x', 'X']

/-- a non-empty string of ASCII digits -/
def Numeral (ds : List Char) : Prop := ds ≠ [] ∧ ∀ c ∈ ds, c.isDigit = true

def IdxWf : Option (List Char) → Prop
  | none => True
  | some ds => Numeral ds

def Width.Wf : Width → Prop
  | .none => True
  | .num ds => Numeral ds ∧ ds.head? ≠ some '0'
  | .star idx => IdxWf idx

def Prec.Wf : Prec → Prop
  | .none => True
  | .num ds => ∀ c ∈ ds, c.isDigit = true
  | .star idx => IdxWf idx

def Body.Wf : Body → Prop
  | .std _ conv => conv ∈ convChars
  | .pri conv _ => conv ∈ priConvChars

structure Directive.Wf (d : Directive) : Prop where
  index : IdxWf d.index
  flags : ∀ c ∈ d.flags, c ∈ flagChars
  width : d.width.Wf
  prec : d.prec.Wf
  body : d.body.Wf

/-- literal runs are maximal: non-empty, `%`-free, never two in a row -/
def ItemsWf : List Item → Prop
  | [] => True
  | .lit cs :: rest =>
    cs ≠ [] ∧ (∀ c ∈ cs, c ≠ '%') ∧ (match rest with | .lit _ :: _ => False | _ => True) ∧ ItemsWf rest
  | .dir d :: rest => d.Wf ∧ ItemsWf rest

def dirs : List Item → List Directive
  | [] => []
  | .lit _ :: rest => dirs rest
  | .dir d :: rest => d :: dirs rest

/-- value of a digit string -/
def decimal (ds : List Char) : Nat := ds.foldl (fun acc c => 10 * acc + (c.toNat - 48)) 0

/-! ## Limits -/
def NL_ARGMAX : Nat := 4096          -- POSIX `{NL_ARGMAX}` on GNU/Linux
def INT_MAX : Nat := 2147483647      -- widths and precisions are `int`s

/-! ## Tables: length × conversion → type (hand-written from the man page) -/

/-- signed / unsigned integer type selected by a length modifier; `L` and `q` are glibc's (non-portable)
    spellings of `ll`, `Z` of `z` -/
def intTypes : Option Len → String × String
  | none => ("int", "unsigned int")
  | some .hh => ("signed char", "unsigned char")
  | some .h => ("short int", "unsigned short int")
  | some .l => ("long int", "unsigned long int")
  | some .ll => ("long long int", "unsigned long long int")
  | some .L => ("long long int", "unsigned long long int")
  | some .q => ("long long int", "unsigned long long int")
  | some .j => ("intmax_t", "uintmax_t")
  | some .z => ("ssize_t", "size_t")
  | some .Z => ("ssize_t", "size_t")
  | some .t => ("ptrdiff_t", "[unsigned ptrdiff_t]")

def nonPortableIntLen : Option Len → Bool
  | some .L => true | some .q => true | some .Z => true | _ => false

structure TypeInfo where
  type : String
  integer : Bool        -- an integer conversion (`d i o u x X`, `PRI…`)
  nonportable : Bool    -- valid, but the man page calls the spelling non-standard / deprecated
  deriving DecidableEq, Repr

def signedConvs : List Char := ['d', 'i']
def unsignedConvs : List Char := ['o', 'u', 'x', 'X']
def floatConvs : List Char := ['a', 'A', 'e', 'E', 'f', 'F', 'g', 'G']

/-- `none`: the length modifier does not apply to the conversion -/
def stdType (len : Option Len) (conv : Char) : Option TypeInfo :=
  if conv ∈ signedConvs then some ⟨(intTypes len).1, true, nonPortableIntLen len⟩
  else if conv ∈ unsignedConvs then some ⟨(intTypes len).2, true, nonPortableIntLen len⟩
  else if conv = 'n' then some ⟨(intTypes len).1 ++ " *", false, nonPortableIntLen len⟩
  else if conv ∈ floatConvs then
    match len with
    | none => some ⟨"double", false, false⟩
    | some .l => some ⟨"double", false, true⟩      -- C99: no effect; not in the man page
    | some .L => some ⟨"long double", false, false⟩
    | _ => none
  else if conv = 'c' then
    match len with
    | none => some ⟨"char", false, false⟩
    | some .l => some ⟨"wint_t", false, false⟩
    | _ => none
  else if conv = 'C' then
    match len with
    | none => some ⟨"wint_t", false, true⟩          -- "(Not in C99, but in SUSv2.) Synonym for lc. Don't use."
    | _ => none
  else if conv = 's' then
    match len with
    | none => some ⟨"const char *", false, false⟩
    | some .l => some ⟨"const wchar_t *", false, false⟩
    | _ => none
  else if conv = 'S' then
    match len with
    | none => some ⟨"const wchar_t *", false, true⟩
    | _ => none
  else if conv = 'p' then
    match len with
    | none => some ⟨"void *", false, false⟩
    | _ => none
  else if conv = 'm' ∨ conv = '%' then
    match len with
    | none => some ⟨"void", false, false⟩           -- consumes no argument
    | _ => none
  else none

def PriKind.infix : PriKind → String
  | .exact => "" | .least => "_least" | .fast => "_fast"
def PriBits.digits : PriBits → String
  | .b8 => "8" | .b16 => "16" | .b32 => "32" | .b64 => "64"

/-- `PRIdN` → `intN_t`, `PRIuLEASTN` → `uint_leastN_t`, `PRIxMAX` → `uintmax_t`, `PRIdPTR` → `intptr_t` -/
def priType (conv : Char) (len : PriLen) : String :=
  (if conv ∈ signedConvs then "int" else "uint") ++
  (match len with
   | .sized k b => k.infix ++ b.digits
   | .max => "max"
   | .ptr => "ptr") ++ "_t"

def Body.conv : Body → Char
  | .std _ c => c
  | .pri c _ => c

def Body.typeInfo : Body → Option TypeInfo
  | .std len conv => stdType len conv
  | .pri conv len => if conv ∈ priConvChars then some ⟨priType conv len, true, false⟩ else none

/-! ## Tables: applicability of flags, width, precision, argument number -/

def allButPctN : List Char :=
  ['d', 'i', 'o', 'u', 'x', 'X', 'e', 'E', 'f', 'F', 'g', 'G', 'a', 'A', 'c', 's', 'C', 'S', 'p', 'm']

/-- conversions for which a flag has defined behaviour -/
def flagConvs (flag : Char) : List Char :=
  if flag = '#' then ['o', 'x', 'X', 'a', 'A', 'e', 'E', 'f', 'F', 'g', 'G']       -- "For other conversions, the result is undefined."
  else if flag = '0' then ['d', 'i', 'o', 'u', 'x', 'X', 'a', 'A', 'e', 'E', 'f', 'F', 'g', 'G']   -- "For other conversions, the behavior is undefined."
  else if flag = '\'' then ['d', 'i', 'u', 'f', 'F', 'g', 'G']                     -- "For decimal conversion (i, d, u, f, F, g, G)"
  else allButPctN                                                                   -- `-`, space, `+`, `I`

def widthConvs : List Char := allButPctN
def precConvs : List Char := ['d', 'i', 'o', 'u', 'x', 'X', 'a', 'A', 'e', 'E', 'f', 'F', 'g', 'G', 's', 'S']
/-- conversions that may carry an argument number (`%1$%` is not a thing) -/
def indexConvs : List Char :=
  ['d', 'i', 'o', 'u', 'x', 'X', 'e', 'E', 'f', 'F', 'g', 'G', 'a', 'A', 'c', 's', 'C', 'S', 'p', 'n', 'm']
/-- conversions that consume an argument -/
def consuming : List Char :=
  ['d', 'i', 'o', 'u', 'x', 'X', 'e', 'E', 'f', 'F', 'g', 'G', 'a', 'A', 'c', 's', 'C', 'S', 'p', 'n']

/-! ## Validity of one conversion specification -/

def IdxInRange : Option (List Char) → Prop
  | none => True
  | some ds => 1 ≤ decimal ds ∧ decimal ds ≤ NL_ARGMAX

def Width.Valid (w : Width) (conv : Char) : Prop :=
  match w with
  | .none => True
  | .num ds => decimal ds ≤ INT_MAX ∧ conv ∈ widthConvs
  | .star idx => IdxInRange idx ∧ conv ∈ widthConvs

def Prec.Valid (p : Prec) (conv : Char) : Prop :=
  match p with
  | .none => True
  | .num ds => decimal ds ≤ INT_MAX ∧ conv ∈ precConvs
  | .star idx => IdxInRange idx ∧ conv ∈ precConvs

structure ValidDirective (d : Directive) : Prop where
  wf : d.Wf
  typed : d.body.typeInfo ≠ none
  flags : ∀ f ∈ d.flags, d.body.conv ∈ flagConvs f
  width : d.width.Valid d.body.conv
  prec : d.prec.Valid d.body.conv
  indexRange : IdxInRange d.index
  indexAllowed : d.index ≠ none → d.body.conv ∈ indexConvs

/-! ## Arguments -/

inductive ArgKind | width | prec | conv
  deriving DecidableEq, Repr, Inhabited

/-- one use of an argument: by a `*` width, a `*` precision, or the conversion itself;
    `parent` = position of the directive among the items of the string -/
structure Entry where
  kind : ArgKind
  type : String
  parent : Nat
  deriving DecidableEq, Repr, Inhabited

/-- a reference to an argument: explicit number (`n$`) or "the next one" -/
structure Ref where
  idx : Option Nat
  entry : Entry
  deriving DecidableEq, Repr

def idxValue : Option (List Char) → Option Nat
  | none => none
  | some ds => some (decimal ds)

def Body.typeName (b : Body) : String :=
  match b.typeInfo with
  | some ti => ti.type
  | none => ""

/-- references made by one directive, in the order printf fetches them: `*` width, `*` precision, value -/
def Directive.refs (d : Directive) (parent : Nat) : List Ref :=
  (match d.width with
   | .star idx => [⟨idxValue idx, ⟨.width, "int", parent⟩⟩]
   | _ => []) ++
  ((match d.prec with
   | .star idx => [⟨idxValue idx, ⟨.prec, "int", parent⟩⟩]
   | _ => []) ++
  (if d.body.conv ∈ consuming then [⟨idxValue d.index, ⟨.conv, d.body.typeName, parent⟩⟩] else []))

def refsFrom : Nat → List Item → List Ref
  | _, [] => []
  | k, .lit _ :: rest => refsFrom (k + 1) rest
  | k, .dir d :: rest => d.refs k ++ refsFrom (k + 1) rest

def refs (items : List Item) : List Ref := refsFrom 0 items

/-- the argument each reference denotes: an explicit number, else a running count from `k` -/
def positionsFrom : Nat → List Ref → List (Nat × Entry)
  | _, [] => []
  | k, r :: rs =>
    (match r.idx with
     | some i => (i, r.entry)
     | none => (k, r.entry)) :: positionsFrom (k + 1) rs

def positions (rs : List Ref) : List (Nat × Entry) := positionsFrom 1 rs

/-- numbered xor unnumbered (`%%` and `%m` make no reference, so they are neutral) -/
def Numbering (rs : List Ref) : Prop :=
  (∀ r ∈ rs, r.idx = none) ∨ (∀ r ∈ rs, r.idx ≠ none)

/-- the arguments used are exactly 1..k for some k -/
def GapFree (ps : List (Nat × Entry)) : Prop :=
  ∃ k, ∀ j, (∃ e, (j, e) ∈ ps) ↔ (1 ≤ j ∧ j ≤ k)

/-- every argument is used at one type only -/
def OneType (ps : List (Nat × Entry)) : Prop :=
  ∀ j e e', (j, e) ∈ ps → (j, e') ∈ ps → e.type = e'.type

structure GlobalValid (rs : List Ref) : Prop where
  numbering : Numbering rs
  range : ∀ p ∈ positions rs, p.1 ≤ NL_ARGMAX
  gapFree : GapFree (positions rs)
  oneType : OneType (positions rs)

/-- **Validity of a format string given as its items.** -/
structure Valid (items : List Item) : Prop where
  wf : ItemsWf items
  directives : ∀ d ∈ dirs items, ValidDirective d
  global : GlobalValid (refs items)

/-- number of arguments: the largest argument position (= their count, by `GapFree`) -/
def argCount (ps : List (Nat × Entry)) : Nat := ps.foldl (fun m p => max m p.1) 0

def usesOf (ps : List (Nat × Entry)) (j : Nat) : List Entry :=
  (ps.filter (fun p => p.1 == j)).map (·.2)

/-- **Signature**: for each argument 1..k in order, its uses in the order printf makes them.
    Its length is the number of arguments printf consumes; `typesOf` gives their C types. -/
def signatureOf (ps : List (Nat × Entry)) : List (List Entry) :=
  (List.range (argCount ps)).map (fun t => usesOf ps (t + 1))

def signature (items : List Item) : List (List Entry) := signatureOf (positions (refs items))

def typesOf (sig : List (List Entry)) : List String :=
  sig.map (fun uses => match uses with | e :: _ => e.type | [] => "")

end I18n.Spec.Printf
