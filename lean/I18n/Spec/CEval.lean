import I18n.Model.Expr
/-!
Reference semantics of plural expressions: *mathematical* evaluation over ℤ with C's lazy
`&&`, `||`, `?:`, C's truncating `/` and `%`, returning the value together with every
intermediate result that was actually evaluated (in evaluation order).  `none` = a division
whose divisor is zero was executed.  No width, no overflow: those enter only through the side
condition "every evaluated intermediate result lies in `[0, 2^bits)`", under which unsigned C
arithmetic and ℤ arithmetic coincide.
-/
namespace I18n.Spec
open I18n

def arith (op : BinOp) (x y : Int) : Option Int :=
  match op with
  | .add => some (x + y)
  | .sub => some (x - y)
  | .mult => some (x * y)
  | .div => if y = 0 then none else some (Int.tdiv x y)
  | .mod => if y = 0 then none else some (Int.tmod x y)

def rel (op : CmpOp) (x y : Int) : Int :=
  match op with
  | .eq => if x = y then 1 else 0
  | .noteq => if x ≠ y then 1 else 0
  | .lt => if x < y then 1 else 0
  | .lte => if x ≤ y then 1 else 0
  | .gt => if x > y then 1 else 0
  | .gte => if x ≥ y then 1 else 0

def mathEval (n : Int) : Expr → Option (Int × List Int)
  | .num k => some (k, [k])
  | .name => some (n, [n])
  | .unaryop .not a =>
    match mathEval n a with
    | none => none
    | some (x, t) => let v : Int := if x = 0 then 1 else 0; some (v, t ++ [v])
  | .binop a op b =>
    match mathEval n a with
    | none => none
    | some (x, t1) =>
      match mathEval n b with
      | none => none
      | some (y, t2) =>
        match arith op x y with
        | none => none
        | some v => some (v, t1 ++ t2 ++ [v])
  | .compare a op b =>
    match mathEval n a with
    | none => none
    | some (x, t1) =>
      match mathEval n b with
      | none => none
      | some (y, t2) => let v := rel op x y; some (v, t1 ++ t2 ++ [v])
  | .boolop .and a b =>
    match mathEval n a with
    | none => none
    | some (x, t1) =>
      if x = 0 then some (0, t1 ++ [0]) else
      match mathEval n b with
      | none => none
      | some (y, t2) => let v : Int := if y = 0 then 0 else 1; some (v, t1 ++ t2 ++ [v])
  | .boolop .or a b =>
    match mathEval n a with
    | none => none
    | some (x, t1) =>
      if x ≠ 0 then some (1, t1 ++ [1]) else
      match mathEval n b with
      | none => none
      | some (y, t2) => let v : Int := if y ≠ 0 then 1 else 0; some (v, t1 ++ t2 ++ [v])
  | .ifexp c a b =>
    match mathEval n c with
    | none => none
    | some (x, t1) =>
      if x ≠ 0 then
        match mathEval n a with
        | none => none
        | some (y, t2) => some (y, t1 ++ t2)
      else
        match mathEval n b with
        | none => none
        | some (y, t2) => some (y, t1 ++ t2)

/-- all evaluated intermediate results representable at the width -/
def InRange (M : Int) (tr : List Int) : Prop := ∀ x ∈ tr, 0 ≤ x ∧ x < M

end I18n.Spec
