/-
A small regular-expression AST with its standard language, for the anchored regexes whose `re._parser` tree the
translator `tools/translate/locale2lean.py` emits (the locale-name regex `ling._language_regexp`).
Core Lean only.  Capture groups are transparent for the language; which characters land in which group is fixed by the
round-trip theorems of C19, not here.
-/
namespace I18n.Spec.LocaleRe

inductive Re where
  | eps
  /-- one character whose code point lies in one of the inclusive ranges (sre `IN`/`RANGE`/`LITERAL`) -/
  | cls (rs : List (Nat × Nat))
  | seq (a b : Re)
  /-- sre `MAX_REPEAT 0 1` -/
  | opt (a : Re)
  /-- sre `MAX_REPEAT n MAXREPEAT` -/
  | atLeast (n : Nat) (a : Re)
  /-- sre `SUBPATTERN g` -/
  | group (g : Nat) (a : Re)
  deriving DecidableEq, Repr, Inhabited

/-- how the pattern ends -/
inductive EndKind where
  | none        -- no anchor: `match` accepts any continuation
  | dollar      -- `$` without MULTILINE (sre `AT_END`): at the end, or before a final newline
  | endString   -- `\Z` (sre `AT_END_STRING`): at the very end only
  deriving DecidableEq, Repr, Inhabited

/-- `^ re <end>` as used with `pattern.match(s)` -/
structure Anchored where
  re : Re
  endKind : EndKind
  deriving DecidableEq, Repr, Inhabited

def inRanges (rs : List (Nat × Nat)) (c : Char) : Bool :=
  rs.any fun r => r.1 ≤ c.toNat && c.toNat ≤ r.2

/-- the language of a regex (groups are transparent) -/
def Lang : Re → List Char → Prop
  | .eps, s => s = []
  | .cls rs, s => ∃ c, s = [c] ∧ inRanges rs c = true
  | .seq a b, s => ∃ u v, s = u ++ v ∧ Lang a u ∧ Lang b v
  | .opt a, s => s = [] ∨ Lang a s
  | .atLeast n a, s => ∃ ws : List (List Char), n ≤ ws.length ∧ s = ws.flatten ∧ ∀ w ∈ ws, Lang a w
  | .group _ a, s => Lang a s

def endOk : EndKind → List Char → Prop
  | .none, _ => True
  | .dollar, rest => rest = [] ∨ rest = ['\n']
  | .endString, rest => rest = []

/-- `pattern.match(s) is not None` for a backtracking matcher over this look-around-free fragment: some prefix of `s`
    is in the language and the end anchor holds where that prefix stops. -/
def Matches (a : Anchored) (s : List Char) : Prop :=
  ∃ p rest, s = p ++ rest ∧ Lang a.re p ∧ endOk a.endKind rest

end I18n.Spec.LocaleRe
