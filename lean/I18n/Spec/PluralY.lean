/-!
What plural.y (GNU gettext, gettext-runtime/intl/plural.y) declares, transcribed by hand into the
vocabulary of rply declarations: token spellings, the `%right '?'`, `%left '|'` … `%right '!'`
precedence ladder (lowest first), and the ambiguous expression grammar
`exp: exp '?' exp ':' exp | exp '|' exp | … | '!' exp | 'n' | NUMBER | '(' exp ')'`.
-/
namespace I18n.Spec.PluralY

def lexerRules : List (String × String) := [
  ("IF", "[?]"), ("ELSE", ":"), ("OR", "[|][|]"), ("AND", "[&][&]"), ("EQ", "[!=]="), ("CMP", "[<>]=?"),
  ("ADDSUB", "[+-]"), ("MULDIV", "[*/%]"), ("NOT", "!"), ("LPAR", "[(]"), ("RPAR", "[)]"), ("VAR", "n"),
  ("INT", "[0-9]+")]

def ignoreRules : List String := ["[ \\t]+"]

def precedence : List (String × List String) := [
  ("right", ["IF", "ELSE"]), ("left", ["OR"]), ("left", ["AND"]), ("left", ["EQ"]), ("left", ["CMP"]),
  ("left", ["ADDSUB"]), ("left", ["MULDIV"]), ("right", ["NOT"])]

def productions : List String := [
  "exp : INT", "exp : LPAR exp RPAR", "exp : NOT exp", "exp : VAR", "exp : exp ADDSUB exp", "exp : exp AND exp",
  "exp : exp CMP exp", "exp : exp EQ exp", "exp : exp IF exp ELSE exp", "exp : exp MULDIV exp", "exp : exp OR exp",
  "start : exp"]

def opTable : List (String × String) := [
  ("!=", "NotEq"), ("%", "Mod"), ("&&", "And"), ("*", "Mult"), ("+", "Add"), ("-", "Sub"), ("/", "Div"),
  ("<", "Lt"), ("<=", "LtE"), ("<unary>Not", "Not"), ("==", "Eq"), (">", "Gt"), (">=", "GtE"), ("||", "Or")]

/-- the header-field pattern the model's scanner (`CheckPlurals.matchHere`/`search`) stands for -/
def pluralFormsRegex : String := "nplurals=([1-9][0-9]*);[ \\t]*plural=([^;]+);?"

end I18n.Spec.PluralY
