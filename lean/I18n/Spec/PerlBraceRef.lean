import I18n.Generated.PyBraceTables
/-
Reference for perl-brace format strings (`Locale::TextDomain` placeholders), declaratively:
a string is well formed iff EVERY `{` in it opens a `{identifier}` placeholder; its arguments are the identifiers of these
placeholders.  An identifier is `[^\W\d]\w*` for the running interpreter's Unicode tables (`\w`, `\d` as dumped by the
translator: plain membership in the range lists).  No scanner, no regex.  Core Lean only.
-/
namespace I18n.Spec.PerlBraceRef
open I18n.Generated.PyBraceTables (wordRanges digitRanges)

/-- plain membership in a list of inclusive ranges -/
def inRanges (rs : List (Nat × Nat)) (n : Nat) : Bool := rs.any fun r => r.1 ≤ n && n ≤ r.2

/-- `\w` -/
def Word (c : Char) : Prop := inRanges wordRanges c.toNat = true
/-- `\d` -/
def Digit (c : Char) : Prop := inRanges digitRanges c.toNat = true

/-- `[^\W\d]\w*` -/
def IsIdent (w : List Char) : Prop :=
  ∃ c t, w = c :: t ∧ (Word c ∧ ¬ Digit c) ∧ ∀ d ∈ t, Word d

/-- every `{` opens a `{identifier}` placeholder -/
def WellFormed (s : List Char) : Prop :=
  ∀ pre post, s = pre ++ '{' :: post → ∃ w rest, IsIdent w ∧ post = w ++ '}' :: rest

/-- `w` is the identifier of a placeholder of `s` -/
def IsArgument (s : List Char) (w : List Char) : Prop :=
  IsIdent w ∧ ∃ pre rest, s = pre ++ '{' :: w ++ '}' :: rest

end I18n.Spec.PerlBraceRef
