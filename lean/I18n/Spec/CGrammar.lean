import I18n.Model.PluralParse
/-!
The C expression grammar restricted to gettext's plural operators, stratified by precedence
(ISO C §6.5.3–6.5.15; plural.y declares the same precedences: `%right '?'`, `%left '|'`, `'&'`,
EQUOP2, CMPOP2, ADDOP2, MULOP2, `%right '!'`).

  level 0  cond    := L1 | L1 '?' cond ':' cond          (right-associative)
  level k  Lk      := Lk op_k L(k+1) | L(k+1)            (k = 1..6, left-associative)
                      op_1 `||`, op_2 `&&`, op_3 `== !=`, op_4 `< <= > >=`, op_5 `+ -`, op_6 `* / %`
  level 7  unary   := '!' unary | primary
           primary := 'n' | INT | '(' cond ')'

`D k ts e`: the token list `ts` derives the AST `e` at level `k`.
-/
namespace I18n.Spec
open I18n I18n.PluralParse

inductive D : Nat → List Tok → Expr → Prop
  | var : D 7 [.var] .name
  | int (n : Nat) : D 7 [.int n] (.num n)
  | paren {ts e} : D 0 ts e → D 7 (.lpar :: (ts ++ [.rpar])) e
  | not {ts e} : D 7 ts e → D 7 (.not :: ts) (.unaryop .not e)
  | bin {k l r a b} (t : Tok) (mk : Expr → Expr → Expr) : 1 ≤ k → k ≤ 6 → binInfo t = some (k, mk) →
      D k l a → D (k + 1) r b → D k (l ++ t :: r) (mk a b)
  | up {k ts e} : 1 ≤ k → k ≤ 6 → D (k + 1) ts e → D k ts e
  | cond {c a b ec ea eb} : D 1 c ec → D 0 a ea → D 0 b eb →
      D 0 (c ++ .qm :: (a ++ .colon :: b)) (.ifexp ec ea eb)
  | up0 {ts e} : D 1 ts e → D 0 ts e

end I18n.Spec
