import I18n.Model.MsgFlags
/-
HAND-MAINTAINED REFERENCE (trusted base of C16): the format languages GNU gettext knows (`*-format` flags, gettext manual
"Translators for other Languages" / "The Format of PO Files"), each with example directives that tell the FAMILIES of directive
syntax apart: two format languages are COMPATIBLE — one string can carry both flags, so `conflicting-message-flags` must not be
reported — iff they share an example.  My reading of the manual:

* printf family (`%d` is a directive): awk, boost (boost::format accepts printf-style directives besides `%1%`), c, elisp,
  gcc-internal, gfc-internal, javascript, librep, lua, objc, object-pascal, perl, php, python, tcl;
* `{0}` (numbered braces): csharp, java, python-brace;   `{var}` (named braces): perl-brace, python-brace;
* `%1` (numbered percent): kde, kde-kuit, qt, smalltalk, ycp;   `%n`: qt-plural;   `~A`: lisp, scheme;   `$var`: sh.

This table is NOT regenerated from /repo: data/string-formats is compared against it (`string_formats_compat_pin`), and the
falsifier's reference rules (tools/checks/msg_common.py `ref_formats`, which PARSES THE ROWS BELOW) decide conflicts with it.
Only formats listed here are compared: adding a format to the data file, or re-ordering it, changes nothing here.
One row per line, `("name", ["example", …]),` — keep this shape, the Python side reads it.
-/
namespace I18n.Spec.StringFormatsRef
open I18n.Msg
open I18n.Tags (Str lit)

def rows : List (String × List String) := [
  ("awk", ["%d"]),
  ("boost", ["%d"]),
  ("c", ["%d"]),
  ("csharp", ["{0}"]),
  ("elisp", ["%d"]),
  ("gcc-internal", ["%d"]),
  ("gfc-internal", ["%d"]),
  ("java", ["{0}"]),
  ("javascript", ["%d"]),
  ("kde", ["%1"]),
  ("kde-kuit", ["%1"]),
  ("librep", ["%d"]),
  ("lisp", ["~A"]),
  ("lua", ["%d"]),
  ("objc", ["%d"]),
  ("object-pascal", ["%d"]),
  ("perl", ["%d"]),
  ("perl-brace", ["{var}"]),
  ("php", ["%d"]),
  ("python", ["%d"]),
  ("python-brace", ["{0}", "{var}"]),
  ("qt", ["%1"]),
  ("qt-plural", ["%n"]),
  ("scheme", ["~A"]),
  ("sh", ["$var"]),
  ("smalltalk", ["%1"]),
  ("tcl", ["%d"]),
  ("ycp", ["%1"])]

/-- the reference as a table of the shape of `gettext.string_formats` -/
def table : List (Str × List Str) := rows.map fun r => (lit r.1, r.2.map lit)

def names : List Str := table.map (·.1)

/-- two format languages share an example directive (the test `fmt_ex1 & fmt_ex2` of `_check_message_flags`) -/
def compatible (formats : List (Str × List Str)) (a b : Str) : Bool :=
  ((assocGet a formats).getD []).any ((assocGet b formats).getD []).contains

/-- what the data file must satisfy: every reference format is present, and for every PAIR of reference formats the data file
    and the reference agree on compatibility -/
def agrees (formats : List (Str × List Str)) : Bool :=
  names.all fun a => formats.any (·.1 = a) && names.all fun b => compatible formats a b == compatible table a b

end I18n.Spec.StringFormatsRef
