import I18n.Model.Po
/-
Reference semantics for C10: what it means for PO text to *spell* a string, a flag list, a catalog.
My reading of the PO syntax (gettext manual "The Format of PO Files", po-lex.c); independent of polib.

A spelling is DATA: a list of choices, one per character (`Choice`), a list of cuts, a list of comment-line forms.
`render` turns the choices into text, `text` says which string they spell.  The theorems of Props/C10 say that the
loader maps `render choices` back to `text choices` for every list of choices that is `Valid`.

Excluded spellings (the design names them): a short octal escape followed by an octal digit, a hex escape followed by
a hex digit (`okAdj`); octal escapes above `\377` (`oct3` takes its first digit from 0..3); `msgstr[N]` with N ≥ 10.
-/
namespace I18n.Spec.PoSpelling
open I18n.Po (Text Bytes)

/-- how the file's charset writes one character (a stateless encoder); `none`: not encodable -/
structure Codec where
  encode : Char → Option Bytes

structure HexDigit where
  val : Fin 16
  upper : Bool
  deriving DecidableEq, Repr

def octChar (d : Fin 8) : Char := Char.ofNat (48 + d.val)

def HexDigit.char (h : HexDigit) : Char :=
  if h.val.val < 10 then Char.ofNat (48 + h.val.val)
  else if h.upper then Char.ofNat (55 + h.val.val) else Char.ofNat (87 + h.val.val)

/-- the numeric escapes: `\o`, `\oo`, `\ooo` (≤ `\377`), `\xh`, `\xhh` -/
inductive EscForm where
  | oct1 (a : Fin 8)
  | oct2 (a b : Fin 8)
  | oct3 (a : Fin 4) (b c : Fin 8)
  | hex1 (a : HexDigit)
  | hex2 (a b : HexDigit)
  deriving DecidableEq, Repr

/-- the characters after the backslash -/
def EscForm.body : EscForm → Text
  | .oct1 a => [octChar a]
  | .oct2 a b => [octChar a, octChar b]
  | .oct3 a b c => [octChar ⟨a.val, by omega⟩, octChar b, octChar c]
  | .hex1 a => ['x', a.char]
  | .hex2 a b => ['x', a.char, b.char]

/-- the byte the escape denotes -/
def EscForm.value : EscForm → Nat
  | .oct1 a => a.val
  | .oct2 a b => a.val * 8 + b.val
  | .oct3 a b c => a.val * 64 + b.val * 8 + c.val
  | .hex1 a => a.val.val
  | .hex2 a b => a.val.val * 16 + b.val.val

/-- (character, letter after the backslash): `\n \t \b \r \f \v \a \\ \"` -/
def simpleTable : List (Char × Char) :=
  [('\n', 'n'), ('\t', 't'), ('\x08', 'b'), ('\r', 'r'), ('\x0c', 'f'), ('\x0b', 'v'), ('\x07', 'a'), ('\\', '\\'), ('"', '"')]

def simpleChar (i : Fin 9) : Char := (simpleTable[i.val]'(by have := i.isLt; simp [simpleTable])).1
def simpleLetter (i : Fin 9) : Char := (simpleTable[i.val]'(by have := i.isLt; simp [simpleTable])).2

/-- one character of the string, and how it is written -/
inductive Choice where
  | raw (c : Char)                            -- the character itself (in the file: its bytes in the file's charset)
  | simple (i : Fin 9)                        -- one of the nine letter escapes
  | bytes (c : Char) (forms : List EscForm)   -- the bytes of its encoding, each as a numeric escape
  deriving DecidableEq, Repr

def Choice.render : Choice → Text
  | .raw c => [c]
  | .simple i => ['\\', simpleLetter i]
  | .bytes _ forms => forms.flatMap fun f => '\\' :: f.body

def Choice.char : Choice → Char
  | .raw c => c
  | .simple i => simpleChar i
  | .bytes c _ => c

def render (p : List Choice) : Text := p.flatMap Choice.render
def text (p : List Choice) : Text := p.map Choice.char

/-- a character may stand for itself unless it ends the string, starts an escape or ends the line -/
def rawOk (c : Char) : Prop := c ≠ '\n' ∧ c ≠ '"' ∧ c ≠ '\\'

def Choice.Valid (E : Codec) : Choice → Prop
  | .raw c => rawOk c
  | .simple _ => True
  | .bytes c forms => forms ≠ [] ∧ E.encode c = some (forms.map fun f => UInt8.ofNat f.value)

/-- would a reader of the escape `f` go on reading `next` as one more digit of it? -/
def swallows (f : EscForm) (next : Char) : Bool :=
  match f with
  | .oct1 _ | .oct2 _ _ => I18n.Po.isOct next
  | .oct3 _ _ _ => false
  | .hex1 _ | .hex2 _ _ => I18n.Po.isHex next

/-- `y` may follow `x` in the same segment -/
def okAdj (x y : Choice) : Bool :=
  match x, y with
  | .bytes _ forms, .raw c =>
    match forms.getLast? with
    | some f => !swallows f c
    | none => true
  | _, _ => true

def okSeq : List Choice → Bool
  | x :: y :: rest => okAdj x y && okSeq (y :: rest)
  | _ => true

/-- what the model's environment must satisfy for the charset `enc` to be "a supported charset able to encode" the text:
    ASCII is transparent, a non-ASCII character has a byte ≥ 0x80, and decoding inverts encoding on whole strings -/
structure CodecOk (env : I18n.Po.Env) (enc : Bytes) (E : Codec) : Prop where
  ascii : ∀ c : Char, c.toNat < 128 → E.encode c = some [UInt8.ofNat c.toNat]
  nonascii : ∀ (c : Char) (bs : Bytes), 128 ≤ c.toNat → E.encode c = some bs → ∃ b ∈ bs, 128 ≤ b.toNat
  decode : ∀ pairs : List (Char × Bytes), (∀ p ∈ pairs, E.encode p.1 = some p.2) →
    env.decode enc (pairs.map (·.2)).flatten = .text (pairs.map (·.1))

/-! ## flags -/

/-- an item of a flag list as it can be read back: no comma, no white space at either end (it may be empty) -/
def FlagItem (sp : Char → Bool) (f : Text) : Prop :=
  ',' ∉ f ∧ (∀ c r, f = c :: r → sp c = false) ∧ (∀ c, f.getLast? = some c → sp c = false)

/-- one item of a `#,` line with the white space written around it -/
structure FlagPiece where
  lpad : Text
  item : Text
  rpad : Text

def FlagPiece.Valid (sp : Char → Bool) (x : FlagPiece) : Prop :=
  FlagItem sp x.item ∧ (∀ c ∈ x.lpad, sp c = true) ∧ (∀ c ∈ x.rpad, sp c = true)

def FlagPiece.render (x : FlagPiece) : Text := x.lpad ++ x.item ++ x.rpad

/-- `','.join(parts)` -/
def joinComma : List Text → Text
  | [] => []
  | [a] => a
  | a :: b :: r => a ++ ',' :: joinComma (b :: r)

/-- what follows `#,` and one white-space character on a flags line -/
def flagBody (ps : List FlagPiece) : Text := joinComma (ps.map FlagPiece.render)

/-! ## physical lines -/

/-- the white space a spelling may put around the tokens of a line: blanks and tabs -/
def Blank (s : Text) : Prop := ∀ c ∈ s, c = ' ' ∨ c = '\t'

/-- one `"…"` segment of a string on its own physical line, with the padding before the line and after the quote -/
structure Seg where
  lpad : Text
  choices : List Choice
  rpad : Text

/-- `rpad` is whatever white space ends the line, the line terminator included -/
def Seg.Valid (E : Codec) (g : Seg) : Prop :=
  (∀ x ∈ g.choices, x.Valid E) ∧ okSeq g.choices = true ∧ Blank g.lpad ∧ ∀ c ∈ g.rpad, I18n.Po.pyIsSpace c = true

def quoted (cs : List Choice) : Text := '"' :: render cs ++ ['"']

/-- what precedes the keyword or the quote: nothing, the obsolete marker `#~`, the previous-msgid marker `#|` -/
inductive Prefix where
  | plain
  | obsolete (sep : Text)
  | previous (sep : Text)

def Prefix.render : Prefix → Text
  | .plain => []
  | .obsolete sep => '#' :: '~' :: sep
  | .previous sep => '#' :: '|' :: sep

def Prefix.isObsolete : Prefix → Bool
  | .obsolete _ => true
  | _ => false

def Prefix.Valid : Prefix → Prop
  | .plain => True
  | .obsolete sep => sep ≠ [] ∧ Blank sep
  | .previous sep => sep ≠ [] ∧ Blank sep

/-- `msgid "…"` and the like (no line terminator) -/
def kwLine (pre : Prefix) (kw sep : Text) (g : Seg) : Text :=
  g.lpad ++ (pre.render ++ (kw ++ (sep ++ quoted g.choices))) ++ g.rpad

/-- the decimal digit of a plural index (N ≤ 9: polib reads one character) -/
def digitChar (i : Nat) : Char := Char.ofNat (48 + i)

/-- `msgstr[N]` -/
def mxKw (i : Nat) : Text := ['m', 's', 'g', 's', 't', 'r', '[', digitChar i, ']']

/-- a continuation line `"…"` -/
def contLine (pre : Prefix) (g : Seg) : Text :=
  g.lpad ++ (pre.render ++ quoted g.choices) ++ g.rpad

/-- lines that carry nothing: white-space lines and the comment forms polib skips (`#~| …`, bare `#.` `#:` `#,`) -/
inductive Noise where
  | blank (ws : Text)
  | ignoredPrev (lpad mid rpad : Text)
  | bare (lpad : Text) (k : Char) (rpad : Text)

def Noise.render : Noise → Text
  | .blank ws => ws
  | .ignoredPrev lpad mid rpad => lpad ++ ('#' :: '~' :: '|' :: mid) ++ rpad
  | .bare lpad k rpad => lpad ++ ['#', k] ++ rpad

def Noise.Valid : Noise → Prop
  | .blank ws => ∀ c ∈ ws, I18n.Po.pyIsSpace c = true
  | .ignoredPrev lpad mid rpad =>
    Blank lpad ∧ (∀ c ∈ rpad, I18n.Po.pyIsSpace c = true) ∧
      (∀ c r, mid = c :: r → I18n.Po.pyIsSpace c = true) ∧ (∀ c, mid.getLast? = some c → I18n.Po.pyIsSpace c = false)
  | .bare lpad k rpad => Blank lpad ∧ (∀ c ∈ rpad, I18n.Po.pyIsSpace c = true) ∧ (k = '.' ∨ k = ':' ∨ k = ',')

/-- a string over one or more physical lines, with the noise lines after each of them -/
structure StrSp where
  sep : Text
  first : Seg
  firstNoise : List Noise
  more : List (Seg × List Noise)

def StrSp.Valid (E : Codec) (x : StrSp) : Prop :=
  x.sep ≠ [] ∧ Blank x.sep ∧ x.first.Valid E ∧ (∀ z ∈ x.firstNoise, z.Valid) ∧
    ∀ gn ∈ x.more, gn.1.Valid E ∧ ∀ z ∈ gn.2, z.Valid

/-- no noise line after the last physical line of the string -/
def StrSp.EndsReal (x : StrSp) : Prop :=
  match x.more.getLast? with
  | some gn => gn.2 = []
  | none => x.firstNoise = []

/-- the string it spells -/
def StrSp.text (x : StrSp) : Text :=
  PoSpelling.text x.first.choices ++ x.more.flatMap fun gn => PoSpelling.text gn.1.choices

def contLines (pre : Prefix) (more : List (Seg × List Noise)) : List Text :=
  more.flatMap fun gn => contLine pre gn.1 :: gn.2.map Noise.render

def StrSp.lines (pre : Prefix) (kw : Text) (x : StrSp) : List Text :=
  kwLine pre kw x.sep x.first :: (x.firstNoise.map Noise.render ++ contLines pre x.more)

/-! ## comment lines -/

inductive PrevKind where
  | msgctxt | msgid | msgidPlural

def PrevKind.kw : PrevKind → Text
  | .msgctxt => "msgctxt".toList
  | .msgid => "msgid".toList
  | .msgidPlural => "msgid_plural".toList

/-- one source reference of a `#:` line -/
inductive RefItem where
  /-- `file:123` -/
  | withLine (file : Text) (line : List (Fin 10))
  /-- a bare name (no colon in it) -/
  | noLine (name : Text)

def RefItem.token : RefItem → Text
  | .withLine file line => file ++ ':' :: line.map fun d => digitChar d.val
  | .noLine name => name

/-- the `(file, line)` pair polib records -/
def RefItem.pair : RefItem → Text × Text
  | .withLine file line => (file, line.map fun d => digitChar d.val)
  | .noLine name => (name, [])

def RefItem.Valid : RefItem → Prop
  | .withLine file line => line ≠ [] ∧ ∀ c ∈ file, I18n.Po.pyIsSpace c = false
  | .noLine name => name ≠ [] ∧ ':' ∉ name ∧ ∀ c ∈ name, I18n.Po.pyIsSpace c = false

/-- the references of one `#:` line, each with the blanks before it (none needed before the first) -/
def refsBody : List (Text × RefItem) → Text
  | [] => []
  | (sep, r) :: rest => sep ++ r.token ++ refsBody rest

def refsValid : Bool → List (Text × RefItem) → Prop
  | _, [] => True
  | first, (sep, r) :: rest => Blank sep ∧ (first = false → sep ≠ []) ∧ r.Valid ∧ refsValid false rest

/-- a comment line of an entry (as `Codecs.open` hands it to polib: an atypical `#text` is already `# text`) -/
inductive CommentSp where
  /-- source references `#: a.c:1 b.c:2` -/
  | refs (ws : Char) (items : List (Text × RefItem)) (rpad : Text)
  /-- translator comment `# text` (`#` alone for an empty line) -/
  | tcomment (text rpad : Text)
  /-- extracted comment `#. text` -/
  | extracted (ws : Char) (text rpad : Text)
  /-- flags `#, a, b` -/
  | flags (ws : Char) (ps : List FlagPiece) (rpad : Text)
  /-- previous msgctxt / msgid / msgid_plural: `#| msgid "…"` and `#| "…"` continuation lines -/
  | previous (kind : PrevKind) (psep : Text) (x : StrSp)
  /-- a line that carries nothing -/
  | noise (z : Noise)

def CommentSp.lines : CommentSp → List Text
  | .tcomment text rpad => ['#' :: ((if text = [] then [] else ' ' :: text) ++ rpad)]
  | .extracted ws text rpad => ['#' :: '.' :: ws :: (text ++ rpad)]
  | .flags ws ps rpad => ['#' :: ',' :: ws :: (flagBody ps ++ rpad)]
  | .refs ws items rpad => ['#' :: ':' :: ws :: (refsBody items ++ rpad)]
  | .previous kind psep x => x.lines (.previous psep) kind.kw
  | .noise z => [z.render]

def endsNonSpace (t : Text) : Prop := ∀ c, t.getLast? = some c → I18n.Po.pyIsSpace c = false
def blankChar (c : Char) : Prop := c = ' ' ∨ c = '\t'
def allSpace (t : Text) : Prop := ∀ c ∈ t, I18n.Po.pyIsSpace c = true

def CommentSp.Valid (E : Codec) : CommentSp → Prop
  | .tcomment text rpad => endsNonSpace text ∧ allSpace rpad
  | .extracted ws text rpad => blankChar ws ∧ text ≠ [] ∧ endsNonSpace text ∧ allSpace rpad
  | .flags ws ps rpad =>
    blankChar ws ∧ ps ≠ [] ∧ (∀ x ∈ ps, x.Valid I18n.Po.pyIsSpace) ∧ flagBody ps ≠ [] ∧ endsNonSpace (flagBody ps) ∧ allSpace rpad
  | .previous _ psep x => psep ≠ [] ∧ Blank psep ∧ x.Valid E
  | .refs ws items rpad => blankChar ws ∧ items ≠ [] ∧ refsValid true items ∧ allSpace rpad
  | .noise z => z.Valid

/-- `acc` and one more line of comment text (polib puts a line feed between them unless `acc` is empty) -/
def joinComment (acc t : Text) : Text := (if acc = [] then acc else acc ++ ['\n']) ++ t

/-- what the comment line adds to the entry -/
def CommentSp.apply (c : I18n.Po.Entry) : CommentSp → I18n.Po.Entry
  | .tcomment text _ => { c with tcomment := joinComment c.tcomment text }
  | .extracted _ text _ => { c with comment := joinComment c.comment text }
  | .flags _ ps _ => { c with flags := c.flags ++ ps.map FlagPiece.item }
  | .refs _ items _ => { c with occurrences := c.occurrences ++ items.map fun x => x.2.pair }
  | .previous .msgctxt _ x => { c with previousMsgctxt := some x.text }
  | .previous .msgid _ x => { c with previousMsgid := some x.text }
  | .previous .msgidPlural _ x => { c with previousMsgidPlural := some x.text }
  | .noise _ => c

def CommentSp.isTc : CommentSp → Bool
  | .tcomment _ _ => true
  | _ => false

def CommentSp.isNoise : CommentSp → Bool
  | .noise _ => true
  | _ => false

/-! ## entries and catalogs -/

inductive BodySp where
  | singular (msgstr : StrSp)
  | plural (msgidPlural : StrSp) (forms : List StrSp)

/-- the message lines of one entry: `[msgctxt] msgid (msgstr | msgid_plural msgstr[0] …)`, all with the same prefix -/
structure MsgSp where
  pre : Prefix
  msgctxt : Option StrSp
  msgid : StrSp
  body : BodySp

def formsLines (pre : Prefix) : Nat → List StrSp → List Text
  | _, [] => []
  | j, x :: xs => x.lines pre (mxKw j) ++ formsLines pre (j + 1) xs

def formsDict : Nat → List StrSp → List (Nat × Text)
  | _, [] => []
  | j, x :: xs => (j, x.text) :: formsDict (j + 1) xs

def ctxtLines (pre : Prefix) : Option StrSp → List Text
  | some c => c.lines pre "msgctxt".toList
  | none => []

def bodyLines (pre : Prefix) : BodySp → List Text
  | .singular x => x.lines pre "msgstr".toList
  | .plural p forms => p.lines pre "msgid_plural".toList ++ formsLines pre 0 forms

def MsgSp.lines (m : MsgSp) : List Text :=
  ctxtLines m.pre m.msgctxt ++ (m.msgid.lines m.pre "msgid".toList ++ bodyLines m.pre m.body)

/-- the last physical line of the message is not a noise line -/
def MsgSp.EndsReal (m : MsgSp) : Prop :=
  match m.body with
  | .singular x => x.EndsReal
  | .plural _ forms => ∀ x, forms.getLast? = some x → x.EndsReal

def MsgSp.Valid (E : Codec) (m : MsgSp) : Prop :=
  (m.pre = .plain ∨ ∃ sep, m.pre = .obsolete sep ∧ sep ≠ [] ∧ Blank sep) ∧
  (∀ c, m.msgctxt = some c → c.Valid E) ∧ m.msgid.Valid E ∧
  (match m.body with
    | .singular x => x.Valid E
    | .plural p forms => p.Valid E ∧ forms ≠ [] ∧ forms.length ≤ 10 ∧ ∀ x ∈ forms, x.Valid E)

/-- the entry the message lines spell, on top of the fields `base` that the comment lines give -/
def MsgSp.entry (m : MsgSp) (base : I18n.Po.Entry) : I18n.Po.Entry :=
  { base with
    msgctxt := m.msgctxt.map StrSp.text
    msgid := m.msgid.text
    obsolete := m.pre.isObsolete
    msgidPlural := match m.body with | .singular _ => none | .plural p _ => some p.text
    msgstr := match m.body with | .singular x => some x.text | .plural _ _ => none
    msgstrPlural := match m.body with | .singular _ => [] | .plural _ forms => formsDict 0 forms }

/-- a line of the file's header comment (translator comments before anything else), as handed to polib -/
structure HeaderLine where
  text : Text
  rpad : Text

def HeaderLine.render (h : HeaderLine) : Text := '#' :: ((if h.text = [] then [] else ' ' :: h.text) ++ h.rpad)
def HeaderLine.Valid (h : HeaderLine) : Prop := endsNonSpace h.text ∧ allSpace h.rpad

/-- an entry: its comment lines, then its message lines -/
structure EntrySp where
  comments : List CommentSp
  msg : MsgSp

def EntrySp.lines (e : EntrySp) : List Text := e.comments.flatMap CommentSp.lines ++ e.msg.lines

def EntrySp.Valid (E : Codec) (e : EntrySp) : Prop := (∀ c ∈ e.comments, c.Valid E) ∧ e.msg.Valid E

/-- the catalog entry it spells -/
def EntrySp.entry (e : EntrySp) : I18n.Po.Entry := e.msg.entry (e.comments.foldl CommentSp.apply {})

/-- a whole file as polib sees it: noise, the header comment, noise, the entries.  The translator comments of the
    first entry ARE the header comment (polib's `he` state), so the first entry has none of its own. -/
structure CatalogSp where
  noiseA : List Noise
  header : List HeaderLine
  noiseB : List Noise
  entries : List EntrySp

def CatalogSp.lines (c : CatalogSp) : List Text :=
  c.noiseA.map Noise.render ++ (c.header.map HeaderLine.render ++ (c.noiseB.map Noise.render ++ c.entries.flatMap EntrySp.lines))

def CatalogSp.Valid (E : Codec) (c : CatalogSp) : Prop :=
  (∀ z ∈ c.noiseA, z.Valid) ∧ (∀ h ∈ c.header, h.Valid) ∧ (∀ z ∈ c.noiseB, z.Valid) ∧ (∀ e ∈ c.entries, e.Valid E) ∧
  c.entries ≠ [] ∧ (∀ e, c.entries.head? = some e → ∀ cl ∈ e.comments, cl.isTc = false) ∧
  (∀ e, c.entries.getLast? = some e → e.msg.EndsReal)

/-- the file header comment it spells -/
def CatalogSp.headerText (c : CatalogSp) : Text := (c.header.map HeaderLine.text).foldl joinComment []

/-! ## the file: rendering a spelling to bytes -/

/-- a line after the last message line: noise, or a translator comment starting in the first column.  `Codecs.open` drops them. -/
inductive TailSp where
  | noise (z : Noise)
  | comment (rest : Text)

def TailSp.render : TailSp → Text
  | .noise z => z.render
  | .comment rest => '#' :: rest

def TailSp.Valid : TailSp → Prop
  | .noise z => z.Valid
  | .comment rest => rest ≠ [] ∧ ∀ c r, rest = c :: r → c = ' ' ∨ ¬ (c = '.' ∨ c = ':' ∨ c = ',' ∨ c = '|' ∨ c = '~')

/-- a spelled file: the catalog's lines, then trailing lines -/
structure FileSp where
  cat : CatalogSp
  tail : List TailSp

def FileSp.lines (f : FileSp) : List Text := f.cat.lines ++ f.tail.map TailSp.render

/-- **`Spec.render`, text level**: the file's text is its physical lines one after the other (each carries its line feed) -/
def FileSp.text (f : FileSp) : Text := f.lines.flatten

/-- a physical line: text without line feed, then the line feed -/
def IsLine (l : Text) : Prop := ∃ c, l = c ++ ['\n'] ∧ '\n' ∉ c

/-- the bytes of a text in the charset, character by character -/
def encodeText (E : Codec) : Text → Option Bytes
  | [] => some []
  | c :: cs =>
    match E.encode c, encodeText E cs with
    | some b, some bs => some (b ++ bs)
    | _, _ => none

/-- **`Spec.render`**: catalog + spelling choices + charset ↦ the bytes of the PO file (`none`: some character is not encodable) -/
def FileSp.render (E : Codec) (f : FileSp) : Option Bytes := encodeText E f.text

/-- every line ends with its only line feed; no line of the catalog part is written as an atypical comment (`#` directly followed
    by something other than a blank or `. : , | ~` — `Codecs.open` rewrites those to `# …`, the form the spelling takes) -/
def FileSp.Valid (E : Codec) (f : FileSp) : Prop :=
  f.cat.Valid E ∧ (∀ t ∈ f.tail, t.Valid) ∧ (∀ l ∈ f.lines, IsLine l) ∧ ∀ l ∈ f.cat.lines, I18n.Po.atypical l = false

end I18n.Spec.PoSpelling
