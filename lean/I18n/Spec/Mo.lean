import I18n.Model.Mo
/-!
Reference semantics of GNU MO files (gettext manual "The Format of GNU MO Files", gmo.h, read-mo.c), as a
declarative predicate on bytes, and a family of concrete layouts.

`Encodes b cat hidden`: the byte string `b` is a legal MO file whose content is the catalog `cat`
(byte-level entries in file order).  It constrains only what the format constrains: magic (either byte
order), major revision ≤ 1, the header words a reader needs, every descriptor and string inside the file,
a NUL after every string, key = `[ctxt EOT] msgid [NUL msgid_plural]`, value = forms joined by NUL, keys
non-decreasing.  Nothing is said about where tables and strings are placed, about overlap, padding or a
hash table.
-/
namespace I18n.Mo.Spec
open I18n.Mo

/-- `s` occupies `b[off, off + |s|)` -/
def Slice (b : Bytes) (off : Nat) (s : Bytes) : Prop :=
  ∃ pre post, b = pre ++ s ++ post ∧ pre.length = off

def magicOf (be : Bool) : Bytes := if be then beMagic else leMagic

/-- the 4 bytes of a 32-bit word in the given byte order -/
def encodeWord (be : Bool) (w : Nat) : Bytes :=
  let b0 := UInt8.ofNat (w % 256)
  let b1 := UInt8.ofNat (w / 256 % 256)
  let b2 := UInt8.ofNat (w / 65536 % 256)
  let b3 := UInt8.ofNat (w / 16777216 % 256)
  if be then [b3, b2, b1, b0] else [b0, b1, b2, b3]

/-- the 32-bit word at offset `off` is `w` -/
def WordAt (be : Bool) (b : Bytes) (off w : Nat) : Prop :=
  w < 2 ^ 32 ∧ Slice b off (encodeWord be w)

/-- the descriptor at `desc` is (length, offset) of `s`, inside the file, and `s` is followed by NUL -/
def StringAt (be : Bool) (b : Bytes) (desc : Nat) (s : Bytes) : Prop :=
  ∃ off, WordAt be b desc s.length ∧ WordAt be b (desc + 4) off ∧ Slice b off (s ++ [0])

/-- a catalog entry at byte level -/
structure CatEntry where
  ctxt : Option Bytes
  msgid : Bytes
  plural : Option Bytes
  forms : List Bytes          -- singular: exactly one
  deriving DecidableEq, Repr

def CatEntry.key0 (e : CatEntry) : Bytes :=
  match e.ctxt with
  | none => e.msgid
  | some c => c ++ 4 :: e.msgid

def CatEntry.key (e : CatEntry) : Bytes :=
  match e.plural with
  | none => e.key0
  | some p => e.key0 ++ 0 :: p

def join0 : List Bytes → Bytes
  | [] => []
  | [f] => f
  | f :: g :: fs => f ++ 0 :: join0 (g :: fs)

def CatEntry.value (e : CatEntry) : Bytes := join0 e.forms

/-- what a catalog entry must satisfy for its key/value to be unambiguous -/
structure CatEntry.WF (e : CatEntry) : Prop where
  ctxt_clean : ∀ c, e.ctxt = some c → 0 ∉ c ∧ 4 ∉ c
  msgid_no_nul : 0 ∉ e.msgid
  msgid_no_eot : e.ctxt = none → 4 ∉ e.msgid
  plural_no_nul : ∀ p, e.plural = some p → 0 ∉ p
  forms_no_nul : ∀ f ∈ e.forms, 0 ∉ f
  forms_ne : e.forms ≠ []
  singular_one : e.plural = none → e.forms.length = 1

/-- entry `i + j` of the tables at `ko` / `to` describes key and value of the `j`-th entry of the list -/
def EntriesAt (be : Bool) (b : Bytes) (ko to : Nat) : Nat → List CatEntry → Prop
  | _, [] => True
  | i, e :: es =>
    StringAt be b (ko + 8 * i) e.key ∧ StringAt be b (to + 8 * i) e.value ∧ EntriesAt be b ko to (i + 1) es

/-- non-decreasing in byte-wise lexicographic order (what `strcmp` gives on NUL-free strings) -/
def Sorted : List Bytes → Prop
  | a :: b :: r => ¬ (b < a) ∧ Sorted (b :: r)
  | _ => True

/-- "the file's revision may hide strings": minor revision unknown, or minor 1 with system-dependent strings -/
def HiddenFlag (be : Bool) (b : Bytes) (minor : Nat) (hidden : Bool) : Prop :=
  if minor > 1 then hidden = true
  else if minor = 1 then ∃ ns, WordAt be b 36 ns ∧ hidden = decide (ns > 0)
  else hidden = false

def Encodes (b : Bytes) (cat : List CatEntry) (hidden : Bool) : Prop :=
  ∃ be major minor ko to,
    Slice b 0 (magicOf be) ∧
    WordAt be b 4 (major * 65536 + minor) ∧ major ≤ 1 ∧ minor < 65536 ∧
    WordAt be b 8 cat.length ∧
    HiddenFlag be b minor hidden ∧
    WordAt be b 12 ko ∧ WordAt be b 16 to ∧
    EntriesAt be b ko to 0 cat ∧
    Sorted (cat.map CatEntry.key0)

/-! ### the defects named in C09's statement, each as a predicate on the bytes -/

/-- the header words every reader needs are present: byte order from the magic, N, O, T -/
structure HeaderWords (b : Bytes) (be : Bool) (n ko to : Nat) : Prop where
  magic : Slice b 0 (magicOf be)
  count : WordAt be b 8 n
  keys : WordAt be b 12 ko
  values : WordAt be b 16 to

/-- descriptor `i` of the table at `tab` reads (length, offset) -/
def DescAt (be : Bool) (b : Bytes) (tab i len off : Nat) : Prop :=
  WordAt be b (tab + 8 * i) len ∧ WordAt be b (tab + 8 * i + 4) off

def BadMagic (b : Bytes) : Prop := ¬ Slice b 0 leMagic ∧ ¬ Slice b 0 beMagic

def BadMajor (b : Bytes) : Prop :=
  ∃ be rev, Slice b 0 (magicOf be) ∧ WordAt be b 4 rev ∧ rev / 65536 > 1

/-- the file ends inside the header words (including word 36 when the minor revision is 1) -/
def HeaderBeyondEnd (b : Bytes) : Prop :=
  b.length < 20 ∨ ∃ be rev, Slice b 0 (magicOf be) ∧ WordAt be b 4 rev ∧ rev % 65536 = 1 ∧ b.length < 40

/-- some descriptor of one of the two tables lies (partly) beyond the end of the file -/
def TableBeyondEnd (b : Bytes) : Prop :=
  ∃ be n ko to i, HeaderWords b be n ko to ∧ i < n ∧ (b.length < ko + 8 * i + 8 ∨ b.length < to + 8 * i + 8)

/-- some descriptor declares a string whose terminator position is beyond the end of the file -/
def StringBeyondEnd (b : Bytes) : Prop :=
  ∃ be n ko to i len off, HeaderWords b be n ko to ∧ i < n ∧
    (DescAt be b ko i len off ∨ DescAt be b to i len off) ∧ b.length ≤ off + len

/-- some declared string is not followed by NUL -/
def MissingTerminator (b : Bytes) : Prop :=
  ∃ be n ko to i len off c, HeaderWords b be n ko to ∧ i < n ∧
    (DescAt be b ko i len off ∨ DescAt be b to i len off) ∧ b[off + len]? = some c ∧ c ≠ 0

/-- NUL bytes inconsistent with the plural structure: a key with two NULs, or a value with a NUL under a key without -/
def BadNulStructure (b : Bytes) : Prop :=
  ∃ be n ko to i K V, HeaderWords b be n ko to ∧ i < n ∧
    StringAt be b (ko + 8 * i) K ∧ StringAt be b (to + 8 * i) V ∧
    ((∃ x y z, K = x ++ 0 :: y ++ 0 :: z) ∨ ((0 : UInt8) ∉ K ∧ (0 : UInt8) ∈ V))

/-- two consecutive keys (up to their first NUL) in decreasing order -/
def KeysOutOfOrder (b : Bytes) : Prop :=
  ∃ be n ko to i K K', HeaderWords b be n ko to ∧ i + 1 < n ∧
    StringAt be b (ko + 8 * i) K ∧ StringAt be b (ko + 8 * (i + 1)) K' ∧
    K'.takeWhile (· ≠ 0) < K.takeWhile (· ≠ 0)

/-- "is a legal MO file of some well-formed catalog" -/
def WellFormedFile (b : Bytes) : Prop := ∃ cat hidden, Encodes b cat hidden ∧ ∀ e ∈ cat, e.WF

/-! ### what loading such a file should give -/

/-- the charset a reader uses: the `encoding` it was given, else the one named after the first `charset=` in the
    value of a leading entry with empty key (dcigettext.c), provided it is ASCII-compatible; else ASCII -/
def charsetOf (db : CodecDB) (given : Option Bytes) (cat : List CatEntry) : Bytes :=
  match cat with
  | [] => asciiName
  | e :: _ => selectEncoding db given e.key0 e.value

def decOpt (db : CodecDB) (cs : Bytes) : Option Bytes → Except Err (Option Text)
  | none => .ok none
  | some b =>
    match dec db cs b with
    | .error e => .error e
    | .ok t => .ok (some t)

/-- decode one entry field by field: msgctxt, msgid, then msgstr or msgid_plural and the indexed forms -/
def decodeEntry (db : CodecDB) (cs : Bytes) (e : CatEntry) : Except Err Entry :=
  match decOpt db cs e.ctxt with
  | .error x => .error x
  | .ok ctxt =>
    match dec db cs e.msgid with
    | .error x => .error x
    | .ok msgid =>
      match e.plural with
      | none =>
        match dec db cs e.value with
        | .error x => .error x
        | .ok s => .ok ⟨msgid, ctxt, .singular s⟩
      | some p =>
        match dec db cs p with
        | .error x => .error x
        | .ok pl =>
          match decAll db cs e.forms with
          | .error x => .error x
          | .ok fs => .ok ⟨msgid, ctxt, .plural pl fs⟩

def decodeEntries (db : CodecDB) (cs : Bytes) : List CatEntry → Except Err (List Entry)
  | [] => .ok []
  | e :: es =>
    match decodeEntry db cs e with
    | .error x => .error x
    | .ok d =>
      match decodeEntries db cs es with
      | .error x => .error x
      | .ok ds => .ok (d :: ds)

/-- the expected result of loading a file that encodes `cat` -/
def expected (db : CodecDB) (given : Option Bytes) (cat : List CatEntry) (hidden : Bool) : Except Err MoFile :=
  match decodeEntries db (charsetOf db given cat) cat with
  | .error x => .error x
  | .ok es => .ok ⟨es, hidden⟩

/-! ### a family of concrete layouts -/

structure Layout where
  be : Bool
  major : Nat
  minor : Nat
  nSysdep : Nat              -- word 36 (only present when the header is long enough)
  headerExtra : Bytes        -- whatever follows the five words a reader needs (hash-table size/offset, sysdep fields, a hash table, …)
  valuesTableFirst : Bool    -- order of the two descriptor tables
  gap : Bytes                -- between the tables
  gap2 : Bytes               -- between the tables and the strings
  pads : List Bytes          -- junk before each string (keys first, then values); missing = none
  trailer : Bytes

def encodeWords (be : Bool) : List Nat → Bytes
  | [] => []
  | w :: ws => encodeWord be w ++ encodeWords be ws

/-- place strings one after the other starting at absolute offset `base`, each preceded by its pad and followed
    by NUL; returns the bytes and the (length, offset) descriptors -/
def placeStrings (base : Nat) : List Bytes → List Bytes → Bytes × List (Nat × Nat)
  | [], _ => ([], [])
  | s :: ss, pads =>
    let pad := pads.headD []
    let (rest, ds) := placeStrings (base + pad.length + s.length + 1) ss pads.tail
    (pad ++ s ++ 0 :: rest, (s.length, base + pad.length) :: ds)

def descTable (be : Bool) : List (Nat × Nat) → Bytes
  | [] => []
  | (l, o) :: ds => encodeWord be l ++ encodeWord be o ++ descTable be ds

/-- header (5 words + extra) · table · gap · table · gap2 · strings · trailer -/
def serialize (cat : List CatEntry) (l : Layout) : Bytes :=
  let n := cat.length
  let hdrLen := 20 + l.headerExtra.length
  let t1 := hdrLen
  let t2 := hdrLen + 8 * n + l.gap.length
  let pool := t2 + 8 * n + l.gap2.length
  let (strings, descs) := placeStrings pool (cat.map CatEntry.key ++ cat.map CatEntry.value) l.pads
  let kd := descs.take n
  let vd := descs.drop n
  let (ko, to, d1, d2) := if l.valuesTableFirst then (t2, t1, vd, kd) else (t1, t2, kd, vd)
  magicOf l.be ++ encodeWords l.be [l.major * 65536 + l.minor, n, ko, to] ++ l.headerExtra
    ++ descTable l.be d1 ++ l.gap ++ descTable l.be d2 ++ l.gap2 ++ strings ++ l.trailer

/-- the hidden flag a layout implies -/
def Layout.hidden (l : Layout) : Bool :=
  if l.minor > 1 then true else if l.minor = 1 then decide (l.nSysdep > 0) else false

/-- side conditions under which `serialize` is a legal file: fields fit, a minor-1 header really carries
    word 36, and the catalog is in key order -/
structure Layout.OK (l : Layout) (cat : List CatEntry) : Prop where
  major_le : l.major ≤ 1
  minor_lt : l.minor < 65536
  size : (serialize cat l).length < 2 ^ 32
  sysdep : l.minor = 1 → l.nSysdep < 2 ^ 32 ∧ ∃ x y, l.headerExtra = x ++ encodeWord l.be l.nSysdep ++ y ∧ x.length = 16
  sorted : Sorted (cat.map CatEntry.key0)

end I18n.Mo.Spec
