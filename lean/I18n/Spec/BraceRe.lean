/-
Regular expressions as CPython's `re._parser` parses them (the fragment the two brace-format modules use), with the
semantics of the backtracking matcher `sre`: alternatives are tried in order, repeats are greedy, the FIRST successful
path is the match.  `tools/translate/pybrace2lean.py` emits the live parse trees of `perlbrace._field_re`,
`pybrace._field_re`, `pybrace._simple_field_re`, `pybrace._format_spec_re` as terms of `Re`.
Core Lean only.  The character categories `\w`, `\d` are parameters (`CharDB`); the instance used by the models is the
table dumped from the running interpreter (`Generated.PyBraceTables`).
-/
namespace I18n.Spec.BraceRe

/-- one item of a character set (sre `IN`) -/
inductive ClsItem where
  | lit (c : Nat)            -- LITERAL
  | range (a b : Nat)        -- RANGE
  | word | notWord           -- CATEGORY_WORD / CATEGORY_NOT_WORD
  | digit | notDigit         -- CATEGORY_DIGIT / CATEGORY_NOT_DIGIT
  deriving DecidableEq, Repr, Inhabited

inductive Re where
  | eps
  /-- one character: `neg = false`: in one of the items; `neg = true` (`[^…]`, `NOT_LITERAL`): in none -/
  | cls (neg : Bool) (items : List ClsItem)
  | seq (a b : Re)
  /-- sre `BRANCH`: `a` is tried first -/
  | alt (a b : Re)
  /-- sre `MAX_REPEAT 0 1` (greedy) -/
  | opt (a : Re)
  /-- sre `MAX_REPEAT 0 MAXREPEAT` (greedy) -/
  | star (a : Re)
  /-- sre `MAX_REPEAT 1 MAXREPEAT` (greedy) -/
  | plus (a : Re)
  /-- sre `SUBPATTERN g` (capturing) -/
  | group (g : Nat) (a : Re)
  /-- `\A` -/
  | bos
  /-- `\Z` -/
  | eos
  deriving DecidableEq, Repr, Inhabited

/-- the interpreter's character categories -/
structure CharDB where
  word : Char → Bool
  digit : Char → Bool

def ClsItem.test (db : CharDB) (c : Char) : ClsItem → Bool
  | .lit k => c.toNat == k
  | .range a b => a ≤ c.toNat && c.toNat ≤ b
  | .word => db.word c
  | .notWord => !db.word c
  | .digit => db.digit c
  | .notDigit => !db.digit c

def clsTest (db : CharDB) (neg : Bool) (items : List ClsItem) (c : Char) : Bool :=
  (items.any (ClsItem.test db c)) != neg

/-- a capture: group number, start and end position -/
abbrev Caps := List (Nat × Nat × Nat)

/-- matcher state: characters not yet read, position, captures (most recent first) -/
structure St where
  rest : List Char
  pos : Nat
  caps : Caps
  deriving Repr, Inhabited

/-- greedy repetition of `body` (which is `bt a`): one more iteration first — it must consume something, as in sre's
    `MAX_UNTIL` — then, if every continuation of that failed, stop here.  `fuel` only has to be at least the number of
    characters left. -/
def starLoop {β : Type} (body : St → (St → Option β) → Option β) : Nat → St → (St → Option β) → Option β
  | 0, st, k => k st
  | fuel + 1, st, k =>
    match body st (fun st' => if st'.rest.length < st.rest.length then starLoop body fuel st' k else none) with
    | some r => some r
    | none => k st

/-- the backtracking matcher in continuation-passing style: `bt db r st k` is the result of the first path, in sre's
    priority order, that matches `r` at `st` and on which the continuation `k` succeeds -/
def bt {β : Type} (db : CharDB) : Re → St → (St → Option β) → Option β
  | .eps, st, k => k st
  | .cls neg items, st, k =>
    match st.rest with
    | [] => none
    | c :: r => if clsTest db neg items c then k { st with rest := r, pos := st.pos + 1 } else none
  | .seq a b, st, k => bt db a st (fun st' => bt db b st' k)
  | .alt a b, st, k =>
    match bt db a st k with
    | some r => some r
    | none => bt db b st k
  | .opt a, st, k =>
    match bt db a st k with
    | some r => some r
    | none => k st
  | .star a, st, k => starLoop (bt db a) st.rest.length st k
  | .plus a, st, k => bt db a st (fun st' => starLoop (bt db a) st'.rest.length st' k)
  | .group g a, st, k => bt db a st (fun st' => k { st' with caps := (g, st.pos, st'.pos) :: st'.caps })
  | .bos, st, k => if st.pos = 0 then k st else none
  | .eos, st, k => if st.rest.isEmpty then k st else none

/-- `pattern.match(s)` at position `pos` of a string whose unread part is `s`: the final state of the first successful
    path -/
def matchAt (db : CharDB) (r : Re) (s : List Char) (pos : Nat := 0) : Option St :=
  bt db r { rest := s, pos := pos, caps := [] } some

/-- the span of group `g` in a successful match (`match.span(g)`), most recent capture -/
def St.span (st : St) (g : Nat) : Option (Nat × Nat) :=
  (st.caps.find? (·.1 == g)).map (·.2)

end I18n.Spec.BraceRe
