import I18n.Generated.PyBraceTables
/-
Reference: CPython's `str.format` machinery (Objects/stringlib/unicode_format.h: `MarkupIterator_next`, `parse_field`,
`field_name_split`, `get_integer`, the auto-numbering state, `do_conversion`; Python/formatter_unicode.c:
`parse_internal_render_format_spec`, `format_string_internal`, `format_long_internal`, `format_float_internal` and the type
dispatch of `str/int/float.__format__`), written from the C sources as of CPython 3.12, 64-bit (`PY_SSIZE_T_MAX = 2^63-1`,
`INT_MAX = 2^31-1`): success, or the KIND of exception.  What is produced (the text) and memory are not modelled.
Argument values are abstracted to `int n` / a finite `float` / a `str`.

`markup` is `list(string.Formatter().parse(s))` (= `_string.formatter_parser`): the (literal, field name, format spec,
conversion) chunks or the `ValueError`.  `format s args` is `s.format(*args.pos, **args.kw)` for strings whose fields are
FLAT: no attribute/index part in a field name, no replacement field inside a format specification; for other strings it
answers `outside` at the first such field (nested specifications would need the text of the values).

This file is validated against the running interpreter on every run of the check (`pybrace-cpyparse`, `pybrace-cpyformat`
streams), error kinds included.  Independent of the model of the tool: it shares only the interpreter's decimal-digit table.
Core Lean only.
-/
namespace I18n.Spec.StrFormat
open I18n.Generated.PyBraceTables (decimalRanges)

/-! ### `MarkupIterator` -/

/-- the `ValueError`s of the markup iterator -/
inductive MErr where
  | singleClose          -- "Single '}' encountered in format string"
  | singleOpen           -- "Single '{' encountered in format string"
  | openInName           -- "unexpected '{' in field name"
  | expectedClose        -- "expected '}' before end of string"
  | endInConversion      -- "end of string while looking for conversion specifier"
  | expectedColon        -- "expected ':' after conversion specifier"
  | unmatchedOpen        -- "unmatched '{' in format spec"
  | fuel                 -- termination device of this file, unreachable (`markup_ne_fuel`)
  deriving DecidableEq, Repr, Inhabited

def MErr.name : MErr → String
  | .singleClose => "singleClose" | .singleOpen => "singleOpen" | .openInName => "openInName"
  | .expectedClose => "expectedClose" | .endInConversion => "endInConversion" | .expectedColon => "expectedColon"
  | .unmatchedOpen => "unmatchedOpen" | .fuel => "fuel"

structure Field where
  name : List Char
  spec : List Char
  conversion : Option Char
  /-- `format_spec_needs_expanding`: the specification contains a `{` -/
  needsExpanding : Bool
  deriving DecidableEq, Repr, Inhabited

/-- one result of `MarkupIterator_next`: literal text, then possibly a replacement field -/
structure Chunk where
  literal : List Char
  field : Option Field
  deriving DecidableEq, Repr, Inhabited

/-- the field-name loop of `parse_field`: up to the first `}`, `:` or `!` outside brackets; `{` outside brackets is an error;
    after `[` everything up to (not including) the next `]` is skipped.  Returns the name, the terminator, the rest. -/
def fieldName : Bool → List Char → List Char → Except MErr (List Char × Char × List Char)
  | _, [], _ => .error .expectedClose
  | true, c :: r, acc => if c = ']' then fieldName false r (acc ++ [c]) else fieldName true r (acc ++ [c])
  | false, c :: r, acc =>
    if c = '{' then .error .openInName
    else if c = '[' then fieldName true r (acc ++ [c])
    else if c = '}' ∨ c = ':' ∨ c = '!' then .ok (acc, c, r)
    else fieldName false r (acc ++ [c])

/-- the format-spec loop of `parse_field`: brace counting from `count`; returns the specification, whether a `{` occurred,
    the rest after the closing brace -/
def specBody : Nat → List Char → List Char → Bool → Except MErr (List Char × Bool × List Char)
  | _, [], _, _ => .error .unmatchedOpen
  | count, c :: r, acc, exp =>
    if c = '{' then specBody (count + 1) r (acc ++ [c]) true
    else if c = '}' then
      (if count ≤ 1 then .ok (acc, exp, r) else specBody (count - 1) r (acc ++ [c]) exp)
    else specBody count r (acc ++ [c]) exp

/-- `parse_field`, called after the opening brace -/
def parseField (cs : List Char) : Except MErr (Field × List Char) :=
  match fieldName false cs [] with
  | .error e => .error e
  | .ok (name, c, r) =>
    if c = '}' then .ok ({ name := name, spec := [], conversion := none, needsExpanding := false }, r)
    else if c = '!' then
      match r with
      | [] => .error .endInConversion
      | conv :: r1 =>
        match r1 with
        | [] => .error .unmatchedOpen       -- falls into the format-spec loop at the end of the string
        | c2 :: r2 =>
          -- the C code stores the conversion character in a `Py_UCS4` where `'\0'` means "none": `{!\x00}` converts nothing
          let conv : Option Char := if conv = '\x00' then none else some conv
          if c2 = '}' then .ok ({ name := name, spec := [], conversion := conv, needsExpanding := false }, r2)
          else if c2 = ':' then
            match specBody 1 r2 [] false with
            | .error e => .error e
            | .ok (spec, exp, r3) => .ok ({ name := name, spec := spec, conversion := conv, needsExpanding := exp }, r3)
          else .error .expectedColon
    else
      match specBody 1 r [] false with
      | .error e => .error e
      | .ok (spec, exp, r3) => .ok ({ name := name, spec := spec, conversion := none, needsExpanding := exp }, r3)

/-- one `MarkupIterator_next` with the literal accumulated so far: `none` at the end of the string -/
def next : List Char → List Char → Except MErr (Option (Chunk × List Char))
  | [], lit => .ok (if lit.isEmpty then none else some ({ literal := lit, field := none }, []))
  | c :: r, lit =>
    if c = '}' then
      match r with
      | [] => .error .singleClose
      | d :: r' => if d = '}' then .ok (some ({ literal := lit ++ ['}'], field := none }, r')) else .error .singleClose
    else if c = '{' then
      match r with
      | [] => .error .singleOpen
      | d :: r' =>
        if d = '{' then .ok (some ({ literal := lit ++ ['{'], field := none }, r'))
        else
          match parseField (d :: r') with
          | .error e => .error e
          | .ok (f, r'') => .ok (some ({ literal := lit, field := some f }, r''))
    else next r (lit ++ [c])

/-- the whole iteration; `fuel` ≥ number of characters + 1 -/
def markupLoop : Nat → List Char → Except MErr (List Chunk)
  | 0, _ => .error .fuel
  | fuel + 1, cs =>
    match next cs [] with
    | .error e => .error e
    | .ok none => .ok []
    | .ok (some (ch, rest)) =>
      match markupLoop fuel rest with
      | .error e => .error e
      | .ok chs => .ok (ch :: chs)

/-- `list(string.Formatter().parse(s))` -/
def markup (s : List Char) : Except MErr (List Chunk) := markupLoop (s.length + 1) s

/-- "Python's own str.format parser accepts `s`" -/
def parseOK (s : List Char) : Prop := ∃ chunks, markup s = .ok chunks

/-! ### numerals (`Py_UNICODE_TODECIMAL`, `get_integer`) -/

def PY_SSIZE_T_MAX : Nat := 2 ^ 63 - 1
def INT_MAX : Nat := 2 ^ 31 - 1

/-- `Py_UNICODE_TODECIMAL(c)` (`none` = -1) -/
def toDecimal (c : Char) : Option Nat :=
  let rec go : List (Nat × Nat) → Option Nat
    | [] => none
    | (a, b) :: rs => if a ≤ c.toNat && c.toNat ≤ b then some ((c.toNat - a) % 10) else go rs
  go decimalRanges

/-- the accumulation loop shared by both `get_integer`s: digits read so far, value; `none` = overflow
    ("Too many decimal digits in format string") -/
def accumulate : List Char → Nat → Nat → Option (Nat × Nat × List Char)
  | [], n, acc => some (n, acc, [])
  | c :: r, n, acc =>
    match toDecimal c with
    | none => some (n, acc, c :: r)
    | some d => if acc > (PY_SSIZE_T_MAX - d) / 10 then none else accumulate r (n + 1) (acc * 10 + d)

/-! ### format specifications (`parse_internal_render_format_spec`) -/

inductive Thousands where
  | none | comma | underscore
  deriving DecidableEq, Repr, Inhabited

/-- `InternalFormatSpec` -/
structure ISpec where
  fill : Char
  align : Char
  alternate : Bool
  noNeg0 : Bool
  sign : Option Char
  width : Option Nat
  thousands : Thousands
  precision : Option Nat
  type : Char
  deriving DecidableEq, Repr, Inhabited

/-- what `format(value, spec)` can raise -/
inductive SErr where
  | tooManyDigits | commaAndUnderscore | missingPrecision | invalidSpecifier | thousandsWithType
  | precisionInt | negZeroInt | signWithC | altWithC | chrRange | intTooLarge | unknownCode | precisionTooBig
  | signStr | spaceStr | negZeroStr | altStr | eqAlignStr
  deriving DecidableEq, Repr, Inhabited

def SErr.name : SErr → String
  | .tooManyDigits => "tooManyDigits" | .commaAndUnderscore => "commaAndUnderscore" | .missingPrecision => "missingPrecision"
  | .invalidSpecifier => "invalidSpecifier" | .thousandsWithType => "thousandsWithType" | .precisionInt => "precisionInt"
  | .negZeroInt => "negZeroInt" | .signWithC => "signWithC" | .altWithC => "altWithC" | .chrRange => "chrRange"
  | .intTooLarge => "intTooLarge" | .unknownCode => "unknownCode" | .precisionTooBig => "precisionTooBig"
  | .signStr => "signStr" | .spaceStr => "spaceStr" | .negZeroStr => "negZeroStr" | .altStr => "altStr" | .eqAlignStr => "eqAlignStr"

def isAlignTok (c : Char) : Bool := c = '<' || c = '>' || c = '=' || c = '^'
def isSignTok (c : Char) : Bool := c = ' ' || c = '+' || c = '-'

/-- fill and alignment: `(fill, align, fill specified, align specified, rest)` -/
def pFillAlign (defaultAlign : Char) : List Char → Char × Char × Bool × Bool × List Char
  | f :: a :: r =>
    if isAlignTok a then (f, a, true, true, r)
    else if isAlignTok f then (' ', f, false, true, a :: r)
    else (' ', defaultAlign, false, false, f :: a :: r)
  | [f] => if isAlignTok f then (' ', f, false, true, []) else (' ', defaultAlign, false, false, [f])
  | [] => (' ', defaultAlign, false, false, [])

def pSign : List Char → Option Char × List Char
  | c :: r => if isSignTok c then (some c, r) else (none, c :: r)
  | [] => (none, [])

def pLit (x : Char) : List Char → Bool × List Char
  | c :: r => if c = x then (true, r) else (false, c :: r)
  | [] => (false, [])

/-- the thousands-separator part: `,` then `_` then a `,` again -/
def pThousands (cs : List Char) : Except SErr (Thousands × List Char) :=
  let (comma, r1) := pLit ',' cs
  let (under, r2) := pLit '_' r1
  if comma && under then .error .commaAndUnderscore
  else if under && (match r2 with | ',' :: _ => true | _ => false) then .error .commaAndUnderscore
  else .ok (if comma then .comma else if under then .underscore else .none, r2)

/-- the precision part: `.` and a numeral -/
def pPrec (cs : List Char) : Except SErr (Option Nat × List Char) :=
  match cs with
  | '.' :: r =>
    match accumulate r 0 0 with
    | none => .error .tooManyDigits
    | some (np, p, r') => if np = 0 then .error .missingPrecision else .ok (some p, r')
  | _ => .ok (none, cs)

/-- `InternalFormatSpec` before the presentation type is defaulted and checked against the thousands separator -/
structure RawSpec where
  fill : Char
  align : Char
  alternate : Bool
  noNeg0 : Bool
  sign : Option Char
  width : Option Nat
  thousands : Thousands
  precision : Option Nat
  type : Option Char
  deriving DecidableEq, Repr, Inhabited

/-- the scanning part of `parse_internal_render_format_spec` -/
def parseSyntax (defaultAlign : Char) (spec : List Char) : Except SErr RawSpec :=
  match pFillAlign defaultAlign spec with
  | (fill, align, fillSpec, alignSpec, r1) =>
    match pSign r1 with
    | (sign, r2) =>
      match pLit 'z' r2 with
      | (z, r3) =>
        match pLit '#' r3 with
        | (alt, r4) =>
          match (if fillSpec then (false, r4) else pLit '0' r4 : Bool × List Char) with
          | (zero, r5) =>
            match accumulate r5 0 0 with
            | none => .error .tooManyDigits
            | some (nw, w, r6) =>
              match pThousands r6 with
              | .error e => .error e
              | .ok (th, r7) =>
                match pPrec r7 with
                | .error e => .error e
                | .ok (p, r8) =>
                  match r8 with
                  | _ :: _ :: _ => .error .invalidSpecifier
                  | rest =>
                    .ok { fill := if zero then '0' else fill,
                          align := if zero && !alignSpec && defaultAlign = '>' then '=' else align,
                          alternate := alt, noNeg0 := z, sign := sign,
                          width := if nw = 0 then none else some w, thousands := th, precision := p,
                          type := match rest with | [t] => some t | _ => none }

/-- the end of `parse_internal_render_format_spec`: the default presentation type, and which types go with a thousands
    separator -/
def finishSpec (defaultType : Char) (r : RawSpec) : Except SErr ISpec :=
  let type := r.type.getD defaultType
  let thOK : Bool :=
    match r.thousands with
    | .none => true
    | th =>
      if type = 'd' || type = 'e' || type = 'f' || type = 'g' || type = 'E' || type = 'G' || type = '%' || type = 'F'
          || type = '\x00' then true
      else if type = 'b' || type = 'o' || type = 'x' || type = 'X' then th = .underscore
      else false
  if !thOK then .error .thousandsWithType
  else .ok { fill := r.fill, align := r.align, alternate := r.alternate, noNeg0 := r.noNeg0, sign := r.sign,
             width := r.width, thousands := r.thousands, precision := r.precision, type := type }

/-- `parse_internal_render_format_spec(spec, default_type, default_align)` -/
def parseSpec (defaultType defaultAlign : Char) (spec : List Char) : Except SErr ISpec :=
  match parseSyntax defaultAlign spec with
  | .error e => .error e
  | .ok r => finishSpec defaultType r

/-! ### values and `__format__` -/

inductive Val where
  | int (n : Int)
  | float
  | str
  deriving DecidableEq, Repr, Inhabited

/-- `int` → `float` overflows from this magnitude on ("int too large to convert to float") -/
def FLOAT_OVERFLOW : Nat := 2 ^ 1024 - 2 ^ 970

def memC (t : Char) (s : String) : Bool := s.toList.contains t

def formatFloat (f : ISpec) : Except SErr Unit :=
  match f.precision with
  | some p => if p > INT_MAX then .error .precisionTooBig else .ok ()
  | none => .ok ()

def formatLong (n : Int) (f : ISpec) : Except SErr Unit :=
  if f.precision.isSome then .error .precisionInt
  else if f.noNeg0 then .error .negZeroInt
  else if f.type = 'c' then
    if f.sign.isSome then .error .signWithC
    else if f.alternate then .error .altWithC
    else if n < 0 ∨ n > 0x10ffff then .error .chrRange
    else .ok ()
  else .ok ()

def formatString (f : ISpec) : Except SErr Unit :=
  match f.sign with
  | some ' ' => .error .spaceStr
  | some _ => .error .signStr
  | none =>
    if f.noNeg0 then .error .negZeroStr
    else if f.alternate then .error .altStr
    else if f.align = '=' then .error .eqAlignStr
    else .ok ()

/-- `format(value, spec)` for an exact `int` / `float` / `str` -/
def formatValue (v : Val) (spec : List Char) : Except SErr Unit :=
  if spec.isEmpty then .ok () else
  match v with
  | .str =>
    match parseSpec 's' '<' spec with
    | .error e => .error e
    | .ok f => if f.type = 's' then formatString f else .error .unknownCode
  | .int n =>
    match parseSpec 'd' '>' spec with
    | .error e => .error e
    | .ok f =>
      if memC f.type "bcdoxXn" then formatLong n f
      else if memC f.type "eEfFgG%" then
        (if n.natAbs ≥ FLOAT_OVERFLOW then .error .intTooLarge else formatFloat f)
      else .error .unknownCode
  | .float =>
    match parseSpec '\x00' '>' spec with
    | .error e => .error e
    | .ok f => if f.type = '\x00' ∨ memC f.type "eEfFgGn%" then formatFloat f else .error .unknownCode

/-! ### `str.format` on flat fields -/

structure Args where
  pos : List Val
  kw : List (List Char × Val)
  deriving Repr, Inhabited

inductive FErr where
  | markup (e : MErr)
  | tooManyDigits          -- ValueError "Too many decimal digits in format string" (field index)
  | manualToAuto           -- ValueError "cannot switch from manual field specification to automatic field numbering"
  | autoToManual           -- ValueError "cannot switch from automatic field numbering to manual field specification"
  | indexError             -- IndexError "Replacement index … out of range for positional args tuple"
  | keyError               -- KeyError
  | unknownConversion      -- ValueError "Unknown conversion specifier"
  | spec (e : SErr)
  | outside                -- a compound field name or a nested specification: outside this reference
  | fuel
  deriving DecidableEq, Repr, Inhabited

def FErr.name : FErr → String
  | .markup e => "markup:" ++ e.name
  | .tooManyDigits => "tooManyDigits" | .manualToAuto => "manualToAuto" | .autoToManual => "autoToManual"
  | .indexError => "indexError" | .keyError => "keyError" | .unknownConversion => "unknownConversion"
  | .spec e => "spec:" ++ e.name | .outside => "outside" | .fuel => "fuel"

/-- `AutoNumber`: `an_state`, `an_field_number` -/
inductive ANState where
  | init | auto | manual
  deriving DecidableEq, Repr, Inhabited

structure AutoNumber where
  state : ANState
  fieldNumber : Nat
  deriving DecidableEq, Repr, Inhabited

/-- `get_integer` of unicode_format.h on the first part of a field name: `none` = not an integer (-1 without exception) -/
def firstIndex (first : List Char) : Except FErr (Option Nat) :=
  if first.isEmpty then .ok none else
  match accumulate first 0 0 with
  | none => .error .tooManyDigits
  | some (_, v, []) => .ok (some v)
  | some _ => .ok none

/-- `first`, `rest` of `field_name_split`: up to the first `.` or `[` -/
def splitName (name : List Char) : List Char × List Char :=
  (name.takeWhile (fun c => c ≠ '.' && c ≠ '['), name.dropWhile (fun c => c ≠ '.' && c ≠ '['))

/-- a field is flat: no attribute/index part, no nested replacement field -/
def Field.flat (f : Field) : Bool := (splitName f.name).2.isEmpty && !f.needsExpanding

/-- `do_conversion`: `!r`, `!s`, `!a` make a `str`; anything else is an error -/
def convert (f : Field) (v : Val) : Except FErr Val :=
  match f.conversion with
  | none => .ok v
  | some c => if c = 'r' ∨ c = 's' ∨ c = 'a' then .ok .str else .error .unknownConversion

/-- the look-up of `get_field_object`: `args[index]` or `kwargs[first]` -/
def lookupObj (a : Args) (first : List Char) : Option Nat → Except FErr Val
  | none =>
    match a.kw.find? (·.1 == first) with
    | some (_, v) => .ok v
    | none => .error .keyError
  | some i =>
    match a.pos[i]? with
    | some v => .ok v
    | none => .error .indexError

/-- `output_markup` for one field: the new auto-numbering state -/
def renderField (a : Args) (an : AutoNumber) (f : Field) : Except FErr AutoNumber :=
  match firstIndex (splitName f.name).1 with
  | .error e => .error e
  | .ok idx =>
    let empty := (splitName f.name).1.isEmpty
    let numeric := empty || idx.isSome
    -- the auto-numbering state
    let st := if an.state = .init ∧ numeric then (if empty then ANState.auto else ANState.manual) else an.state
    if numeric ∧ st = .manual ∧ empty then .error .manualToAuto
    else if numeric ∧ st = .auto ∧ !empty then .error .autoToManual
    else
      -- look the object up
      match lookupObj a (splitName f.name).1 (if empty then some an.fieldNumber else idx) with
      | .error e => .error e
      | .ok v =>
        if !(splitName f.name).2.isEmpty then .error .outside
        else
          match convert f v with
          | .error e => .error e
          | .ok w =>
            if f.needsExpanding then .error .outside
            else
              match formatValue w f.spec with
              | .error e => .error (.spec e)
              | .ok () => .ok { state := st, fieldNumber := if empty then an.fieldNumber + 1 else an.fieldNumber }

/-- `do_markup`: iterate and render; `fuel` ≥ number of characters + 1 -/
def formatLoop (a : Args) : Nat → List Char → AutoNumber → Except FErr Unit
  | 0, _, _ => .error .fuel
  | fuel + 1, cs, an =>
    match next cs [] with
    | .error e => .error (.markup e)
    | .ok none => .ok ()
    | .ok (some (ch, rest)) =>
      match ch.field with
      | none => formatLoop a fuel rest an
      | some f =>
        match renderField a an f with
        | .error e => .error e
        | .ok an' => formatLoop a fuel rest an'

/-- `s.format(*a.pos, **a.kw)` -/
def format (s : List Char) (a : Args) : Except FErr Unit :=
  formatLoop a (s.length + 1) s { state := .init, fieldNumber := 0 }

end I18n.Spec.StrFormat
