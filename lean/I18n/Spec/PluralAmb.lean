import I18n.Model.PluralParse
/-!
plural.y's expression grammar as bison reads it *before* the precedence declarations are applied:

    exp: exp '?' exp ':' exp | exp '|' exp | exp '&' exp | exp EQUOP2 exp | exp CMPOP2 exp
       | exp ADDOP2 exp | exp MULOP2 exp | '!' exp | 'n' | NUMBER | '(' exp ')'

It is ambiguous; `%right '?'`, `%left '|'` … `%right '!'` only select *which* tree a sentence gets, never
whether it is a sentence.  So `Amb` is the accepted language L(plural.y), and `Spec.D` (CGrammar.lean) is the
tree selection.  (`Tok` carries the operator a token stands for; `isBinary` = "is one of the seven binary
operator tokens" = `binInfo` is defined.)
-/
namespace I18n.Spec
open I18n I18n.PluralParse

def isBinary (t : Tok) : Bool := (binInfo t).isSome

inductive Amb : List Tok → Prop
  | var : Amb [.var]
  | int (n : Nat) : Amb [.int n]
  | paren {ts} : Amb ts → Amb (.lpar :: (ts ++ [.rpar]))
  | not {ts} : Amb ts → Amb (.not :: ts)
  | bin {l r} (t : Tok) : isBinary t = true → Amb l → Amb r → Amb (l ++ t :: r)
  | cond {c a b} : Amb c → Amb a → Amb b → Amb (c ++ .qm :: (a ++ .colon :: b))

end I18n.Spec
