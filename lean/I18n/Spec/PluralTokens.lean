import I18n.Model.PluralParse
/-!
The token language of plural.y's hand-written `yylex` (gettext-runtime/intl/plural.y), stated declaratively:

* the lexemes are `? : || && == != < <= > >= + - * / % ! ( ) n` and the non-empty decimal digit strings
  (a digit string stands for its decimal value);
* blanks and tabs — and nothing else — may separate lexemes;
* every token is the **longest** lexeme that starts at its position (`yylex` looks one character ahead after
  `= ! & | < >` and eats digits as long as there are any).  So `"! ="` is `!` followed by an error, never `!=`;
  `"&"`, `"|"`, `"="` alone are no lexemes; `"12 3"` is two numerals and `"123"` is one.

There is no other rule: in particular nothing here says in which order alternatives are tried — that is how the
code under verification (rply: first matching rule in declaration order, each regex greedy) does it, and
`Props.C04.lex_complete_sound` shows the two coincide.
-/
namespace I18n.Spec
open I18n I18n.PluralParse

def IsDecDigit (c : Char) : Prop := '0' ≤ c ∧ c ≤ '9'

/-- value of a decimal numeral, most significant digit first -/
def decimalValue (ds : List Char) : Nat := ds.foldl (fun v c => 10 * v + (c.toNat - '0'.toNat)) 0

/-- `Lexeme w t`: the spelling `w` is the token `t` -/
inductive Lexeme : List Char → Tok → Prop
  | qm : Lexeme ['?'] .qm
  | colon : Lexeme [':'] .colon
  | or : Lexeme ['|', '|'] (.bool .or)
  | and : Lexeme ['&', '&'] (.bool .and)
  | eq : Lexeme ['=', '='] (.cmp .eq)
  | ne : Lexeme ['!', '='] (.cmp .noteq)
  | lt : Lexeme ['<'] (.cmp .lt)
  | le : Lexeme ['<', '='] (.cmp .lte)
  | gt : Lexeme ['>'] (.cmp .gt)
  | ge : Lexeme ['>', '='] (.cmp .gte)
  | add : Lexeme ['+'] (.bin .add)
  | sub : Lexeme ['-'] (.bin .sub)
  | mul : Lexeme ['*'] (.bin .mult)
  | div : Lexeme ['/'] (.bin .div)
  | mod : Lexeme ['%'] (.bin .mod)
  | not : Lexeme ['!'] .not
  | lpar : Lexeme ['('] .lpar
  | rpar : Lexeme [')'] .rpar
  | var : Lexeme ['n'] .var
  | num (ds : List Char) : ds ≠ [] → (∀ c ∈ ds, IsDecDigit c) → Lexeme ds (.int (decimalValue ds))

def IsBlank (c : Char) : Prop := c = ' ' ∨ c = '\t'

/-- `w` is the longest lexeme at the front of `w ++ s` -/
def Longest (w s : List Char) : Prop := ∀ w' t', Lexeme w' t' → w' <+: w ++ s → w'.length ≤ w.length

/-- `Tokens s ts`: the string `s` is tokenised as `ts` -/
inductive Tokens : List Char → List Tok → Prop
  | nil : Tokens [] []
  | blank {c s ts} : IsBlank c → Tokens s ts → Tokens (c :: s) ts
  | tok {w s t ts} : Lexeme w t → Longest w s → Tokens s ts → Tokens (w ++ s) (t :: ts)

end I18n.Spec
