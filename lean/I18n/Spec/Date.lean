import I18n.Generated.DateTables
/-
Reference semantics for property C18, independent of the model's algorithms:

* `Civil`: a civil date-time with a numeric UTC offset; `Civil.Exists` = it is a real instant of the proleptic Gregorian
  calendar, years 1..9999; `Civil.minutes` = its position on the time line, obtained by COUNTING the lengths of the
  years and months before it (no closed formula);
* `render`: the canonical text `YYYY-MM-DD hh:mm+ZZzz`; `Canonical t` = `t` is the rendering of an existing instant;
* `Written s date time z`: the declarative grammar of date header values (what `_parse_date` is for): which date, time
  and zone are *written in* `s`;
* `HasBoilerplate`: a placeholder of xgettext's `YEAR-MO-DA HO:MI+ZONE` in its place;
* `Stripped`: what `str.strip()` returns.
-/
namespace I18n.Spec.Date
open I18n.Generated

/-! ## the calendar -/

structure Civil where
  year : Nat
  month : Nat
  day : Nat
  hour : Nat
  minute : Nat
  neg : Bool        -- sign of the written offset (`-0000` and `+0000` are different texts, same instant)
  zh : Nat
  zm : Nat
  deriving Repr, DecidableEq

/-- Gregorian leap year -/
def Leap (y : Nat) : Prop := (4 ∣ y ∧ ¬ 100 ∣ y) ∨ 400 ∣ y

instance (y : Nat) : Decidable (Leap y) := by unfold Leap; infer_instance

def yearLength (y : Nat) : Nat := if Leap y then 366 else 365

def monthLength (y m : Nat) : Nat :=
  match m with
  | 1 => 31 | 2 => if Leap y then 29 else 28 | 3 => 31 | 4 => 30 | 5 => 31 | 6 => 30
  | 7 => 31 | 8 => 31 | 9 => 30 | 10 => 31 | 11 => 30 | 12 => 31 | _ => 0

/-- an instant that exists: calendar date of years 1..9999, time of day, offset strictly within a day -/
def Civil.Exists (c : Civil) : Prop :=
  1 ≤ c.year ∧ c.year ≤ 9999 ∧ 1 ≤ c.month ∧ c.month ≤ 12 ∧ 1 ≤ c.day ∧ c.day ≤ monthLength c.year c.month
  ∧ c.hour < 24 ∧ c.minute < 60 ∧ c.zh < 24 ∧ c.zm < 60

/-- days in the years 1 .. y-1 -/
def daysInYearsBefore : Nat → Nat
  | 0 => 0
  | y + 1 => if y = 0 then 0 else daysInYearsBefore y + yearLength y

/-- days in the months 1 .. m-1 of year y -/
def daysInMonthsBefore (y : Nat) : Nat → Nat
  | 0 => 0
  | m + 1 => if m = 0 then 0 else daysInMonthsBefore y m + monthLength y m

/-- day number, 0001-01-01 ↦ 1 -/
def dayNumber (y m d : Nat) : Nat := daysInYearsBefore y + daysInMonthsBefore y m + d

/-- offset east of UTC in minutes -/
def Civil.offset (c : Civil) : Int :=
  if c.neg then -((c.zh * 60 + c.zm : Nat) : Int) else ((c.zh * 60 + c.zm : Nat) : Int)

/-- minutes from 1970-01-01T00:00Z to the instant -/
def Civil.minutes (c : Civil) : Int :=
  ((dayNumber c.year c.month c.day : Int) - (dayNumber 1970 1 1 : Int)) * 1440 + ((c.hour * 60 + c.minute : Nat) : Int) - c.offset

/-! ## the canonical text -/

def digit (n : Nat) : Char := Char.ofNat (48 + n % 10)
def pad2 (n : Nat) : List Char := [digit (n / 10), digit n]
def pad4 (n : Nat) : List Char := [digit (n / 1000), digit (n / 100), digit (n / 10), digit n]

/-- `YYYY-MM-DD hh:mm+ZZzz` -/
def render (c : Civil) : List Char :=
  pad4 c.year ++ '-' :: pad2 c.month ++ '-' :: pad2 c.day ++ ' ' :: pad2 c.hour ++ ':' :: pad2 c.minute
    ++ (if c.neg then '-' else '+') :: pad2 c.zh ++ pad2 c.zm

def Canonical (t : List Char) : Prop := ∃ c : Civil, c.Exists ∧ t = render c

/-! ## the grammar of date header values -/

def AsciiDigit (c : Char) : Prop := '0' ≤ c ∧ c ≤ '9'

/-- white space of the running interpreter (`str.isspace`, `\s`) -/
def White (c : Char) : Prop := ∃ r ∈ DateTables.whitespace, r.1 ≤ c.toNat ∧ c.toNat ≤ r.2

def Digits (n : Nat) (l : List Char) : Prop := l.length = n ∧ ∀ c ∈ l, AsciiDigit c

def IsDate (d : List Char) : Prop :=
  ∃ y m dd, d = y ++ '-' :: m ++ '-' :: dd ∧ Digits 4 y ∧ Digits 2 m ∧ Digits 2 dd

def IsTime (t : List Char) : Prop :=
  ∃ h m, t = h ++ ':' :: m ∧ Digits 2 h ∧ Digits 2 m

def IsSep (x : List Char) : Prop := x = ['T'] ∨ (x ≠ [] ∧ ∀ c ∈ x, White c)

def IsSecs (x : List Char) : Prop := x = [] ∨ ∃ d, x = ':' :: d ∧ Digits 2 d

def IsGap (x : List Char) : Prop := ∀ c ∈ x, White c

inductive ZoneSpec where
  | numeric (sign : Char) (hh mm : List Char)
  | abbr (a : List Char)
  | absent
  deriving DecidableEq

def KnownAbbr (a : List Char) : Prop := ∃ e ∈ DateTables.timezones, e.1 = a

def ZoneWritten (z : List Char) : ZoneSpec → Prop
  | .numeric sg hh mm =>
      ∃ pre colon, z = pre ++ sg :: hh ++ colon ++ mm
        ∧ (pre = [] ∨ pre = ['G','M','T'] ∨ pre = ['U','T','C']) ∧ (colon = [] ∨ colon = [':'])
        ∧ (sg = '+' ∨ sg = '-') ∧ Digits 2 hh ∧ Digits 2 mm
  | .abbr a => (z = a ∨ z = '+' :: a) ∧ KnownAbbr a
  | .absent => z = []

/-- `s` (already stripped) is a date header value in which `date`, `time` and zone `z` are written -/
def Written (s date time : List Char) (z : ZoneSpec) : Prop :=
  ∃ sep secs gap ztxt, s = date ++ sep ++ time ++ secs ++ gap ++ ztxt
    ∧ IsDate date ∧ IsSep sep ∧ IsTime time ∧ IsSecs secs ∧ IsGap gap ∧ ZoneWritten ztxt z

/-- the offsets the table gives for an abbreviation -/
def OffsetsOf (a : List Char) (os : List (List Char)) : Prop :=
  ∃ e ∈ DateTables.timezones, e.1 = a ∧ e.2 = os

/-- the zone text the normal form carries: the written numeric offset, the UNIQUE offset of a known abbreviation,
    or the caller's hint when nothing is written -/
def ZoneResolves (z : ZoneSpec) (hint : Option (List Char)) (zone : List Char) : Prop :=
  match z with
  | .numeric sg hh mm => zone = sg :: hh ++ mm
  | .abbr a => OffsetsOf a [zone]
  | .absent => hint = some zone

/-- `t` is `s` without leading and trailing white space -/
def Stripped (s t : List Char) : Prop :=
  ∃ l r, s = l ++ t ++ r ∧ (∀ c ∈ l, White c) ∧ (∀ c ∈ r, White c)
    ∧ (∀ c, t.head? = some c → ¬ White c) ∧ (∀ c, t.getLast? = some c → ¬ White c)

/-- a placeholder of `YEAR-MO-DA HO:MI+ZONE` in its place -/
def HasBoilerplate (s : List Char) : Prop :=
  (∃ r, s = ['Y','E','A','R','-'] ++ r)
  ∨ (∃ l r, s = l ++ ['-','M','O','-'] ++ r)
  ∨ (∃ l c r, s = l ++ ['-','D','A'] ++ c :: r ∧ White c)
  ∨ (∃ l c r, s = l ++ c :: ['H','O',':'] ++ r ∧ White c)
  ∨ (∃ l, s = l ++ [':','M','I'])
  ∨ (∃ l r, s = l ++ [':','M','I','+'] ++ r)
  ∨ (∃ l, s = l ++ ['+','Z','O','N','E'])

/-- a well-formed timezone hint: `+HHMM` / `-HHMM` within a day -/
def HintOk (h : List Char) : Prop :=
  ∃ sg zh zm, (sg = '+' ∨ sg = '-') ∧ zh < 24 ∧ zm < 60 ∧ h = sg :: pad2 zh ++ pad2 zm

/-- `t` is the normal form of the (stripped) header value `s` under the optional timezone hint:
    no placeholder, a date of the grammar, the zone resolved, the result an existing instant in canonical form -/
def Normalises (s : List Char) (hint : Option (List Char)) (t : List Char) : Prop :=
  ¬ HasBoilerplate s ∧ (∀ x, hint = some x → HintOk x) ∧
  ∃ date time z zone, Written s date time z ∧ ZoneResolves z hint zone ∧ t = date ++ ' ' :: time ++ zone ∧ Canonical t

/-- 1995-07-02T00:00Z, the release of the first gettext -/
def gettextEpoch : Civil := ⟨1995, 7, 2, 0, 0, false, 0, 0⟩

end I18n.Spec.Date
