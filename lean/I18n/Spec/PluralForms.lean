import I18n.Model.PluralParse
import I18n.Generated.PluralForms
/-
Reference reading of a Plural-Forms header value (what C07 calls "contains nplurals=<positive integer>;
plural=<valid expression>"), fixed in DESIGN §6 C07: the LEFTMOST match of the header pattern — the live pattern's
`re._parser` tree under the reference engine semantics `Spec.PluralFormsRe` — whose expression text (group 2: up to the
first `;`) is a valid expression.  GNU gettext's `strstr`-based reader takes the first occurrence as well.

"Valid expression" is the model's `PluralParse.parse` (the parser of lib/intexpr.py, whose agreement with the C grammar
of plural.y is C04's subject, proved separately), so that this file does not depend on C04's theorems.
-/
namespace I18n.Spec.PluralForms
open I18n I18n.Spec.PluralFormsRe

/-- `int(text, 10)` for a string of ASCII digits -/
def decimal (ds : List Char) : Nat := ds.foldl (fun acc c => acc * 10 + (c.toNat - 48)) 0

/-- the declaration a header value contains -/
structure Decl where
  n : Nat                  -- nplurals
  e : Expr                 -- the plural expression
  ljunk : List Char        -- text before the declaration
  rjunk : List Char        -- text after it
  deriving Repr

def declOf (v : List Char) : Option Decl :=
  match search Generated.PluralForms.headerRe v with
  | none => none
  | some f =>
    match f.group 1, f.group 2 with
    | some ds, some ex =>
      match PluralParse.parse ex with
      | .ok e => some ⟨decimal ds, e, f.pre, f.post⟩
      | _ => none
    | _, _ => none

/-- "the field contains `nplurals=<positive integer>; plural=<valid expression>`" -/
def HasDecl (v : List Char) : Prop := ∃ d, declOf v = some d

/-- what the strict reader (`parse_plural_forms(s)`, used for the registry's own strings) accepts: nothing around -/
def strictDeclOf (v : List Char) : Option (Nat × Expr) :=
  match declOf v with
  | some d => if d.ljunk = [] ∧ d.rjunk = [] then some (d.n, d.e) else none
  | none => none

end I18n.Spec.PluralForms
