import I18n.Model.PyBrace
import I18n.Spec.StrFormat
/-
"Arguments with the reported positions, names and types": the link between what `pybrace.FormatString` reports
(`PyBrace.Result.argMap`) and the arguments of `str.format` in the reference (`Spec.StrFormat.Args`), and the domain of the
formatting clause of C13 (flat fields).
-/
namespace I18n.PyBrace
open I18n.Spec.StrFormat

/-- a value has one of the types of the set -/
def hasType (tp : TySet) : Val → Bool
  | .str => tp.str
  | .int _ => tp.int
  | .float => tp.float

/-- `args[n]` / `kwargs[name]` -/
def lookupArg (a : Args) : Key → Option Val
  | .idx n => a.pos[n]?
  | .name nm => (a.kw.find? (·.1 == nm)).map (·.2)

/-- an `int` argument is a code point (what the presentation type `c` needs; the reported type sets cannot express it) -/
def chrOK : Val → Prop
  | .int n => 0 ≤ n ∧ n ≤ 0x10ffff
  | _ => True

/-- arguments with the reported positions, names and types: under every key of `argument_map` a value of one of the types
    reported for it -/
def Matches (r : Result) (a : Args) : Prop :=
  ∀ k as, (k, as) ∈ r.argMap → ∃ v, lookupArg a k = some v ∧ (∀ x ∈ as, hasType x.types v = true) ∧ chrOK v

/-- the replacement fields of a string, as CPython's markup iterator yields them -/
def fieldsOf (chunks : List Chunk) : List Field := chunks.filterMap (·.field)

/-- "a string without nested or compound (attribute/index) fields" -/
def Flat (s : List Char) : Prop := ∀ chunks, markup s = .ok chunks → ∀ f ∈ fieldsOf chunks, f.flat = true

/-- the specification of a field is not one of the two typing gaps (`Spec.quirk`: `,` with b/c/o/x/X; sign or `#` with `c`) -/
def NoQuirk (f : Field) : Prop := ∀ sf, scanSpec f.spec = some sf → sf.quirk = false

/-- no field of the string has one of the two typing gaps -/
def QuirkFree (s : List Char) : Prop := ∀ chunks, markup s = .ok chunks → ∀ f ∈ fieldsOf chunks, NoQuirk f

end I18n.PyBrace
