import I18n.Model.Hdr
/-
`Spec.HeaderRules`: the rule set of DESIGN.md Appendix A — which header diagnostics a catalog must get, one clause per tag,
read from the tag documentation (`data/tags`) and the property statement, not from the control flow of the checker.

A file is a kind (PO / POT / MO), its initial comments and its entries.  `H` is the first non-obsolete entry with an empty
msgid and no context; the *field lines* are the lines of its msgstr (form 0 if it has plural forms) of the shape
`Name: value` (`FieldLine`), every other line is a *stray* line.  `cnt k` / `vals k` are the number of field lines named `k`
and their values in order.  `Reported … t` says that the diagnostic `t` (tag name and extras) is due.

Library results (`Ext`: parseaddr, urlparse scheme, close matches, Unicode classes) and the charset verdict (`CharsetCheck`,
decided by C20) are parameters, as in the model; the date verdicts are those of C18 (`Date.checkDates`).
Core Lean only.
-/
namespace I18n.Spec.HeaderRules
open I18n I18n.Hdr

/-! ## the field grammar -/

/-- a character of a field name: printable ASCII other than `:` -/
def NameChar (c : Char) : Prop := 0x21 ≤ c.toNat ∧ c.toNat ≤ 0x7E ∧ c ≠ ':'

/-- the line `l` is the header field `k: v`: a non-empty name of name characters, a colon, and the value with blanks and
    tabs stripped from both ends -/
def FieldLine (l k v : Str) : Prop :=
  ∃ rest, l = k ++ ':' :: rest ∧ k ≠ [] ∧ (∀ c ∈ k, NameChar c) ∧ v = stripBlanks rest

/-- `ls` are the lines of `s`: `\n`-free pieces which joined by `\n` give `s`, a final `\n` being a terminator -/
def LinesOf (s : Str) (ls : List Str) : Prop :=
  (∀ l ∈ ls, '\n' ∉ l) ∧
  ((s = [] ∧ ls = []) ∨ (ls ≠ [] ∧ s = joinWith ['\n'] ls ++ ['\n'])
    ∨ (ls ≠ [] ∧ s ≠ [] ∧ s = joinWith ['\n'] ls ∧ s.getLast? ≠ some '\n'))

/-! ## the header entry -/

def IsHeaderEntry (e : Entry) : Prop := e.msgid = [] ∧ e.msgctxt = none ∧ e.obsolete = false

instance : DecidablePred IsHeaderEntry := fun e => by unfold IsHeaderEntry; exact inferInstance

/-- the header entries of a file with their positions (0 = first entry of the file) -/
def headerEntries (es : List Entry) : List (Entry × Nat) :=
  es.zipIdx.filter fun p => decide (IsHeaderEntry p.1)

/-- `H`: the first of them -/
def headerEntry (es : List Entry) : Option (Entry × Nat) := (headerEntries es).head?

/-- its text: msgstr, or form 0 if the entry has plural forms -/
def entryText (e : Entry) : Str := match e.msgstr0 with | some t => t | none => e.msgstr

/-- the classified lines of `H` (none if there is no header entry) -/
def headerLinesOf (es : List Entry) : List Line :=
  match headerEntry es with
  | some (e, _) => parseHeader (entryText e)
  | none => []

def fieldLines (ls : List Line) : List (Str × Str) :=
  ls.filterMap fun l => match l with | .field k v => some (k, v) | .stray _ => none

def strays (ls : List Line) : List Str :=
  ls.filterMap fun l => match l with | .field _ _ => none | .stray s => some s

/-- values of the field lines named `k`, in order -/
def vals (fs : List (Str × Str)) (k : String) : List Str := (fs.filter fun f => f.1 = k.toList).map (·.2)

def cnt (fs : List (Str × Str)) (k : String) : Nat := (vals fs k).length

/-! ## leaf predicates -/

/-- special-use domain names (IANA registry: RFC 1035 §3.5, RFC 3596 §2.5, RFC 6761 §6, RFC 6762 §3): `(mustHaveLabelsBefore, suffix)` -/
def specialDomains : List (Bool × String) :=
  [(false, "example"), (false, "example.com"), (false, "example.net"), (false, "example.org"), (true, "in-addr.arpa"),
   (false, "invalid"), (true, "ip6.arpa"), (true, "local"), (false, "localhost"), (false, "test")]

/-- the lower-cased domain `d` is `suffix` itself (where allowed) or ends in `.suffix` after at least one more character
    (none of them a line feed) -/
def SpecialDomain (d : Str) : Prop :=
  ∃ alt ∈ specialDomains, (alt.1 = false ∧ d = alt.2.toList)
    ∨ ∃ p, p ≠ [] ∧ '\n' ∉ p ∧ d = p ++ '.' :: alt.2.toList

/-- `dom` is what follows the last `@` of `addr` -/
def DomainOf (addr dom : Str) : Prop := ∃ loc, addr = loc ++ '@' :: dom ∧ '@' ∉ dom

def SpecialEmail (x : Ext) (addr : Str) : Prop := ∃ dom, DomainOf addr dom ∧ SpecialDomain (x.db.lower dom)

def DotlessEmail (addr : Str) : Prop := ∃ dom, DomainOf addr dom ∧ '.' ∉ dom

/-- verdict on an e-mail address that contains `@`, in the documented order of precedence -/
inductive AddrVerdict where
  | reserved | boilerplate | dotless | fine
  deriving DecidableEq, Repr

def AddrIs (x : Ext) (boiler : List String) (addr : Str) : AddrVerdict → Prop
  | .reserved => SpecialEmail x addr
  | .boilerplate => ¬ SpecialEmail x addr ∧ addr ∈ boiler.map String.toList
  | .dotless => ¬ SpecialEmail x addr ∧ addr ∉ boiler.map String.toList ∧ DotlessEmail addr
  | .fine => ¬ SpecialEmail x addr ∧ addr ∉ boiler.map String.toList ∧ ¬ DotlessEmail addr

/-- a conflict marker line `#-#-#-#-#  …  #-#-#-#-#` with something between the double blanks -/
def ConflictMarker (l : Str) : Prop := ∃ mid, mid ≠ [] ∧ l = "#-#-#-#-#  ".toList ++ mid ++ "  #-#-#-#-#".toList

/-- an encoding name as the Content-Type form admits it: non-empty, without white space and `;` -/
def ValidEnc (db : UDB) (enc : Str) : Prop := enc ≠ [] ∧ ∀ c ∈ enc, db.isSpace c = false ∧ c ≠ ';'

/-- the Content-Type value ends in a `charset=<enc>` parameter that starts at a word boundary (`boundary`: exactly one
    neighbour is a word character); `full` says whether the value is exactly `text/plain; charset=<enc>` -/
def CharsetParam (db : UDB) (ct : Str) (full : Bool) (enc : Str) : Prop :=
  ValidEnc db enc ∧
  ((full = true ∧ ct = "text/plain; charset=".toList ++ enc ∧ boundary db (some ' ') (some 'c') = true)
   ∨ (full = false ∧ ∃ pre, ct = pre ++ "charset=".toList ++ enc ∧ boundary db pre.getLast? (some 'c') = true))

/-- the charset the value declares: the full form if it has it, else the longest `charset=` parameter at its end -/
def CharsetOf (db : UDB) (ct : Str) (full : Bool) (enc : Str) : Prop :=
  CharsetParam db ct full enc ∧
  (full = false → (∀ e, ¬ CharsetParam db ct true e) ∧ ∀ e', CharsetParam db ct false e' → e'.length ≤ enc.length)

/-! ## the rules -/

def t0 (name : String) : TagCall := ⟨name, []⟩

section Rules
variable (x : Ext) (cs : CharsetCheck) (now : Int) (f : File)

/-- initial comments -/
def CommentRule (t : TagCall) : Prop :=
  ∃ line ∈ splitlines f.comments, commentLineHit x.db f.kind.isTemplate line = true
    ∧ t = ⟨"boilerplate-in-initial-comments", [.str line]⟩

/-- header entry: position, duplicates, references, plural forms, flags, unusual characters -/
def EntryRule (t : TagCall) : Prop :=
  (2 ≤ (headerEntries f.entries).length ∧ t = t0 "duplicate-header-entry")
  ∨ ∃ e i, headerEntry f.entries = some (e, i) ∧
    ( (i ≠ 0 ∧ t = t0 "distant-header-entry")
    ∨ (e.occurrences ≠ [] ∧
        t = ⟨"empty-msgid-message-with-source-code-references", e.occurrences.map fun o => .str (o.1 ++ ':' :: o.2)⟩)
    ∨ (e.msgidPlural ≠ none ∧ t = t0 "empty-msgid-message-with-plural-forms")
    ∨ ("fuzzy".toList ∈ e.flags ∧ f.kind.isTemplate = false ∧ t = t0 "fuzzy-header-entry")
    ∨ (∃ fl ∈ e.flags, fl ≠ "fuzzy".toList ∧
        t = ⟨"unexpected-flag-for-header-entry",
             if x.closeFuzzy fl then [.str fl, .str "=>".toList, .str "fuzzy".toList] else [.str fl]⟩)
    ∨ (∃ fl, 1 < count fl e.flags ∧ t = ⟨"duplicate-flag-for-header-entry", [.str fl]⟩)
    ∨ (∃ text, sortedChars (unusualChars x.db (entryText e)) ≠ [] ∧
        unusualText (sortedChars (unusualChars x.db (entryText e))) = some text ∧
        t = ⟨"unusual-character-in-header-entry", [.safe text]⟩))

/-- lines without a field name: each one that is not a conflict marker is reported; of the conflict markers only the first -/
def StrayRule (ls : List Line) (t : TagCall) : Prop :=
  (∃ l ∈ strays ls, ¬ ConflictMarker l ∧ t = ⟨"stray-header-line", [.str l]⟩)
  ∨ (∃ pre l post, strays ls = pre ++ l :: post ∧ ConflictMarker l ∧ (∀ m ∈ pre, ¬ ConflictMarker m) ∧
        t = ⟨"conflict-marker-in-header-entry", [.str l]⟩)

def registered : List Str := Generated.HeaderFields.headerFields.map String.toList

/-- fields with rules of their own (a repeated one gets `duplicate-header-field-<field>` there) -/
def ownRules : List String :=
  ["Content-Transfer-Encoding", "Content-Type", "Language", "Language-Team", "Last-Translator", "MIME-Version", "PO-Revision-Date",
   "POT-Creation-Date", "Plural-Forms", "Project-Id-Version", "Report-Msgid-Bugs-To", "X-Poedit-Country", "X-Poedit-Language"]

def XPrefixed (k : Str) : Prop := ∃ r, k = 'X' :: '-' :: r ∨ k = 'x' :: '-' :: r

/-- the correction offered for an unknown field name: the registered name equal up to case, else the closest registered
    name, unless a field of that name is present as well -/
def Hint (fs : List (Str × Str)) (k : Str) (h : Option Str) : Prop :=
  let cand := match registered.find? (fun r => asciiLower r = asciiLower k) with
    | some r => some r
    | none => x.closeField k
  h = match cand with
    | some c => if c ∈ fs.map (·.1) then none else some c
    | none => none

/-- field names -/
def NameRule (fs : List (Str × Str)) (t : TagCall) : Prop :=
  (∃ k ∈ fs.map (·.1), ¬ XPrefixed k ∧ k ∉ registered ∧ ∃ h, Hint x fs k h ∧
      t = ⟨"unknown-header-field", match h with | some c => [.str k, .str "=>".toList, .str c] | none => [.str k]⟩)
  ∨ (∃ k ∈ fs.map (·.1), 1 < (fs.filter (·.1 = k)).length ∧ k ∉ ownRules.map String.toList ∧
      t = ⟨"duplicate-header-field", [.str k]⟩)

/-- a field that must occur once with one fixed value -/
def FixedRule (fs : List (Str × Str)) (field good : String) (lower : String) (t : TagCall) : Prop :=
  (cnt fs field = 0 ∧ t = ⟨"no-" ++ lower ++ "-header-field", [.safe (field ++ ": " ++ good).toList]⟩)
  ∨ (1 < cnt fs field ∧ t = t0 ("duplicate-header-field-" ++ lower))
  ∨ (∃ v ∈ vals fs field, v ≠ good.toList ∧ t = ⟨"invalid-" ++ lower, [.str v, .str "=>".toList, .str good.toList]⟩)

/-- Content-Type: form and charset -/
def ContentTypeRule (fs : List (Str × Str)) (t : TagCall) : Prop :=
  (cnt fs "Content-Type" = 0 ∧
    t = ⟨"no-content-type-header-field", [.safe "Content-Type: text/plain; charset=<encoding>".toList]⟩)
  ∨ (1 < cnt fs "Content-Type" ∧ t = t0 "duplicate-header-field-content-type")
  ∨ ∃ ct ∈ vals fs "Content-Type",
      ((¬ ∃ full enc, CharsetParam x.db ct full enc) ∧
        t = ⟨"invalid-content-type", [.str ct, .str "=>".toList, .str "text/plain; charset=<encoding>".toList]⟩)
      ∨ ∃ full enc ctags kept, CharsetOf x.db ct full enc ∧ cs (toName enc) = .ok (ctags, kept) ∧
          ((∃ c ∈ ctags, t = ofCharsetTag ct c)
           ∨ (full = false ∧ t = ⟨"invalid-content-type", [.str ct, .str "=>".toList,
                .str (match kept with | some e => "text/plain; charset=".toList ++ ofName e
                                      | none => "text/plain; charset=<encoding>".toList)]⟩))

/-- dates: the verdicts of C18 -/
def DateRule (fs : List (Str × Str)) (t : TagCall) : Prop :=
  ∃ ds, Date.checkDates ⟨(vals fs "Content-Type").head?, f.kind.isBinary, f.kind.isTemplate,
                         vals fs "POT-Creation-Date", vals fs "PO-Revision-Date", now⟩ = some ds
    ∧ ∃ d ∈ ds, t = ofDateTag d

def HasLetter (db : UDB) (v : Str) : Prop := ∃ c ∈ v, db.isWord c = true ∧ c ≠ '_' ∧ db.isDigit c = false
def HasAsciiDigit (v : Str) : Prop := ∃ c ∈ v, '0' ≤ c ∧ c ≤ '9'

def ProjectRule (fs : List (Str × Str)) (t : TagCall) : Prop :=
  (cnt fs "Project-Id-Version" = 0 ∧ t = t0 "no-project-id-version-header-field")
  ∨ (1 < cnt fs "Project-Id-Version" ∧ t = t0 "duplicate-header-field-project-id-version")
  ∨ ∃ v ∈ vals fs "Project-Id-Version",
      ((v = "PACKAGE VERSION".toList ∨ v = "PROJECT VERSION".toList) ∧ t = ⟨"boilerplate-in-project-id-version", [.str v]⟩)
      ∨ (¬ (v = "PACKAGE VERSION".toList ∨ v = "PROJECT VERSION".toList) ∧
          ((¬ HasLetter x.db v ∧ t = ⟨"no-package-name-in-project-id-version", [.str v]⟩)
           ∨ (¬ HasAsciiDigit v ∧ t = ⟨"no-version-in-project-id-version", [.str v]⟩)))

/-- does the address part contain `@` -/
def HasAt (addr : Str) : Prop := '@' ∈ addr

def ReportRule (fs : List (Str × Str)) (t : TagCall) : Prop :=
  ((∀ v ∈ vals fs "Report-Msgid-Bugs-To", v = []) ∧ t = t0 "no-report-msgid-bugs-to-header-field")
  ∨ (1 < cnt fs "Report-Msgid-Bugs-To" ∧ t = t0 "duplicate-header-field-report-msgid-bugs-to")
  ∨ ∃ v ∈ vals fs "Report-Msgid-Bugs-To", (∃ w ∈ vals fs "Report-Msgid-Bugs-To", w ≠ []) ∧
      ((¬ HasAt (x.parseaddr v) ∧ (x.urlScheme v = none ∨ x.urlScheme v = some []) ∧
          t = ⟨"invalid-report-msgid-bugs-to", [.str v]⟩)
       ∨ (HasAt (x.parseaddr v) ∧
          ((AddrIs x ["EMAIL@ADDRESS"] (x.parseaddr v) .reserved ∧ t = ⟨"invalid-report-msgid-bugs-to", [.str v]⟩)
           ∨ (AddrIs x ["EMAIL@ADDRESS"] (x.parseaddr v) .boilerplate ∧ t = ⟨"boilerplate-in-report-msgid-bugs-to", [.str v]⟩)
           ∨ (AddrIs x ["EMAIL@ADDRESS"] (x.parseaddr v) .dotless ∧ t = ⟨"invalid-report-msgid-bugs-to", [.str v]⟩))))

def TranslatorRule (fs : List (Str × Str)) (t : TagCall) : Prop :=
  (cnt fs "Last-Translator" = 0 ∧ t = t0 "no-last-translator-header-field")
  ∨ (1 < cnt fs "Last-Translator" ∧ t = t0 "duplicate-header-field-last-translator")
  ∨ ∃ v ∈ vals fs "Last-Translator",
      (¬ HasAt (x.parseaddr v) ∧ t = ⟨"invalid-last-translator", [.str v]⟩)
      ∨ (HasAt (x.parseaddr v) ∧
          ((AddrIs x ["EMAIL@ADDRESS"] (x.parseaddr v) .reserved ∧ t = ⟨"invalid-last-translator", [.str v]⟩)
           ∨ (AddrIs x ["EMAIL@ADDRESS"] (x.parseaddr v) .boilerplate ∧ f.kind.isTemplate = false ∧
                t = ⟨"boilerplate-in-last-translator", [.str v]⟩)
           ∨ (AddrIs x ["EMAIL@ADDRESS"] (x.parseaddr v) .dotless ∧ t = ⟨"invalid-last-translator", [.str v]⟩)))

/-- the Last-Translator value a team address coincides with: of the distinct values with that address, the last in
    code-point order -/
def SameTranslator (fs : List (Str × Str)) (addr tr : Str) : Prop :=
  ((sortedSet (vals fs "Last-Translator")).reverse.find? fun v => decide (x.parseaddr v = addr)) = some tr

def TeamRule (fs : List (Str × Str)) (t : TagCall) : Prop :=
  (cnt fs "Language-Team" = 0 ∧ t = t0 "no-language-team-header-field")
  ∨ (1 < cnt fs "Language-Team" ∧ t = t0 "duplicate-header-field-language-team")
  ∨ ∃ v ∈ vals fs "Language-Team", HasAt (x.parseaddr v) ∧
      ((AddrIs x ["EMAIL@ADDRESS", "LL@li.org"] (x.parseaddr v) .reserved ∧ t = ⟨"invalid-language-team", [.str v]⟩)
       ∨ (AddrIs x ["EMAIL@ADDRESS", "LL@li.org"] (x.parseaddr v) .boilerplate ∧ f.kind.isTemplate = false ∧
            t = ⟨"boilerplate-in-language-team", [.str v]⟩)
       ∨ (AddrIs x ["EMAIL@ADDRESS", "LL@li.org"] (x.parseaddr v) .dotless ∧ t = ⟨"invalid-language-team", [.str v]⟩)
       ∨ (AddrIs x ["EMAIL@ADDRESS", "LL@li.org"] (x.parseaddr v) .fine ∧
            ∃ tr, SameTranslator x fs (x.parseaddr v) tr ∧ t = ⟨"language-team-equal-to-last-translator", [.str v, .str tr]⟩))

/-- **the rule set**: the diagnostic `t` is due for file `f` -/
def Reported (t : TagCall) : Prop :=
  let ls := headerLinesOf f.entries
  let fs := fieldLines ls
  CommentRule x f t ∨ EntryRule x f t ∨ StrayRule ls t ∨ NameRule x fs t
  ∨ FixedRule fs "MIME-Version" "1.0" "mime-version" t
  ∨ FixedRule fs "Content-Transfer-Encoding" "8bit" "content-transfer-encoding" t
  ∨ ContentTypeRule x cs fs t ∨ DateRule now f fs t
  ∨ ProjectRule x fs t ∨ ReportRule x fs t ∨ TranslatorRule x f fs t ∨ TeamRule x f fs t

/-- **a header that follows every convention**: no boilerplate in the initial comments; exactly one header entry, the first of
    the file, without references, plural forms, flags or unusual characters; every line a field; every field name registered
    or `X-` prefixed and used once; `MIME-Version: 1.0`, `Content-Transfer-Encoding: 8bit`, `Content-Type: text/plain;
    charset=<enc>` with a charset C20 has nothing to say about; dates C18 has nothing to say about; a project id with a
    name and a version; a bug address that is a URL or an e-mail address outside reserved and dot-less domains; a translator
    with such an address; a team with a URL / name or such an address other than the translator's. -/
structure Conventional : Prop where
  comments : ∀ line ∈ splitlines f.comments, commentLineHit x.db f.kind.isTemplate line = false
  entry : ∃ e, headerEntries f.entries = [(e, 0)] ∧ e.occurrences = [] ∧ e.msgidPlural = none ∧ e.flags = [] ∧
    unusualChars x.db (entryText e) = []
  noStray : strays (headerLinesOf f.entries) = []
  names : ∀ k ∈ (fieldLines (headerLinesOf f.entries)).map (·.1),
    (XPrefixed k ∨ k ∈ registered) ∧ ((fieldLines (headerLinesOf f.entries)).filter (·.1 = k)).length = 1
  mime : vals (fieldLines (headerLinesOf f.entries)) "MIME-Version" = ["1.0".toList]
  cte : vals (fieldLines (headerLinesOf f.entries)) "Content-Transfer-Encoding" = ["8bit".toList]
  ctype : ∃ enc kept, vals (fieldLines (headerLinesOf f.entries)) "Content-Type" = ["text/plain; charset=".toList ++ enc] ∧
    CharsetOf x.db ("text/plain; charset=".toList ++ enc) true enc ∧ cs (toName enc) = .ok ([], kept)
  dates : Date.checkDates ⟨(vals (fieldLines (headerLinesOf f.entries)) "Content-Type").head?, f.kind.isBinary, f.kind.isTemplate,
    vals (fieldLines (headerLinesOf f.entries)) "POT-Creation-Date", vals (fieldLines (headerLinesOf f.entries)) "PO-Revision-Date", now⟩ = some []
  project : ∃ v, vals (fieldLines (headerLinesOf f.entries)) "Project-Id-Version" = [v] ∧
    ¬ (v = "PACKAGE VERSION".toList ∨ v = "PROJECT VERSION".toList) ∧ HasLetter x.db v ∧ HasAsciiDigit v
  report : ∃ v, vals (fieldLines (headerLinesOf f.entries)) "Report-Msgid-Bugs-To" = [v] ∧ v ≠ [] ∧
    ((¬ HasAt (x.parseaddr v) ∧ ∃ s, x.urlScheme v = some s ∧ s ≠ [])
     ∨ (HasAt (x.parseaddr v) ∧ AddrIs x ["EMAIL@ADDRESS"] (x.parseaddr v) .fine))
  translator : ∃ v, vals (fieldLines (headerLinesOf f.entries)) "Last-Translator" = [v] ∧ HasAt (x.parseaddr v) ∧
    AddrIs x ["EMAIL@ADDRESS"] (x.parseaddr v) .fine
  team : ∃ v, vals (fieldLines (headerLinesOf f.entries)) "Language-Team" = [v] ∧
    (¬ HasAt (x.parseaddr v)
     ∨ (AddrIs x ["EMAIL@ADDRESS", "LL@li.org"] (x.parseaddr v) .fine ∧
        ∀ w ∈ vals (fieldLines (headerLinesOf f.entries)) "Last-Translator", x.parseaddr w ≠ x.parseaddr v))

end Rules

end I18n.Spec.HeaderRules
