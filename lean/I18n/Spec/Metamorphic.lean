/-!
Reference side of C17: what "the same diagnostics, apart from …" means, and the DOCUMENTED places where the checker may
look at the file format, at the charset name, at the representation of a polib entry, and at the packaging options.
These lists are my reading of the documentation and of the anchored source; the inventories regenerated from /repo on
every run (`Generated/BinaryReads.lean`) are pinned to them in Props/C17.
-/
namespace I18n.Spec.Metamorphic

/-- two diagnostics lists are the same apart from the tags `keep` rejects -/
def EqModulo {τ : Type} (keep : τ → Bool) (l1 l2 : List τ) : Prop := l1.filter keep = l2.filter keep

/-- **The only reads of `ctx.is_binary`**: the POT-Creation-Date exemption of `check_dates` (data/tags: "no-date-header-field";
    gettext ≥ 0.20 msgfmt drops the field) and the hidden-strings gate of `empty-file`; `check` stores it. -/
def documentedBinaryReads : List (String × String × String) := [
  ("lib/check/__init__.py", "Checker.check", "ctx.is_binary = is_binary"),
  ("lib/check/__init__.py", "Checker.check_dates", "if field.startswith('POT-') and ctx.is_binary"),
  ("lib/check/__init__.py", "Checker.check_messages", "if ctx.is_binary")]

/-- it is set from the extension alone -/
def documentedBinaryWrites : List (String × String × String) := [
  ("lib/check/__init__.py", "Checker.check", "ctx.is_binary = is_binary"),
  ("lib/check/__init__.py", "Checker.check", "is_binary = False"),
  ("lib/check/__init__.py", "Checker.check", "is_binary = True")]

/-- **`ctx.encoding` is only ever compared with `None`** outside `check_mime`: the charset NAME is consumed by `check_mime` alone -/
def documentedEncodingReads : List (String × String × String) := [
  ("lib/check/__init__.py", "Checker._check_message_xml_format", "if ctx.encoding is None"),
  ("lib/check/__init__.py", "Checker.check_messages", "if ctx.encoding is not None"),
  ("lib/check/msgformat/__init__.py", "Checker.check_message", "if ctx.encoding is None")]

def documentedEncodingWrites : List (String × String × String) := [
  ("lib/check/__init__.py", "Checker.check", "ctx.encoding = None"),
  ("lib/check/__init__.py", "Checker.check_mime", "[ctx.encoding] = encodings"),
  ("lib/check/__init__.py", "Checker.check_mime", "ctx.encoding = None")]

/-- the Content-Type value is looked up by `check_mime`, and by `check_dates` for the `application/x-publican;` prefix only -/
def documentedContentTypeSites : List (String × String × String) := [
  ("lib/check/__init__.py", "Checker.check_dates", "content_type = ctx.metadata['Content-Type'][0]"),
  ("lib/check/__init__.py", "Checker.check_mime", "checks_header_fields('MIME-Version', 'Content-Transfer-Encoding', 'Content-Type')"),
  ("lib/check/__init__.py", "Checker.check_mime", "cts = ctx.metadata['Content-Type']")]

/-- the tags of `check_mime` whose arguments are derived from the charset name or the Content-Type value -/
def documentedCharsetTags : List String :=
  ["boilerplate-in-content-type", "invalid-content-type", "no-content-type-header-field", "non-ascii-compatible-encoding",
   "non-portable-encoding", "unknown-encoding", "unrepresentable-characters"]

/-- the diagnostics "about the charset itself" that a WELL-FORMED `text/plain; charset=<supported charset>` can produce —
    the modulo set of the transcoding clause -/
def charsetTags : List String := ["non-portable-encoding", "unrepresentable-characters"]

/-- lib/moparser.py:172-178 "MO entries mimic PO entries": a comment that reads as empty (`comment or ''`), no flags, no
    references, no previous msgid, always translated -/
def documentedMoEntryFields : List (String × String) := [
  ("entry.comment", "falsy"),
  ("entry.flags", "empty"),
  ("entry.occurrences", "empty"),
  ("entry.previous_msgctxt", "None"),
  ("entry.previous_msgid", "None"),
  ("entry.previous_msgid_plural", "None"),
  ("entry.translated", "lambda: True")]

/-- how the checker reads the attributes whose REPRESENTATION differs between the loaders (`''` / `None`, list / tuple,
    method / lambda): each form is insensitive to the difference (`Meta.observe`) -/
def documentedEntryAttrReads : List (String × String × String) := [
  ("comment", "Checker._check_message_formats", "message.comment or ''"),
  ("flags", "Checker._check_message_flags", "collections.Counter(message.flags)"),
  ("flags", "Checker.check_headers", "collections.Counter(entry.flags)"),
  ("obsolete", "Checker.check_headers", "not is_header_entry(entry) or entry.obsolete"),
  ("obsolete", "Checker.check_messages", "message.obsolete"),
  ("obsolete", "Checker.check_plurals", "message.obsolete"),
  ("occurrences", "Checker.check_headers", "entry.occurrences"),
  ("occurrences", "Checker.check_headers", "self.tag('empty-msgid-message-with-source-code-references', *(str.join(':', (path, line)) for path, line in entry.occurrences))"),
  ("previous_msgctxt", "Checker.check_messages", "message.previous_msgctxt"),
  ("previous_msgid", "Checker.check_messages", "message.previous_msgid"),
  ("previous_msgid_plural", "Checker.check_messages", "message.previous_msgid_plural"),
  ("translated", "Checker.check_plurals", "not message.translated()")]

/-- the attributes of an entry lib/check/ reads at all: exactly the fields of `Meta.PEntry` -/
def documentedEntryAttrs : List String :=
  ["comment", "flags", "msgctxt", "msgid", "msgid_plural", "msgstr", "msgstr_plural", "obsolete", "occurrences",
   "previous_msgctxt", "previous_msgid", "previous_msgid_plural", "translated"]

/-- `fake_root` is read by `Checker.__init__` only (to compute `fake_path`), `fake_path` and `ignore_tags` by `cli.Checker.tag`
    only: the tag CALLS a file produces do not depend on them (the parameter `raw` of `Deb.checkRegular`) -/
def documentedOptionUses : List (String × String × String) := [
  ("lib/check/__init__.py", "Checker.__init__", "read options.fake_root"),
  ("lib/check/__init__.py", "Checker.__init__", "write self.fake_path"),
  ("lib/cli.py", "Checker.tag", "read self.fake_path"),
  ("lib/cli.py", "Checker.tag", "read self.options.ignore_tags"),
  ("lib/cli.py", "check_deb", "keyword fake_root"),
  ("lib/cli.py", "check_deb", "keyword ignore_tags"),
  ("lib/cli.py", "check_deb", "read options.ignore_tags"),
  ("lib/cli.py", "main", "write options.fake_root"),
  ("lib/cli.py", "main", "write options.ignore_tags")]

end I18n.Spec.Metamorphic
