import I18n.Py
import I18n.Model.Expr
import I18n.Model.Plural
import I18n.Generated.Intexpr
import I18n.Props.C05
import I18n.Props.C06
