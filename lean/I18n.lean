import I18n.Py
import I18n.Model.Expr
import I18n.Generated.Intexpr
