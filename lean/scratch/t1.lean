import I18n.Model.Msg
open I18n I18n.Tags I18n.Msg

theorem lit_colon : tplColon = [123, 125, 58] := by decide
theorem lit_plain : tplPlain = [123, 125] := by decide

/-- closed form of `message_repr` -/
def msgRepr (db : UnicodeDB) (msgid : Str) (msgctxt : Option Str) (colon : Bool) : Str :=
  lit "msgid " ++ escapeStr db msgid ++
    (match msgctxt with | some c => lit " msgctxt " ++ escapeStr db c | none => []) ++ (if colon then [58] else [])

theorem messageRepr_plain_none (db : UnicodeDB) (m : Str) :
    messageRepr db m none tplPlain = .ok (msgRepr db m none false) := by
  simp [messageRepr, lit_plain, pyFormat, pyFormatGo, scanField, lit, safeFormat, lookupKw, escape, msgRepr, isDigits]
