#!/bin/sh
# Build the framework offline from files on disk: regenerate the models from /repo, then build the Lean library and the driver.
set -e
here=$(dirname "$(readlink -f "$0")")
cd "$here"
for t in tools/translate/*2lean.py; do /venv/bin/python "$t" /repo || true; done
/venv/bin/python tools/mkroot.py
cd lean && lake build I18n driver
