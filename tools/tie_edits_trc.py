#!/usr/bin/env python3
"""The "does it bite" tables of the ties C19 (ling), C18 (gettextdate), C12 (pyfmtscan), C13 (pybracefield): an extension of
tools/tie_edits.py (same usage, same output files) kept in its own module so that parallel builders do not edit one table.
usage: tools/tie_edits_trc.py <tie> [--check Cxx] [edit …]"""
import os, sys
sys.path.insert(0, os.path.dirname(os.path.abspath(__file__)))
import tie_edits as TE
from tie_edits import ed, seeded, both

LG = 'lib/ling.py'
FIX = ("        fixed = None\n        ll = self.language_code\n        ll = _lookup_language_code(ll)\n        if ll is None:\n"
       "            # TODO: Try to guess correct language code.\n            raise FixingLanguageCodesFailed()\n        elif ll != self.language_code:\n            fixed = True\n"
       "        cc = self.territory_code\n        if cc is not None:\n            cc = lookup_territory_code(cc)\n            if cc is None:\n"
       "                # TODO: Try to guess correct territory code.\n                raise FixingLanguageCodesFailed()\n            elif cc != self.territory_code:\n"
       "                # This shouldn't really happen, but better safe than sorry.\n                raise ValueError  # no coverage\n"
       "            # TODO: ll_CC could be still incorrect, even when both ll and CC are\n            # correct.\n"
       "        self.language_code = ll\n        self.territory_code = cc\n        return fixed\n")
FIX_RENAMED = ("        changed = None\n        code = self.language_code\n        code = _lookup_language_code(code)\n        if code is None:\n"
       "            raise FixingLanguageCodesFailed()\n        elif code != self.language_code:\n            changed = True\n"
       "        terr = self.territory_code\n        if terr is not None:\n            terr = lookup_territory_code(terr)\n            if terr is None:\n"
       "                raise FixingLanguageCodesFailed()\n            elif terr != self.territory_code:\n"
       "                raise ValueError  # no coverage\n"
       "        self.language_code = code\n        self.territory_code = terr\n        return changed\n")

TE.TIES['ling'] = {
  'translators': ['ling'], 'module': 'I18n.Props.C19Tie', 'tests': ['tests/test_ling.py'],
  'edits': {
   'fix-territory-unchecked-when-fixed': ed(LG, ("        if cc is not None:\n            cc = lookup_territory_code(cc)", "        if cc is not None and fixed is None:\n            cc = lookup_territory_code(cc)")),
   'fix-fixed-always': ed(LG, ("        elif ll != self.language_code:\n            fixed = True", "        else:\n            fixed = True")),
   'fix-code-not-stored': ed(LG, ("        self.language_code = ll\n        self.territory_code = cc\n        return fixed", "        self.territory_code = cc\n        return fixed")),
   'fix-unknown-language-kept': ed(LG, ("        if ll is None:\n            # TODO: Try to guess correct language code.\n            raise FixingLanguageCodesFailed()\n        elif", "        if ll is None:\n            ll = self.language_code\n        elif")),
   'fix-territory-error-class': ed(LG, ("                # TODO: Try to guess correct territory code.\n                raise FixingLanguageCodesFailed()", "                # TODO: Try to guess correct territory code.\n                raise ValueError")),
   'remove-encoding-keeps-it': ed(LG, ("        self.encoding = None\n        return True\n\n    def remove_nonlinguistic_modifier", "        return True\n\n    def remove_nonlinguistic_modifier")),
   'remove-encoding-result-dropped': ed(LG, ("        self.encoding = None\n        return True\n\n    def remove_nonlinguistic_modifier", "        self.encoding = None\n        return\n\n    def remove_nonlinguistic_modifier")),
   'remove-modifier-any': ed(LG, ("        if self.modifier == 'euro':", "        if self.modifier is not None:")),
   'remove-modifier-other-word': ed(LG, ("        if self.modifier == 'euro':", "        if self.modifier == 'latin':")),
   'str-encoding-separator': ed(LG, ("            s += '.' + self.encoding", "            s += '@' + self.encoding")),
   'str-modifier-before-encoding': ed(LG, ("        if self.encoding is not None:\n            s += '.' + self.encoding\n        if self.modifier is not None:\n            s += '@' + self.modifier\n        return s\n\n    def __repr__",
                                            "        if self.modifier is not None:\n            s += '@' + self.modifier\n        if self.encoding is not None:\n            s += '.' + self.encoding\n        return s\n\n    def __repr__")),
   'init-encoding-not-uppercased': ed(LG, ("            self.encoding = encoding.upper()", "            self.encoding = encoding")),
   'init-encoding-lowercased': ed(LG, ("            self.encoding = encoding.upper()", "            self.encoding = encoding.lower()")),
   'init-modifier-as-territory': ed(LG, ("        self.modifier = modifier\n", "        self.modifier = territory_code\n")),
   'parse-search': ed(LG, ("    match = _language_regexp.match(s)", "    match = _language_regexp.search(s)")),
   'parse-error-class': ed(LG, ("    if match is None:\n        raise LanguageSyntaxError", "    if match is None:\n        raise ValueError")),
   'almost-equal-other-not-normalised': ed(LG, ("        other_clone = other.clone()\n        other_clone.remove_principal_territory_code()\n", "        other_clone = other.clone()\n")),
   'principal-territory-inverted': ed(LG, ("        if cc == default_cc:\n            self.territory_code = None", "        if cc != default_cc:\n            self.territory_code = None")),
   'lookup-territory-uppercases': ed(LG, ("    if cc in _iso_3166:\n        return cc", "    if cc in _iso_3166:\n        return cc.upper()")),
   'eq-ignores-modifier': ed(LG, ("        return self._get_tuple() == other._get_tuple()  # pylint: disable=protected-access", "        return self._get_tuple()[:3] == other._get_tuple()[:3]")),
   'seeded/C19-a': seeded('C19-a'),
   # behaviour-preserving
   'bp-rename-locals': ed(LG, (FIX, FIX_RENAMED)),
   'bp-reorder-stores': ed(LG, ("        self.language_code = ll\n        self.territory_code = cc\n        return fixed", "        self.territory_code = cc\n        self.language_code = ll\n        return fixed")),
   'bp-flip-comparisons': ed(LG, ("        elif ll != self.language_code:", "        elif self.language_code != ll:"), ("        if cc == default_cc:", "        if default_cc == cc:"),
                              ("        if self.modifier == 'euro':", "        if 'euro' == self.modifier:")),
   'bp-str-plus': ed(LG, ("            s += '_' + self.territory_code\n        if self.encoding is not None:\n            s += '.' + self.encoding",
                          "            s = s + '_' + self.territory_code\n        if self.encoding is not None:\n            s = s + ('.' + self.encoding)")),
   'bp-split-helper': ed(LG, ("    def remove_encoding(self):\n        if self.encoding is None:\n            return\n        self.encoding = None\n        return True\n",
                              "    def _has_encoding(self):\n        return self.encoding is not None\n\n    def _lookup(self, code):\n        return _lookup_language_code(code)\n\n"
                              "    def remove_encoding(self):\n        if not self._has_encoding():\n            return\n        self.encoding = None\n        return True\n"),
                         ("        ll = _lookup_language_code(ll)\n        if ll is None:\n            # TODO", "        ll = self._lookup(ll)\n        if ll is None:\n            # TODO")),
   'bp-elif-to-nested-if': ed(LG, ("            raise FixingLanguageCodesFailed()\n        elif ll != self.language_code:\n            fixed = True", "            raise FixingLanguageCodesFailed()\n        if ll != self.language_code:\n            fixed = True")),
   'bp-comments-docstrings': ed(LG, ("    def fix_codes(self):\n        fixed = None\n", "    def fix_codes(self):\n        '''replace the codes by their canonical forms'''\n        # nothing changed so far:\n        fixed = None\n"),
                                ("def parse_language(s):\n", "def parse_language(s):\n    '''locale name -> Language'''\n")),
  }}

if __name__ == '__main__':
    TE.main()
