#!/usr/bin/env python3
"""The "does it bite" tables of the ties C19 (ling), C18 (gettextdate), C12 (pyfmtscan), C13 (pybracefield): an extension of
tools/tie_edits.py (same usage, same output files) kept in its own module so that parallel builders do not edit one table.
usage: tools/tie_edits_trc.py <tie> [--check Cxx] [edit …]"""
import os, sys
sys.path.insert(0, os.path.dirname(os.path.abspath(__file__)))
import tie_edits as TE
from tie_edits import ed, seeded, both

LG = 'lib/ling.py'
FIX = ("        fixed = None\n        ll = self.language_code\n        ll = _lookup_language_code(ll)\n        if ll is None:\n"
       "            # TODO: Try to guess correct language code.\n            raise FixingLanguageCodesFailed()\n        elif ll != self.language_code:\n            fixed = True\n"
       "        cc = self.territory_code\n        if cc is not None:\n            cc = lookup_territory_code(cc)\n            if cc is None:\n"
       "                # TODO: Try to guess correct territory code.\n                raise FixingLanguageCodesFailed()\n            elif cc != self.territory_code:\n"
       "                # This shouldn't really happen, but better safe than sorry.\n                raise ValueError  # no coverage\n"
       "            # TODO: ll_CC could be still incorrect, even when both ll and CC are\n            # correct.\n"
       "        self.language_code = ll\n        self.territory_code = cc\n        return fixed\n")
FIX_RENAMED = ("        changed = None\n        code = self.language_code\n        code = _lookup_language_code(code)\n        if code is None:\n"
       "            raise FixingLanguageCodesFailed()\n        elif code != self.language_code:\n            changed = True\n"
       "        terr = self.territory_code\n        if terr is not None:\n            terr = lookup_territory_code(terr)\n            if terr is None:\n"
       "                raise FixingLanguageCodesFailed()\n            elif terr != self.territory_code:\n"
       "                raise ValueError  # no coverage\n"
       "        self.language_code = code\n        self.territory_code = terr\n        return changed\n")

TE.TIES['ling'] = {
  'translators': ['linglang'], 'module': 'I18n.Props.C19Tie', 'tests': ['tests/test_ling.py'],
  'edits': {
   'fix-territory-unchecked-when-fixed': ed(LG, ("        if cc is not None:\n            cc = lookup_territory_code(cc)", "        if cc is not None and fixed is None:\n            cc = lookup_territory_code(cc)")),
   'fix-fixed-always': ed(LG, ("        elif ll != self.language_code:\n            fixed = True", "        else:\n            fixed = True")),
   'fix-code-not-stored': ed(LG, ("        self.language_code = ll\n        self.territory_code = cc\n        return fixed", "        self.territory_code = cc\n        return fixed")),
   'fix-unknown-language-kept': ed(LG, ("        if ll is None:\n            # TODO: Try to guess correct language code.\n            raise FixingLanguageCodesFailed()\n        elif", "        if ll is None:\n            ll = self.language_code\n        elif")),
   'fix-territory-error-class': ed(LG, ("                # TODO: Try to guess correct territory code.\n                raise FixingLanguageCodesFailed()", "                # TODO: Try to guess correct territory code.\n                raise ValueError")),
   'remove-encoding-keeps-it': ed(LG, ("        self.encoding = None\n        return True\n\n    def remove_nonlinguistic_modifier", "        return True\n\n    def remove_nonlinguistic_modifier")),
   'remove-encoding-result-dropped': ed(LG, ("        self.encoding = None\n        return True\n\n    def remove_nonlinguistic_modifier", "        self.encoding = None\n        return\n\n    def remove_nonlinguistic_modifier")),
   'remove-modifier-any': ed(LG, ("        if self.modifier == 'euro':", "        if self.modifier is not None:")),
   'remove-modifier-other-word': ed(LG, ("        if self.modifier == 'euro':", "        if self.modifier == 'latin':")),
   'str-encoding-separator': ed(LG, ("            s += '.' + self.encoding", "            s += '@' + self.encoding")),
   'str-modifier-before-encoding': ed(LG, ("        if self.encoding is not None:\n            s += '.' + self.encoding\n        if self.modifier is not None:\n            s += '@' + self.modifier\n        return s\n\n    def __repr__",
                                            "        if self.modifier is not None:\n            s += '@' + self.modifier\n        if self.encoding is not None:\n            s += '.' + self.encoding\n        return s\n\n    def __repr__")),
   'init-encoding-not-uppercased': ed(LG, ("            self.encoding = encoding.upper()", "            self.encoding = encoding")),
   'init-encoding-lowercased': ed(LG, ("            self.encoding = encoding.upper()", "            self.encoding = encoding.lower()")),
   'init-modifier-as-territory': ed(LG, ("        self.modifier = modifier\n", "        self.modifier = territory_code\n")),
   'parse-search': ed(LG, ("    match = _language_regexp.match(s)", "    match = _language_regexp.search(s)")),
   'parse-error-class': ed(LG, ("    if match is None:\n        raise LanguageSyntaxError", "    if match is None:\n        raise ValueError")),
   'almost-equal-other-not-normalised': ed(LG, ("        other_clone = other.clone()\n        other_clone.remove_principal_territory_code()\n", "        other_clone = other.clone()\n")),
   'principal-territory-inverted': ed(LG, ("        if cc == default_cc:\n            self.territory_code = None", "        if cc != default_cc:\n            self.territory_code = None")),
   'lookup-territory-uppercases': ed(LG, ("    if cc in _iso_3166:\n        return cc", "    if cc in _iso_3166:\n        return cc.upper()")),
   'eq-ignores-modifier': ed(LG, ("        return self._get_tuple() == other._get_tuple()  # pylint: disable=protected-access", "        return self._get_tuple()[:3] == other._get_tuple()[:3]")),
   'seeded/C19-a': seeded('C19-a'),
   # behaviour-preserving
   'bp-rename-locals': ed(LG, (FIX, FIX_RENAMED)),
   'bp-reorder-stores': ed(LG, ("        self.language_code = ll\n        self.territory_code = cc\n        return fixed", "        self.territory_code = cc\n        self.language_code = ll\n        return fixed")),
   'bp-flip-comparisons': ed(LG, ("        elif ll != self.language_code:", "        elif self.language_code != ll:"), ("        if cc == default_cc:", "        if default_cc == cc:"),
                              ("        if self.modifier == 'euro':", "        if 'euro' == self.modifier:")),
   'bp-str-plus': ed(LG, ("            s += '_' + self.territory_code\n        if self.encoding is not None:\n            s += '.' + self.encoding",
                          "            s = s + '_' + self.territory_code\n        if self.encoding is not None:\n            s = s + ('.' + self.encoding)")),
   'bp-split-helper': ed(LG, ("    def remove_encoding(self):\n        if self.encoding is None:\n            return\n        self.encoding = None\n        return True\n",
                              "    def _has_encoding(self):\n        return self.encoding is not None\n\n    def _lookup(self, code):\n        return _lookup_language_code(code)\n\n"
                              "    def remove_encoding(self):\n        if not self._has_encoding():\n            return\n        self.encoding = None\n        return True\n"),
                         ("        ll = _lookup_language_code(ll)\n        if ll is None:\n            # TODO", "        ll = self._lookup(ll)\n        if ll is None:\n            # TODO")),
   'bp-elif-to-nested-if': ed(LG, ("            raise FixingLanguageCodesFailed()\n        elif ll != self.language_code:\n            fixed = True", "            raise FixingLanguageCodesFailed()\n        if ll != self.language_code:\n            fixed = True")),
   'bp-comments-docstrings': ed(LG, ("    def fix_codes(self):\n        fixed = None\n", "    def fix_codes(self):\n        '''replace the codes by their canonical forms'''\n        # nothing changed so far:\n        fixed = None\n"),
                                ("def parse_language(s):\n", "def parse_language(s):\n    '''locale name -> Language'''\n")),
  }}

def seeded3(name):
    """a seeded patch made against an older tree: plain apply, else a three-way apply"""
    def f(repo):
        patch = os.path.join(TE.HERE, 'seeded', name, 'patch.diff')
        rc, out = TE.sh(['git', 'apply', patch], cwd=repo)
        if rc != 0:
            rc, out = TE.sh(['git', 'apply', '--3way', patch], cwd=repo)
        if rc != 0: raise SystemExit(f'seeded/{name} does not apply: {out[-200:]}')
    return f

CKL = 'lib/check/__init__.py'
TE.TIES['chklang'] = {
  'translators': ['linglang', 'chklang'], 'module': 'I18n.Props.C19Tie', 'tests': ['tests/test_ling.py'],
  'edits': {
   'seeded/C19-d': seeded3('C19-d'), 'seeded/C19-c': seeded3('C19-c'), 'seeded/X1-a': seeded3('X1-a'),
   'lc-remove-encoding-dropped': ed(CKL, ("                    language.fix_codes()\n                    language.remove_encoding()\n", "                    language.fix_codes()\n")),
   'basename-quality-one': ed(CKL, ("                language_source = 'pathname'\n                language_source_quality = 0", "                language_source = 'pathname'\n                language_source_quality = 1")),
   'lc-last-component': ed(CKL, ("                language = path_components[i - 1]", "                language = path_components[i]")),
   # behaviour-preserving
   'bp-rename-locals': ed(CKL, ("            path_components = os.path.normpath(self.path).split('/')\n            try:\n                i = path_components.index('LC_MESSAGES')\n            except ValueError:\n                i = 0\n            if i > 0:\n                language = path_components[i - 1]",
                                "            parts = os.path.normpath(self.path).split('/')\n            try:\n                i = parts.index('LC_MESSAGES')\n            except ValueError:\n                i = 0\n            if i > 0:\n                language = parts[i - 1]"),
                           ("            del path_components, i", "            del parts, i")),
   'bp-comments': ed(CKL, ("        language = self.options.language\n", "        # the -l option first:\n        language = self.options.language\n")),
  }}

GT = 'lib/gettext.py'
ZONE = ("    if (zhour is not None) and (zminute is not None):\n        zone = zhour + zminute\n    elif zabbr is not None:\n        try:\n            [zone] = _timezones[zabbr]\n"
        "        except ValueError:\n            raise DateSyntaxError('ambiguous timezone abbreviation: ' + zabbr)\n    elif tz_hint is not None:\n        zone = tz_hint\n    else:\n        raise DateSyntaxError\n")
TE.TIES['gettextdate'] = {
  'translators': ['gettextdate'], 'module': 'I18n.Props.C18Tie', 'tests': ['tests/test_gettext.py'],
  'edits': {
   'seeded/C18-a': seeded('C18-a'),
   'strip-dropped': ed(GT, ("    s = s.strip()\n    if _search_for_date_boilerplate(s):", "    if _search_for_date_boilerplate(s):")),
   'boilerplate-check-dropped': ed(GT, ("    if _search_for_date_boilerplate(s):\n        raise BoilerplateDate\n", "")),
   'boilerplate-error-class': ed(GT, ("    if _search_for_date_boilerplate(s):\n        raise BoilerplateDate\n", "    if _search_for_date_boilerplate(s):\n        raise DateSyntaxError\n")),
   'hint-fullmatch-dropped': ed(GT, ("        if not re.fullmatch('[+-][0-9]{4}', tz_hint):\n            raise ValueError(f'invalid timezone hint: {tz_hint!r}')\n", "")),
   'hint-strptime-dropped': ed(GT, ("        datetime.datetime.strptime(tz_hint, '%z')  # just check syntax\n", "")),
   'hint-pattern-longer': ed(GT, ("re.fullmatch('[+-][0-9]{4}', tz_hint)", "re.fullmatch('[+-][0-9]{4,}', tz_hint)")),
   'hint-error-class': ed(GT, ("            raise ValueError(f'invalid timezone hint: {tz_hint!r}')", "            raise DateSyntaxError(f'invalid timezone hint: {tz_hint!r}')")),
   'zone-minutes-first': ed(GT, ("        zone = zhour + zminute", "        zone = zminute + zhour")),
   'zone-only-hour-tested': ed(GT, ("    if (zhour is not None) and (zminute is not None):", "    if zhour is not None:")),
   'hint-before-abbreviation': ed(GT, (ZONE, "    if (zhour is not None) and (zminute is not None):\n        zone = zhour + zminute\n    elif tz_hint is not None:\n        zone = tz_hint\n    elif zabbr is not None:\n        try:\n            [zone] = _timezones[zabbr]\n"
        "        except ValueError:\n            raise DateSyntaxError('ambiguous timezone abbreviation: ' + zabbr)\n    else:\n        raise DateSyntaxError\n")),
   'ambiguous-abbreviation-first-offset': ed(GT, ("            [zone] = _timezones[zabbr]", "            zone = _timezones[zabbr][0]")),
   'ambiguous-abbreviation-error-class': ed(GT, ("            raise DateSyntaxError('ambiguous timezone abbreviation: ' + zabbr)", "            raise BoilerplateDate('ambiguous timezone abbreviation: ' + zabbr)")),
   'no-zone-defaults-to-utc': ed(GT, ("        zone = tz_hint\n    else:\n        raise DateSyntaxError\n", "        zone = tz_hint\n    else:\n        zone = '+0000'\n")),
   'no-match-error-class': ed(GT, ("    if match is None:\n        raise DateSyntaxError\n    (date, time", "    if match is None:\n        raise BoilerplateDate\n    (date, time")),
   'assembly-T': ed(GT, ("    s = f'{date} {time}{zone}'", "    s = f'{date}T{time}{zone}'")),
   'groups-date-time-swapped': ed(GT, ("    (date, time, zhour, zminute, zabbr) = match.groups()", "    (time, date, zhour, zminute, zabbr) = match.groups()")),
   'calendar-check-dropped': ed(GT, ("    parse_date(s)  # just check syntax\n", "")),
   'parse-date-format-seconds': ed(GT, ("strptime(s, '%Y-%m-%d %H:%M%z')", "strptime(s, '%Y-%m-%d %H:%M:%S%z')")),
   'parse-date-error-class': ed(GT, ("        raise DateSyntaxError(exc)", "        raise ValueError(exc)")),
   'parse-date-error-swallowed': ed(GT, ("    except ValueError as exc:\n        raise DateSyntaxError(exc)", "    except ValueError as exc:\n        return None")),
   # behaviour-preserving
   'bp-rename-locals': ed(GT, ("    match = _parse_date(s)\n    if match is None:\n        raise DateSyntaxError\n    (date, time, zhour, zminute, zabbr) = match.groups()\n" + ZONE + "    s = f'{date} {time}{zone}'\n",
                               "    m = _parse_date(s)\n    if m is None:\n        raise DateSyntaxError\n    (d, t, zh, zm, za) = m.groups()\n" +
                               ZONE.replace('zhour', 'zh').replace('zminute', 'zm').replace('zabbr', 'za').replace('zone', 'z').replace('_timezs', '_timezones').replace('timez ', 'timezone ') + "    s = f'{d} {t}{z}'\n")),
   'bp-match-before-hint-check': ed(GT, ("    if tz_hint is not None:\n        if not re.fullmatch", "    match = _parse_date(s)\n    if tz_hint is not None:\n        if not re.fullmatch"),
                                         ("        datetime.datetime.strptime(tz_hint, '%z')  # just check syntax\n    match = _parse_date(s)\n", "        datetime.datetime.strptime(tz_hint, '%z')  # just check syntax\n")),
   'bp-flip-tests': ed(GT, ("    if (zhour is not None) and (zminute is not None):", "    if (zminute is not None) and (zhour is not None):"), ("    assert len(s) == 21, f'len({s!r}) != 21'", "    assert 21 == len(s), f'len({s!r}) != 21'")),
   'bp-split-helper': ed(GT, ("def fix_date_format(s, *, tz_hint=None):", "def _resolve_zone(zhour, zminute, zabbr, tz_hint):\n" + ZONE + "    return zone\n\ndef fix_date_format(s, *, tz_hint=None):"),
                              ("    (date, time, zhour, zminute, zabbr) = match.groups()\n" + ZONE, "    (date, time, zhour, zminute, zabbr) = match.groups()\n    zone = _resolve_zone(zhour, zminute, zabbr, tz_hint)\n")),
   'bp-elif-to-nested-if': ed(GT, ("    elif tz_hint is not None:\n        zone = tz_hint\n    else:\n        raise DateSyntaxError\n    s = f", "    else:\n        if tz_hint is not None:\n            zone = tz_hint\n        else:\n            raise DateSyntaxError\n    s = f")),
   'bp-concatenation': ed(GT, ("    s = f'{date} {time}{zone}'", "    s = date + ' ' + time + zone")),
   'bp-comments-docstrings': ed(GT, ("def fix_date_format(s, *, tz_hint=None):\n", "def fix_date_format(s, *, tz_hint=None):\n    '''normalise a date header value'''\n    # white space first:\n"),
                                    ("def parse_date(s):\n", "def parse_date(s):\n    '''canonical text -> aware datetime'''\n")),
  }}

PF = 'lib/strformat/python.py'
TE.TIES['pyfmtconv'] = {
  'translators': ['pyfmtconv'], 'module': 'I18n.Props.C12Tie', 'tests': ['tests/test_strformat_python.py'],
  'edits': {
   'seeded/C12-b': seeded('C12-b'), 'seeded/C12-c': seeded('C12-c'),
   'hash-flag-float-dropped': ed(PF, ("                if conv not in i.oct_cvt + i.hex_cvt + i.float_cvt:", "                if conv not in i.oct_cvt + i.hex_cvt:")),
   'zero-flag-int-only': ed(PF, ("                assert flag in '0 +'\n                if conv not in i.int_cvt + i.float_cvt:", "                assert flag in '0 +'\n                if conv not in i.int_cvt:")),
   'redundant-count-two': ed(PF, ("            if count != 1:", "            if count > 2:")),
   'plus-space-pair-dropped': ed(PF, ("        for f1, f2 in [('-', '0'), ('+', ' ')]:", "        for f1, f2 in [('-', '0')]:")),
   'width-limit-inclusive': ed(PF, ("        elif width > SSIZE_MAX:", "        elif width >= SSIZE_MAX:")),
   'prec-limit-minus-two': ed(PF, ("            if (conv in i.int_cvt) and (prec > SSIZE_MAX - 3):", "            if (conv in i.int_cvt) and (prec > SSIZE_MAX - 2):")),
   'prec-limit-all-conversions': ed(PF, ("            if (conv in i.int_cvt) and (prec > SSIZE_MAX - 3):", "            if prec > SSIZE_MAX - 3:")),
   'prec-error-class': ed(PF, ("                raise PrecisionRangeError(s, prec)", "                raise WidthRangeError(s, prec)")),
   'star-precision-not-registered': ed(PF, ("            assert prec is None\n            try:\n                parent.add_argument(None, VariablePrecision(self))\n            except IndexError:\n                raise ArgumentIndexingMixture(s)\n            prec = ...", "            assert prec is None\n            prec = ...")),
   'star-width-as-precision': ed(PF, ("                parent.add_argument(None, VariableWidth(self))", "                parent.add_argument(None, VariablePrecision(self))")),
   'precision-warning-class': ed(PF, ("                parent.warn(RedundantPrecision, s, prec)", "                parent.warn(RedundantFlag, s, prec)")),
   'redundant-precision-c-only': ed(PF, ("            if conv in 'c%':", "            if conv in 'c':")),
   'length-warning-dropped': ed(PF, ("        if length is not None:\n            parent.warn(RedundantLength, s, length)\n", "")),
   'type-chr-as-str': ed(PF, ("            tp = 'chr'", "            tp = 'str'")),
   'type-a-unknown': ed(PF, ("        elif conv in 'ra':", "        elif conv in 'r':")),
   'obsolete-i': ed(PF, ("            if conv == 'u':", "            if conv == 'i':")),
   'forbidden-key-allowed': ed(PF, ("            if key is not None:\n                raise ForbiddenArgumentKey(s)", "            if key is not None:\n                pass")),
   'mixture-error-class': ed(PF, ("            try:\n                parent.add_argument(key, self)\n            except IndexError:\n                raise ArgumentIndexingMixture(s)", "            try:\n                parent.add_argument(key, self)\n            except IndexError:\n                raise ForbiddenArgumentKey(s)")),
   'add-argument-unnamed-after-named': ed(PF, ("        if key is None:\n            if self._map_arguments:\n                raise IndexError\n", "        if key is None:\n")),
   'add-argument-prepends': ed(PF, ("            self._seq_arguments += [arg]", "            self._seq_arguments = [arg] + self._seq_arguments")),
   # behaviour-preserving
   'bp-rename-locals': ed(PF, ("        for flag, count in flags.items():\n            if count != 1:\n                parent.warn(RedundantFlag, s, flag, flag)\n            if flag == '#':", "        for fl, cnt in flags.items():\n            if cnt != 1:\n                parent.warn(RedundantFlag, s, fl, fl)\n            if fl == '#':"),
                          ("                    parent.warn(RedundantFlag, s, flag)\n            elif flag == '-':\n                pass\n            else:\n                assert flag in '0 +'\n                if conv not in i.int_cvt + i.float_cvt:\n                    parent.warn(RedundantFlag, s, flag)",
                           "                    parent.warn(RedundantFlag, s, fl)\n            elif fl == '-':\n                pass\n            else:\n                assert fl in '0 +'\n                if conv not in i.int_cvt + i.float_cvt:\n                    parent.warn(RedundantFlag, s, fl)"),
                          ("        for f1, f2 in [('-', '0'), ('+', ' ')]:\n            if (f1 in flags) and (f2 in flags):\n                parent.warn(RedundantFlag, s, f1, f2)", "        for a, b in [('-', '0'), ('+', ' ')]:\n            if (a in flags) and (b in flags):\n                parent.warn(RedundantFlag, s, a, b)")),
   'bp-flip-comparisons': ed(PF, ("            if count != 1:", "            if 1 != count:"), ("        elif width > SSIZE_MAX:", "        elif SSIZE_MAX < width:"), ("        if tp == 'None':", "        if 'None' == tp:"), ("            if prec > SSIZE_MAX:", "            if SSIZE_MAX < prec:")),
   'bp-alias-moved': ed(PF, ("        assert s[-1] == conv, f'{s[-1]} != {conv}'\n        i = _info\n", "        i = _info\n        assert s[-1] == conv, f'{s[-1]} != {conv}'\n")),
   'bp-split-helper': ed(PF, ("class VariableWidth:", "def _is_integer_conversion(conv):\n    return conv in _info.int_cvt\n\nclass VariableWidth:"), ("            if (conv in i.int_cvt) and (prec > SSIZE_MAX - 3):", "            if _is_integer_conversion(conv) and (prec > SSIZE_MAX - 3):")),
   'bp-elif-to-nested-if': ed(PF, ("            elif flag == '-':\n                pass\n            else:\n                assert flag in '0 +'\n                if conv not in i.int_cvt + i.float_cvt:\n                    parent.warn(RedundantFlag, s, flag)",
                                   "            else:\n                if flag == '-':\n                    pass\n                else:\n                    assert flag in '0 +'\n                    if conv not in i.int_cvt + i.float_cvt:\n                        parent.warn(RedundantFlag, s, flag)")),
   'bp-not-in': ed(PF, ("                if conv not in i.oct_cvt + i.hex_cvt + i.float_cvt:", "                if not (conv in i.oct_cvt + i.hex_cvt + i.float_cvt):")),
   'bp-comments-docstrings': ed(PF, ("    def add_argument(self, key, arg):\n", "    def add_argument(self, key, arg):\n        '''register one argument'''\n"), ("        i = _info\n        for flag, count", "        i = _info\n        # the flags, one by one:\n        for flag, count")),
  }}

CK = 'lib/check/__init__.py'
TE.TIES['checkdates'] = {
  'translators': ['gettextdate', 'checkdates'], 'module': 'I18n.Props.C18Tie', 'tests': ['tests/test_gettext.py'],
  'edits': {
   'seeded/C18-b': seeded('C18-b'), 'seeded/C18-c': seeded('C18-c'), 'seeded/C17-d': seeded('C17-d'),
   'publican-prefix-short': ed(CK, ("        is_publican = content_type.startswith('application/x-publican;')", "        is_publican = content_type.startswith('application/x-publican')")),
   'duplicates-not-sorted': ed(CK, ("                self.tag('duplicate-header-field-date', field)\n                dates = sorted(set(dates))", "                self.tag('duplicate-header-field-date', field)")),
   'binary-exemption-both-fields': ed(CK, ("                if field.startswith('POT-') and ctx.is_binary:", "                if ctx.is_binary:")),
   'missing-field-untagged': ed(CK, ("                self.tag('no-date-header-field', field)\n                continue", "                continue")),
   'template-exemption-any-field': ed(CK, ("                if ctx.is_template and field.startswith('PO-') and (date == gettext.boilerplate_date):", "                if ctx.is_template and (date == gettext.boilerplate_date):")),
   'hint-without-T': ed(CK, ("                if 'T' in date and is_publican:", "                if is_publican:")),
   'hint-value': ed(CK, ("                    tz_hint = '-0000'", "                    tz_hint = '+0000'")),
   'boilerplate-tag-name': ed(CK, ("                    self.tag('boilerplate-in-date', tags.safestr(field + ':'), date)", "                    self.tag('invalid-date', tags.safestr(field + ':'), date)")),
   'except-order-swapped': ed(CK, ("                except gettext.BoilerplateDate:\n                    self.tag('boilerplate-in-date', tags.safestr(field + ':'), date)\n                    continue\n                except gettext.DateSyntaxError:\n                    self.tag('invalid-date', tags.safestr(field + ':'), date)\n                    continue",
                                   "                except gettext.DateSyntaxError:\n                    self.tag('invalid-date', tags.safestr(field + ':'), date)\n                    continue\n                except gettext.BoilerplateDate:\n                    self.tag('boilerplate-in-date', tags.safestr(field + ':'), date)\n                    continue")),
   'fixed-tag-unconditional': ed(CK, ("                    if date != fixed_date:\n                        self.tag('invalid-date', tags.safestr(field + ':'), date, '=>', fixed_date)", "                    self.tag('invalid-date', tags.safestr(field + ':'), date, '=>', fixed_date)")),
   'future-inclusive': ed(CK, ("                if stamp > misc.utc_now():", "                if not (stamp < misc.utc_now()):")),
   'ancient-then-future-order': ed(CK, ("                if stamp > misc.utc_now():\n                    self.tag('date-from-future', tags.safestr(field + ':'), date)\n                if stamp < gettext.epoch:\n                    self.tag('ancient-date', tags.safestr(field + ':'), date)",
                                       "                if stamp < gettext.epoch:\n                    self.tag('ancient-date', tags.safestr(field + ':'), date)\n                if stamp > misc.utc_now():\n                    self.tag('date-from-future', tags.safestr(field + ':'), date)")),
   'label-unsafe': ed(CK, ("                    self.tag('ancient-date', tags.safestr(field + ':'), date)", "                    self.tag('ancient-date', field + ':', date)")),
   'field-order': ed(CK, ("        for field in 'POT-Creation-Date', 'PO-Revision-Date':", "        for field in 'PO-Revision-Date', 'POT-Creation-Date':")),
   # behaviour-preserving
   'bp-rename-locals': ed(CK, ("                try:\n                    fixed_date = gettext.fix_date_format(date, tz_hint=tz_hint)", "                try:\n                    normal = gettext.fix_date_format(date, tz_hint=tz_hint)"),
                          ("                    if date != fixed_date:\n                        self.tag('invalid-date', tags.safestr(field + ':'), date, '=>', fixed_date)\n                stamp = gettext.parse_date(fixed_date)", "                    if date != normal:\n                        self.tag('invalid-date', tags.safestr(field + ':'), date, '=>', normal)\n                stamp = gettext.parse_date(normal)")),
   'bp-flip-comparisons': ed(CK, ("            if len(dates) > 1:\n                self.tag('duplicate-header-field-date', field)", "            if 1 < len(dates):\n                self.tag('duplicate-header-field-date', field)"), ("                    if date != fixed_date:", "                    if fixed_date != date:")),
   'bp-else-to-straight-line': ed(CK, ("                else:\n                    if date != fixed_date:\n                        self.tag('invalid-date', tags.safestr(field + ':'), date, '=>', fixed_date)\n                stamp",
                                       "                if date != fixed_date:\n                    self.tag('invalid-date', tags.safestr(field + ':'), date, '=>', fixed_date)\n                stamp")),
   'bp-label-local': ed(CK, ("                if 'T' in date and is_publican:", "                if ('T' in date) and is_publican:")),
   'bp-comments-docstrings': ed(CK, ("    def check_dates(self, ctx):\n", "    def check_dates(self, ctx):\n        '''POT-Creation-Date and PO-Revision-Date'''\n")),
  }}

PB = 'lib/strformat/pybrace.py'
TE.TIES['pybracefield'] = {
  'translators': ['pybracefield'], 'module': 'I18n.Props.C13Tie', 'tests': ['tests/test_strformat_pybrace.py'],
  'edits': {
   'seeded/C13-b': seeded('C13-b'), 'seeded/C13-d': seeded('C13-d'),
   'type-c-not-int': ed(PB, ("            elif ftype in 'bcdoxX':", "            elif ftype in 'bdoxX':")),
   'type-s-also-int': ed(PB, ("            elif ftype == 's':\n                tp = {'str'}", "            elif ftype == 's':\n                tp = {'str', 'int'}")),
   'n-with-comma-allowed': ed(PB, ("                if comma:\n                    raise FormatError(s)\n                tp = {'int', 'float'}", "                tp = {'int', 'float'}")),
   'comma-does-not-narrow': ed(PB, ("            if alt or sign or comma:", "            if alt or sign:")),
   'zero-does-not-imply-align': ed(PB, ("            if (align is None) and (zero is not None):\n                align = '='\n", "")),
   'align-test-other-char': ed(PB, ("            if align == '=':", "            if align == '<':")),
   'width-limit-inclusive': ed(PB, ("                if width > SSIZE_MAX:", "                if width >= SSIZE_MAX:")),
   'precision-float-only': ed(PB, ("                tp &= {'float', 'str'}", "                tp &= {'float'}")),
   'precision-limit-dropped': ed(PB, ("                precision = int(precision)\n                if precision > SSIZE_MAX:\n                    raise FormatError(s)\n", "                precision = int(precision)\n")),
   'conversion-without-str-allowed': ed(PB, ("            if 'str' not in tp:\n                raise FormatTypeMismatch(s)", "            pass")),
   'conversion-a-unknown': ed(PB, ("        elif conversion in {'!s', '!r', '!a'}:", "        elif conversion in {'!s', '!r'}:")),
   'conversion-error-class': ed(PB, ("            raise ConversionError(s)", "            raise FormatError(s)")),
   'nested-name-ignored': ed(PB, ("                    parent.add_argument(subfield_name, subfield)", "                    parent.add_argument(None, subfield)")),
   'nested-stored-as-field': ed(PB, ("                    parent.add_argument(subfield_name, subfield)", "                    parent.add_argument(subfield_name, self)")),
   'mixture-and-range-swapped': ed(PB, ("        try:\n            parent.add_argument(name, self)\n        except IndexError:\n            raise ArgumentNumberingMixture(s)\n        except OverflowError:\n            raise ArgumentRangeError(s)",
                                        "        try:\n            parent.add_argument(name, self)\n        except IndexError:\n            raise ArgumentRangeError(s)\n        except OverflowError:\n            raise ArgumentNumberingMixture(s)")),
   'format-error-argument': ed(PB, ("            if fmatch is None:\n                raise FormatError(s)", "            if fmatch is None:\n                raise FormatError(fmt)")),
   'add-argument-switch-at-one': ed(PB, ("            elif self._next_arg_index == 0:", "            elif self._next_arg_index == 1:")),
   'add-argument-range-inclusive': ed(PB, ("            n = self._next_arg_index\n            if n > SSIZE_MAX:", "            n = self._next_arg_index\n            if n >= SSIZE_MAX:")),
   'add-argument-step-two': ed(PB, ("            self._next_arg_index += 1", "            self._next_arg_index += 2")),
   'add-argument-auto-after-manual': ed(PB, ("            if self._next_arg_index is None:\n                raise IndexError\n            n = self._next_arg_index", "            if self._next_arg_index is None:\n                self._next_arg_index = 0\n            n = self._next_arg_index")),
   'add-argument-isdigit': ed(PB, ("        elif name.isdecimal():", "        elif name.isdigit():")),
   # behaviour-preserving
   'bp-rename-locals': ed(PB, ("            fmatch = _format_spec_re.match(fmt[1:])\n            if fmatch is None:\n                raise FormatError(s)\n            comma = fmatch.group('comma')\n            ftype = fmatch.group('type')\n            if ftype is None:\n                pass\n            elif ftype == 's':\n                tp = {'str'}\n            elif ftype in 'bcdoxX':\n                tp = {'int'}\n            elif ftype in 'eEfFgG%':\n                tp = {'float'}\n            elif ftype == 'n':",
                               "            m2 = _format_spec_re.match(fmt[1:])\n            if m2 is None:\n                raise FormatError(s)\n            comma = m2.group('comma')\n            ft = m2.group('type')\n            if ft is None:\n                pass\n            elif ft == 's':\n                tp = {'str'}\n            elif ft in 'bcdoxX':\n                tp = {'int'}\n            elif ft in 'eEfFgG%':\n                tp = {'float'}\n            elif ft == 'n':"),
                          ("            alt = fmatch.group('alt')\n            sign = fmatch.group('sign')", "            alt = m2.group('alt')\n            sign = m2.group('sign')"),
                          ("            align = fmatch.group('align')\n            zero = fmatch.group('zero')", "            align = m2.group('align')\n            zero = m2.group('zero')"),
                          ("            width = fmatch.group('width')", "            width = m2.group('width')"), ("            precision = fmatch.group('precision')", "            precision = m2.group('precision')")),
   'bp-flip-comparisons': ed(PB, ("            elif ftype == 's':", "            elif 's' == ftype:"), ("                if width > SSIZE_MAX:", "                if SSIZE_MAX < width:"), ("            if align == '=':", "            if '=' == align:"),
                             ("            elif self._next_arg_index == 0:", "            elif 0 == self._next_arg_index:")),
   'bp-reorder-reads': ed(PB, ("            alt = fmatch.group('alt')\n            sign = fmatch.group('sign')", "            sign = fmatch.group('sign')\n            alt = fmatch.group('alt')"),
                          ("            align = fmatch.group('align')\n            zero = fmatch.group('zero')", "            zero = fmatch.group('zero')\n            align = fmatch.group('align')")),
   'bp-split-helper': ed(PB, ("class Field:", "def _too_large(n):\n    return n > SSIZE_MAX\n\nclass Field:"), ("                if width > SSIZE_MAX:", "                if _too_large(width):"), ("                if precision > SSIZE_MAX:", "                if _too_large(precision):")),
   'bp-elif-to-nested-if': ed(PB, ("            elif ftype == 'n':\n                if comma:\n                    raise FormatError(s)\n                tp = {'int', 'float'}\n            else:\n                raise Error(s)",
                                   "            else:\n                if ftype == 'n':\n                    if comma:\n                        raise FormatError(s)\n                    tp = {'int', 'float'}\n                else:\n                    raise Error(s)")),
   'bp-comments-docstrings': ed(PB, ("    def add_argument(self, name, field):\n", "    def add_argument(self, name, field):\n        '''file a field under its key'''\n"), ("        fmt = match.group('format')\n", "        # the format specification, if any:\n        fmt = match.group('format')\n")),
  }}

if __name__ == '__main__':
    TE.main()
