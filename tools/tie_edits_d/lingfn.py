"""edits of lib/ling.py for the tie `lingfn` (tools/translate/ling2lean.py, Props/C20Tie.lean third part); loaded by tools/tie_edits.py"""
LG = 'lib/ling.py'
TIES_EXTRA = {
 'lingfn': {
  'translators': ['ling'], 'module': 'I18n.Props.C20Tie', 'tests': ['tests/test_ling.py'],
  'edits': {
   'seeded/C03-c': seeded('C03-c'), 'seeded/C20-c': seeded('C20-c'),
   'fast-path-skips-last': ed(LG, ("str.join('', characters).encode(encoding)", "str.join('', characters[:-1]).encode(encoding)")),
   'fast-path-returns-none': ed(LG, ("        else:\n            return result\n        for character in characters:", "        else:\n            return\n        for character in characters:")),
   'no-fast-path-else': ed(LG, ("        except UnicodeError:\n            pass\n        else:\n            return result\n        for character in characters:", "        except UnicodeError:\n            pass\n        for character in characters:")),
   'loop-always-breaks': ed(LG, ("                if getattr(exc, 'reason', '').startswith('iconv:'):\n                    # Avoid further calls to iconv(1):\n                    break", "                break")),
   'loop-never-breaks': ed(LG, ("                if getattr(exc, 'reason', '').startswith('iconv:'):\n                    # Avoid further calls to iconv(1):\n                    break\n", "")),
   'loop-result-prepended': ed(LG, ("                result += [character]", "                result = [character] + result")),
   'loop-break-before-append': ed(LG, ("                result += [character]\n                if getattr(exc, 'reason', '').startswith('iconv:'):\n                    # Avoid further calls to iconv(1):\n                    break",
                                        "                if getattr(exc, 'reason', '').startswith('iconv:'):\n                    # Avoid further calls to iconv(1):\n                    break\n                result += [character]")),
   'territory-lookup-only': ed(LG, ("        if characters is None:\n            code = self._simple_format(territory=False)\n            characters = _get_characters(code, self.modifier, strict=strict)\n", "")),
   'territory-ignored': ed(LG, ("        if self.territory_code is not None:\n            code = self._simple_format()\n            characters = _get_characters(code, self.modifier, strict=strict)\n", "")),
   'modifier-dropped': ed(LG, ("            code = self._simple_format(territory=False)\n            characters = _get_characters(code, self.modifier, strict=strict)", "            code = self._simple_format(territory=False)\n            characters = _get_characters(code, None, strict=strict)")),
   'strict-inverted': ed(LG, ("            code = self._simple_format()\n            characters = _get_characters(code, self.modifier, strict=strict)", "            code = self._simple_format()\n            characters = _get_characters(code, self.modifier, strict=not strict)")),
   'none-becomes-empty': ed(LG, ("        if characters is None:\n            return\n        result = []", "        if characters is None:\n            return []\n        result = []")),
   'simple-format-hyphen': ed(LG, ("    def _simple_format(self, *, territory=True):\n        s = self.language_code\n        if territory and self.territory_code is not None:\n            s += '_' + self.territory_code", "    def _simple_format(self, *, territory=True):\n        s = self.language_code\n        if territory and self.territory_code is not None:\n            s += '-' + self.territory_code")),
   'simple-format-default-false': ed(LG, ("    def _simple_format(self, *, territory=True):", "    def _simple_format(self, *, territory=False):")),
   # behaviour-preserving
   'bp-rename-locals': ed(LG, ("        result = []\n        try:\n            # If iconv(1)", "        missing = []\n        try:\n            # If iconv(1)"), ("        else:\n            return result\n        for character in characters:", "        else:\n            return missing\n        for ch in characters:"),
                              ("                character.encode(encoding)\n            except UnicodeError as exc:\n                result += [character]", "                ch.encode(encoding)\n            except UnicodeError as exc:\n                missing += [ch]"),
                              ("                    break\n        return result\n\n    def _simple_format", "                    break\n        return missing\n\n    def _simple_format")),
   'bp-plain-append': ed(LG, ("                result += [character]", "                result = result + [character]")),
   'bp-comments': ed(LG, ("    def get_unrepresentable_characters(self, encoding, *, strict=False):\n", "    def get_unrepresentable_characters(self, encoding, *, strict=False):\n        '''characters of the language that the encoding lacks'''\n")),
   'bp-joined-temp': ed(LG, ("            str.join('', characters).encode(encoding)", "            joined = str.join('', characters)\n            joined.encode(encoding)")),
   'bp-reason-temp': ed(LG, ("                if getattr(exc, 'reason', '').startswith('iconv:'):", "                reason = getattr(exc, 'reason', '')\n                if reason.startswith('iconv:'):")),
  }},
}
