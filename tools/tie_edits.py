#!/usr/bin/env python3
"""Does a tie by translation bite?  Apply edits to a scratch clone of /repo (never /repo itself), re-run the translator(s) of a tie on
the clone and rebuild the tie module; report per edit: translated / untranslatable, tie holds / which proof fails.
usage: tools/tie_edits.py <tie> [edit …]          ties and their edits: the table TIES below
       tools/tie_edits.py <tie> --check Cxx [edit …]   additionally run `./check Cxx quick` against the clone (slower)
Results are written to DESIGN-notes/<tie>-tie-edits.json.  Generated/ is regenerated from /repo at the end."""
import json, os, re, shutil, subprocess, sys, tempfile, time
HERE = os.path.dirname(os.path.dirname(os.path.abspath(__file__)))

def sh(cmd, cwd=None, env=None):
    p = subprocess.run(cmd, cwd=cwd, env=env, capture_output=True, text=True)
    return p.returncode, p.stdout + p.stderr

def ed(path, *pairs):
    def f(repo):
        p = os.path.join(repo, path)
        s = open(p, encoding='utf-8').read()
        for a, b in pairs:
            if a not in s: raise SystemExit(f'edit of {path}: {a!r} not found')
            s = s.replace(a, b, 1)
        open(p, 'w', encoding='utf-8').write(s)
    return f

def seeded(name):
    def f(repo):
        rc, out = sh(['git', 'apply', os.path.join(HERE, 'seeded', name, 'patch.diff')], cwd=repo)
        if rc != 0: raise SystemExit(f'seeded/{name} does not apply: {out[-200:]}')
    return f

def both(*fs):
    def f(repo):
        for g in fs: g(repo)
    return f

C, PY, PB, PL, SC = ('lib/check/msgformat/c.py', 'lib/check/msgformat/python.py', 'lib/check/msgformat/pybrace.py', 'lib/check/msgformat/perlbrace.py', 'lib/strformat/c.py')
TG = 'lib/tags.py'
MI = 'lib/check/msgformat/__init__.py'
GT = 'lib/gettext.py'
CI = 'lib/check/__init__.py'
MISC = 'lib/misc.py'
TIES = {
 'checkload': {
  'translators': ['checkload'], 'module': 'I18n.Props.C01Tie', 'tests': ['tests/test_misc.py'],
  'edits': {
   # mutants of tools/checks/c01_mutants.py inside Checker.check
   'm10-stat-error-narrowed': ed('lib/check/__init__.py', ("            os.stat(self.path)\n        except OSError as exc:", "            os.stat(self.path)\n        except FileNotFoundError as exc:")),
   'm09-retry-with-ascii-for-mo': ed('lib/check/__init__.py', ("file = constructor(self.path, encoding='ISO-8859-1')", "file = constructor(self.path, encoding=('ASCII' if is_binary else 'ISO-8859-1'))")),
   'm19-retry-with-ascii-for-pot': ed('lib/check/__init__.py', ("file = constructor(self.path, encoding='ISO-8859-1')", "file = constructor(self.path, encoding=('ASCII' if is_template else 'ISO-8859-1'))")),
   # further one-line changes
   'loader-oserror-narrowed': ed('lib/check/__init__.py', ("        except OSError as exc:\n            message = str(exc)", "        except FileNotFoundError as exc:\n            message = str(exc)")),
   'mo-syntax-handler-dropped': ed('lib/check/__init__.py', ("        except polib4us.moparser.SyntaxError as exc:\n            self.tag('invalid-mo-file', tags.safestr(exc))\n            return\n", "")),
   'bare-raise-dropped': ed('lib/check/__init__.py', ("                self.tag('syntax-error-in-po-file', *message_parts)\n                return\n            raise\n", "                self.tag('syntax-error-in-po-file', *message_parts)\n                return\n            return\n")),
   'errno-test-inverted': ed('lib/check/__init__.py', ("            if exc.errno is not None:\n                self.tag('os-error', tags.safestr(exc.strerror))\n                return\n            elif", "            if exc.errno is None:\n                self.tag('os-error', tags.safestr(exc.strerror))\n                return\n            elif")),
   'finally-to-after': ed('lib/check/__init__.py', ("        finally:\n            if broken_encoding:", "        if True:\n            if broken_encoding:")),
   'retry-forgets-flag': ed('lib/check/__init__.py', ("                broken_encoding = exc\n", "                pass\n")),
   'stages-swapped': ed('lib/check/__init__.py', ("        self.check_language(ctx)\n        self.check_plurals(ctx)\n", "        self.check_plurals(ctx)\n        self.check_language(ctx)\n")),
   'gmo-not-binary': ed('lib/check/__init__.py', ("elif extension in {'.mo', '.gmo'}:", "elif extension in {'.mo'}:")),
   'pot-not-template': ed('lib/check/__init__.py', ("            constructor = polib.pofile\n            is_template = True\n", "            constructor = polib.pofile\n")),
   'unknown-type-continues': ed('lib/check/__init__.py', ("            self.tag('unknown-file-type')\n            return\n", "            self.tag('unknown-file-type')\n")),
   'seeded/X1-a': seeded('X1-a'),
   # behaviour-preserving
   'bp-comment': ed('lib/check/__init__.py', ("        broken_encoding = False\n        try:\n            try:", "        broken_encoding = False  # set by the retry\n        try:\n            try:")),
   'bp-rename-local': ed('lib/check/__init__.py', ("                begin = max(broken_encoding.start - 40, 0)\n                end = broken_encoding.start + 40\n                s = s[begin:end]", "                lo = max(broken_encoding.start - 40, 0)\n                hi = broken_encoding.start + 40\n                s = s[lo:hi]")),
   'bp-elif-to-else-if': ed('lib/check/__init__.py', ("        elif extension == '.pot':\n            constructor = polib.pofile\n            is_template = True\n        elif extension in {'.mo', '.gmo'}:", "        elif extension == '.pot':\n            is_template = True\n            constructor = polib.pofile\n        elif extension in {'.mo', '.gmo'}:")),
   'bp-not-broken': ed('lib/check/__init__.py', ("        if broken_encoding:\n            ctx.encoding = None", "        if broken_encoding:\n            ctx.encoding = None\n        pass")),
  }},
 'chkplurals': {
  'translators': ['chkplurals', 'gettextpf'], 'module': 'I18n.Props.C07ChkTie', 'tests': ['tests/test_misc.py'],
  'edits': {
   'seeded/C07-a': seeded('C07-a'), 'seeded/C07-c': seeded('C07-c'), 'seeded/C07-d': seeded('C07-d'), 'seeded/C14-d': seeded('C14-d'),
   # one-line changes inside the translated part
   'window-limit-100': ed(CI, ("codomain_limit = 200", "codomain_limit = 100")),
   'codomain-ge-gt': ed(CI, ("                if fi >= n:", "                if fi > n:")),
   'else-dropped': ed(CI, ("            else:\n                ctx.plural_preimage = dict(plural_preimage)", "            if True:\n                ctx.plural_preimage = dict(plural_preimage)")),
   'zero-division-as-overflow': ed(CI, ("message = tags.safe_format('f({}): division by zero', i)", "message = tags.safe_format('f({}): integer overflow', i)")),
   'gap-upper-off-by-one': ed(CI, ("            if y + 1 < n:\n                uncov_rngs += [range(y + 1, n)]", "            if y + 1 < n:\n                uncov_rngs += [range(y, n)]")),
   'period-test-inverted': ed(CI, ("if sum(period) < codomain_limit:", "if sum(period) >= codomain_limit:")),
   'scan-left-neighbour-only': ed(CI, ("                    if (i + 1 < n) and (i + 1 not in ctx.plural_preimage):", "                    if False and (i + 1 not in ctx.plural_preimage):")),
   'preimage-not-reset': ed(CI, ("                self.tag('codomain-error-in-unused-plural-forms', message)\n            ctx.plural_preimage = None", "                self.tag('codomain-error-in-unused-plural-forms', message)\n            pass")),
   'registry-two-is-one': ed(CI, ("elif len(locally_correct_plural_forms) == 1:", "elif len(locally_correct_plural_forms) >= 1:")),
   'format-range-max-4': ed(CI, ("rng = misc.format_range(rng, max=5)", "rng = misc.format_range(rng, max=4)")),
   'format-range-ellipsis': ed(MISC, ("result[-2:] = ['...', str(last)]", "result[-1:] = ['...', str(last)]")),
   'format-range-lt-le': ed(MISC, ("        if len(result) < max:", "        if len(result) <= max:")),
   # behaviour-preserving
   'bp-comments': ed(CI, ("        codomain_limit = 200\n", "        codomain_limit = 200  # how many values of n are tried\n")),
   'bp-flip-compare': ed(CI, ("                if fi >= n:", "                if n <= fi:")),
   'bp-rename-message': ed(CI, ("            rng = misc.format_range(rng, max=5)\n            message = tags.safestr(f'f(x) != {rng}')", "            rng = misc.format_range(rng, max=5)\n            message = tags.safestr(f'f(x) != {rng}')\n            pass")),
   'bp-format-range-local': ed(MISC, ("    return str.join(', ', map(str, result))", "    joined = str.join(', ', map(str, result))\n    return joined")),
  }},
 'fmtmsg': {
  'translators': ['fmtmsg'], 'module': 'I18n.Props.C14MsgTie', 'tests': ['tests/test_strformat_c.py'],
  'edits': {
   # the mutants of tools/checks/C14_mutants.py that live in check_message
   'tolerance-3-elements': ed(MI, ("elif len(preimage) == 2 and preimage[0] == 0:", "elif len(preimage) <= 3 and preimage[0] == 0:")),
   'range-ignored': ed(MI, ("if flags.range_min <= x <= flags.range_max", "if 0 <= x")),
   'n1-source-plural': ed(MI, ("                    d.src_loc = 'msgid'\n                    d.src_fmt = msgid_fmt\n", "")),
   'tolerance-two-elements': ed(MI, ("elif len(preimage) <= 1:", "elif len(preimage) <= 2:")),
   'range-off-by-one': ed(MI, ("if flags.range_min <= x <= flags.range_max", "if flags.range_min < x <= flags.range_max")),
   'n1-tolerance-unconditional': ed(MI, ("                        len(msgid_fmt) == len(msgid_plural_fmt)\n", "                        True\n")),
   'msgstr-tolerant': ed(MI, ("            d.omitted_int_conv_ok = False\n            strings += [d]", "            d.omitted_int_conv_ok = True\n            strings += [d]")),
   # further one-line changes
   'msgid-error-continues': ed(MI, ("                    # reporting errors against msgstr is not worth the trouble.\n                    return", "                    # reporting errors against msgstr is not worth the trouble.\n                    continue")),
   'template-args-swapped': ed(MI, ("                'msgid_plural', msgid_fmts[1],\n                'msgid', msgid_fmts[0],", "                'msgid', msgid_fmts[0],\n                'msgid_plural', msgid_fmts[1],")),
   'fuzzy-not-skipped': ed(MI, ("        if flags.fuzzy:\n            return\n", "")),
   'encoding-not-required': ed(MI, ("        if ctx.encoding is None:\n            return\n", "")),
   'msgids-after-template-args': ed(MI, ("        if ctx.is_template and (len(msgid_fmts) == 2):\n            self.check_args(\n                message,\n                'msgid_plural', msgid_fmts[1],\n                'msgid', msgid_fmts[0],\n                omitted_int_conv_ok=True,\n            )\n        self.check_msgids(message, msgid_fmts)\n",
                                           "        self.check_msgids(message, msgid_fmts)\n        if ctx.is_template and (len(msgid_fmts) == 2):\n            self.check_args(\n                message,\n                'msgid_plural', msgid_fmts[1],\n                'msgid', msgid_fmts[0],\n                omitted_int_conv_ok=True,\n            )\n")),
   'zero-second': ed(MI, ("elif len(preimage) == 2 and preimage[0] == 0:", "elif len(preimage) == 2 and preimage[1] == 0:")),
   'preimage-eq-0': ed(MI, ("if preimage == [1]:", "if preimage == [0]:")),
   'plural-src-msgid': ed(MI, ("                d.src_loc = 'msgid_plural'\n                d.src_fmt = msgid_plural_fmt", "                d.src_loc = 'msgid_plural'\n                d.src_fmt = msgid_fmt")),
   'keyerror-not-skipped': ed(MI, ("                except KeyError:\n                    # broken plural forms\n                    continue", "                except KeyError:\n                    # broken plural forms\n                    preimage = []")),
   'plural-without-preimage': ed(MI, ("if has_msgstr_plural and ctx.plural_preimage:", "if has_msgstr_plural:")),
   'unsorted-forms': ed(MI, ("for i, s in sorted(message.msgstr_plural.items()):", "for i, s in message.msgstr_plural.items():")),
   'seeded/C14-a': seeded('C14-a'),
   # behaviour-preserving
   'bp-rename': ed(MI, ("        msgids = [message.msgid]\n        if message.msgid_plural is not None:\n            msgids += [message.msgid_plural]\n        msgid_fmts = {}\n        for i, s in enumerate(msgids):", "        sources = [message.msgid]\n        if message.msgid_plural is not None:\n            sources += [message.msgid_plural]\n        msgid_fmts = {}\n        for i, s in enumerate(sources):"),
                           ("                preimage = [\n                    x for x in preimage\n                    if flags.range_min <= x <= flags.range_max\n                ]", "                preimage = [\n                    n for n in preimage\n                    if flags.range_min <= n <= flags.range_max\n                ]"),
                           ("        strings = []\n", "        todo = []\n"), ("            strings += [d]\n        if has_msgstr_plural", "            todo += [d]\n        if has_msgstr_plural"), ("                strings += [d]\n        for d in strings:", "                todo += [d]\n        for d in todo:")),
   'bp-inline-has-msgstr': ed(MI, ("        has_msgstr = bool(message.msgstr)\n", ""), ("        if has_msgstr:\n", "        if bool(message.msgstr):\n")),
   'bp-comments': ed(MI, ("        msgids = [message.msgid]\n", "        # the source strings:\n        msgids = [message.msgid]\n"), ("        for d in strings:\n", "        # compare\n        for d in strings:\n")),
   'bp-lt-2': ed(MI, ("elif len(preimage) <= 1:", "elif len(preimage) < 2:")),
   'bp-attr-order': ed(MI, ("            d.src_loc = 'msgid'\n            d.src_fmt = msgid_fmts.get(0)\n            d.dst_loc = 'msgstr'\n", "            d.dst_loc = 'msgstr'\n            d.src_fmt = msgid_fmts.get(0)\n            d.src_loc = 'msgid'\n")),
   'bp-hoist-gets': ed(MI, ("            for i, s in sorted(message.msgstr_plural.items()):\n                assert isinstance(i, int)\n                d = types.SimpleNamespace()\n                msgid_fmt = msgid_fmts.get(0)\n                msgid_plural_fmt = msgid_fmts.get(1)\n",
                                   "            msgid_fmt = msgid_fmts.get(0)\n            msgid_plural_fmt = msgid_fmts.get(1)\n            for i, s in sorted(message.msgstr_plural.items()):\n                assert isinstance(i, int)\n                d = types.SimpleNamespace()\n")),
  }},
 'gettextpf': {
  'translators': ['gettextpf'], 'module': 'I18n.Props.C07Tie', 'tests': ['tests/test_gettext.py'],
  'edits': {
   'pf-strict-start-dropped': ed(GT, ("        if match.start() != 0:\n            raise PluralFormsSyntaxError\n", "")),
   'pf-strict-end-dropped': ed(GT, ("        if match.end() != len(s):\n            raise PluralFormsSyntaxError\n", "")),
   'pf-strict-start-eq': ed(GT, ("        if match.start() != 0:", "        if match.start() == 0:")),
   'pf-lax-junk-swapped': ed(GT, ("        ljunk = s[:match.start()]\n        rjunk = s[match.end():]", "        ljunk = s[match.end():]\n        rjunk = s[:match.start()]")),
   'pf-lax-return-order': ed(GT, ("        return (n, expr, ljunk, rjunk)", "        return (n, expr, rjunk, ljunk)")),
   'pf-int-of-group-2': ed(GT, ("    n = int(match.group(1), 10)", "    n = int(match.group(2), 10)")),
   'pf-expr-of-group-1': ed(GT, ("    expr = parse_plural_expression(match.group(2))", "    expr = parse_plural_expression(match.group(1))")),
   'pf-no-match-silent': ed(GT, ("    if match is None:\n        raise PluralFormsSyntaxError\n    n = int", "    if match is None:\n        raise ValueError\n    n = int")),
   'pf-regex-leading-zero': ed(GT, ("nplurals=([1-9][0-9]*);", "nplurals=([0-9]+);")),
   'pf-default-lax': ed(GT, ("def parse_plural_forms(s, *, strict=True):", "def parse_plural_forms(s, *, strict=False):")),
   'pf-expr-error-not-syntax': ed(GT, ("class PluralExpressionSyntaxError(PluralFormsSyntaxError):", "class PluralExpressionSyntaxError(Exception):")),
   # behaviour-preserving
   'bp-rename': ed(GT, ("    match = _parse_plural_forms(s)\n    if match is None:\n        raise PluralFormsSyntaxError\n    n = int(match.group(1), 10)\n    expr = parse_plural_expression(match.group(2))\n    if strict:\n        if match.start() != 0:\n            raise PluralFormsSyntaxError\n        if match.end() != len(s):\n            raise PluralFormsSyntaxError\n        return (n, expr)\n    else:\n        ljunk = s[:match.start()]\n        rjunk = s[match.end():]\n        return (n, expr, ljunk, rjunk)",
                           "    m = _parse_plural_forms(s)\n    if m is None:\n        raise PluralFormsSyntaxError\n    count = int(m.group(1), 10)\n    tree = parse_plural_expression(m.group(2))\n    if strict:\n        if m.start() != 0:\n            raise PluralFormsSyntaxError\n        if m.end() != len(s):\n            raise PluralFormsSyntaxError\n        return (count, tree)\n    else:\n        before = s[:m.start()]\n        after = s[m.end():]\n        return (count, tree, before, after)")),
   'bp-not-strict-first': ed(GT, ("    if strict:\n        if match.start() != 0:\n            raise PluralFormsSyntaxError\n        if match.end() != len(s):\n            raise PluralFormsSyntaxError\n        return (n, expr)\n    else:\n        ljunk = s[:match.start()]\n        rjunk = s[match.end():]\n        return (n, expr, ljunk, rjunk)",
                                     "    if not strict:\n        ljunk = s[:match.start()]\n        rjunk = s[match.end():]\n        return (n, expr, ljunk, rjunk)\n    if match.start() != 0:\n        raise PluralFormsSyntaxError\n    if match.end() != len(s):\n        raise PluralFormsSyntaxError\n    return (n, expr)")),
   'bp-comments': ed(GT, ("    match = _parse_plural_forms(s)\n", "    # leftmost declaration:\n    match = _parse_plural_forms(s)\n")),
   'bp-end-test-first': ed(GT, ("        if match.start() != 0:\n            raise PluralFormsSyntaxError\n        if match.end() != len(s):\n            raise PluralFormsSyntaxError\n", "        if match.end() != len(s):\n            raise PluralFormsSyntaxError\n        if match.start() != 0:\n            raise PluralFormsSyntaxError\n")),
  }},
 'tagsfmt': {
  'translators': ['tagsfmt'], 'module': 'I18n.Props.C02Tie', 'tests': ['tests/test_tags.py'],
  'edits': {
   'esc-safestr-check-dropped': ed(TG, ("    if isinstance(s, safestr):\n        return s\n", "")),
   'esc-empty-literal': ed(TG, ("return '(empty string)'", "return '(empty)'")),
   'esc-bytes-keep-b': ed(TG, ("return repr(s)[1:]", "return repr(s)")),
   'esc-safe-word-quoted': ed(TG, ("    elif _is_safe(s):\n        return s\n", "    elif _is_safe(s):\n        return repr(s)\n")),
   'esc-empty-test-dropped': ed(TG, ("    if s == '':\n        return '(empty string)'\n    elif _is_safe(s):", "    if _is_safe(s):")),
   'esc-is-safe-pattern': ed(TG, ("[A-Za-z0-9_.!<>=-]+", "[A-Za-z0-9_.!<>= -]+")),
   'prio-minor-possible': ed(TG, ("S.minor: 'IW'[c >= C.certain],", "S.minor: 'IW'[c >= C.possible],")),
   'prio-important-letters': ed(TG, ("S.important: 'WE'[c >= C.possible],", "S.important: 'EW'[c >= C.possible],")),
   'prio-gt': ed(TG, ("S.normal: 'IW'[c >= C.possible],", "S.normal: 'IW'[c > C.possible],")),
   'prio-serious-missing': ed(TG, ("            S.serious: 'E',\n", "")),
   'fmt-comma-separated': ed(TG, ("s += ' ' + str.join(' ', map(_escape, extra))", "s += ' ' + str.join(', ', map(_escape, extra))")),
   'fmt-colour-order': ed(TG, ("{color_on}{self.name}{color_off}", "{color_off}{self.name}{color_on}")),
   'fmt-extra-unescaped': ed(TG, ("map(_escape, extra)", "map(str, extra)")),
   'fmt-target-after-name': ed(TG, ("{target}: {color_on}{self.name}{color_off}", "{color_on}{self.name}{color_off}: {target}")),
   'sf-args-unescaped': ed(TG, ("args = [_escape(s) for s in args]", "args = [str(s) for s in args]")),
   'sf-kwargs-unescaped': ed(TG, ("kwargs = {k: _escape(v) for k, v in kwargs.items()}", "kwargs = {k: str(v) for k, v in kwargs.items()}")),
   'seeded/C02-c': seeded('C02-c'),
   # behaviour-preserving
   'bp-rename': ed(TG, ("def _escape(s):\n    if isinstance(s, safestr):\n        return s\n    if isinstance(s, bytes):\n        return repr(s)[1:]\n    s = str(s)\n    if s == '':\n        return '(empty string)'\n    elif _is_safe(s):\n        return s\n    else:\n        return repr(s)",
                            "def _escape(value):\n    if isinstance(value, safestr):\n        return value\n    if isinstance(value, bytes):\n        return repr(value)[1:]\n    text = str(value)\n    if text == '':\n        return '(empty string)'\n    elif _is_safe(text):\n        return text\n    else:\n        return repr(text)"),
                       ("        s = self.severity\n        S = severities\n        c = self.certainty\n        C = certainties", "        sev = self.severity\n        S = severities\n        cert = self.certainty\n        C = certainties"),
                       ("S.minor: 'IW'[c >= C.certain],\n            S.normal: 'IW'[c >= C.possible],\n            S.important: 'WE'[c >= C.possible],\n            S.serious: 'E',\n        }[s]", "S.minor: 'IW'[cert >= C.certain],\n            S.normal: 'IW'[cert >= C.possible],\n            S.important: 'WE'[cert >= C.possible],\n            S.serious: 'E',\n        }[sev]")),
   'bp-dict-order': ed(TG, ("            S.pedantic: 'P',\n            S.wishlist: 'I',\n", "            S.wishlist: 'I',\n            S.pedantic: 'P',\n")),
   'bp-nested-if': ed(TG, ("    if s == '':\n        return '(empty string)'\n    elif _is_safe(s):\n        return s\n    else:\n        return repr(s)", "    if s == '':\n        return '(empty string)'\n    if _is_safe(s):\n        return s\n    return repr(s)")),
   'bp-temp-priority': ed(TG, ("        s = f'{self.get_priority()}: {target}: {color_on}{self.name}{color_off}'", "        letter = self.get_priority()\n        # the line:\n        s = f'{letter}: {target}: {color_on}{self.name}{color_off}'")),
   'bp-comments-docstrings': ed(TG, ("def safe_format(template, *args, **kwargs):\n", "def safe_format(template, *args, **kwargs):\n    '''format with escaped arguments'''\n    # positional, then keyword arguments\n")),
   'bp-not-empty-form': ed(TG, ("    if s == '':\n        return '(empty string)'", "    if not s:\n        return '(empty string)'")),
  }},
 'fmtargs': {
  'translators': ['fmtargs'], 'module': 'I18n.Props.C14Tie', 'tests': ['tests/test_strformat_c.py'],
  'edits': {
   # the mutants of tools/checks/C14_mutants.py that touch the translated functions
   'c-count-swapped': ed(C, ("        if len(dst_args) > len(src_args):\n            self.tag('c-format-string-excess-arguments'", "        if len(dst_args) < len(src_args):\n            self.tag('c-format-string-excess-arguments'")),
   'drop-sort-key': ed(PB, ("for key in sorted(missing_keys, key=sort_key):", "for key in sorted(missing_keys):")),
   'type-skip-last': ed(C, ("for src_arg, dst_arg in zip(src_args, dst_args):", "for src_arg, dst_arg in zip(src_args[:-1], dst_args):")),
   'py-missing-unknown-swapped': ed(PY, ("for key in sorted(dst_args.keys() - src_args.keys()):", "for key in sorted(src_args.keys() - dst_args.keys()):"), ("missing_keys = src_args.keys() - dst_args.keys()", "missing_keys = dst_args.keys() - src_args.keys()")),
   'perl-diff-swapped': ed(PL, ("for key in sorted(dst_args - src_args, key=sort_key):", "for key in sorted(src_args - dst_args, key=sort_key):")),
   'lastint-star-wrong': ed(SC, ("                    if vconv is not arg.parent:\n                        return", "                    if vconv is not arg.parent:\n                        continue")),
   'lastint-nonint-ok': ed(SC, ("        if not conv.integer:\n            return\n", "")),
   'py-type-named-skip': ed(PY, ("        for key in sorted(dst_args.keys() & src_args.keys()):\n            src_arg = src_args[key][0]\n            dst_arg = dst_args[key][0]\n            if src_arg.type != dst_arg.type:", "        for key in sorted(dst_args.keys() & src_args.keys()):\n            src_arg = src_args[key][0]\n            dst_arg = dst_args[key][-1]\n            if src_arg.type != dst_arg.type and len(dst_args) < 3:")),
   'brace-int-tolerance-any-type': ed(PB, ("if all('int' in arg.types for arg in src_args[missing_key]):", "if True:")),
   'perl-tolerance-two': ed(PL, ("if len(missing_keys) == 1 and omitted_int_conv_ok:", "if len(missing_keys) <= 2 and omitted_int_conv_ok:")),
   'brace-type-first-two-keys': ed(PB, ("for key in sorted(dst_args.keys() & src_args.keys(), key=sort_key):", "for key in sorted(dst_args.keys() & src_args.keys(), key=sort_key)[:2]:")),
   'lastint-less-tolerant': ed(SC, ("for i in range(len(self.arguments) - n, len(self.arguments)):", "for i in range(len(self.arguments) - n + 1, len(self.arguments)):")),
   # further one-line changes
   'c-missing-when-tolerated': ed(C, ("            if not omitted_int_conv_ok:\n                self.tag('c-format-string-missing-arguments'", "            if omitted_int_conv_ok:\n                self.tag('c-format-string-missing-arguments'")),
   'c-type-tag-operands-swapped': ed(C, ("                    tags.safestr(dst_arg.type), tags.safestr(f'({dst_loc})'), '!=',\n                    tags.safestr(src_arg.type), tags.safestr(f'({src_loc})'),\n                )\n\n__all__", "                    tags.safestr(src_arg.type), tags.safestr(f'({dst_loc})'), '!=',\n                    tags.safestr(dst_arg.type), tags.safestr(f'({src_loc})'),\n                )\n\n__all__")),
   'py-number-tag-dropped': ed(PY, ("        if len(dst_args) != len(src_args):\n", "        if len(dst_args) > len(src_args):\n")),
   'py-int-test-any': ed(PY, ("if all(arg.type == 'int' for arg in src_args[missing_key]):", "if all(arg.type != 'str' for arg in src_args[missing_key]):")),
   'brace-clash-inverted': ed(PB, ("if not (src_arg.types & dst_arg.types):", "if src_arg.types & dst_arg.types:")),
   'perl-unknown-key-unescaped': ed(PL, ("self.tag('perl-brace-format-string-unknown-argument', prefix, key,", "self.tag('perl-brace-format-string-unknown-argument', prefix, tags.safestr(key),")),
   'lastint-n-zero-allowed': ed(SC, ("        if n <= 0:\n            raise IndexError\n        conv = vconv = None", "        if n < 0:\n            raise IndexError\n        conv = vconv = None")),
   'lastint-first-conv-wins': ed(SC, ("                    if (conv is None) and (vconv is arg):", "                    if conv is None:")),
   # behaviour-preserving
   'bp-local-n-dst': ed(C, ("        if len(dst_args) > len(src_args):", "        n_dst = len(dst_args)\n        if n_dst > len(src_args):")),
   'bp-rename-locals': both(ed(PY, ("missing_keys = src_args.keys() - dst_args.keys()", "absent = src_args.keys() - dst_args.keys()"), ("if len(missing_keys) == 1 and omitted_int_conv_ok:\n            [missing_key] = missing_keys\n            if all(arg.type == 'int' for arg in src_args[missing_key]):\n                missing_keys = set()\n        for key in sorted(missing_keys):", "if len(absent) == 1 and omitted_int_conv_ok:\n            [only] = absent\n            if all(use.type == 'int' for use in src_args[only]):\n                absent = set()\n        for key in sorted(absent):")),
                            ed(SC, ("conv = vconv = None", "conv = vconv = None  # nothing seen yet"))),
   'bp-flip-tests': both(ed(C, ("elif len(dst_args) < len(src_args):", "elif len(src_args) > len(dst_args):")), ed(PL, ("if len(missing_keys) == 1 and omitted_int_conv_ok:", "if omitted_int_conv_ok and len(missing_keys) == 1:"))),
   'bp-comments-docstring': both(ed(PB, ("        prefix = message_repr(message, template='{}:')\n        src_args = src_fmt.argument_map", "        '''compare the arguments of two python-brace strings'''\n        prefix = message_repr(message, template='{}:')\n        # the parsed arguments:\n        src_args = src_fmt.argument_map")), ed(SC, ("        if n > len(self.arguments):\n            raise IndexError\n        if n <= 0:", "        if n > len(self.arguments):\n            raise IndexError  # more than there are\n        if n <= 0:"))),
   'bp-temp-for-keys': ed(PY, ("        for key in sorted(dst_args.keys() - src_args.keys()):", "        unknown_keys = dst_args.keys() - src_args.keys()\n        for key in sorted(unknown_keys):")),
   'bp-not-form': ed(PB, ("            if not (src_arg.types & dst_arg.types):", "            common = src_arg.types & dst_arg.types\n            if not common:")),
   'seeded/C14-a': seeded('C14-a'), 'seeded/C14-b': seeded('C14-b'), 'seeded/C14-c': seeded('C14-c'),
  }},
}

# further ties, one file each: tools/tie_edits_d/<tie>.py defines TIES_EXTRA = {<tie>: {...}} with the helpers above in scope
import glob as _glob
for _f in sorted(_glob.glob(os.path.join(HERE, 'tools', 'tie_edits_d', '*.py'))):
    _ns = dict(ed=ed, seeded=seeded, both=both)
    exec(compile(open(_f, encoding='utf-8').read(), _f, 'exec'), _ns)
    TIES.update(_ns.get('TIES_EXTRA', {}))

def run(tie, name, check=None):
    T = TIES[tie]
    scratch = tempfile.mkdtemp(prefix='tie-scratch.')
    repo = os.path.join(scratch, 'repo')
    res = {'edit': name}
    try:
        subprocess.run(['git', 'clone', '-q', '/repo', repo], check=True)
        T['edits'][name](repo)
        rc, out = sh(['/venv/bin/python', '-m', 'pytest', '-q', '-p', 'no:cacheprovider', '-x'] + T.get('tests', []), cwd=repo)
        res['tests'] = out.strip().splitlines()[-1] if out.strip() else ''
        st = []
        for tr in T['translators']:
            rc, out = sh(['/venv/bin/python', os.path.join(HERE, 'tools/translate', tr + '2lean.py'), repo])
            st.append('untranslatable: ' + out.strip().split('untranslatable: ')[-1] if rc == 3 else out.strip())
        res['translator'] = '; '.join(st)
        if not check:
            t0 = time.time()
            rc, out = sh(['lake', 'build', T['module']], cwd=os.path.join(HERE, 'lean'))
            res['tie'] = 'holds' if rc == 0 else 'fails'
            res['build_s'] = round(time.time() - t0, 1)
            if rc != 0:
                res['first_errors'] = [e[:170] for e in re.findall(r'^error: (.*)$', out, re.M)[:3]]
        else:
            # the check regenerates everything it depends on from the clone and builds the tie itself: take its verdict
            t0 = time.time()
            rc, out = sh([os.path.join(HERE, 'check'), check, 'quick'], cwd=HERE, env=dict(os.environ, VERIF_REPO=repo))
            res['check_s'] = round(time.time() - t0, 1)
            ev = json.load(open(os.path.join(HERE, 'evidence', check + '.json')))
            tie_ev = ev['coverage'].get('tie', {})
            res['tie'] = 'holds' if tie_ev.get('checked') else 'fails'
            res['first_errors'] = tie_ev.get('problems', [])[:3]
            res['obligations'] = '%s/%s' % (ev['coverage'].get('discharged'), ev['coverage'].get('obligations'))
            res['check'] = [l for l in out.splitlines() if l.startswith(('VIOLATION', 'KNOWN-FINDING', 'OK ', 'INFRA'))]
            for l in res['check']:
                if 'replay=' in l:
                    try:
                        rp = json.load(open(os.path.join(HERE, l.split('replay=')[1].split()[0])))
                        res['replay_kind'] = str(rp.get('kind'))[:80]
                    except Exception:
                        pass
    finally:
        shutil.rmtree(scratch, ignore_errors=True)
    return res

def main():
    tie = sys.argv[1]
    args = sys.argv[2:]
    check = None
    if args[:1] == ['--check']:
        check, args = args[1], args[2:]
    names = args or [n for n in TIES[tie]['edits']]
    out = []
    try:
        for n in names:
            r = run(tie, n, check)
            out.append(r)
            print(json.dumps(r), flush=True)
    finally:
        for tr in TIES[tie]['translators']:
            sh(['/venv/bin/python', os.path.join(HERE, 'tools/translate', tr + '2lean.py'), '/repo'])
        if check:
            sh([os.path.join(HERE, 'setup.sh')])          # every Generated file back in step with /repo
        else:
            sh(['lake', 'build', TIES[tie]['module'], 'driver'], cwd=os.path.join(HERE, 'lean'))
    dest = os.path.join(HERE, 'DESIGN-notes', tie + ('-tie-checks.json' if check else '-tie-edits.json'))
    old = {}
    if os.path.exists(dest):
        old = {r['edit']: r for r in json.load(open(dest))}
    for r in out: old[r['edit']] = r
    json.dump(list(old.values()), open(dest, 'w'), indent=1)

if __name__ == '__main__':
    main()
