#!/usr/bin/env python3
"""Regenerate lean/I18n.lean: import every module of the library (except the driver)."""
import os
HERE = os.path.dirname(os.path.dirname(os.path.abspath(__file__)))
root = os.path.join(HERE, 'lean')
mods = []
for d, _dirs, files in os.walk(os.path.join(root, 'I18n')):
    if os.path.basename(d) == 'Driver':
        continue
    for f in files:
        if f.endswith('.lean'):
            rel = os.path.relpath(os.path.join(d, f), root)[:-5]
            mods.append(rel.replace(os.sep, '.'))
open(os.path.join(root, 'I18n.lean'), 'w').write(''.join(f'import {m}\n' for m in sorted(mods)))
