"""Shared machinery of the checks: environment, Lean build + audit, driver, evidence, findings."""
import fcntl, hashlib, json, os, re, subprocess, sys, tempfile, time, random, shutil

VERIF = os.path.dirname(os.path.dirname(os.path.abspath(__file__)))
REPO = os.environ.get('VERIF_REPO', '/repo')
LEAN_DIR = os.path.join(VERIF, 'lean')
PY = '/venv/bin/python'
STD_AXIOMS = {'propext', 'Classical.choice', 'Quot.sound'}

def _scratch_root():
    """One scratch directory per check run, removed when the main process exits: every temporary file of the run — of this
    process, of forked workers (which leave through os._exit and never run their own atexit handlers) and of child processes
    (translators, command-line runs; they inherit TMPDIR) — lives under it, so nothing piles up in /tmp."""
    root = os.environ.get('VERIF_SCRATCH')
    if root and os.path.isdir(root):
        tempfile.tempdir = root
        return root
    root = tempfile.mkdtemp(prefix='i18n-verif-run.')
    os.environ['VERIF_SCRATCH'] = root
    os.environ['TMPDIR'] = root
    tempfile.tempdir = root
    import atexit
    owner = os.getpid()
    def _cleanup():
        if os.getpid() == owner:
            shutil.rmtree(root, ignore_errors=True)
    atexit.register(_cleanup)
    return root

SCRATCH = _scratch_root()

class Infra(Exception):
    """infrastructure failure: exit 2, never a VIOLATION"""

def setup_repo_import():
    """import lib.* from /repo's working tree without writing into it"""
    cache = tempfile.mkdtemp(prefix='i18n-verif-cache.')
    os.environ['XDG_CACHE_HOME'] = cache
    sys.pycache_prefix = os.path.join(cache, 'pyc')
    sys.dont_write_bytecode = True
    if REPO not in sys.path:
        sys.path.insert(0, REPO)
    import atexit
    atexit.register(lambda: shutil.rmtree(cache, ignore_errors=True))
    return cache

class Hang(Exception):
    """the real code did not return within the deadline (an outcome like any other exception: harnesses turn it into
    `CRASH:Hang`, which no model ever answers, so the input becomes the replay of a violation instead of stalling the check)"""

_deadline_depth = [0]

class deadline:
    """`with common.deadline(20): call_into_real_code()` — raises Hang inside the call after `seconds` of wall time.
    Main thread only (SIGALRM); nested uses keep the outermost deadline."""
    def __init__(self, seconds=20.0):
        self.seconds = seconds
    def __enter__(self):
        import signal
        _deadline_depth[0] += 1
        if _deadline_depth[0] == 1:
            def on_alarm(signum, frame):
                raise Hang(f'no result within {self.seconds} s')
            try:
                self.old = signal.signal(signal.SIGALRM, on_alarm)
                signal.setitimer(signal.ITIMER_REAL, self.seconds)
                self.armed = True
            except ValueError:          # not the main thread
                self.armed = False
        else:
            self.armed = False
        return self
    def __exit__(self, *a):
        import signal
        _deadline_depth[0] -= 1
        if self.armed:
            signal.setitimer(signal.ITIMER_REAL, 0)
            signal.signal(signal.SIGALRM, self.old)
        return False

class Lock:
    def __enter__(self):
        self.f = open(os.path.join(LEAN_DIR, '.verif.lock'), 'w')
        fcntl.flock(self.f, fcntl.LOCK_EX)
        return self
    def __exit__(self, *a):
        fcntl.flock(self.f, fcntl.LOCK_UN)
        self.f.close()

def run(cmd, cwd=None, timeout=3600, input=None):
    p = subprocess.run(cmd, cwd=cwd, capture_output=True, text=True, timeout=timeout, input=input)
    return p.returncode, p.stdout, p.stderr

# ----------------------------------------------------------------------------- Lean side

def strip_comments(text):
    """remove Lean comments (nested block comments and line comments), keep line structure"""
    out, i, depth = [], 0, 0
    while i < len(text):
        if text.startswith('/-', i):
            depth += 1; i += 2; continue
        if depth and text.startswith('-/', i):
            depth -= 1; i += 2; continue
        if depth:
            if text[i] == '\n':
                out.append('\n')
            i += 1; continue
        if text.startswith('--', i):
            while i < len(text) and text[i] != '\n':
                i += 1
            continue
        out.append(text[i]); i += 1
    return ''.join(out)

FORBIDDEN = re.compile(r'\bsorry\b|\badmit\b|^\s*axiom\s|native_decide|bv_decide|implemented_by|\bunsafe\s|maxHeartbeats\s+0\b', re.M)

def lean_sources():
    res = []
    for root, _dirs, files in os.walk(os.path.join(LEAN_DIR, 'I18n')):
        for f in files:
            if f.endswith('.lean'):
                res.append(os.path.join(root, f))
    return sorted(res)

def forbidden_scan():
    hits = []
    for path in lean_sources():
        if '/Driver/' in path:
            continue
        text = strip_comments(open(path, encoding='utf-8').read())
        for m in FORBIDDEN.finditer(text):
            line = text.count('\n', 0, m.start()) + 1
            hits.append(f'{os.path.relpath(path, LEAN_DIR)}:{line}: {m.group(0).strip()}')
    return hits

def theorems_of(module):
    """(qualified theorem names, example count) of a Props module"""
    path = os.path.join(LEAN_DIR, *module.split('.')) + '.lean'
    text = strip_comments(open(path, encoding='utf-8').read())
    ns = []
    names = []
    examples = 0
    for line in text.splitlines():
        m = re.match(r'\s*namespace\s+(\S+)', line)
        if m:
            ns.append(m.group(1)); continue
        m = re.match(r'\s*end\s+(\S+)', line)
        if m and ns and ns[-1] == m.group(1):
            ns.pop(); continue
        m = re.match(r'\s*(?:private\s+|protected\s+)?theorem\s+(\S+)', line)
        if m and not re.match(r'\s*private', line):
            names.append('.'.join(ns + [m.group(1)]))
        if re.match(r'\s*example\b', line):
            examples += 1
    return names, examples

def translate(names=('intexpr',)):
    """regenerate Generated/*.lean from /repo; returns {name: 'changed'|'unchanged'|'untranslatable: …'}"""
    res = {}
    for n in names:
        script = os.path.join(VERIF, 'tools', 'translate', f'{n}2lean.py')
        rc, out, err = run([PY, script, REPO])
        if rc == 0:
            res[n] = out.strip().splitlines()[-1] if out.strip() else 'unchanged'
        elif rc == 3:
            res[n] = 'untranslatable: ' + err.strip()
        else:
            raise Infra(f'translator {n} crashed: {err[-2000:]}')
    return res

def lake_build(targets, timeout=3000):
    rc, out, err = run(['lake', 'build'] + list(targets), cwd=LEAN_DIR, timeout=timeout)
    return rc, out + err

def failing_modules(log):
    return sorted(set(re.findall(r'^- (I18n\.\S+)', log, re.M)))

def print_axioms(module, theorems):
    """{theorem: set(axioms)} via `#print axioms`"""
    if not theorems:
        return {}
    src = f'import {module}\n' + ''.join(f'#print axioms {t}\n' for t in theorems)
    with tempfile.NamedTemporaryFile('w', suffix='.lean', delete=False, dir=LEAN_DIR, prefix='.audit_') as f:
        f.write(src)
        path = f.name
    try:
        rc, out, err = run(['lake', 'env', 'lean', path], cwd=LEAN_DIR, timeout=900)
    finally:
        os.unlink(path)
    res = {}
    text = out + err
    for m in re.finditer(r"'([^']+)' depends on axioms: \[([^\]]*)\]", text):
        res[m.group(1)] = {a.strip() for a in m.group(2).replace('\n', ' ').split(',') if a.strip()}
    for m in re.finditer(r"'([^']+)' does not depend on any axioms", text):
        res[m.group(1)] = set()
    return res

class LeanResult:
    def __init__(self):
        self.ok = True
        self.problems = []      # human-readable reasons the proof side does not check
        self.obligations = 0
        self.discharged = 0
        self.theorems = []
        self.examples = 0
        self.axioms = {}
        self.translation = {}
        self.log = ''

def lean_check(props_module, generated=('intexpr',), extra_targets=('driver',), leanchecker=False):
    """regenerate, build, audit.  Never raises for a *proof* failure — only for infrastructure."""
    r = LeanResult()
    with Lock():
        r.translation = translate(generated)
        for n, st in r.translation.items():
            if st.startswith('untranslatable'):
                r.ok = False
                r.problems.append(f'translator({n}): {st}')
        rc, log = lake_build([props_module] + list(extra_targets))
        r.log = log
        try:
            r.theorems, r.examples = theorems_of(props_module)
        except OSError as exc:
            raise Infra(str(exc))
        r.obligations = len(r.theorems) + r.examples
        if rc != 0:
            r.ok = False
            bad = failing_modules(log)
            if not bad and 'error' not in log:
                raise Infra('lake build failed without a Lean error:\n' + log[-3000:])
            r.problems.append('lake build failed in: ' + (', '.join(bad) or '?'))
            errs = re.findall(r'^error: (.*)$', log, re.M)
            r.problems += ['lean: ' + e for e in errs[:12]]
            return r
        hits = forbidden_scan()
        if hits:
            r.ok = False
            r.problems += ['forbidden construct: ' + h for h in hits]
        r.axioms = print_axioms(props_module, r.theorems)
        good = 0
        for t in r.theorems:
            ax = r.axioms.get(t)
            if ax is None:
                r.ok = False
                r.problems.append(f'no axiom report for {t}')
            elif not ax <= STD_AXIOMS:
                r.ok = False
                r.problems.append(f'{t} depends on non-standard axioms {sorted(ax - STD_AXIOMS)}')
            else:
                good += 1
        r.discharged = good + (r.examples if r.ok or rc == 0 else 0)
        if leanchecker and r.ok:
            rc2, out2, err2 = run(['lake', 'env', 'leanchecker', props_module], cwd=LEAN_DIR, timeout=3000)
            r.leanchecker = (rc2 == 0)
            if rc2 != 0:
                r.ok = False
                r.problems.append('leanchecker rejected ' + props_module + ': ' + (out2 + err2)[-500:])
    return r

def prove_tie(chk, tie_module, translators, meaning, extra_targets=('driver',)):
    """The tie by translation, after `chk.prove(<owning Props module>, generated=(…, *translators), extra_targets=())`:
    build and audit `tie_module` (the kernel proofs that the definitions regenerated from the CURRENT source by `translators` equal the
    model the property's theorems are about) together with the driver.  A source change outside a translator's subset (exit 3,
    `untranslatable`) or one that breaks an equality proof lands in chk.broken (never skipped); the obligations of the tie module are
    added to the check's obligations.  Returns True iff the tie holds (then the driver's generated ops are in step with the source)."""
    tie = lean_check(tie_module, generated=(), extra_targets=extra_targets, leanchecker=chk.thorough)
    tr = {n: chk.lean.translation.get(n, '') for n in translators}
    tie_ok = tie.ok and not any(v.startswith('untranslatable') for v in tr.values())
    lean = chk.lean
    lean.obligations += tie.obligations
    lean.discharged += tie.discharged if tie_ok else 0
    lean.theorems = list(lean.theorems) + list(tie.theorems)
    lean.axioms.update(tie.axioms)
    if not tie.ok:
        lean.problems = list(lean.problems) + [tie_module + ': ' + p for p in tie.problems]
        chk.broken.append({'kind': 'proof', 'module': tie_module, 'translation': tr, 'problems': tie.problems, 'meaning': meaning})
    chk.coverage.setdefault('ties', [])          # every tie of this check (a check may have several); 'tie' below is the last one
    chk.coverage['tie'] = {'module': tie_module, 'translators': ['tools/translate/%s2lean.py' % n for n in translators], 'translation': tr,
                           'checked': tie_ok, 'theorems': tie.theorems, 'problems': tie.problems[:8]}
    chk.coverage['ties'].append(chk.coverage['tie'])
    return tie_ok

# ----------------------------------------------------------------------------- driver

def driver_path():
    return os.path.join(LEAN_DIR, '.lake', 'build', 'bin', 'driver')

def run_driver(lines, timeout=1800):
    """pipe protocol lines to the native Lean driver; one output line per input line"""
    if not lines:
        return []
    exe = driver_path()
    if not os.path.exists(exe):
        raise Infra('driver executable missing (lake build driver)')
    data = '\n'.join(lines) + '\n'
    p = subprocess.run([exe], input=data, capture_output=True, text=True, timeout=timeout)
    if p.returncode != 0:
        raise Infra(f'driver exited {p.returncode}: {p.stderr[-1000:]}')
    out = p.stdout.split('\n')
    if out and out[-1] == '':
        out.pop()
    if len(out) != len(lines):
        raise Infra(f'driver produced {len(out)} lines for {len(lines)} inputs')
    return out

# ----------------------------------------------------------------------------- findings, evidence, reporting

def load_known():
    path = os.path.join(VERIF, 'known_findings.json')
    if not os.path.exists(path):
        return []
    return json.load(open(path))['findings']

class Check:
    def __init__(self, pid, argv=None):
        argv = sys.argv[1:] if argv is None else argv
        self.pid = pid
        self.tier = 'thorough' if (argv and argv[0] == 'thorough') or os.environ.get('VERIF_TIER') == 'thorough' else 'quick'
        if argv and argv[0] in ('quick', 'thorough'):
            self.tier = argv[0]
        self.seed = int(os.environ.get('VERIF_SEED', '0') or 0)
        self.rng = random.Random(f'{pid}/{self.seed}')
        self.t0 = time.time()
        self.coverage = {'streams': {}, 'samples': []}
        self.assumptions = []
        self.violations = []      # (message, replay path, no_input)
        self.known_hits = []
        self.known = [k for k in load_known() if k.get('property') == pid and k.get('status') == 'open']
        self.evaluations = 0
        self.nontrivial = set()
        self.lean = None
        self.broken = []          # proof obligations / correspondences that no longer check

    @property
    def thorough(self):
        return self.tier == 'thorough'

    # --- proof side
    def prove(self, props_module, **kw):
        self.lean = lean_check(props_module, leanchecker=self.thorough, **kw)
        self.props_module = props_module
        if not self.lean.ok:
            self.broken.append({'kind': 'proof', 'module': props_module, 'problems': self.lean.problems})
        return self.lean.ok

    # --- correspondence side
    def stream(self, name, lines, impl_outputs, describe=None, on_disagree=None):
        """compare the implementation's canonical outputs with the model's on the same protocol lines.
        Returns the list of disagreeing indices."""
        model_outputs = run_driver(lines)
        dis = [i for i, (a, b) in enumerate(zip(impl_outputs, model_outputs)) if a != b]
        st = self.coverage['streams'].setdefault(name, {'cases': 0, 'disagreements': 0, 'outcomes': {}})
        st['cases'] += len(lines)
        st['disagreements'] += len(dis)
        for o in impl_outputs:
            key = ' '.join(o.split(' ')[:2]) if o.startswith('err') else o.split(' ')[0]
            st['outcomes'][key] = st['outcomes'].get(key, 0) + 1
        self.evaluations += len(lines)
        if lines and len(self.coverage['samples']) < 12:
            k = self.rng.randrange(len(lines))
            self.coverage['samples'].append({'stream': name, 'line': lines[k][:300], 'impl': impl_outputs[k][:200], 'model': model_outputs[k][:200]})
        for i in dis[:5]:
            self.broken.append({'kind': 'correspondence', 'stream': name, 'line': lines[i], 'impl': impl_outputs[i], 'model': model_outputs[i]})
        return dis, model_outputs

    def note_cases(self, keys):
        for k in keys:
            self.nontrivial.add(k)

    # --- reporting
    def replay_path(self, obj):
        d = os.path.join(VERIF, 'replays', self.pid)
        os.makedirs(d, exist_ok=True)
        h = hashlib.sha1(json.dumps(obj, sort_keys=True, default=str).encode()).hexdigest()[:12]
        path = os.path.join(d, h + '.json')
        with open(path, 'w') as f:
            json.dump(obj, f, indent=1, default=str)
        return os.path.relpath(path, VERIF)

    def match_known(self, finding_key):
        for k in self.known:
            if k['key'] == finding_key:
                return k
        return None

    def violation(self, what, replay, key=None, no_input=False):
        """report a violation of the property (or a known finding if `key` is listed)"""
        if key is not None:
            k = self.match_known(key)
            if k is not None:
                if key not in [h['key'] for h in self.known_hits]:
                    self.known_hits.append({'key': key, 'what': k['what']})
                return False
        replay = dict(replay)
        replay.setdefault('property', self.pid)
        replay.setdefault('what', what)
        replay.setdefault('seed', self.seed)
        replay.setdefault('tier', self.tier)
        path = self.replay_path(replay)
        self.violations.append((what, path, no_input))
        return True

    def finish(self, level='proof', rule='', trusted=None, explanation=None, extra=None):
        wall = time.time() - self.t0
        for h in self.known_hits:
            print(f"KNOWN-FINDING: property={self.pid} {h['what']}")
        cov = dict(self.coverage)
        lean = self.lean
        if lean is not None:
            cov.update({
                'obligations': max(lean.obligations, 1),
                'discharged': lean.discharged,
                'checker_cmd': f'cd lean && lake build {self.props_module} && lake env lean <#print axioms for every theorem>' + (' && lake env leanchecker ' + self.props_module if self.thorough else ''),
                'trusted_base': trusted or [],
                'theorems': lean.theorems,
                'axioms': {t: sorted(a) for t, a in lean.axioms.items()},
                'translation': lean.translation,
                'proof_problems': lean.problems,
            })
        cov['evaluations'] = max(self.evaluations, 1)
        cov['distinct_nontrivial'] = max(len(self.nontrivial), 0)
        cov['rule'] = rule
        if explanation:
            cov['explanation'] = explanation
        if extra:
            cov.update(extra)
        cov['known_findings_hit'] = self.known_hits
        if not cov['samples']:
            cov['samples'] = [{'note': 'no correspondence stream in this check'}]
        ev = {
            'property_id': self.pid, 'tier': self.tier, 'seed': self.seed, 'level': level,
            'coverage': cov, 'assumptions': self.assumptions, 'wall_s': round(wall, 2),
            'violations': len(self.violations),
        }
        os.makedirs(os.path.join(VERIF, 'evidence'), exist_ok=True)
        with open(os.path.join(VERIF, 'evidence', f'{self.pid}.json'), 'w') as f:
            json.dump(ev, f, indent=1, default=str)
        for what, path, no_input in self.violations:
            print(f'VIOLATION property={self.pid} replay={path}' + (' no-failing-input-found' if no_input else ''))
        if self.violations:
            sys.exit(1)
        print(f'OK property={self.pid} tier={self.tier} seed={self.seed} wall={wall:.1f}s evaluations={self.evaluations}')
        sys.exit(0)

def main_wrapper(fn):
    try:
        fn()
    except Infra as exc:
        print(f'INFRA-ERROR: {exc}', file=sys.stderr)
        sys.exit(2)
    except subprocess.TimeoutExpired as exc:
        print(f'INFRA-ERROR: timeout {exc}', file=sys.stderr)
        sys.exit(2)
    except SystemExit:
        raise
    except BaseException:
        import traceback
        traceback.print_exc()
        print('INFRA-ERROR: the harness itself failed', file=sys.stderr)
        sys.exit(2)
