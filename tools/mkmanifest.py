#!/usr/bin/env python3
"""Regenerate MANIFEST.json from the table below (kept valid against the schema at all times)."""
import json, os
HERE = os.path.dirname(os.path.dirname(os.path.abspath(__file__)))
PROPS = [json.loads(l)['id'] for l in open(os.path.join(HERE, 'properties.jsonl'))]

# one file per claimed property: tools/manifest.d/<id>.json with keys level, text, design, note, technique
CLAIMED = {}
for f in sorted(os.listdir(os.path.join(HERE, 'tools', 'manifest.d'))):
    if f.endswith('.json'):
        CLAIMED[f[:-5]] = json.load(open(os.path.join(HERE, 'tools', 'manifest.d', f)))

NOT_CLAIMED_REASON = {}
_p = os.path.join(HERE, 'tools', 'not_applicable.json')
if os.path.exists(_p):
    NOT_CLAIMED_REASON = json.load(open(_p))

def main():
    checks = []
    for pid in PROPS:
        if pid not in CLAIMED:
            continue
        c = CLAIMED[pid]
        checks.append({
            'property_id': pid,
            'quick_cmd': f'./check {pid} quick',
            'thorough_cmd': f'./check {pid} thorough',
            'evidence_file': f'evidence/{pid}.json',
            'replay_cmd_template': f'cat {{path}}',
            'engine': 'lean4+correspondence',
            'level_claimed': {'category': c['level'], 'text': c['text'], 'design_ref': c['design']},
            'level_note': c['note'],
            'technique': c['technique'],
        })
    m = {
        'version': 1,
        'setup_cmd': './setup.sh',
        'hooks': {
            'guard': 'I18NSPECTOR_VERIF',
            'enable': 'no hooks are needed: the harness observes the real code in-process (subclassing, patching in the harness only)',
            'baseline_off_cmd': 'cd /repo && /venv/bin/python -m pytest -ra -q -p no:cacheprovider --timeout=900 --continue-on-collection-errors',
            'source_commits': [],
            'add_only': True,
        },
        'engines': [{'name': 'lean4+correspondence', 'path': 'lean/', 'serves_properties': sorted(CLAIMED),
                     'kind_free_text': 'Lean 4 library (models, generated models, theorems) + Python translator, correspondence harness and falsifiers'}],
        'checks': checks,
        'not_applicable': [{'property_id': p, 'reason': NOT_CLAIMED_REASON.get(p, 'not yet claimed: model/check under construction (see DESIGN.md §10 build order)')}
                           for p in PROPS if p not in CLAIMED],
        'notes': 'Machine-checked proof in Lean 4; see DESIGN.md. Exit codes: 0 held, 1 VIOLATION, 2 infrastructure error.',
    }
    json.dump(m, open(os.path.join(HERE, 'MANIFEST.json'), 'w'), indent=1)

if __name__ == '__main__':
    main()
