#!/usr/bin/env python3
"""Regenerate MANIFEST.json from the table below (kept valid against the schema at all times)."""
import json, os
HERE = os.path.dirname(os.path.dirname(os.path.abspath(__file__)))
PROPS = [json.loads(l)['id'] for l in open(os.path.join(HERE, 'properties.jsonl'))]

CLAIMED = {
 'C04': dict(
   level='proof',
   text='Lean 4 theorems for every expression, n and width >= 1: eval_iff_C / eval_fails_iff / eval_error_kinds / eval_value_range (the Evaluator regenerated '
        'from lib/intexpr.py by py2lean computes exactly lazy C evaluation over Z under the all-intermediate-results-in-range side condition, and fails only with '
        'overflow or division by zero otherwise); grammar_pin (the lexer rules, precedence ladder, productions and operator tables handed to rply, dumped from the '
        'live objects each run, are plural.y\'s - by decide); parse_sound (the lexer + recursive-descent model, which corresponds with the real rply parser on all '
        'token strings of length <= 4/5 and on grammar-directed strings, only accepts what the stratified C grammar derives, with that AST). Completeness of the '
        'parser model is not yet proved: that direction rests on the correspondence and on the reference-parser falsifier.',
   design='§6 C04',
   note='Trusted: Lean kernel, standard axioms; py2lean + grammar dump; rply LALR construction is NOT modelled (tie = correspondence on the stated string sets); '
        'Spec.mathEval, Spec.D, Spec.PluralY are my reading of ISO C / plural.y.',
   technique='Lean 4 induction over translator-generated evaluator vs reference semantics; decide-pin of dumped grammar; RD-parser soundness proof; exhaustive small-string correspondence with rply'),
 'C05': dict(
   level='proof',
   text='Lean 4 theorems codomain_sound / codomain_none_fails / codomain_nocrash / codomain_interval_wf, proved by structural induction '
        'for every expression, every width and every n, about the Evaluator and CodomainEvaluator that the py2lean translator regenerates '
        'from lib/intexpr.py on every run; a source change that breaks soundness breaks an induction case in the kernel, and the falsifier '
        'then evaluates the real code at all n < 2^b (b <= 5) to produce the failing input.',
   design='§6 C05',
   note='Trusted: Lean kernel; axioms propext/Classical.choice/Quot.sound only; the py2lean translator (validated each run by the '
        'plural-eval/plural-codomain correspondence streams on the real parser\'s ASTs); the 3-line glue (1 << bits).',
   technique='Lean 4 structural induction over translator-generated evaluators + differential correspondence + exhaustive small-width falsifier'),
 'C06': dict(
   level='proof',
   text='Lean 4 theorems period_sound / period_nocrash / gcd_correct for every expression, width and n, about the PeriodEvaluator, gcd loop and '
        'lcm fold regenerated from lib/intexpr.py on every run (the gcd loop is proved to terminate within the declared variant).',
   design='§6 C06',
   note='Trusted: Lean kernel; standard axioms only; py2lean translator (validated each run by plural-period/plural-eval/gcd-lcm streams); glue (1 << bits).',
   technique='Lean 4 induction (periodicity lemmas, gcd/lcm divisibility) over translator-generated code + correspondence + exhaustive small-width falsifier'),
}

def main():
    checks = []
    for pid in PROPS:
        if pid not in CLAIMED:
            continue
        c = CLAIMED[pid]
        checks.append({
            'property_id': pid,
            'quick_cmd': f'./check {pid} quick',
            'thorough_cmd': f'./check {pid} thorough',
            'evidence_file': f'evidence/{pid}.json',
            'replay_cmd_template': f'cat {{path}}',
            'engine': 'lean4+correspondence',
            'level_claimed': {'category': c['level'], 'text': c['text'], 'design_ref': c['design']},
            'level_note': c['note'],
            'technique': c['technique'],
        })
    m = {
        'version': 1,
        'setup_cmd': './setup.sh',
        'hooks': {
            'guard': 'I18NSPECTOR_VERIF',
            'enable': 'no hooks are needed: the harness observes the real code in-process (subclassing, patching in the harness only)',
            'baseline_off_cmd': 'cd /repo && /venv/bin/python -m pytest -ra -q -p no:cacheprovider --timeout=900 --continue-on-collection-errors',
            'source_commits': [],
            'add_only': True,
        },
        'engines': [{'name': 'lean4+correspondence', 'path': 'lean/', 'serves_properties': sorted(CLAIMED),
                     'kind_free_text': 'Lean 4 library (models, generated models, theorems) + Python translator, correspondence harness and falsifiers'}],
        'checks': checks,
        'not_applicable': [{'property_id': p, 'reason': 'not yet claimed: model/check under construction (see DESIGN.md §10 build order)'}
                           for p in PROPS if p not in CLAIMED],
        'notes': 'Machine-checked proof in Lean 4; see DESIGN.md. Exit codes: 0 held, 1 VIOLATION, 2 infrastructure error.',
    }
    json.dump(m, open(os.path.join(HERE, 'MANIFEST.json'), 'w'), indent=1)

if __name__ == '__main__':
    main()
