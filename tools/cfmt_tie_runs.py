#!/usr/bin/env python3
"""Re-run the C11 regex/decision-code tie experiments: apply each edit to a scratch clone of /repo, run `./check C11 quick`
against it, report (exit status, verdict line, which proof modules broke, the replayed input).  Usage:
    python3 tools/cfmt_tie_runs.py [name ...]        (default: all)
The clone lives in /tmp/c11d-tie-scratch and is removed at the end; Generated/ is regenerated from /repo afterwards."""
import json, os, re, shutil, subprocess, sys, time
HERE = os.path.dirname(os.path.dirname(os.path.abspath(__file__)))
SCRATCH = '/tmp/c11d-tie-scratch'
F = 'lib/strformat/c.py'

EDITS = {
    # ---- language-changing edits of _directive_re
    'L1-precision-needs-digit': [("(?P<precision> [0-9]* )", "(?P<precision> [0-9]+ )")],
    'L2-index-no-leading-zero': [("(?P<index> [0-9]+[$] )?", "(?P<index> [1-9][0-9]*[$] )?")],
    'L3-conversion-b': [("[diouxXeEfFgGaAcsCSpnm%]", "[bdiouxXeEfFgGaAcsCSpnm%]")],
    'L4-pri-EXACT': [("(?:LEAST|FAST)?", "(?:LEAST|FAST|EXACT)?")],
    'L5-flag-I-dropped': [("(?P<flags> [#0 +'I-]* )", "(?P<flags> [#0 +'-]* )")],
    'L6-literal-excludes-dollar': [("(?P<literal> [^%]+ )", "(?P<literal> [^%$]+ )")],
    'L7-unicode-digits-width': [("(?P<width> [1-9][0-9]* )", "(?P<width> [1-9]\\\\d* )")],
    'L8-varprec-index-dollar-optional': [("(?P<varprec> [*] ) (?P<varprec_index> [0-9]+[$] )?", "(?P<varprec> [*] ) (?P<varprec_index> [0-9]+[$]? )?")],
    # ---- behaviour-preserving respellings
    'R1-respelled': [("(?P<index> [0-9]+[$] )?", "(?P<index> \\\\d+\\\\$ )?"), ("(?P<flags> [#0 +'I-]* )", "(?P<flags> [-+ #0'I]* )"),
                     ("(?P<width> [1-9][0-9]* )", "(?P<width> [1-9]\\\\d* )"), ("hh? | ll? | [qjzZt] | L", "L | [tZzjq] | ll? | (?:hh?)"),
                     ("(?:LEAST|FAST)?(?:8|16|32|64)|MAX|PTR", "PTR|MAX|(?:FAST|LEAST)?(?:64|32|16|8)"), ("''', re.VERBOSE)", "''', re.VERBOSE | re.ASCII)")],
    'R2-comment-and-layout': [("        %\n", "        %   # the introducer\n"), ("(?P<flags> [#0 +'I-]* )", "(?P<flags>\n            [#0 +'I-]*\n        )")],
    'R3-width-any-digits': [("(?P<width> [1-9][0-9]* )", "(?P<width> [0-9]+ )")],
    'R4-length-h-or-hh': [("hh? | ll? | [qjzZt] | L", "h | hh | l | ll | [qjzZt] | L")],
    'R5-plus-as-star': [("(?P<literal> [^%]+ )", "(?P<literal> [^%][^%]* )"), ("(?P<varwidth_index> [0-9]+[$] )?", "(?P<varwidth_index> [0-9][0-9]*[$] )?")],
    # ---- one-line semantic edits of the decision code of Conversion.__init__
    'D1-width-ge-INT_MAX': [("            if width > INT_MAX:", "            if width >= INT_MAX:")],
    'D2-precision-not-for-strings': [("if conversion in i.int_cvt + i.float_cvt + i.str_cvt:", "if conversion in i.int_cvt + i.float_cvt:")],
    'D3-zero-flag-ints-only': [("                if conversion not in i.int_cvt + i.float_cvt:", "                if conversion not in i.int_cvt:")],
    'D4-index-forbidden-on-m': [("                if conversion == '%':\n                    raise ForbiddenArgumentIndex(s)", "                if conversion == 'm':\n                    raise ForbiddenArgumentIndex(s)")],
    'D5-varprec-not-registered-when-indexed': [("            try:\n                parent.add_argument(varprec_index, VariablePrecision(self))", "            try:\n                parent.add_argument(varprec_index, VariableWidth(self))")],
    'D6-redundant-warn-raises': [("            if count != 1:\n                parent.warn(RedundantFlag, s, flag, flag)", "            if count != 1:\n                raise FlagError(s, flag)")],
    'A1-add_argument-ge': [("        if n > NL_ARGMAX:\n            raise OverflowError(n)", "        if n >= NL_ARGMAX:\n            raise OverflowError(n)")],
    'A2-add_argument-numbered-after-one': [("        elif self._next_arg_index == 1:", "        elif self._next_arg_index <= 2:")],
    'A3-add_argument-no-increment': [("                self._next_arg_index += 1", "                self._next_arg_index += 0")],
    # ---- behaviour-preserving edits of the decision code
    'P1-rename-locals': [(None, lambda t: re.sub(r"(?<![<'])\b(varwidth|varprec)_index\b", lambda m: m.group(1)[:4] + '_ix', t))],
    'P3-rename-a-group-consistently': [("varwidth_index", "vw_index")],
    'P2-membership-string-reordered': [("            if conversion in '%n':", "            if conversion in 'n%':")],
}

def sh(cmd, **kw):
    return subprocess.run(cmd, shell=True, capture_output=True, text=True, **kw)

def run(name):
    shutil.rmtree(SCRATCH, ignore_errors=True)
    sh(f'git clone -q /repo {SCRATCH}')
    path = os.path.join(SCRATCH, F)
    text = open(path, encoding='utf-8').read()
    for old, new in EDITS[name]:
        if old is None:
            text = new(text)
            continue
        new = new.replace('\\\\', '\\')
        old = old.replace('\\n', '\n'); new = new.replace('\\n', '\n')
        if text.count(old) < 1:
            return {'name': name, 'error': f'edit does not apply: {old!r}'}
        text = text.replace(old, new, 1 if not name.startswith('P3') else -1)
    open(path, 'w', encoding='utf-8').write(text)
    t0 = time.time()
    tests = sh('/venv/bin/python -m pytest -q -p no:cacheprovider -x tests/test_strformat_c.py 2>&1 | tail -1', cwd=SCRATCH).stdout.strip()
    p = sh(f'VERIF_REPO={SCRATCH} ./check C11 quick', cwd=HERE)
    out = p.stdout + p.stderr
    verdict = [l for l in out.splitlines() if l.startswith(('VIOLATION', 'OK ', 'KNOWN-FINDING', 'INFRA'))]
    ev = json.load(open(os.path.join(HERE, 'evidence', 'C11.json')))
    cov = ev.get('coverage', {})
    res = {'name': name, 'exit': p.returncode, 'verdict': verdict[:2], 'project_tests': tests,
           'tie_checked': cov.get('tie', {}).get('checked'), 'tie_problems': cov.get('tie', {}).get('problems', [])[:2],
           'wall': round(time.time() - t0, 1)}
    m = re.search(r'replay=(\S+)', ' '.join(verdict))
    if m and os.path.exists(os.path.join(HERE, m.group(1))):
        rep = json.load(open(os.path.join(HERE, m.group(1))))
        res['replay'] = {k: rep.get(k) for k in ('kind', 'input', 'observed', 'expected') if k in rep}
    return res

def main():
    names = sys.argv[1:] or list(EDITS)
    results = []
    for n in names:
        r = run(n)
        print(json.dumps(r, ensure_ascii=False), flush=True)
        results.append(r)
    shutil.rmtree(SCRATCH, ignore_errors=True)
    sh('/venv/bin/python tools/translate/cfmt2lean.py /repo', cwd=HERE)
    sh('/venv/bin/python tools/translate/cfmtconv2lean.py /repo', cwd=HERE)
    sh('git checkout -- evidence/C11.json', cwd=HERE)
    sh('git clean -fdq replays/C11', cwd=HERE)

if __name__ == '__main__':
    main()
