"""Generators of brace-format strings (Python `str.format`, Perl `Locale::TextDomain`): the full product of single
replacement fields, every short string over a small alphabet, every interesting code point in every slot, boundary
numerals, truncations, multi-field strings (auto / explicit / named numbering, repeated keys, nested fields), edits,
garbage, pump strings for the timing stream."""
import itertools

NAMES = ['', '0', '1', '7', '12', '007', 'a', 'foo', '_x', 'a1', 'é', '²', '²3', '٣', '١٢', '1٣']
COMPOUND = ['0.a', 'a.b', 'a.b.c', 'a[0]', '0[x]', 'a[}]', 'a[{]', 'a[:]', 'a[!]', 'a[[]', '0[x].y[1]', 'a.é', 'a.1', 'a.', 'a[]', 'a[', 'a]', '0a', 'a b', 'a-b',
            '.a', '[0]', 'a..b', 'a[x]y', '0.²']
CONVS = ['', '!r', '!s', '!a', '!x', '!R', '!rr', '!', '!é', '!1', '!_']
FILLS = ['', '<', '>', '=', '^', 'x<', '0=', '<<', ' >', '+^', '#<', '0<', ',=', '.^', 'é>', '\n<', '!<', ':>']
SIGNS = ['', '+', '-', ' ']
ALTS = ['', '#']
ZEROS = ['', '0']
WIDTHS = ['', '5', '05', '12']
COMMAS = ['', ',', '_']
PRECS = ['', '.3', '.', '.0', '.٣']
TYPES = [''] + list('bcdoxXneEfFgGs%') + list('razZ_5é٣²i')
NESTED_SPECS = ['{}', '{0}', '{1}', '{a}', '{}{}', '{}.{}', 'x{}y', '{0}{0}', '{a}{b}', '<{}', '{}d', '{a.b}', '{a[0]}', '{0[x]}', '{a[}]}', '{a[{]}',
                '{:}', '{!r}', '{{}}', '{ }', '{', '}{', '{0}{}', '{}{0}', '{é}', '{²}', '{٣}']

SSIZE31 = 2 ** 31 - 1
SSIZE63 = 2 ** 63 - 1
BIG = [str(SSIZE31 + d) for d in (-2, -1, 0, 1, 2)] + [str(SSIZE63 + d) for d in (-1, 0, 1, 2)] + ['4294967296', '9' * 25, '0' * 30 + str(SSIZE31),
       '0' * 30 + str(SSIZE31 + 1), '٢١٤٧٤٨٣٦٤٧', '٢١٤٧٤٨٣٦٤٨', '1' * 4300, '1' * 4301, '0' * 4400, '9' * 4400]

def spec_product():
    return itertools.product(FILLS, SIGNS, ALTS, ZEROS, WIDTHS, COMMAS, PRECS, TYPES)

def n_specs():
    return len(FILLS) * len(SIGNS) * len(ALTS) * len(ZEROS) * len(WIDTHS) * len(COMMAS) * len(PRECS) * len(TYPES)

def spec_at(k):
    out = []
    for pool in (TYPES, PRECS, COMMAS, WIDTHS, ZEROS, ALTS, SIGNS, FILLS):
        k, i = divmod(k, len(pool))
        out.append(pool[i])
    return ''.join(reversed(out))

def specs(rng, count):
    n = n_specs()
    if count >= n:
        return [spec_at(k) for k in range(n)]
    return [spec_at(k) for k in rng.sample(range(n), count)]

def singles(rng, count):
    """single fields `{name conv :spec}`: specs sampled from the full product, names and conversions cycled"""
    out = []
    sp = specs(rng, count)
    names = NAMES + COMPOUND
    for i, s in enumerate(sp):
        r = rng.random()
        name = rng.choice(NAMES) if r < 0.6 else '' if r < 0.8 else rng.choice(names)
        conv = '' if rng.random() < 0.75 else rng.choice(CONVS)
        out.append('{' + name + conv + ':' + s + '}')
    return out

def fixed_singles():
    """every name x conversion (with and without an empty / simple / nested specification)"""
    out = []
    for name in NAMES + COMPOUND:
        for conv in CONVS:
            for tail in ('', ':', ':d', ':s', ':>5', ':{}', ':,x'):
                out.append('{' + name + conv + tail + '}')
    for n in NAMES[:6]:
        for ns in NESTED_SPECS:
            out.append('{' + n + ':' + ns + '}')
            out.append('{' + n + '!r:' + ns + '}')
    return out

PY_ALPHABET = '{}:!0a.[],<'
PY_ALPHABET2 = '{}:!0a'
PERL_ALPHABET = '{}a1_é '

def short_strings(maxlen, alphabet, need='{}'):
    out = []
    for n in range(0, maxlen + 1):
        for t in itertools.product(alphabet, repeat=n):
            if not need or any(c in need for c in t):
                out.append(''.join(t))
    return out

def interesting_codepoints(tables):
    """0..0x17f, and both sides of every boundary of the given range tables; surrogates left out (not representable in the model)"""
    cps = set(range(0, 0x180))
    for rs in tables:
        for a, b in rs:
            cps.update((a - 1, a, b, b + 1))
    cps.update((0x2028, 0x2029, 0xFEFF, 0xFFFD, 0xFFFF, 0x10000, 0x10FFFF, 0x1F600, 0xB2, 0xB9, 0x660, 0x669, 0x66A))
    return sorted(c for c in cps if 0 <= c <= 0x10FFFF and not 0xD800 <= c <= 0xDFFF)

PY_SLOTS = ['%s', '{%s}', '{a%s}', '{0%s}', '{%s0}', '{a.%s}', '{a[%s]}', '{!%s}', '{!r%s}', '{:%s}', '{:%s<}', '{:.%s}', '{:5%s}', '{:.3%s}',
            '{:{%s}}', '{:{a%s}}', '{:{a[%s]}}', '{%s:d}', '{a}%s{b}', '{:%s5}', '{:0%s}']
PERL_SLOTS = ['%s', '{%s}', '{a%s}', '{%sa}', '{a}%s', '{a%s', '%s{a}', '{_%s_}']

def context_strings(slots, cps):
    return [sl % chr(c) for sl in slots for c in cps]

def boundary_strings():
    out = []
    for n in BIG:
        out += ['{' + n + '}', '{:' + n + '}', '{:.' + n + '}', '{:.' + n + 'f}', '{:' + n + 'd}', '{:0' + n + '}', '{a:{' + n + '}}', '{0:{' + n + '}}',
                '{' + n + '.a}', '{' + n + '[0]}', '{:>' + n + '.' + n + '}', '{}{' + n + '}', '{' + n + '}{}', '{:{}}{' + n + '}']
    rich = 'ab{{c}}{0.x[1]!r:*>+#012,.3f}{:{a}{}}}}{{x{}'
    out += [rich[:i] for i in range(len(rich) + 1)]
    rich2 = '{foo!s:^{w}.{p}}{bar[}]:é<5}'
    out += [rich2[:i] for i in range(len(rich2) + 1)]
    out += ['{}' * k for k in (0, 1, 2, 3, 50)] + ['{}' * 3 + '{0}', '{0}' + '{}', '{a}{}{b}{}', '{a}{0}{b}{1}', '{a}{0}{}']
    return out

def gen_field(rng, numbering):
    """one replacement field; numbering in 'auto' | 'manual' | 'named' | 'any'"""
    r = rng.random()
    if numbering == 'auto':
        name = ''
    elif numbering == 'manual':
        name = str(rng.choice([0, 0, 1, 1, 2, 3, 10]))
    elif numbering == 'named':
        name = rng.choice(['a', 'b', 'foo', 'é', '_'])
    else:
        name = rng.choice(NAMES + COMPOUND)
    if r < 0.1 and numbering != 'auto':
        name += rng.choice(['.x', '[0]', '[k]', '.x.y'])
    conv = rng.choice(CONVS) if rng.random() < 0.15 else ''
    r = rng.random()
    if r < 0.35:
        spec = ''
    elif r < 0.85:
        spec = ':' + rng.choice(['', 'd', 's', 'f', 'x', 'n', 'c', '5', '>5', '05d', '.3', '.3f', ',', ',d', '+d', '#x', 'e', '%', 'g', 'b', '^10s', 'é<4', '=5'])
    elif r < 0.95:
        inner = {'auto': ['{}', '{}{}', '<{}', '{}.{}'], 'manual': ['{1}', '{0}', '{2}.{3}', '>{1}'], 'named': ['{w}', '{w}.{p}', '{a}'],
                 'any': NESTED_SPECS}[numbering]
        spec = ':' + rng.choice(inner)
    else:
        spec = ':' + spec_at(rng.randrange(n_specs()))
    return '{' + name + conv + spec + '}'

LITERALS = ['', '', 'x', ' ', 'abc', '{{', '}}', '{{}}', 'é', '\n', ':', '!', '[', ']', '.', '0']

def gen_string(rng):
    mode = rng.choice(['auto', 'manual', 'named', 'auto+named', 'manual+named', 'any', 'mixed'])
    n = rng.choice([1, 2, 2, 3, 3, 4, 6])
    out = []
    for _ in range(n):
        out.append(rng.choice(LITERALS))
        if mode == 'mixed':
            k = rng.choice(['auto', 'manual', 'named'])
        elif '+' in mode:
            k = rng.choice(mode.split('+'))
        else:
            k = mode
        out.append(gen_field(rng, k))
    out.append(rng.choice(LITERALS))
    return ''.join(out)

def gen_clash(rng):
    """the same key used twice with specifications of possibly different types"""
    key = rng.choice(['0', '1', 'a', ''])
    ts = ['', 'd', 's', 'f', 'n', 'x', 'c', 'e', '.3', ',', '+', '05', '>5', '=5']
    a, b = rng.choice(ts), rng.choice(ts)
    if key == '':
        return '{:' + a + '}{:' + b + '}'
    third = rng.choice(['', '{' + key + ':' + rng.choice(ts) + '}', '{' + key + '!r}', '{x:{' + key + '}}'])
    return '{' + key + ':' + a + '}' + rng.choice(LITERALS) + '{' + key + ':' + b + '}' + third

GARBAGE = '{}{}{}::!![].,<>=^+-# 0123456789abdfsxrné_%\n'

def gen_garbage(rng, alphabet=GARBAGE):
    return ''.join(rng.choice(alphabet) for _ in range(rng.randrange(0, 14)))

def mutate(rng, s, alphabet=GARBAGE):
    if not s:
        return rng.choice(alphabet)
    r = rng.random()
    i = rng.randrange(len(s))
    if r < 0.35:
        return s[:i] + s[i + 1:]
    if r < 0.7:
        return s[:i] + rng.choice(alphabet) + s[i:]
    if r < 0.9:
        return s[:i] + rng.choice(alphabet) + s[i + 1:]
    j = rng.randrange(len(s))
    i, j = min(i, j), max(i, j)
    return s[:i] + s[j:]

# ----------------------------------------------------------------------------- perl-brace

PERL_NAMES = ['a', 'foo', '_', '_1', 'a1', 'é', 'aé', '²', 'a²', 'x٣', 'A_b_9', 'name']
PERL_BAD = ['', '1', '1a', '٣', ' ', 'a b', 'a-b', 'a.b', '{a}', 'a}', '{', 'a{', '-', 'a\n']

def gen_perl(rng):
    out = []
    for _ in range(rng.choice([0, 1, 1, 2, 3, 5])):
        out.append(rng.choice(['', 'x', 'abc ', '}', '}}', ' é ', '\n', '1', '$']))
        r = rng.random()
        if r < 0.8:
            out.append('{' + rng.choice(PERL_NAMES) + '}')
        elif r < 0.9:
            out.append('{' + rng.choice(PERL_BAD) + '}')
        else:
            out.append(rng.choice(['{', '{a', '{{', '{}', '{a}}', '{a{b}}']))
    out.append(rng.choice(['', 'x', '}', 'tail']))
    return ''.join(out)

PERL_GARBAGE = '{}{}{}a1_é² -.\n'

# ----------------------------------------------------------------------------- pump strings for the timing stream

def pump_templates():
    """(name, prefix, pump, suffix): the string is prefix + pump * n + suffix; chosen so that every quantified part of the
    patterns is exercised on a failing and on a succeeding tail"""
    return [
        ('unterminated-spec', '{:', 'a', ''),
        ('unterminated-spec-nested', '{:', '{}', ''),
        ('unterminated-spec-mixed', '{:', 'a{0}', ''),
        ('unterminated-name', '{', 'a', ''),
        ('unterminated-digits', '{', '0', ''),
        ('unterminated-attr', '{a', '.b', ''),
        ('unterminated-index', '{a', '[0]', ''),
        ('open-bracket', '{a[', 'x', ''),
        ('conversion-run', '{!', 'r', ''),
        ('literal-run', '', 'a', '{'),
        ('escaped-braces', '', '{{', '{'),
        ('escaped-close', '', '}}', '}'),
        ('many-fields', '', '{}', '{'),
        ('ok-fields', '', '{0:d}', ''),
        ('ok-spec', '{:', 'a', '}'),
        ('nested-name-run', '{:{', 'a', ''),
        ('nested-attr-run', '{:{a', '.b', ''),
        ('lone-open', '', '{', ''),
        ('width-run', '{:', '1', 'q}'),
        ('precision-run', '{:.', '1', 'q}'),
    ]

def perl_pump_templates():
    return [
        ('unterminated-name', '{', 'a', ''),
        ('literal-run', '', 'a', '{'),
        ('many-fields', '', '{a}', '{'),
        ('ok-fields', '', '{a}', ''),
        ('lone-open', '', '{', ''),
        ('close-run', '', '}', '{'),
    ]
