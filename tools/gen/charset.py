"""Generators for C20: charset names, byte strings / texts per extra codec, scripts for an adversarial iconv, character lists."""
import itertools

EXTRA_CODECS = ['KOI8-RU', 'KOI8-T', 'VISCII', 'GEORGIAN-PS', 'EUC-TW']
CHARMAP_CODECS = ['KOI8-RU', 'VISCII', 'GEORGIAN-PS']
SINGLE_BYTE = ['KOI8-RU', 'KOI8-T', 'VISCII', 'GEORGIAN-PS']

# the list of portable charset names of the gettext manual / gettext-tools/src/po-charset.c (what data/encodings copies)
GETTEXT_PORTABLE = [
    'ASCII', 'US-ASCII', 'ANSI_X3.4-1968', 'ISO-8859-1', 'ISO-8859-2', 'ISO-8859-3', 'ISO-8859-4', 'ISO-8859-5', 'ISO-8859-6',
    'ISO-8859-7', 'ISO-8859-8', 'ISO-8859-9', 'ISO-8859-13', 'ISO-8859-14', 'ISO-8859-15', 'KOI8-R', 'KOI8-U', 'KOI8-T',
    'CP850', 'CP866', 'CP874', 'CP932', 'CP949', 'CP950', 'CP1250', 'CP1251', 'CP1252', 'CP1253', 'CP1254', 'CP1255', 'CP1256',
    'CP1257', 'GB2312', 'EUC-JP', 'EUC-KR', 'EUC-TW', 'BIG5', 'BIG5-HKSCS', 'GBK', 'GB18030', 'SHIFT_JIS', 'JOHAB', 'TIS-620',
    'VISCII', 'GEORGIAN-PS', 'UTF-8']

# the tool's "ASCII repertoire" as documented in lib/encodings.py: NUL EOT BEL BS HT LF VT FF CR ESC and the printable characters
ASCII_REPERTOIRE = bytes([0, 4, 7, 8, 9, 10, 11, 12, 13, 27] + list(range(32, 127)))

def ascii_case_safe(s):
    """Python's str.lower()/upper() act on `s` exactly like the ASCII-only mapping of the model"""
    lo = ''.join(chr(ord(c) + 32) if 'A' <= c <= 'Z' else c for c in s)
    up = ''.join(chr(ord(c) - 32) if 'a' <= c <= 'z' else c for c in s)
    return s.lower() == lo and s.upper() == up

def spellings(name):
    out = {name, name.lower(), name.upper(), name.title(), name.swapcase()}
    for v in list(out):
        out.add(v.replace('-', '_'))
        out.add(v.replace('_', '-'))
        out.add(v.replace('-', ''))
        if v.lower().startswith('iso-') or v.lower().startswith('iso_'):
            out.add(v[:3] + '_' + v[4:])
            out.add(v[:3] + '-' + v[4:])
            out.add(v[:3] + v[4:])
    return out

def known_names(python_names, tool_names):
    """every name known to Python, gettext or the tool, in the spellings people write"""
    names = set(python_names)
    for n in list(GETTEXT_PORTABLE) + list(tool_names):
        names |= spellings(n)
    names |= {'CHARSET', 'charset', 'Charset'}
    return sorted(n for n in names if n)

GARBAGE = ['eggs', 'x', 'utf8x', 'iso_', 'ISO_', 'iso-', 'iso_8859', 'iso_8859_2', 'ISO_8859-16', 'iso-8859-16', 'iso_8859-1:1987',
           'koi8', 'koi8-', 'koi8_ru', 'KOI8_RU', 'koi8-ru', 'koi8_t', 'euc_tw', 'EUC_TW', 'euctw', 'georgian_ps', 'Georgian-PS',
           'georgian-academy', 'viscii1.1-1', 'tcvn', 'utf-8-sig', 'UTF-8-SIG', 'utf_8', 'U8', 'latin-1', 'latin_1', 'l2', 'windows-1250',
           'Windows-1250', 'WINDOWS_1252', 'cp-1252', 'ibm850', 'IBM866', 'ms932', 'sjis', 'SJIS', 'big5hkscs', 'big5-hkscs', 'eucjp',
           'EUC_JP', 'gb2312-80', 'hz', 'utf-7', 'UTF-16', 'utf-32', 'utf_16_le', 'punycode', 'idna', 'unicode_escape',
           'raw_unicode_escape', 'undefined', 'mbcs', 'oem', 'rot13', 'hex', 'base64', 'zlib', 'bz2', 'uu', 'quopri', 'string-escape',
           '646', 'ansi_x3.4-1968', 'ANSI_X3.4-1968', 'ansi_x3_4_1968', 'us', 'ascii ', 'a' * 40, '8859', 'tis620', 'TIS_620', 'tis-620',
           'cp874', 'iso8859-11', 'iso-8859-11', 'iso_8859_11', 'ISO-8859-10', 'iso-8859-16', 'ISO-IR-6', 'cp65001', 'cp037', 'CP037',
           'mac-roman', 'macintosh', 'kz1048', 'ptcp154', 'koi8-t', 'KOI8-T', 'Koi8-T', 'tcvn-5712', 'ä', 'é-8', 'utf-8​', '€',
           '\x00', 'utf-8\x00', 'ut\x00f-8', '\x7f', '-', '_', '.', '--', 'iso_-', '%s', '{0}', '*', '?', '\\', '/etc/passwd', '../x']

def mutate_name(rng, name):
    k = rng.randrange(7)
    if not name:
        return 'x'
    i = rng.randrange(len(name))
    if k == 0:
        return name[:i] + name[i].swapcase() + name[i + 1:]
    if k == 1:
        return name[:i] + rng.choice('-_ .:8') .strip() + name[i:]
    if k == 2:
        return name[:i] + name[i + 1:]
    if k == 3:
        return name.replace('-', '_') if '-' in name else name.replace('_', '-')
    if k == 4:
        return 'iso_' + name[i:]
    if k == 5:
        return name + rng.choice(['', '-1', '_x', '2', '0'])
    return name[:i] + rng.choice('abcxyz0189') + name[i + 1:]

def name_stream(rng, known, count):
    out = list(known) + GARBAGE
    while len(out) < len(known) + len(GARBAGE) + count:
        base = rng.choice(known)
        n = mutate_name(rng, base)
        if rng.random() < 0.3:
            n = mutate_name(rng, n)
        out.append(n)
    # names travel as one protocol word; drop what the Content-Type regex [^\s;]+ could never deliver, keep the rest
    seen, res = set(), []
    for n in out:
        if n and n not in seen and not any(c.isspace() for c in n) and ';' not in n and '\x00' not in n and ascii_case_safe(n):
            seen.add(n)
            res.append(n)
    return res

# ------------------------------------------------------------------ byte strings and texts

def byte_strings_single(rng, count, maxlen=24):
    """byte strings for a single-byte codec: every byte alone, every byte in context, random strings of all length classes"""
    out = [b''] + [bytes([b]) for b in range(256)] + [b'a' + bytes([b]) + b'z' for b in range(256)]
    out.append(bytes(range(256)))
    out.append(bytes(reversed(range(256))))
    for _ in range(count):
        n = rng.choice([1, 2, 3, 4, 5, 7, 8, 9, 15, 16, 17, maxlen, 64, 255, 256, 257])
        mode = rng.randrange(4)
        if mode == 0:
            s = bytes(rng.randrange(256) for _ in range(n))
        elif mode == 1:
            s = bytes(rng.randrange(128, 256) for _ in range(n))
        elif mode == 2:
            s = bytes(rng.choice([rng.randrange(32, 127), rng.randrange(128, 256)]) for _ in range(n))
        else:
            s = bytes(rng.randrange(0, 32) if rng.random() < 0.3 else rng.randrange(256) for _ in range(n))
        out.append(s)
    return out

def euctw_units(rng):
    """one EUC-TW code unit, valid-looking or not"""
    k = rng.randrange(10)
    hi = lambda: rng.randrange(0xA1, 0xFF)
    if k < 3:
        return bytes([rng.randrange(0x20, 0x7F)])
    if k < 6:
        return bytes([hi(), hi()])
    if k < 8:
        return bytes([0x8E, rng.randrange(0xA1, 0xB1), hi(), hi()])
    if k == 8:
        return bytes([rng.choice([0x80, 0x8E, 0x8F, 0xA0, 0xFF, hi()])])
    return bytes([rng.randrange(256) for _ in range(rng.randrange(1, 4))])

def byte_strings_euctw(rng, count, exhaustive2=False, plane_sample=2000):
    out = [b''] + [bytes([b]) for b in range(256)]
    rows = range(0xA1, 0xFF)
    if exhaustive2:
        out += [bytes([a, b]) for a in rows for b in rows]
    else:
        out += [bytes([a, b]) for a in rows for b in rng.sample(list(rows), 6)]
    for _ in range(plane_sample):
        out.append(bytes([0x8E, rng.randrange(0xA1, 0xB1), rng.randrange(0xA1, 0xFF), rng.randrange(0xA1, 0xFF)]))
    # truncations and bad trail bytes
    for a in (0xA1, 0xA4, 0xC5, 0xFD, 0xFE, 0x8E):
        for tail in (b'', b'\xa1', b'\x41', b'\xff', b'\x80', b'\xa2\xa1', b'\xa2\xa1\xa1', b'\xa1\xa1\xa1\xa1', b'\xb1\xa1\xa1'):
            out += [bytes([a]) + tail, b'ab' + bytes([a]) + tail, bytes([a]) + tail + b'z', b'\xa4\xa1' * 3 + bytes([a]) + tail + b'\xa4\xa1q']
    for _ in range(count):
        n = rng.choice([1, 2, 3, 4, 5, 8, 16, 33, 64, 200])
        out.append(b''.join(euctw_units(rng) for _ in range(n)))
    return out

OUTSIDERS = ['\x00', '\x7f', '\x80', '\xa0', '\xff', 'Ā', 'А', 'я', 'Ґ', 'ҳ', 'Ạ', 'ỹ', 'ა', 'ჿ',
             '€', '№', '─', '一', '乂', '龥', '￾', '￿', '﻿', '\ud800', '\udfff', '\U00010000',
             '\U0001f600', '\U0002a6d6', '\U0010ffff']

def texts(rng, repertoire, count, maxlen=20):
    """texts for the encode direction: characters of the codec's own repertoire mixed with outsiders"""
    rep = list(repertoire) or ['a']
    out = [''] + [c for c in rep[:600]] + OUTSIDERS + ['a' + c + 'b' for c in OUTSIDERS] + [c + c for c in OUTSIDERS]
    out += ['a€€b€', '€' * 5, 'ab' + '€' * 3, '￾\x00a', 'x' * 300, ''.join(rep[:300])]
    for _ in range(count):
        n = rng.choice([1, 2, 3, 5, 8, 13, maxlen, 70])
        p_out = rng.choice([0.0, 0.0, 0.1, 0.5])
        out.append(''.join(rng.choice(OUTSIDERS) if rng.random() < p_out else rng.choice(rep) for _ in range(n)))
    return out

# ------------------------------------------------------------------ scripts for the adversarial iconv

RCS = ['ok', 'e2big', 'eilseq', 'einval']

def iconv_scripts(rng, count, decode=True):
    """(input length n, [(told, reset, main, flush)] for told = n, 2n, 4n, …) — main/flush = (rc, consumed, written bytes).
    The fake iconv is honest about memory (never writes more than it was told) but otherwise adversarial: any expansion
    ratio, E2BIG for any number of rounds, errors at any offset, short reads, non-multiple-of-4 output, errno soup."""
    out = []
    for _ in range(count):
        n = rng.choice([1, 1, 2, 3, 4, 5, 7, 8, 16, 31, 100])
        in_bytes = n if decode else 4 * n
        rounds = []
        told = n
        k = 0
        while True:
            last = k >= 7 or rng.random() < 0.35
            reset = None if rng.random() < 0.985 else rng.choice([9, 22, 12])
            def call(maxw, final):
                if final:
                    rc = rng.choice(['ok'] * 12 + ['eilseq', 'eilseq', 'eilseq', 'einval', 'einval', '12', '75'])
                else:
                    rc = 'e2big'
                if rc == 'ok':
                    consumed = in_bytes if rng.random() < 0.95 else rng.randrange(in_bytes + 1)
                elif rc == 'e2big':
                    consumed = rng.randrange(in_bytes + 1)
                else:
                    consumed = rng.randrange(in_bytes) if rng.random() < 0.93 else in_bytes
                    if not decode and rng.random() < 0.8:
                        consumed -= consumed % 4
                w = rng.randrange(maxw + 1) if rng.random() < 0.6 else maxw
                if decode and rng.random() < 0.85:
                    w -= w % 4
                written = bytes(rng.randrange(256) if rng.random() < 0.5 else rng.choice([0, 0x41, 0x20]) for _ in range(w))
                return (rc, consumed, written)
            main_final = last and rng.random() < 0.8
            main = call(told, main_final)
            if not last and main[0] != 'e2big':
                main = ('e2big', main[1], main[2])
            flush_room = told - len(main[2])
            if main[0] == 'ok':
                frc_final = True
                flush = call(min(flush_room, 8), frc_final)
                flush = (flush[0], 0, flush[2])
            elif last and main[0] == 'e2big':
                # the flush call is never made; give the round a terminal main call instead
                main = (rng.choice(['eilseq', 'einval', '5']), main[1] if main[1] < in_bytes else 0, main[2])
                flush = ('ok', 0, b'')
            else:
                flush = ('ok', 0, b'')
            if decode:
                # the concatenation main+flush is what ctypes hands back as 32-bit units: keep them inside the Unicode range
                both = sane_units(rng, main[2] + flush[2])
                main = (main[0], main[1], both[:len(main[2])])
                flush = (flush[0], flush[1], both[len(main[2]):])
            rounds.append((told, reset, main, flush))
            if last or reset is not None:
                break
            told *= 2
            k += 1
        out.append((n, rounds))
    return out

def sane_units(rng, data):
    bs = bytearray(data)
    for i in range(0, len(bs) - 3, 4):
        if bs[i + 2] > 0x10:
            bs[i + 2] = rng.choice([0, 0, 1, 0x10])
        bs[i + 3] = 0
        if bs[i + 2] == 0 and 0xD8 <= bs[i + 1] <= 0xDF:
            bs[i + 1] = 0x4E
    return bytes(bs)

def char_lists(rng, count):
    pool = ['a', 'b', 'é', 'ß', '€', 'ж', 'ა', '中', 'ạ', '\U0001f600', 'ab', '(x)', '(', ')', '()', 'x)', '(y', '((z))', 'q']
    out = []
    for _ in range(count):
        n = rng.choice([1, 1, 2, 3, 4, 5, 6, 7, 12, 40])
        chars = [rng.choice(pool) for _ in range(n)]
        p = rng.choice([0.0, 0.1, 0.5, 1.0])
        per = ''.join(rng.choice('e' if rng.random() < 0.85 else 'uic') if rng.random() < p else 'o' for _ in chars)
        out.append((chars, per))
    return out
