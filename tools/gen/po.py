"""Generators for C10: catalogs, PO spellings of them (the executable form of Spec.PoSpelling), and malformed PO text.

A catalog is {'header_comment': str, 'entries': [entry]}, an entry is a dict with the keys of FIELDS.
`render(rng, catalog, charset, ...)` chooses one spelling and returns the file bytes; every choice the property names is
made at random: per-character escape style, continuation cuts, blank lines, comment forms, obsolete prefix, padding.
"""
import codecs, random

FIELDS = ('msgctxt', 'msgid', 'msgid_plural', 'msgstr', 'msgstr_plural', 'flags', 'obsolete',
          'previous_msgctxt', 'previous_msgid', 'previous_msgid_plural', 'occurrences', 'comment', 'tcomment')

SIMPLE = {'\n': 'n', '\t': 't', '\r': 'r', '\a': 'a', '\b': 'b', '\f': 'f', '\v': 'v', '\\': '\\', '"': '"'}
HEXDIGITS = '0123456789abcdefABCDEF'
OCTDIGITS = '01234567'

# charsets: (name as declared, python codec used by the generator to encode).  The tool's own codecs (KOI8-RU, VISCII,
# GEORGIAN-PS via data/charmaps; EUC-TW, KOI8-T via iconv) are only usable once lib.encodings.install_extra_encodings() ran.
CHARSETS = ['UTF-8', 'ISO-8859-1', 'ISO-8859-2', 'ISO-8859-15', 'KOI8-R', 'KOI8-U', 'CP1251', 'CP1252', 'ISO-8859-7', 'ISO-8859-5',
            'EUC-JP', 'SHIFT_JIS', 'GB2312', 'GBK', 'BIG5', 'EUC-KR', 'GB18030', 'TIS-620', 'CP437',
            'KOI8-RU', 'GEORGIAN-PS', 'VISCII', 'EUC-TW', 'KOI8-T', 'ASCII']

CANDIDATES = ('ąćęłńóśźżĄĆĘŁŃÓŚŹŻ' 'äöüßÄÖÜéèêëàâçñøåæœŒ€¢£¥§©®°±²³µ¶·¹º»¼½¾¿×÷' 'абвгдежзийклмнопрстуфхцчшщъыьэюяАБВГДЕЁё'
              'їієґЇІЄҐ' 'αβγδεζηθλμπρστφχψωΑΒΓΔ' 'あいうえおかきくけこアイウエオ日本語漢字中文简体繁體韓國한국어가나다' 'กขคงจฉชซ' 'აბგდევზთ'
              'ẠẮẰẶẤẦẨạắằặấầẩ' 'ӣӯҳқғҷ' '\u00a0\u00ad\u2013\u2014\u2018\u2019\u201c\u201d\u2026\u2022' '\u0100\u0101\u0112\u0113'
              '\U0001F600\U00010348\u3000\u2028\u0085\u00a0\ufeff\u200b' '\u30bd\u8868\u4e88\u5341')  # last four: 0x5C as second byte in Shift_JIS

_rep_cache = {}
def repertoire(charset):
    """non-ASCII characters the charset encodes statelessly and losslessly (each alone and in context)"""
    if charset in _rep_cache:
        return _rep_cache[charset]
    rep = []
    try:
        codecs.lookup(charset)
        for ch in dict.fromkeys(CANDIDATES):
            try:
                b = ch.encode(charset)
                if b.decode(charset) == ch and ('a' + ch + 'b').encode(charset) == b'a' + b + b'b' and (ch + ch).encode(charset) == b + b \
                        and any(x >= 0x80 for x in b):
                    rep.append(ch)
            except (UnicodeError, LookupError):
                pass
    except LookupError:
        rep = None
    _rep_cache[charset] = rep
    return rep

def usable_charsets():
    return [c for c in CHARSETS if repertoire(c) is not None]

# ----------------------------------------------------------------------------- catalogs

ASCII_PLAIN = 'abcdefghijklmnopqrstuvwxyz ABCDEFXYZ 0123456789 %s{}()[]<>.,:;!?-_=+*/#~|@$&^`\''
ASCII_SPECIAL = '\n\n\n\t\r\a\b\f\v\\\\""'
ASCII_CTRL = ''.join(chr(c) for c in range(1, 32) if chr(c) not in '\n') + '\x7f\x00'

_ctrl_cache = {}
def ascii_ctrl(charset):
    """the ASCII control characters the charset encodes as themselves (VISCII re-uses six of them for letters)"""
    if charset not in _ctrl_cache:
        ok = ''
        for ch in ASCII_CTRL:
            try:
                if ch.encode(charset) == bytes([ord(ch)]) and bytes([ord(ch)]).decode(charset) == ch:
                    ok += ch
            except (UnicodeError, LookupError):
                pass
        _ctrl_cache[charset] = ok or '\x01'
    return _ctrl_cache[charset]

def gen_text(rng, rep, maxlen=12, ctrl=None):
    n = rng.choice([0, 1, 1, 2, 3, 5, 8, maxlen])
    out = []
    ctrl = ctrl or ASCII_CTRL
    for _ in range(n):
        r = rng.random()
        if r < 0.45:
            out.append(rng.choice(ASCII_PLAIN))
        elif r < 0.60:
            out.append(rng.choice('0123456789abcdefABCDEF'))      # digits right after short escapes are the hazard
        elif r < 0.75:
            out.append(rng.choice(ASCII_SPECIAL))
        elif r < 0.80:
            out.append(rng.choice(ctrl))
        elif rep:
            out.append(rng.choice(rep))
        else:
            out.append(rng.choice(ASCII_PLAIN))
    return ''.join(out)

WS = ' \t\r\x0b\x0c\x1c\x1d\x1e\x1f\x85\xa0\u1680\u2000\u2003\u2028\u2029\u202f\u205f\u3000'

def is_space(ch):
    return ch.isspace()

def gen_comment_line(rng, rep, nonempty):
    """one line of comment text: no newline, no trailing whitespace; `nonempty`: contains a non-space character"""
    for _ in range(20):
        n = rng.choice([0, 1, 3, 6, 10])
        s = ''.join(rng.choice(ASCII_PLAIN + ASCII_PLAIN + '#"\\' + (''.join(rep[:8]) if rep else '')) for _ in range(n))
        s = s.rstrip()
        while s and s[-1].isspace():
            s = s[:-1]
        if any(is_space(c) and c != ' ' for c in s):
            continue
        if nonempty and not s.strip():
            continue
        return s
    return 'x'

def gen_flag(rng, rep):
    r = rng.random()
    if r < 0.5:
        return rng.choice(['fuzzy', 'c-format', 'no-c-format', 'python-format', 'python-brace-format', 'range: 0..5', 'no-wrap', 'wrap', 'perl-brace-format'])
    if r < 0.6:
        return ''
    s = ''.join(rng.choice('abcxyz-0:. _' + (''.join(rep[:4]) if rep else '')) for _ in range(rng.choice([1, 2, 5])))
    return s.strip()

def gen_occurrence(rng, rep):
    f = ''.join(rng.choice('abc/._-:' + (''.join(rep[:3]) if rep else '')) for _ in range(rng.choice([1, 3, 6])))
    r = rng.random()
    if r < 0.7:
        return (f, str(rng.choice([0, 1, 7, 12, 345, 100000])))
    # no line number: the token must not read as file:digits
    if ':' in f:
        head, tail = f.rsplit(':', 1)
        if tail.isdigit():
            f = f + 'x'
    return (f, '')

def gen_entry(rng, rep, first=False, header_value=None, ctrl=None):
    e = dict.fromkeys(FIELDS)
    e['obsolete'] = False if first else rng.random() < 0.2
    e['msgctxt'] = gen_text(rng, rep, ctrl=ctrl) if (not first and rng.random() < 0.3) else None
    e['msgid'] = '' if first else gen_text(rng, rep, ctrl=ctrl)
    if not first and rng.random() < 0.3:
        e['msgid_plural'] = gen_text(rng, rep, ctrl=ctrl)
        e['msgstr'] = None
        e['msgstr_plural'] = {i: gen_text(rng, rep, ctrl=ctrl) for i in range(rng.choice([1, 2, 3, 4, 6, 10]))}
    else:
        e['msgid_plural'] = None
        e['msgstr'] = header_value if first else gen_text(rng, rep, ctrl=ctrl)
        e['msgstr_plural'] = {}
    e['flags'] = [gen_flag(rng, rep) for _ in range(rng.choice([0, 0, 1, 2, 3]))]
    if e['flags'] == ['']:
        e['flags'] = []
    e['occurrences'] = [gen_occurrence(rng, rep) for _ in range(rng.choice([0, 0, 1, 2, 4]))]
    e['comment'] = '\n'.join(gen_comment_line(rng, rep, True) for _ in range(rng.choice([0, 0, 1, 2])))
    # the translator comment of the first entry is the file's header comment (polib's `he` state)
    lines = [gen_comment_line(rng, rep, False) for _ in range(0 if first else rng.choice([0, 0, 1, 2, 3]))]
    while lines and lines[0] == '':
        lines.pop(0)
    e['tcomment'] = '\n'.join(lines)
    for k in ('previous_msgctxt', 'previous_msgid', 'previous_msgid_plural'):
        e[k] = gen_text(rng, rep, ctrl=ctrl) if (not e['obsolete'] and rng.random() < 0.15) else None
    return e

def header_value(rng, charset, rep):
    fields = [('Project-Id-Version', 'x 1'), ('Language', 'pl'), ('MIME-Version', '1.0'),
              ('Content-Type', f'text/plain; charset={charset}'), ('Content-Transfer-Encoding', '8bit'),
              ('Last-Translator', (rep[0] if rep else 'A') + ' <a@example.org>')]
    k = rng.randrange(len(fields))
    if rng.random() < 0.5:
        fields = fields[k:] + fields[:k]
    if rng.random() < 0.3:
        fields = [f for f in fields if f[0] == 'Content-Type' or rng.random() < 0.5]
    return ''.join(f'{a}: {b}\n' for a, b in fields)

def gen_catalog(rng, charset, with_header=None):
    rep = repertoire(charset) or []
    if charset == 'ASCII':
        rep = []
    ctrl = ascii_ctrl(charset)
    if with_header is None:
        with_header = charset != 'ASCII' or rng.random() < 0.5
    entries = []
    if with_header:
        entries.append(gen_entry(rng, rep, first=True, header_value=header_value(rng, charset, rep), ctrl=ctrl))
    for _ in range(rng.choice([0, 1, 1, 2, 3, 5])):
        entries.append(gen_entry(rng, rep, first=not entries, ctrl=ctrl))
        if len(entries) == 1 and not with_header:
            entries[0]['msgid'] = gen_text(rng, rep, ctrl=ctrl) or 'x'
            entries[0]['msgstr'] = gen_text(rng, rep, ctrl=ctrl)
    lines = [gen_comment_line(rng, rep, False) for _ in range(rng.choice([0, 0, 1, 3]))]
    while lines and lines[0] == '':
        lines.pop(0)
    return {'header_comment': '\n'.join(lines) if entries else '', 'entries': entries}

# ----------------------------------------------------------------------------- spelling

def spell_byte(rng, b, style):
    """→ (escape text, kind) kind: 'hex' / 'oct' when a following hex / octal digit would be swallowed, else None"""
    r = rng.random()
    if style == 'oct' or (style == 'mix' and r < 0.5):
        digs = format(b, 'o')
        k = rng.choice([len(digs), 3, 3])
        digs = digs.rjust(k, '0')
        return '\\' + digs, ('oct' if len(digs) < 3 else None)
    digs = format(b, rng.choice(['x', 'X']))
    if len(digs) == 2 or rng.random() < 0.5:
        digs = digs.rjust(2, '0')
    # a C reader takes every following hex digit; the patch takes at most two: both spellings need a non-hex successor
    return '\\x' + digs, 'hex'

def spell_char(rng, ch, charset, style):
    """→ (text, hazard)"""
    cp = ord(ch)
    raw_ok = ch not in '\n"\\'
    r = rng.random()
    if ch in SIMPLE and (not raw_ok or r < 0.6 or style == 'min'):
        if not (raw_ok and style == 'raw'):
            if r < 0.85 or style == 'min':
                return '\\' + SIMPLE[ch], None
    if raw_ok and (style in ('raw', 'min') or r < 0.55):
        return ch, None
    if style in ('raw', 'min'):
        style = 'mix'
    bs = ch.encode(charset) if cp >= 128 else bytes([cp])
    out, hazard = '', None
    for b in bs:
        t, hazard = spell_byte(rng, b, style)
        out += t
    return out, hazard

def spell_string(rng, s, charset, style=None, cut_prob=None):
    """→ list of segments (the text between the quotes of each physical line); at least one"""
    style = style or rng.choice(['raw', 'min', 'mix', 'mix', 'oct', 'hex'])
    cut_prob = rng.choice([0, 0, 0.1, 0.3, 1.0]) if cut_prob is None else cut_prob
    segs, cur, hazard = [], '', None
    if rng.random() < 0.3:
        segs.append('')
    for ch in s:
        if cur and rng.random() < cut_prob:
            segs.append(cur); cur = ''; hazard = None
            if rng.random() < 0.05:
                segs.append('')
        t, hz = spell_char(rng, ch, charset, style)
        if hazard == 'hex' and t[0] in HEXDIGITS or hazard == 'oct' and t[0] in OCTDIGITS:
            # the previous short escape would swallow this digit: cut the line here or escape the digit
            if rng.random() < 0.5:
                segs.append(cur); cur = ''
            else:
                t, hz = spell_byte(rng, ord(ch), rng.choice(['oct', 'hex']))
        cur += t
        hazard = hz
        if ch == '\n' and rng.random() < 0.5:
            segs.append(cur); cur = ''; hazard = None
    if cur or not segs:
        segs.append(cur)
    elif rng.random() < 0.2:
        segs.append('')
    return segs

def pad(rng):
    return rng.choice(['', '', '', ' ', '\t', '  '])

def sep(rng):
    return rng.choice([' ', ' ', ' ', '\t', '  ', ' \t'])

def string_lines(rng, keyword, s, charset, prefix='', protect=None):
    """lines `keyword "…"` + continuation lines; `protect`: a substring that must stay on one physical line (raw)"""
    if protect and protect in s:
        a, b = s.split(protect, 1)
        pre = spell_string(rng, a, charset)
        post = spell_string(rng, b, charset)
        mid = ''.join('\\n' if c == '\n' else c for c in protect)
        k = rng.random()
        if not (pre[-1] == '' or pre[-1].endswith('\\n')):
            k = 0
        if k < 0.4:
            segs = pre + [mid] + post
        elif k < 0.7:
            segs = pre[:-1] + [pre[-1] + mid] + post
        else:
            segs = pre[:-1] + [pre[-1] + mid + post[0]] + post[1:]
    else:
        segs = spell_string(rng, s, charset)
    out = []
    for i, seg in enumerate(segs):
        lead = pad(rng) if rng.random() < 0.1 else ''
        if i == 0:
            out.append(f'{lead}{prefix}{keyword}{sep(rng)}"{seg}"{pad(rng)}')
        else:
            out.append(f'{lead}{prefix}"{seg}"{pad(rng)}')
        if rng.random() < 0.03:
            out.append(rng.choice(['', ' ', '\t']))
    return out

def noise_lines(rng):
    """lines that carry nothing: blank lines and the comment forms polib ignores"""
    r = rng.random()
    if r < 0.7:
        return []
    return [rng.choice(['', '', ' ', '\t', '#.', '#:', '#,', '#. ', '#~| msgid "old"', '#~| "x"', '  ', '#,\t'])]

def tcomment_lines(rng, text, allow_hash2=True):
    out = []
    if text == '':
        return out
    for line in text.split('\n'):
        if line == '':
            out.append(rng.choice(['#', '# ', '#  ', '#\t']))
        else:
            r = rng.random()
            first = line[0]
            if r < 0.15 and first not in ' .:,|~#' and not first.isspace():
                out.append('#' + line)                 # atypical comment: normalised to '# …'
            elif r < 0.25 and allow_hash2 and line.startswith('#'):
                out.append('#' + line)                 # '##x' is atypical too: it spells the comment text '#x'
            else:
                out.append('# ' + line)
    return out

def entry_lines(rng, e, charset, first=False, protect=None):
    pre = '#~ ' if e['obsolete'] else ''
    groups = []
    tl = tcomment_lines(rng, e['tcomment'] or '')
    if tl:
        groups.append(('t', tl))
    if e['comment']:
        groups.append(('e', ['#.' + rng.choice([' ', ' ', '\t']) + l for l in e['comment'].split('\n')]))
    occ = e['occurrences'] or []
    if occ:
        toks = [f if l == '' else f'{f}:{l}' for f, l in occ]
        lines, i = [], 0
        while i < len(toks):
            k = rng.choice([1, 2, 3, len(toks)])
            lines.append('#:' + sep(rng) + sep(rng).join(toks[i:i + k]))
            i += k
        groups.append(('r', lines))
    flags = e['flags'] or []
    if flags:
        chunks, i = [], 0
        while i < len(flags):
            k = rng.choice([1, 2, len(flags)])
            chunks.append(flags[i:i + k])
            i += k
        # a line with only one empty item would be a bare '#,' (ignored by polib): merge it into a neighbour
        j = 0
        while j < len(chunks):
            if chunks[j] == [''] and len(chunks) > 1:
                if j > 0:
                    chunks[j - 1] += chunks.pop(j)
                else:
                    chunks[1] = chunks[0] + chunks[1]
                    del chunks[0]
                continue
            j += 1
        lines = ['#,' + rng.choice([' ', '\t']) + ','.join(pad(rng) + f + pad(rng) for f in chunk) for chunk in chunks]
        groups.append(('f', lines))
    prev = []
    for key, kw in (('previous_msgctxt', 'msgctxt'), ('previous_msgid', 'msgid'), ('previous_msgid_plural', 'msgid_plural')):
        if e[key] is not None:
            ls = string_lines(rng, kw, e[key], charset, prefix='#|' + rng.choice([' ', ' ', '\t', '  ']))
            prev += [l for l in ls if l.strip()]
    if prev:
        groups.append(('p', prev))
    if first:
        order = [g for g in groups if g[0] != 't']
        rng.shuffle(order)
    else:
        order = groups[:]
        if rng.random() < 0.5:
            rng.shuffle(order)
    out = []
    for _k, ls in order:
        for l in ls:
            out += noise_lines(rng)
            out.append(l)
    out += noise_lines(rng)
    if e['msgctxt'] is not None:
        out += string_lines(rng, 'msgctxt', e['msgctxt'], charset, pre)
    out += string_lines(rng, 'msgid', e['msgid'], charset, pre)
    if e['msgid_plural'] is not None:
        out += string_lines(rng, 'msgid_plural', e['msgid_plural'], charset, pre)
    if e['msgstr'] is not None:
        out += string_lines(rng, 'msgstr', e['msgstr'], charset, pre, protect=protect)
    for i in sorted(e['msgstr_plural'] or {}):
        out += string_lines(rng, f'msgstr[{i}]', e['msgstr_plural'][i], charset, pre)
    return out

def has_empty_flag_only_line(cat):
    return False

def render(rng, cat, charset, newline='\n', final_newline=None, trailing=None):
    """→ the file as str (the caller encodes it).  The line of the header that declares the charset stays whole."""
    lines = []
    hl = tcomment_lines(rng, cat['header_comment'], allow_hash2=True)
    lines += hl
    entries = cat['entries']
    for idx, e in enumerate(entries):
        if idx or hl:
            lines += rng.choice([[''], [''], [], ['', '']])
        protect = None
        if idx == 0 and e['msgid'] == '' and e['msgstr'] and 'charset=' in e['msgstr']:
            for l in e['msgstr'].split('\n'):
                if l.startswith('Content-Type:'):
                    protect = l + '\n'
        lines += entry_lines(rng, e, charset, first=(idx == 0), protect=protect)
    if trailing is None:
        trailing = rng.random() < 0.3
    if trailing and entries:
        lines += rng.choice([['# trailing'], ['#'], ['', '# x', ''], ['#.'], ['#~| msgid "z"'], ['#,'], ['#:'], ['', '']])
    text = newline.join(lines)
    if final_newline is None:
        final_newline = rng.random() < 0.85
    if lines and final_newline:
        text += newline
    return text

def expected(cat):
    """what loading must give: (header comment, [entry as tuple in FIELDS order])"""
    out = []
    for e in cat['entries']:
        out.append(tuple(
            (dict(e[k]) if k == 'msgstr_plural' else list(e[k]) if k in ('flags', 'occurrences') else bool(e[k]) if k == 'obsolete'
             else (e[k] or '') if k in ('comment', 'tcomment') else e[k]) for k in FIELDS))
    return cat['header_comment'], out

# ----------------------------------------------------------------------------- malformed / arbitrary PO text

SNIPPETS = ['msgid', 'msgstr', 'msgctxt', 'msgid_plural', 'msgstr[0]', 'msgstr[1]', 'msgstr[x]', 'msgstr[', 'msgstr[10]', 'msgstr[\u0663]', '"', '""', '"a"', '"\\n"', '"\\',
            '\\"', '\\\\', '\\x', '\\x4', '\\x41', '\\x414', '\\1', '\\12', '\\123', '\\1234', '\\8', '\\9', '\\400', '\\777', '\\477', '\\e', '\\0',
            '\\xc4\\x85', '\\xc4', '\\x85', '\\377', '\\xff', '\\200',
            '#', '# ', '#.', '#:', '#,', '#|', '#~', '#~|', '##', '#!', '#-', '#~ ', '#| ', '#. ', '#: ', '#, ', 'fuzzy', 'c-format', ',', ', ', ' ,', 'a:1', 'a:b', 'a:', ':1', 'a:\u0663',
            ' ', '\t', '\r', '\x0b', '\x0c', '\x1c', '\x85', '\xa0', '\u2028', '\ufeff', 'x', 'ą', 'msgid "a"', 'msgstr "b"', 'msgid ""', 'msgstr ""',
            'Content-Type: text/plain; charset=UTF-8\\n', 'Content-Type: text/plain; charset=ISO-8859-2\\n', 'charset=', ' charset=KOI8-R', 'Content-Type:', 'charset=foo', ' charset=utf-16',
            '"Content-Type: text/plain; charset=UTF-8\\n"']

def gen_soup_line(rng):
    n = rng.choice([1, 1, 2, 2, 3, 4, 6])
    return ''.join(rng.choice(SNIPPETS) if rng.random() < 0.8 else rng.choice([' ', ' ', 'a', '0', '7', 'f']) for _ in range(n))

def gen_soup(rng):
    """arbitrary line soup built from PO tokens (mostly syntax errors, every error path of polib's loop)"""
    lines = []
    for _ in range(rng.choice([0, 1, 2, 3, 5, 8])):
        r = rng.random()
        if r < 0.5:
            lines.append(gen_soup_line(rng))
        elif r < 0.7:
            lines.append(rng.choice(['msgid "a"', 'msgstr "b"', 'msgid ""', 'msgstr ""', 'msgctxt "c"', 'msgid_plural "p"', 'msgstr[0] "x"', 'msgstr[1] "y"', '"more"',
                                     '# c', '#. e', '#: f:1', '#, fuzzy', '#| msgid "old"', '#| "cont"', '#~ msgid "o"', '#~ msgstr "p"', '#~ "q"', '', '#~| msgid "i"']))
        else:
            lines.append(rng.choice(['msgid ', 'msgstr ', '#~ ', '#| ', '']) + '"' + gen_soup_line(rng) + '"')
    text = '\n'.join(lines)
    if rng.random() < 0.8 and lines:
        text += '\n'
    return text

def mutate(rng, text):
    """one or two token-aware edits of a well-formed file"""
    for _ in range(rng.choice([1, 1, 2])):
        if not text:
            return gen_soup(rng)
        r = rng.random()
        i = rng.randrange(len(text) + 1)
        if r < 0.35:
            text = text[:i] + rng.choice(SNIPPETS) + text[i:]
        elif r < 0.55:
            j = min(len(text), i + rng.choice([1, 1, 2, 5]))
            text = text[:i] + text[j:]
        elif r < 0.75:
            ls = text.split('\n')
            k = rng.randrange(len(ls))
            op = rng.random()
            if op < 0.3:
                del ls[k]
            elif op < 0.6:
                ls.insert(k, ls[rng.randrange(len(ls))])
            else:
                m = rng.randrange(len(ls))
                ls[k], ls[m] = ls[m], ls[k]
            text = '\n'.join(ls)
        else:
            text = text[:i] + rng.choice(['\n', '\r', '\r\n', '"', '\\', ' ', '#']) + text[i:]
    return text

# ----------------------------------------------------------------------------- files that share escaped lines (history independence)

SEQ_CHARSETS = ['ISO-8859-1', 'ISO-8859-2', 'ISO-8859-15', 'ISO-8859-5', 'ISO-8859-7', 'KOI8-R', 'KOI8-U', 'CP1251', 'CP1252', 'CP437',
                'UTF-8', 'EUC-JP', 'SHIFT_JIS', 'GBK', 'BIG5', 'EUC-KR', 'KOI8-RU', 'GEORGIAN-PS']

def blank_entry():
    e = dict.fromkeys(FIELDS)
    e.update(obsolete=False, msgstr_plural={}, flags=[], occurrences=[], comment='', tcomment='')
    return e

def spell_bytes(rng, bs):
    """one fixed escaped spelling of a byte string (three-digit octal / two-digit hex: no hazard)"""
    style = rng.choice(['hex', 'HEX', 'oct', 'mix'])
    out = ''
    for b in bs:
        st = style if style != 'mix' else rng.choice(['hex', 'oct'])
        out += ('\\x%02x' % b) if st == 'hex' else ('\\x%02X' % b) if st == 'HEX' else ('\\%03o' % b)
    return out

def gen_shared_group(rng, charsets=None):
    """k files in k different charsets containing textually identical escaped message lines whose bytes every one of the charsets
    decodes (mostly to different strings).  → [(charset, catalog, text)] or None"""
    pool = [c for c in (charsets or SEQ_CHARSETS) if repertoire(c)]
    k = rng.choice([2, 2, 2, 3])
    if len(pool) < k:
        return None
    css = rng.sample(pool, k)
    shared = []
    for _ in range(200):
        if len(shared) >= rng.choice([1, 2, 3]) * 2:
            break
        src = rng.choice(css)
        t = ''.join(rng.choice(repertoire(src)) for _ in range(rng.choice([1, 1, 2, 3])))
        bs = t.encode(src)
        try:
            decs = [bs.decode(c) for c in css]
        except UnicodeError:
            continue
        if any(('\n' in d or '"' in d or '\\' in d) for d in decs):
            continue
        shared.append((bs, spell_bytes(rng, bs), decs))
    if len(shared) < 2:
        return None
    shared = shared[:len(shared) // 2 * 2]
    files = []
    for i, cs in enumerate(css):
        base = gen_catalog(rng, cs, with_header=True)
        base['entries'] = base['entries'][:rng.choice([1, 1, 2])]
        text = render(rng, base, cs, final_newline=True, trailing=False)
        cat = {'header_comment': base['header_comment'], 'entries': list(base['entries'])}
        for j in range(0, len(shared), 2):
            (_b1, sp1, d1), (_b2, sp2, d2) = shared[j], shared[j + 1]
            e = blank_entry()
            e['msgid'], e['msgstr'] = d1[i], d2[i]
            cat['entries'].append(e)
            text += f'\nmsgid "{sp1}"\nmsgstr "{sp2}"\n'
        files.append((cs, cat, text))
    return files

# ----------------------------------------------------------------------------- size / offset boundary families
# A deterministic constructor per family: (charset, family, offset S, variant seed) -> (catalog, text) such that a *late feature*
# (the header's Content-Type line, an obsolete entry, a flag line, a charset-dependent escape, the end of a very long string) starts
# exactly at byte offset S of the file.  Any "look only at the first N bytes / lines" short-cut in the loader is exposed by the
# family whose S crosses N; because the constructor is a function of S, the failing size can be minimised by bisection.

BOUNDARY_SIZES = [(1 << k) + d for k in range(10, 21) for d in (-1, 0, 1)]
PREFIX_KINDS = ['tcomment', 'blank', 'ignored', 'obsolete', 'longline', 'entries', 'longstring']
LATE_FEATURES = ['header', 'obsolete-entry', 'flags', 'escape']

def _fill_lines(total, make, minlen, width=64):
    """line bodies (each rendered by make(n) to exactly n bytes incl. its line feed) adding up to `total` bytes"""
    out = []
    if total <= 0:
        return out
    full, r = divmod(total, width)
    sizes = [width] * full
    if r:
        if r >= minlen or not sizes:
            sizes.append(max(r, minlen))
        else:
            sizes[-1] -= (minlen - r)
            sizes.append(minlen)
    return [make(n) for n in sizes]

def boundary_file(charset, prefix_kind, feature, S, variant=0):
    """→ (catalog, text, info).  All filler is ASCII, so byte offsets equal character offsets up to the feature."""
    rng = random.Random(f'{charset}/{prefix_kind}/{feature}/{variant}')
    rep = repertoire(charset) or []
    nonascii = (rep[variant % len(rep)] if rep else 'x')
    head_comment_lines, pre_entries, noise_before = [], [], ''
    hdr_value = f'Project-Id-Version: x 1\nContent-Type: text/plain; charset={charset}\nContent-Transfer-Encoding: 8bit\n'
    header_entry = blank_entry(); header_entry['msgid'] = ''; header_entry['msgstr'] = hdr_value
    header_lines = 'msgid ""\nmsgstr ""\n"Project-Id-Version: x 1\\n"\n'
    ctype_line = f'"Content-Type: text/plain; charset={charset}\\n"\n'
    header_tail = '"Content-Transfer-Encoding: 8bit\\n"\n'
    # the feature entry (after the header entry unless the feature IS the header)
    fe = blank_entry()
    fe['msgid'] = 'late ' + nonascii
    fe['msgstr'] = nonascii + ' end'
    esc = ''.join('\\x%02x' % b for b in nonascii.encode(charset)) if rep else 'x'
    if feature == 'header':
        # the Content-Type line starts at S: everything before it is prefix + the first header lines
        budget = S - len(header_lines)
        feature_text = ''
    else:
        budget = S - len(header_lines) - len(ctype_line) - len(header_tail) - 1
    if budget < 0:
        return None
    text_prefix = ''
    cat_entries_before = []
    if prefix_kind == 'tcomment' and feature == 'header':
        lines = _fill_lines(budget, lambda n: '# ' + 'c' * (n - 3) + '\n', 4)
        text_prefix = ''.join(lines)
        head_comment_lines = [l[2:-1] for l in lines]
    elif prefix_kind == 'blank':
        text_prefix = ''.join(_fill_lines(budget, lambda n: ' ' * (n - 1) + '\n', 1))
    elif prefix_kind == 'ignored':
        text_prefix = ''.join(_fill_lines(budget, lambda n: '#~| ' + 'i' * (n - 5) + '\n', 6))
    elif prefix_kind == 'longline':
        if feature == 'header':
            if budget < 4:
                return None
            text_prefix = '# ' + 'L' * (budget - 3) + '\n'
            head_comment_lines = ['L' * (budget - 3)]
        else:
            if budget < 5:
                return None
            text_prefix = '#. ' + 'L' * (budget - 4) + '\n'
            fe['comment'] = 'L' * (budget - 4)
    elif prefix_kind == 'obsolete':
        unit = lambda i, n: f'#~ msgid "o{i}"\n#~ msgstr "' + 'v' * n + '"\n\n'
        base = len(unit(0, 0))
        i = 0
        remaining = budget
        while remaining > 0:
            n = 40
            u = len(unit(i, n))
            if remaining < u + base + 8:
                n = remaining - len(unit(i, 0))
                if n < 0:
                    return None
            e = blank_entry(); e['obsolete'] = True; e['msgid'] = f'o{i}'; e['msgstr'] = 'v' * n
            cat_entries_before.append(e)
            text_prefix += unit(i, n)
            remaining -= len(unit(i, n))
            i += 1
    elif prefix_kind in ('entries', 'longstring', 'tcomment'):
        if feature == 'header':
            return None          # entries before the header entry: covered by 'obsolete'
        text_prefix = ''          # filled in after the header entry, below
    else:
        return None
    if len(text_prefix) != budget and prefix_kind not in ('entries', 'longstring') and not (prefix_kind == 'tcomment' and feature != 'header'):
        return None
    # ---- assemble
    if feature == 'header':
        text = text_prefix + header_lines + ctype_line + header_tail + '\n'
        header_entry['msgstr'] = hdr_value
        text += f'msgid "late {nonascii}"\nmsgstr "{esc} end"\n'
        cat = {'header_comment': '\n'.join(head_comment_lines), 'entries': cat_entries_before + [header_entry, fe]}
        return cat, text, {'feature_offset': len((text_prefix + header_lines).encode(charset))}
    # other features: header entry first, then filler, then the feature at S
    text = header_lines + ctype_line + header_tail + '\n'
    entries = [header_entry]
    if prefix_kind in ('blank', 'ignored', 'obsolete', 'longline'):
        if prefix_kind == 'longline':
            pass
        text += text_prefix
        entries += cat_entries_before
    elif prefix_kind == 'tcomment':
        lines = _fill_lines(budget, lambda n: '# ' + 'c' * (n - 3) + '\n', 4)
        text += ''.join(lines)
        fe['tcomment'] = '\n'.join(l[2:-1] for l in lines)
    elif prefix_kind == 'entries':
        unit = lambda i, n: f'msgid "k{i}"\nmsgstr "' + 'w' * n + '"\n\n'
        remaining, i = budget, 0
        while remaining > 0:
            n = 40
            if remaining < len(unit(i, n)) + len(unit(i + 1, 0)) + 8:
                n = remaining - len(unit(i, 0))
                if n < 0:
                    return None
            e = blank_entry(); e['msgid'] = f'k{i}'; e['msgstr'] = 'w' * n
            entries.append(e)
            text += unit(i, n)
            remaining -= len(unit(i, n))
            i += 1
    elif prefix_kind == 'longstring':
        # one entry with a very long msgstr on ONE physical line, ending right before S
        n = budget - len('msgid "big"\nmsgstr ""\n\n')
        if n < 0:
            return None
        e = blank_entry(); e['msgid'] = 'big'; e['msgstr'] = 's' * n
        entries.append(e)
        text += 'msgid "big"\nmsgstr "' + 's' * n + '"\n\n'
    if len(text) != S and prefix_kind != 'longline':
        return None
    off = len(text)
    if feature == 'obsolete-entry':
        fe['obsolete'] = True
        text += f'#~ msgid "late {nonascii}"\n#~ msgstr "{esc} end"\n'
    elif feature == 'flags':
        fe['flags'] = ['fuzzy', 'c-format']
        text += f'#, fuzzy, c-format\nmsgid "late {nonascii}"\nmsgstr "{esc} end"\n'
    elif feature == 'escape':
        fe['msgid'] = nonascii + nonascii
        text += f'msgid "{esc}{esc}"\nmsgstr "{esc} end"\n'
    else:
        return None
    entries.append(fe)
    return {'header_comment': '', 'entries': entries}, text, {'feature_offset': off}

def boundary_cases(rng, sizes, charsets, per_size=1):
    """[(charset, prefix_kind, feature, S, variant)] — every size with a random (prefix, feature) combination that exists"""
    combos = [(p, f) for p in PREFIX_KINDS for f in LATE_FEATURES]
    out = []
    for S in sizes:
        n = 0
        for _ in range(40):
            if n >= per_size:
                break
            p, f = rng.choice(combos)
            cs = rng.choice(charsets)
            v = rng.randrange(1000)
            if boundary_file(cs, p, f, S, v) is not None:
                out.append((cs, p, f, S, v)); n += 1
    return out
