"""Generators of C format strings: exhaustive single directives, structured multi-directive strings, malformed."""
import itertools

LENGTHS = ['', 'hh', 'h', 'l', 'll', 'q', 'j', 'z', 'Z', 't', 'L']
CONVERSIONS = 'diouxXeEfFgGaAcsCSpnm%'
FLAGS = "#0 +'I-"
PRI = ['<PRI%s%s>' % (c, k + b) for c in 'diouxX' for k in ('', 'LEAST', 'FAST') for b in ('8', '16', '32', '64')] + \
      ['<PRI%s%s>' % (c, k) for c in 'diouxX' for k in ('MAX', 'PTR')]
BODIES = [ln + cv for ln in LENGTHS for cv in CONVERSIONS] + PRI

WIDTH_KINDS = ['', '7', '*', '*2$']
PREC_KINDS = ['', '.', '.3', '.*', '.*3$']
INDEX_KINDS = ['', '1$']

def n_single():
    return len(BODIES) * (1 << len(FLAGS)) * len(WIDTH_KINDS) * len(PREC_KINDS) * len(INDEX_KINDS)

def single(k):
    """the k-th single directive of the exhaustive enumeration (mixed radix)"""
    k, b = divmod(k, len(BODIES))
    k, fm = divmod(k, 1 << len(FLAGS))
    k, w = divmod(k, len(WIDTH_KINDS))
    k, p = divmod(k, len(PREC_KINDS))
    k, i = divmod(k, len(INDEX_KINDS))
    flags = ''.join(f for j, f in enumerate(FLAGS) if fm >> j & 1)
    return '%' + INDEX_KINDS[i] + flags + WIDTH_KINDS[w] + PREC_KINDS[p] + BODIES[b]

def singles(rng, count):
    """`count` distinct single directives (all of them if count >= n_single())"""
    n = n_single()
    if count >= n:
        return [single(k) for k in range(n)]
    return [single(k) for k in rng.sample(range(n), count)]

BOUNDARY_INDEX = [0, 1, 2, 3, 4095, 4096, 4097, 2 ** 31 - 1, 2 ** 31]
BOUNDARY_NUM = [1, 9, 10, 2 ** 31 - 2, 2 ** 31 - 1, 2 ** 31, 2 ** 32, 10 ** 20]

def context_strings():
    """every single character (ASCII, Latin-1, a few beyond) in every position relative to a directive / `%%`"""
    out = []
    cps = list(range(0, 0x180)) + [0x2028, 0x20ac, 0xfeff, 0xfffd, 0x10000, 0x1f600]
    for cp in cps:
        c = chr(cp)
        if c == '%':
            continue
        out += [c, c + '%d', '%d' + c, c + '%%', '%%' + c, c + c + '%1$s' + c, '%' + c, '%' + c + 'd', '%5' + c + 'd', '%.' + c + 'd', '%l' + c]
    return out

LITERALS = ['', ' ', 'a', 'abc ', '\n', 'x\ny', '\x80', 'é', '€ ', '$', '*', '.', '<', '<PRId32>', '1$', '0', 'hh', '\x00', '\x7f\x1f', '\\', '\\n', '"', "'", '{0}', '\t', '\r\n', '&', '#', '-']

def numeral(rng, n, zeros=True):
    s = str(n)
    if zeros and rng.random() < 0.1:
        s = '0' * rng.randint(1, 3) + s
    return s

def gen_directive(rng, mode, nargs, valid_bias=0.85):
    """one directive; mode 'u' (unnumbered) / 'n' (numbered, indices drawn from 1..nargs) / 'x' (anything)"""
    good = rng.random() < valid_bias
    if rng.random() < 0.08:
        body = rng.choice(PRI)
        conv = body[4]
    else:
        conv = rng.choice(CONVERSIONS if not good else 'ddiouxXeEfgGaAcssCSpnm%')
        ln = rng.choice(LENGTHS) if not good else rng.choice({
            'd': LENGTHS, 'i': LENGTHS, 'o': LENGTHS, 'u': LENGTHS, 'x': LENGTHS, 'X': LENGTHS, 'n': LENGTHS,
        }.get(conv, ['', '', 'l'] if conv in 'cs' else ['', 'l', 'L'] if conv in 'aAeEfFgG' else ['']))
        body = ln + conv

    def idx():
        if mode == 'u':
            return '' if rng.random() < 0.97 else numeral(rng, rng.choice(BOUNDARY_INDEX)) + '$'
        if mode == 'n':
            r = rng.random()
            if r < 0.9:
                return numeral(rng, rng.randint(1, max(nargs, 1))) + '$'
            if r < 0.97:
                return numeral(rng, rng.choice(BOUNDARY_INDEX)) + '$'
            return ''
        return rng.choice(['', '', numeral(rng, rng.choice(BOUNDARY_INDEX + [1, 1, 2])) + '$'])

    if good:
        pool = {'#': 'oxXaAeEfFgG', '0': 'diouxXaAeEfFgG', "'": 'diufFgG'}
        flags = ''.join(f for f in FLAGS if rng.random() < 0.2 and conv not in 'n%' and (f not in pool or conv in pool[f]))
        if rng.random() < 0.1 and flags:
            flags += rng.choice(flags)
    else:
        flags = ''.join(rng.choice(FLAGS) for _ in range(rng.choice([0, 0, 1, 1, 2, 3])))
    r = rng.random()
    width = ''
    if (not good or conv not in 'n%') and r < 0.45:
        r2 = rng.random()
        if r2 < 0.5:
            width = str(rng.choice([1, 5, 12, 80]))
        elif r2 < 0.6:
            width = str(rng.choice(BOUNDARY_NUM))
        else:
            width = '*' + idx()
    prec = ''
    if (not good or conv in 'diouxXaAeEfFgGsS') and rng.random() < 0.4:
        r2 = rng.random()
        if r2 < 0.15:
            prec = '.'
        elif r2 < 0.5:
            prec = '.' + rng.choice(['0', '1', '6', '00', '010'])
        elif r2 < 0.6:
            prec = '.' + str(rng.choice(BOUNDARY_NUM))
        else:
            prec = '.*' + idx()
    index = idx() if (conv not in '%' or not good) else ''
    if conv == 'm' and good and rng.random() < 0.8:
        index = ''
    return '%' + index + flags + width + prec + body

def gen_string(rng):
    r = rng.random()
    mode = 'u' if r < 0.4 else 'n' if r < 0.85 else 'x'
    k = rng.choice([1, 1, 2, 2, 3, 4, 6])
    nargs = rng.randint(1, 5)
    parts = []
    for _ in range(k):
        if rng.random() < 0.5:
            parts.append(rng.choice(LITERALS))
        parts.append(gen_directive(rng, mode, nargs))
    if rng.random() < 0.5:
        parts.append(rng.choice(LITERALS))
    return ''.join(parts)

def gen_numbered_perm(rng):
    """numbered, gap-free by construction (a permutation of 1..k, with repeats), occasionally with one index dropped"""
    k = rng.randint(1, 6)
    types = [rng.choice(['d', 'ld', 's', 'Lf', 'c', 'p', 'zu', 'lld', '<PRId64>', 'n']) for _ in range(k)]
    order = list(range(k)) + [rng.randrange(k) for _ in range(rng.randint(0, 3))]
    rng.shuffle(order)
    if rng.random() < 0.15 and k > 1:
        drop = rng.randrange(k)
        order = [i for i in order if i != drop] or [0]
    out = []
    for i in order:
        t = types[i]
        if rng.random() < 0.1:
            t = rng.choice(['d', 's', 'u', 'ld', 'c'])    # possible type clash
        w = ''
        if rng.random() < 0.2 and t != 'n':
            j = rng.randrange(k)
            w = '*%d$' % (j + 1)
        out.append(rng.choice(['', ' ', 'x']) + '%' + str(i + 1) + '$' + w + t)
    return ''.join(out)

ALPHABET = "%%%%$*.0123456789hlLqjzZtdiouxXeEfFgGaAcsCSpnm<>PRILEASTFMX#-+ 'I\n\x80\\\"`~!@^&()[]{}|;:,/?=_\t\r\x00"

def gen_garbage(rng):
    return ''.join(rng.choice(ALPHABET) for _ in range(rng.randint(0, 8)))

def mutate(rng, s):
    if not s:
        return '%'
    i = rng.randrange(len(s))
    r = rng.random()
    if r < 0.3:
        return s[:i] + s[i + 1:]
    if r < 0.65:
        return s[:i] + rng.choice(ALPHABET) + s[i:]
    if r < 0.9:
        return s[:i] + rng.choice(ALPHABET) + s[i + 1:]
    return s[:i] + s[i:i + 3] + s[i:]

def boundary_strings():
    out = []
    for n in BOUNDARY_INDEX + [10 ** 30]:
        out += ['%%%d$d' % n, '%%1$*%d$d' % n, '%%1$.*%d$d' % n, '%%%d$m' % n, '%%%d$%%' % n, '%%0%d$d' % n, '%%*%d$.*%d$d' % (n, n)]
    for n in BOUNDARY_NUM + [0]:
        out += ['%%%dd' % n, '%%.%dd' % n, '%%%d.%ds' % (n, n), '%%%dn' % n, '%%.%dc' % n, '%%-%d%%' % n, '%%0%dd' % n]
    for k in (4095, 4096, 4097):
        out += ['%d' * k, '%*d' * (k // 2) + '%d' * (k % 2), '%s' * (k - 1) + '%*.*d', '%d' * k + '%m%%', '%d' * k + '%n%!']
        out += [''.join('%%%d$d' % i for i in range(1, k + 1)), ''.join('%%%d$d' % i for i in range(k, 0, -1)),
                ''.join('%%%d$d' % i for i in range(1, k + 1) if i != k - 1)]
    for d in (4299, 4300, 4301):
        out += ['%' + '1' * d + 'd', '%.' + '0' * d + 'd', '%' + '0' * (d - 1) + '1$d', '%*' + '0' * (d - 1) + '1$d %2$d',
                '%1$.*' + '0' * (d - 1) + '2$d', 'x' + '9' * d + ' %d', '%' + '0' * d + 'd', '%!' + '1' * d, '%lls%' + '1' * d + 'd']
    # every spelling of an inttypes-style macro around the real ones: prefix x size, with and without a flag / index
    for c in 'diouxXsc':
        for k in ('', 'LEAST', 'FAST', 'least', 'LEASTFAST', 'MAX', 'PTR'):
            for b in ('', '8', '16', '32', '64', '128', '24', 'MAX', 'PTR', '8MAX', 'MAX8', '064', '6 4'):
                m = '<PRI%s%s%s>' % (c, k, b)
                out += ['%' + m, '%1$' + m + ' %2$s', '%0' + m, '%#' + m, "%'" + m, '%-5' + m, '%.3' + m, '%*' + m]
    out += ['', '%', '%%', '%%%', 'a', '%d', '%\n', '\n%d\n', '%1$', '%1$$d', '%$d', '%*$d', '%**d', '%..d', '%.-1d', '%-.d', '%1$-d', '%-1$d',
            '%hhhd', '%lld', '%llld', '%lL', '%Lld', '%hld', '%<PRId32>', '%<PRId32', '%<PRI32>', '%<PRId128>', '%<PRIdLEAST>', '%<PRIdFAST8>',
            '%<PRIsMAX>', '%l<PRId32>', '%5<PRId32>', '%-#0.3<PRIxPTR>', '%1$<PRIu8>', '%<pRId8>', '%<PRIdMAX>%<PRIdPTR>', '%<PRId8 >',
            '%1$d%1$d', '%1$d%1$s', '%1$*1$d', '%1$*1$c', '%1$.*1$s', '%2$*1$d', '%1$*2$d%2$s', '%1$m', '%1$m%d', '%d%1$m', '%1$m%1$d', '%1$%',
            '%%%1$d', '%m%1$d%%', '%d%%%d', '%*d%d', '%d%*d', '%1$d%*d', '%*d%1$d', '%*1$d', '%1$*d', '%.*1$d', '%1$.*d', '%1$*2$.*3$d',
            '%3$*2$.*1$d', '%1$*2$.*2$d', '%1$*1$.*1$d', '%1$*1$.*1$ld', '%I5d', "%'I#0- +5.3hhd", '%00d', '%--d', '%- d', '%+ d', '%-0d']
    return out
