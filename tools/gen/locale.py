"""Generators for C19: locale-name strings (regex-tree-directed + grammar-directed + mutants + small-scope exhaustive),
code look-ups, language names, and `check_language` cases (option x path shape x Language x X-Poedit-* classes)."""
import itertools

# ------------------------------------------------------------------ strings for parse_language

def regex_strings(pattern, rng, n):
    """strings built by walking the CURRENT `re._parser` tree of `pattern` (so a changed regex changes the inputs):
    matching strings with boundary repeat counts, and one-edit near misses"""
    try:
        import re._parser as sre_parse, re._constants as C
    except ImportError:
        import sre_parse, sre_constants as C
    try:
        tree = sre_parse.parse(pattern.pattern, pattern.flags)
    except Exception:
        return []
    classes = []
    def pick_in(items):
        op, av = rng.choice(items)
        if op == C.RANGE:
            return chr(rng.choice([av[0], av[1], rng.randint(av[0], av[1])]))
        if op == C.LITERAL:
            return chr(av)
        if op == C.NEGATE:
            return '\x00'
        return 'a'
    def gen(seq):
        out = []
        for op, av in seq:
            if op == C.LITERAL:
                out.append(chr(av))
            elif op == C.NOT_LITERAL:
                out.append('a' if av != 97 else 'b')
            elif op == C.ANY:
                out.append(rng.choice('a.\n'))
            elif op == C.IN:
                classes.append(av)
                out.append(pick_in(av))
            elif op == C.SUBPATTERN:
                out.append(gen(av[3]))
            elif op in (C.MAX_REPEAT, C.MIN_REPEAT):
                lo, hi, sub = av
                hi = min(hi, lo + 3)
                k = rng.choice([lo, lo, lo + 1, hi, rng.randint(lo, hi)])
                if rng.random() < 0.08 and lo > 0:
                    k = lo - 1          # near miss: one repetition short
                out.append(''.join(gen(sub) for _ in range(k)))
            elif op == C.BRANCH:
                out.append(gen(rng.choice(av[1])))
            elif op == C.AT:
                pass
            else:
                out.append('')
        return ''.join(out)
    res = []
    for _ in range(n):
        s = gen(tree)
        r = rng.random()
        if r < 0.35:
            s = mutate(rng, s)
        res.append(s)
    return res

EDIT_CHARS = ['\n', '\r', ' ', '\t', '_', '.', '@', '-', '+', 'a', 'z', 'A', 'Z', '0', '9', '`', '{', '[', '/', '\x00', '\x1f',
              'é', 'ı', 'ſ', 'ａ', 'а', 'K', '٠', '\U0001d41a', '\x85', ' ']

def mutate(rng, s):
    r = rng.random()
    if r < 0.25:
        return s + rng.choice(EDIT_CHARS)
    if r < 0.35:
        return rng.choice(EDIT_CHARS) + s
    if r < 0.6 and s:
        i = rng.randrange(len(s))
        return s[:i] + rng.choice(EDIT_CHARS) + s[i:]
    if r < 0.75 and s:
        i = rng.randrange(len(s))
        return s[:i] + s[i + 1:]
    if r < 0.85 and s:
        i = rng.randrange(len(s))
        return s[:i] + s[i].swapcase() + s[i + 1:]
    if r < 0.92 and s:
        i = rng.randrange(len(s))
        return s[:i] + rng.choice(EDIT_CHARS) + s[i + 1:]
    return s + s

def grammar_string(rng, T):
    """ll[_CC][.encoding][@modifier] from the tool's own tables (known / unknown / three-letter codes)"""
    r = rng.random()
    if r < 0.45:
        ll = rng.choice(T['lang_keys'])
    elif r < 0.6:
        ll = rng.choice(T['three_with_two']) if T['three_with_two'] else 'pol'
    elif r < 0.8:
        ll = ''.join(rng.choice('abcdefghijklmnopqrstuvwxyz') for _ in range(rng.choice([1, 2, 2, 3, 3, 4, 8])))
    else:
        ll = rng.choice(['pl', 'de', 'en', 'sr', 'zh', 'pt', 'nb', 'no', 'xx', 'pol', 'deu', 'ger', 'tlh', 'C', 'POSIX', 'i', ''])
    s = ll
    if rng.random() < 0.5:
        r = rng.random()
        if r < 0.6:
            cc = rng.choice(T['territories'])
        elif r < 0.8:
            cc = ''.join(rng.choice('ABCDEFGHIJKLMNOPQRSTUVWXYZ') for _ in range(rng.choice([1, 2, 2, 3, 5])))
        else:
            cc = rng.choice(['pl', 'Pl', 'XX', 'ZZ', '', 'UK', 'EU', '001', 'PL_PL'])
        s += '_' + cc
    if rng.random() < 0.35:
        s += '.' + rng.choice(['UTF-8', 'utf8', 'ISO-8859-2', 'iso88591', 'KOI8-R', 'cp1250', 'euc+jp', 'a', 'A-', '', 'utf_8', 'UTF 8', 'é', 'Big5-HKSCS'])
    if rng.random() < 0.35:
        s += '@' + rng.choice(['euro', 'latin', 'cyrillic', 'valencia', 'quot', 'boldquot', 'Euro', 'euro1', '', 'e', 'saaho', 'tradaps', 'devanagari'])
    return s

def locale_strings(rng, n, T, pattern=None):
    out = []
    for _ in range(n):
        r = rng.random()
        s = grammar_string(rng, T)
        if r < 0.3:
            s = mutate(rng, s)
        elif r < 0.36:
            s = mutate(rng, mutate(rng, s))
        out.append(s)
    if pattern is not None:
        out += regex_strings(pattern, rng, n // 2)
    return out

BOUNDARY = ['', 'a', 'aa', 'aaa', 'pl', 'pl\n', 'pl\n\n', '\npl', 'pl\r', 'pl ', ' pl', 'pl_PL\n', 'pl.UTF-8\n', 'pl@euro\n', 'pl_P', 'pl_PL',
            'pl_PLX', 'pl_', 'pl.', 'pl@', 'pl_PL.', 'pl_PL@', 'pl_PL.UTF-8@', 'pl_PL.UTF-8@euro', 'pl@euro.UTF-8', 'pl.UTF-8_PL', 'pl@euro_PL',
            'pl__PL', 'pl..a', 'pl@@a', 'pl_PL_PL', 'pl.a.b', 'pl@a@b', 'PL', 'Pl', 'pL', 'pl_pl', 'pl_Pl', 'pl.utf-8', 'pl.UTF+8-', 'pl.+', 'pl.-',
            'pl@EURO', 'pl@eurO', 'pl@e1', 'p', 'p_PL', 'pol', 'polish', 'pl-PL', 'pl_PL.UTF_8', 'plé', 'pl_PŁ', 'pl.ü', 'pl@ü', 'ｐｌ', 'pl\x00',
            'pl ', 'pl\x85', 'pl\x0b', 'pl\x0c', 'pl\x1c', 'pl.a\n', 'pl@a\n', 'pl_PL.a@b\n', '\n', 'a\n', 'aa\n\n', 'de_DE.ISO-8859-15@euro',
            'sr@latin', 'ca@valencia', 'en@quot', 'zh_CN.GB18030', 'C', 'POSIX', 'en_US.utf8', 'x' * 50, 'ab_' + 'C' * 50, 'ab.' + '0' * 50]

def small_scope(alphabet='aB_.@\n0-', maxlen=5):
    for k in range(maxlen + 1):
        for t in itertools.product(alphabet, repeat=k):
            yield ''.join(t)

# ------------------------------------------------------------------ code look-ups

def code_strings(T, exhaustive3):
    low = 'abcdefghijklmnopqrstuvwxyz'
    out = [a + b for a in low for b in low]
    if exhaustive3:
        out += [a + b + c for a in low for b in low for c in low]
    out += list(T['lang_keys']) + ['', 'a', 'A', 'PL', 'Pl', 'pola', 'abcd', 'pl ', 'pl\n', 'é', 'aé', 'ａａ']
    return out

def territory_strings(T):
    up = 'ABCDEFGHIJKLMNOPQRSTUVWXYZ'
    out = [a + b for a in up for b in up] + list(T['territories'])
    out += ['', 'P', 'pl', 'Pl', 'POL', 'PL ', 'PL\n', 'PLL', 'ÉÉ', '00', 'ＰＬ']
    return out

# ------------------------------------------------------------------ language names

ACCENT = {'a': 'á', 'e': 'é', 'o': 'ö', 'u': 'ü', 'c': 'ç', 'n': 'ñ', 'i': 'ï', 's': 'š', 'z': 'ž', 'l': 'ł'}

def name_variants(rng, T, n):
    names = T['names']
    out = list(names)
    for _ in range(n):
        a = rng.choice(names)
        b = rng.choice(names)
        r = rng.random()
        if r < 0.08: s = a.upper()
        elif r < 0.16: s = a.title()
        elif r < 0.22: s = '  ' + a.replace(' ', ' \t ') + '\n'
        elif r < 0.30: s = ''.join(ACCENT.get(c, c) if rng.random() < 0.4 else c for c in a)
        elif r < 0.38: s = a + '; ' + b
        elif r < 0.44: s = 'junk;' + a + ' ;' + b
        elif r < 0.50: s = 'junk; nonsense'
        elif r < 0.58 and ' ' in a:
            x, y = a.split(' ', 1)
            s = y + ', ' + x
        elif r < 0.64 and ' ' in a:
            x, y = a.rsplit(' ', 1)
            s = y + ',  ' + x.upper()
        elif r < 0.72: s = a + ', ' + b
        elif r < 0.78: s = a + ', ' + a
        elif r < 0.82: s = a + ', junk'
        elif r < 0.86: s = 'junk, ' + a + ', more junk'
        elif r < 0.88: s = a + ',' + b + ';' + a
        elif r < 0.90: s = a + ','
        elif r < 0.92: s = ',' + a
        elif r < 0.94: s = a[:-1]
        elif r < 0.96: s = a + 'x'
        elif r < 0.97: s = a.replace(' ', ' ')
        elif r < 0.98: s = a.replace('i', 'İ').replace('k', 'K')
        else: s = rng.choice(['', ' ', ',', ';', ',;', 'pl', 'pl_PL', 'Klingon', 'None', '́', 'ß'])
        out.append(s)
    return out

MUNCH_CHARS = [' ', '  ', '\t', '\n', '\x0b', '\x0c', '\r', '\x1c', '\x1f', '\x85', '\xa0', '\u1680', '\u2003', '\u2028', '\u202f', '\u3000', '\u200b', '\ufeff',
               'A', 'Z', 'a', 'z', '0', '-', '(', ')', ',', ';', 'é', 'É', 'å', 'Å', '\u212b', '\u212a', 'ß', 'ẞ', 'Σ', 'σ', 'ς', 'İ', 'ı', 'I', 'ǅ', 'ǆ', 'Ǆ', 'ł', 'Ł', 'ø', 'Ø',
               'đ', 'æ', '\u0301', '\u0308', 'a\u0301', '\u0958', '\uac00', 'ﬁ', 'ａ', 'Ａ', '①', '\u1e9b', '\u0345', '\u1fb3', '\u1f88', 'ǰ', '\U0001d400', '\U00010400',
               '\x00', '\x7f', '\x80', '\xad', 'ə', 'Ə', 'ğ', 'ş', 'ç', 'ñ', 'õ', 'ų', 'ž', 'Ž', 'ḃ', 'ṩ', 'ǟ']

def munch_strings(rng, T, n):
    names = T['names']
    out = list(MUNCH_CHARS)
    for _ in range(n):
        r = rng.random()
        if r < 0.4:
            a = rng.choice(names)
            s = ''.join((rng.choice(MUNCH_CHARS) if rng.random() < 0.2 else c) for c in a)
        elif r < 0.7:
            s = ''.join(rng.choice(MUNCH_CHARS) for _ in range(rng.randint(0, 10)))
        else:
            s = ''.join(chr(rng.choice([rng.randrange(0x20, 0x250), rng.randrange(0x250, 0x3000), rng.randrange(0xE000, 0x11000), rng.randrange(0x1e00, 0x2200)]))
                        for _ in range(rng.randint(1, 8)))
        out.append(s)
    return out

# ------------------------------------------------------------------ check_language cases

OPTS = [None] * 14 + ['pl', 'de', 'de_DE', 'pol', 'de_AT.UTF-8@euro', 'sr@latin', 'pt_BR', 'en_GB', 'ca@valencia', 'deu_CH']

PATHS = [
    'x.po', 'messages.po', 'pl.po', 'de.po', 'pl_PL.po', 'pol.po', 'xx.po', 'pl.UTF-8.po', 'de@euro.po', 'sr@latin.po', 'pl_XX.po', 'pt_BR.po',
    'po/pl.po', './po/de.po', '/srv/po/de_AT.po', 'po/pl.pot', 'x.pot', 'x.mo', 'x.gmo', 'pl.mo', 'de.gmo',
    'de/LC_MESSAGES/x.po', 'de/LC_MESSAGES/x.mo', '/usr/share/locale/pl/LC_MESSAGES/foo.mo', '/usr/share/locale/de_DE.UTF-8/LC_MESSAGES/foo.mo',
    '/usr/share/locale/de_AT@euro/LC_MESSAGES/foo.mo', '/usr/share/locale/pol/LC_MESSAGES/foo.mo', '/usr/share/locale/xx/LC_MESSAGES/foo.mo',
    '/usr/share/locale/l10n/LC_MESSAGES/pl.po', 'LC_MESSAGES/pl.po', '/LC_MESSAGES/pl.po', '//LC_MESSAGES/pl.po', 'pl/./LC_MESSAGES/x.po',
    'pl/zz/../LC_MESSAGES/x.po', 'pl//LC_MESSAGES//x.po', 'a/../LC_MESSAGES/de.po', '../LC_MESSAGES/de.po', 'pl/LC_MESSAGES/de/LC_MESSAGES/x.po',
    'pl/LC_MESSAGES/de.po', 'xx/LC_MESSAGES/de.po', 'pl.UTF-8/LC_MESSAGES/x.mo', 'pl/LC_MESSAGES', 'pl/LC_MESSAGES/', 'pl/lc_messages/x.po',
    'translations/source/da/dictionaries/pl_PL.po', 'translations/source/pt-BR/dictionaries/de.po', 'translations/source/pt_BR/x/de.po',
    'l10n/sr@latin/x/pl.po', 'l10n/sr-latin/pl.po', '/de/pl.po', 'de/pl.po', '/x/de/pl.po', '/x/None/pl.po', '/None/de.po', 'None/de.po',
    '/pl/pl.po', '/x/pl_PL/de.po', '/x/pl-PL/de.po', '/x/pl/de.mo', '/x/pl/messages.po', '/x/de/LC_MESSAGES/pl.po',
    'pl\n.po', 'pl\n/LC_MESSAGES/x.mo', 'de\n/LC_MESSAGES/pl.po', ' pl.po', 'PL.po', 'pl.PO', 'pl.po.po', 'pl..po', 'a.b.po', 'pl@euro@x.po',
]
# paths `check()` can only hand to check_language under the hidden --file-type option (os.path.splitext gives no extension);
# before /repo d16b49e they failed `assert ext == '.po'`
GATED_PATHS = ['.po', '/x/.po', '..po', 'x/...po', 'pl/LC_MESSAGES/.po']

METAS = [
    [], [], [''], ['pl'], ['de'], ['pl_PL'], ['de_DE'], ['de_AT'], ['pt_BR'], ['pt-BR'], ['sr@latin'], ['ca@valencia'], ['de@euro'], ['de_AT@euro'],
    ['pl.UTF-8'], ['pl_PL.utf8'], ['de_DE.ISO-8859-15@euro'], ['pol'], ['pol_PL'], ['deu'], ['ger'], ['tlh'], ['ace'], ['xx'], ['xx_PL'], ['pl_XX'],
    ['pl_pl'], ['PL'], ['pl-PL'], ['Polish'], ['polish'], ['POLISH'], ['German'], ['Polish; German'], ['Greek, Modern'], ['Modern Greek'], ['Polish, German'],
    ['Norwegian Bokmål'], ['Klingon'], ['None'], ['da'], ['da_DK'], ['pol.UTF-8@euro'], ['xx.UTF-8@euro'], ['pl@euro'], ['pl', 'pl'], ['pl', 'de'],
    ['de', 'pl'], ['pl', ''], ['', ''], ['Polish', 'Polish'], ['xx', 'xx'], ['pl', 'pl', 'de'], ['sr@latin', 'sr@latin'], ['English'], ['en_US'],
    ['Portuguese (Brazil)'], ['Brazilian Portuguese'], ['Chinese (simplified)'], ['zh_CN'], ['pl '], [' pl'],
]

POEDIT_LANGS = [[], [], [], [], ['Polish'], ['German'], ['polish'], ['Danish'], ['Klingon'], [''], ['Polish', 'Polish'], ['Polish', 'German'],
                ['Klingon', 'Klingon'], ['Greek, Modern'], ['Polish; German'], ['pl'], ['Portuguese'], ['Serbian']]
POEDIT_COUNTRIES = [[], [], [], ['POLAND'], ['GERMANY'], ['POLAND', 'POLAND'], ['POLAND', 'GERMANY'], ['']]

def check_cases(rng, n, T, gated=False):
    """(template, option string or None, path, Language values, X-Poedit-Language values, X-Poedit-Country values)"""
    out = []
    paths = PATHS + (GATED_PATHS if gated else [])
    for _ in range(n):
        opt = rng.choice(OPTS)
        path = rng.choice(paths)
        r = rng.random()
        if r < 0.12:
            # a path built from the tables
            ll = grammar_string(rng, T)
            shape = rng.choice(['{}.po', 'po/{}.po', '/usr/share/locale/{}/LC_MESSAGES/x.mo', '{}/LC_MESSAGES/y.po', 'src/{}/z/pl.po', 'src/{}/de_DE.po'])
            if '/' not in ll and ll not in ('', '.', '..'):
                path = shape.format(ll)
        metas = rng.choice(METAS)
        r = rng.random()
        if r < 0.15:
            metas = [grammar_string(rng, T)]
            if rng.random() < 0.3:
                metas = [mutate(rng, metas[0]).replace('\n', '')]
        elif r < 0.22:
            metas = [rng.choice(T['names'])]
        elif r < 0.27 and '/' in path:
            # agree with a path component, possibly with '-' for '_'
            comps = [c for c in path.split('/') if c and '.' not in c]
            if comps:
                metas = [rng.choice(comps).replace('-', '_')]
        pls = rng.choice(POEDIT_LANGS)
        if rng.random() < 0.1:
            pls = [rng.choice(T['names'])]
        pcs = rng.choice(POEDIT_COUNTRIES)
        template = rng.random() < 0.08
        out.append((template, opt, path, list(metas), list(pls), list(pcs)))
    return out

def check_product():
    """a fixed product of input classes (every precedence combination at least once)"""
    opts = [None, 'de_DE']
    paths = ['x.po', 'pl.po', 'de.po', 'xx.po', 'de/LC_MESSAGES/x.mo', 'de/LC_MESSAGES/pl.po', 'translations/source/da/dictionaries/pl_PL.po',
             '/x/pt-BR/de.po', '/x/None/pl.po', 'x.pot']
    metas = [[], [''], ['pl'], ['de'], ['da'], ['pt_BR'], ['xx'], ['pol'], ['pl.UTF-8'], ['de@euro'], ['Polish'], ['Klingon'], ['pl', 'pl'], ['pl', 'de']]
    pls = [[], ['Polish'], ['German'], ['Klingon'], ['Polish', 'German']]
    pcs = [[], ['A', 'B']]
    for o in opts:
        for p in paths:
            for m in metas:
                for pl in pls:
                    for pc in pcs:
                        yield (p.endswith('.pot'), o, p, list(m), list(pl), list(pc))
