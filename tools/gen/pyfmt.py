"""Generators of Python %-format strings: exhaustive single directives, exhaustive short strings over a small alphabet,
structured multi-directive strings (unnamed / named / mixed), truncations, edits, garbage; and argument objects for the
`%` oracle."""
import itertools

FLAGS = '#0- +'
LENGTHS = ['', 'h', 'l', 'L']
CONVERSIONS = 'oxXdiueEfFgGcsra%'
BAD_CONVERSIONS = 'bnpyzADIKq!$ (){}*.10\x00\xe9٣\U0001f600'

KEYS = ['', 'a', 'b', 'name', 'a b', 'é', '0', '(x)', '(a)(b)', '((n))', 'a(b)c', '%', '%s', '*', '.', 'l', ' ', '\x1b', '\n', 'a' * 20]
BAD_KEYS = ['(', '((', '(a', 'a)(', ')(', '(()']     # written after the opening parenthesis: unbalanced in various ways

SSIZE31 = 2 ** 31 - 1
SSIZE63 = 2 ** 63 - 1
WIDTHS_SMALL = ['', '', '', '1', '5', '10', '007'[1:], '9999', '10000']
WIDTHS_BOUNDARY = [str(SSIZE31 + d) for d in (-4, -3, -2, -1, 0, 1, 2)] + [str(SSIZE63 + d) for d in (-1, 0, 1, 2)] + \
                  ['4294967296', '9' * 25, '1' + '0' * 40]
PRECS_SMALL = ['', '', '.', '.0', '.1', '.5', '.12', '.9999', '.10000', '.00']
PRECS_BOUNDARY = ['.' + str(SSIZE31 + d) for d in (-5, -4, -3, -2, -1, 0, 1, 2)] + ['.4294967296', '.' + '9' * 25, '.0' + str(SSIZE31), '.000' + str(SSIZE31 - 3)]

WIDTH_KINDS = ['', '7', '*']
PREC_KINDS = ['', '.', '.3', '.*']
KEY_KINDS = ['', '(k)']

def n_single():
    return len(CONVERSIONS) * (1 << len(FLAGS)) * len(WIDTH_KINDS) * len(PREC_KINDS) * len(LENGTHS) * len(KEY_KINDS)

def single(k):
    """the k-th single directive of the exhaustive enumeration (mixed radix)"""
    k, c = divmod(k, len(CONVERSIONS))
    k, fm = divmod(k, 1 << len(FLAGS))
    k, w = divmod(k, len(WIDTH_KINDS))
    k, p = divmod(k, len(PREC_KINDS))
    k, l = divmod(k, len(LENGTHS))
    k, ky = divmod(k, len(KEY_KINDS))
    flags = ''.join(f for j, f in enumerate(FLAGS) if fm >> j & 1)
    return '%' + KEY_KINDS[ky] + flags + WIDTH_KINDS[w] + PREC_KINDS[p] + LENGTHS[l] + CONVERSIONS[c]

def singles(rng, count):
    n = n_single()
    if count >= n:
        return [single(k) for k in range(n)]
    return [single(k) for k in rng.sample(range(n), count)]

SMALL_ALPHABET = '%()*.01-ldsc x'

def short_strings(maxlen, alphabet=SMALL_ALPHABET):
    """every string over the alphabet up to the given length that contains a `%`"""
    out = []
    for n in range(1, maxlen + 1):
        for t in itertools.product(alphabet, repeat=n):
            if '%' in t:
                out.append(''.join(t))
    return out

def boundary_strings():
    out = []
    for cv in CONVERSIONS:
        for w in WIDTHS_BOUNDARY:
            out.append('%' + w + cv)
            out.append('%(k)' + w + cv)
        for p in PRECS_BOUNDARY:
            out.append('%' + p + cv)
            out.append('%-' + p + 'l' + cv)
            out.append('%3' + p + cv + ' %s')
    out += ['%' + WIDTHS_BOUNDARY[5] + '.' + str(SSIZE31 + 1) + 'd', '%' + str(SSIZE31) + '.' + str(SSIZE31) + 's',
            '%*' + '.' + str(SSIZE31 + 1) + 'd', '%' + str(SSIZE31 + 1) + '.*d', '%' + str(SSIZE31 + 1) + '!', '%.' + str(SSIZE31 + 1),
            '%' + str(SSIZE31 + 1) + '%', '%(a)' + str(SSIZE31 + 1) + '%', '%s%(a)' + str(SSIZE31 + 1) + 'd', '%(a)s%*' + str(SSIZE31 + 1) + 'd',
            '%' + '0' * 4400 + 'd', '%' + '1' * 4400 + 'd', '%.' + '0' * 4400 + 'd', '%.' + '9' * 4400 + 'f', '%0' + '0' * 30 + str(SSIZE31) + 'd']
    # truncations of a rich directive at every position
    rich = 'x%(a(b)c)#0- +12.34ld y %% %*.*hs'
    out += [rich[:i] for i in range(len(rich) + 1)]
    rich2 = '%-*.*Lf%5.%%(k)'
    out += [rich2[:i] for i in range(len(rich2) + 1)]
    return out

def context_strings():
    """every single character (ASCII, Latin-1, a few beyond) in every slot of a directive"""
    out = []
    cps = list(range(0, 0x100)) + [0x660, 0x663, 0xff10, 0xff05, 0x2028, 0x20ac, 0xfeff, 0xfffd, 0x10000, 0x1f600, 0x1d7ce]
    for cp in cps:
        c = chr(cp)
        out += [c, '%' + c, '%' + c + 'd', '%5' + c + 'd', '%5' + c, '%.' + c + 'd', '%.' + c, '%l' + c, '%(' + c + ')s', '%(a)' + c, '%(a)' + c + 's',
                '%*' + c, '%.*' + c, '%-' + c, c + '%%' + c, '%%' + c + '%s', '%s' + c + '%(a)s', '%.3' + c, '%(' + c]
    return out

LITERALS = ['', ' ', 'a', 'abc ', '\n', 'é', '€ ', '$', '*', '.', '(', ')', '(a)', '0', 'l', 'h', '\x00', '\x1b[0m', '\\', '{0}', '%%', '%%%%', '%%s', 'd', 's']

def gen_key(rng, good=True):
    if good:
        return '(' + rng.choice(KEYS) + ')'
    return '(' + rng.choice(BAD_KEYS)

def gen_directive(rng, mode, valid_bias=0.9):
    """one directive; mode 'u' (unnamed) / 'n' (named) / 'x' (anything)"""
    good = rng.random() < valid_bias
    conv = rng.choice(CONVERSIONS[:-1] if good else CONVERSIONS + BAD_CONVERSIONS)
    if good and rng.random() < 0.08:
        return '%%'
    if mode == 'n':
        key = gen_key(rng, good or rng.random() < 0.7) if rng.random() < 0.97 else ''
    elif mode == 'u':
        key = '' if rng.random() < 0.97 else gen_key(rng)
    else:
        key = rng.choice(['', gen_key(rng, rng.random() < 0.8)])
    nflags = rng.choice([0, 0, 0, 1, 1, 2, 3])
    flags = ''.join(rng.choice(FLAGS) for _ in range(nflags))
    r = rng.random()
    if r < 0.75:
        width = rng.choice(WIDTHS_SMALL)
    elif r < 0.9:
        width = '*' if (mode != 'n' or not good) else ''
    else:
        width = rng.choice(WIDTHS_BOUNDARY)
    r = rng.random()
    if r < 0.75:
        prec = rng.choice(PRECS_SMALL)
    elif r < 0.9:
        prec = '.*' if (mode != 'n' or not good) else ''
    else:
        prec = rng.choice(PRECS_BOUNDARY)
    length = rng.choice(LENGTHS) if rng.random() < 0.3 else ''
    if not good and rng.random() < 0.3:
        length += rng.choice(LENGTHS)
    return '%' + key + flags + width + prec + length + conv

def gen_string(rng):
    mode = rng.choice(['u', 'u', 'n', 'n', 'x'])
    n = rng.choice([0, 1, 1, 2, 2, 3, 4, 6])
    parts = [rng.choice(LITERALS)]
    for _ in range(n):
        parts.append(gen_directive(rng, mode))
        parts.append(rng.choice(LITERALS))
    s = ''.join(parts)
    if rng.random() < 0.06:
        s = s[:rng.randrange(len(s) + 1)]
    return s

def gen_named_clash(rng):
    """named specifications that reuse keys, with equal or different types"""
    keys = rng.sample(KEYS, rng.randint(1, 3))
    parts = []
    for _ in range(rng.randint(2, 5)):
        parts.append(rng.choice(LITERALS))
        parts.append('%(' + rng.choice(keys) + ')' + rng.choice(['', '-', '5', '.2', 'l']) + rng.choice('ddsxfcra'))
    return ''.join(parts)

EDIT_CHARS = '%()*.0123456789#- +hlLdsxfcra!$\x00é'

def mutate(rng, s):
    if not s:
        return rng.choice(EDIT_CHARS)
    k = rng.randrange(3)
    i = rng.randrange(len(s) + (k == 0))
    if k == 0:
        return s[:i] + rng.choice(EDIT_CHARS) + s[i:]
    if k == 1:
        return s[:i] + s[i + 1:]
    return s[:i] + rng.choice(EDIT_CHARS) + s[i + 1:]

def gen_garbage(rng):
    n = rng.randint(1, 12)
    return ''.join(rng.choice('%%%%()()**..0019#- +hlLdsxc%a ') for _ in range(n))

# ----------------------------------------------------------------------------- arguments for the oracle


INT_POOL = [0, 1, -1, 5, 65, 1000, -1000, 0x10ffff, 0x110000, 2 ** 31 - 4, 2 ** 31 - 3, 2 ** 31 - 1, 2 ** 31, -2 ** 31, -2 ** 31 - 1,
            2 ** 63 - 1, 2 ** 63, -2 ** 63, -2 ** 63 - 1, 2 ** 64, 10 ** 30, 2 ** 1024 - 2 ** 970 - 1, 2 ** 1024 - 2 ** 970, -(2 ** 1024 - 2 ** 970), 2 ** 1024]

def gen_value(rng):
    """(python object, token) — any class"""
    r = rng.random()
    if r < 0.45:
        n = rng.choice(INT_POOL) if rng.random() < 0.5 else rng.randint(-10, 300)
        return n, 'i%d' % n
    if r < 0.6:
        return rng.choice([1.5, -0.25, 0.0, 1e300, 3.0]), 'f'
    if r < 0.85:
        k = rng.choice([0, 1, 1, 1, 2, 5])
        return 'x' * k, 's%d' % k
    return rng.choice([None, (), [], {}, object]), 'o'
