"""Generators and converters for plural expressions (tuple ASTs)."""
import ast, itertools

BIN = {'+': 'Add', '-': 'Sub', '*': 'Mult', '/': 'Div', '%': 'Mod'}
CMP = {'==': 'Eq', '!=': 'NotEq', '<': 'Lt', '<=': 'LtE', '>': 'Gt', '>=': 'GtE'}
BOOL = {'&&': 'And', '||': 'Or'}
BIN_R = {v: k for k, v in BIN.items()}
CMP_R = {v: k for k, v in CMP.items()}
BOOL_R = {v: k for k, v in BOOL.items()}

def to_prefix(e):
    k = e[0]
    if k == 'num':
        return f'I{e[1]}'
    if k == 'name':
        return 'N'
    if k == 'not':
        return '! ' + to_prefix(e[1])
    if k in ('bin', 'cmp', 'bool'):
        return f'{e[1]} {to_prefix(e[2])} {to_prefix(e[3])}'
    if k == 'if':
        return f'? {to_prefix(e[1])} {to_prefix(e[2])} {to_prefix(e[3])}'
    raise ValueError(e)

def render_full(e):
    """fully parenthesised C text"""
    k = e[0]
    if k == 'num':
        return str(e[1])
    if k == 'name':
        return 'n'
    if k == 'not':
        return '!(' + render_full(e[1]) + ')'
    if k in ('bin', 'cmp', 'bool'):
        return f'({render_full(e[2])}) {e[1]} ({render_full(e[3])})'
    if k == 'if':
        return f'({render_full(e[1])}) ? ({render_full(e[2])}) : ({render_full(e[3])})'
    raise ValueError(e)

LEVEL = {'if': 1, '||': 2, '&&': 3, '==': 4, '!=': 4, '<': 5, '<=': 5, '>': 5, '>=': 5, '+': 6, '-': 6, '*': 7, '/': 7, '%': 7}

def render_min(e, rng=None):
    """C text with only the parentheses precedence/associativity require (all binary operators left-assoc,
    ?: right-assoc), optional random blanks"""
    def sp():
        if rng is None:
            return ''
        return rng.choice(['', '', ' ', '\t', '  '])
    def go(e, minlevel):
        k = e[0]
        if k == 'num':
            return str(e[1])
        if k == 'name':
            return 'n'
        if k == 'not':
            return '!' + sp() + go(e[1], 8)
        if k == 'if':
            s = go(e[1], 2) + sp() + '?' + sp() + go(e[2], 1) + sp() + ':' + sp() + go(e[3], 1)
            lvl = 1
        else:
            lvl = LEVEL[e[1]]
            s = go(e[2], lvl) + sp() + e[1] + sp() + go(e[3], lvl + 1)
        return '(' + sp() + s + sp() + ')' if lvl < minlevel else s
    return go(e, 1)

def from_pyast(node):
    """tuple AST of what lib.intexpr's parser built; raises ValueError on an unexpected shape"""
    if isinstance(node, ast.Expr):
        return from_pyast(node.value)
    if isinstance(node, ast.Constant):
        if not isinstance(node.value, int) or isinstance(node.value, bool):
            raise ValueError('constant')
        return ('num', node.value)
    if isinstance(node, ast.Name):
        if node.id != 'n':
            raise ValueError('name')
        return ('name',)
    if isinstance(node, ast.UnaryOp):
        if not isinstance(node.op, ast.Not):
            raise ValueError('unary')
        return ('not', from_pyast(node.operand))
    if isinstance(node, ast.BinOp):
        return ('bin', BIN_R[type(node.op).__name__], from_pyast(node.left), from_pyast(node.right))
    if isinstance(node, ast.Compare):
        if len(node.ops) != 1 or len(node.comparators) != 1:
            raise ValueError('compare shape')
        return ('cmp', CMP_R[type(node.ops[0]).__name__], from_pyast(node.left), from_pyast(node.comparators[0]))
    if isinstance(node, ast.BoolOp):
        if len(node.values) != 2:
            raise ValueError('boolop shape')
        return ('bool', BOOL_R[type(node.op).__name__], from_pyast(node.values[0]), from_pyast(node.values[1]))
    if isinstance(node, ast.IfExp):
        return ('if', from_pyast(node.test), from_pyast(node.body), from_pyast(node.orelse))
    raise ValueError(type(node).__name__)

def size(e):
    return 1 + sum(size(x) for x in e[1:] if isinstance(x, tuple))

def constructors(e, acc=None):
    acc = set() if acc is None else acc
    acc.add(e[0] if e[0] in ('num', 'name', 'not', 'if') else e[1])
    for x in e[1:]:
        if isinstance(x, tuple):
            constructors(x, acc)
    return acc

def boundary_consts(bits):
    m = 1 << bits
    cs = {0, 1, 2, 3, 5, 10, 11, 100, m - 1, m, m + 1, m // 2, max(m // 2 - 1, 0), m // 2 + 1, max(m - 2, 0)}
    return sorted(c for c in cs if c >= 0)

def gen_expr(rng, depth, consts, pmod=0.25):
    """random expression; biased to the shapes real Plural-Forms use (n % C, n <cmp> C)"""
    if depth <= 0 or rng.random() < 0.15:
        return ('name',) if rng.random() < 0.55 else ('num', rng.choice(consts))
    r = rng.random()
    if r < pmod:
        left = ('name',) if rng.random() < 0.7 else gen_expr(rng, depth - 1, consts)
        return ('bin', '%', left, ('num', rng.choice(consts)))
    if r < 0.45:
        op = rng.choice(list(CMP))
        left = ('name',) if rng.random() < 0.4 else gen_expr(rng, depth - 1, consts)
        right = ('num', rng.choice(consts)) if rng.random() < 0.6 else gen_expr(rng, depth - 1, consts)
        return ('cmp', op, left, right)
    if r < 0.65:
        return ('bin', rng.choice(list(BIN)), gen_expr(rng, depth - 1, consts), gen_expr(rng, depth - 1, consts))
    if r < 0.8:
        return ('bool', rng.choice(list(BOOL)), gen_expr(rng, depth - 1, consts), gen_expr(rng, depth - 1, consts))
    if r < 0.9:
        return ('if', gen_expr(rng, depth - 1, consts), gen_expr(rng, depth - 1, consts), gen_expr(rng, depth - 1, consts))
    return ('not', gen_expr(rng, depth - 1, consts))

def enum_exprs(size_limit, consts):
    """all expressions with at most `size_limit` nodes over the given constants (small scopes only)"""
    by_size = {1: [('name',)] + [('num', c) for c in consts]}
    for s in range(2, size_limit + 1):
        cur = []
        for a in by_size.get(s - 1, []):
            cur.append(('not', a))
        for sa in range(1, s - 1):
            sb = s - 1 - sa
            for a in by_size.get(sa, []):
                for b in by_size.get(sb, []):
                    for op in BIN:
                        cur.append(('bin', op, a, b))
                    for op in CMP:
                        cur.append(('cmp', op, a, b))
                    for op in BOOL:
                        cur.append(('bool', op, a, b))
        for sa in range(1, s - 2):
            for sb in range(1, s - 1 - sa):
                sc = s - 1 - sa - sb
                if sc < 1:
                    continue
                for a in by_size.get(sa, []):
                    for b in by_size.get(sb, []):
                        for c in by_size.get(sc, []):
                            cur.append(('if', a, b, c))
        by_size[s] = cur
    return by_size

def two_op_family(consts):
    """all expressions ((n op1 a) op2 b), (a op1 (n op2 b)), ((a op1 n) op2 b), (b op2 (n op1 a)) over binary/comparison operators"""
    ops = [('bin', o) for o in BIN] + [('cmp', o) for o in CMP]
    n = ('name',)
    for k1, o1 in ops:
        for k2, o2 in ops:
            for a in consts:
                for b in consts:
                    A, B = ('num', a), ('num', b)
                    yield (k2, o2, (k1, o1, n, A), B)
                    yield (k2, o2, (k1, o1, A, n), B)
                    yield (k2, o2, B, (k1, o1, n, A))
                    yield (k1, o1, A, (k2, o2, n, B))

REGISTRY_STYLE = [
    'n != 1', 'n > 1', '0',
    'n%10==1 && n%100!=11 ? 0 : n%10>=2 && n%10<=4 && (n%100<10 || n%100>=20) ? 1 : 2',
    'n==1 ? 0 : n%10>=2 && n%10<=4 && (n%100<10 || n%100>=20) ? 1 : 2',
    'n==1 ? 0 : (n==0 || (n%100 > 0 && n%100 < 20)) ? 1 : 2',
    'n==0 ? 0 : n==1 ? 1 : n==2 ? 2 : n%100>=3 && n%100<=10 ? 3 : n%100>=11 ? 4 : 5',
    'n%100==1 ? 0 : n%100==2 ? 1 : n%100==3 || n%100==4 ? 2 : 3',
    '(n==1) ? 0 : (n>=2 && n<=4) ? 1 : 2',
    'n%10==1 && n%100!=11 ? 0 : n != 0 ? 1 : 2',
    'n==1 ? 0 : n==2 ? 1 : (n>2 && n<7) ? 2 :(n>6 && n<11) ? 3 : 4',
    '(n==1 || n==11) ? 0 : (n==2 || n==12) ? 1 : (n > 2 && n < 20) ? 2 : 3',
]
