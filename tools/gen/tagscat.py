"""Generators for C02: strings over every code-point class, and PO/POT/MO catalogs with a hostile marker planted in
every free-text slot (the dynamic taint stream).  Everything is derived from the PRNG passed in."""
import struct, unicodedata

# ------------------------------------------------------------------------------------------------ code-point classes

CLASSES = {
    'safe': list('AZaz09_.!<>=-') + ['m', 'Q', '5'],
    'ascii-unsafe': list(' :;,/()[]{}@#$%^&*+~`|?'),
    'quotes': ["'", '"'],
    'backslash': ['\\'],
    'c0': [chr(i) for i in range(32)],
    'del': ['\x7f'],
    'c1': [chr(i) for i in range(0x80, 0xA0)],
    'latin1': ['\xa0', '\xa1', '\xad', '\xbf', '\xe9', '\xff'],
    'bmp-printable': ['\u0105', '\u0416', '\u4e2d', '\u20ac', '\ufffd', '\xdf'],
    'combining': ['\u0301', '\u0308', '\u20e3', '\u093f'],
    'format': ['\u200b', '\u200c', '\u200d', '\u200e', '\u202a', '\u202e', '\u2060', '\u2066', '\ufeff', '\u061c', '\xad',
               '\U000e0001', '\U000e0020', '\U0001d173', '\u0600', '\u06dd', '\U000110bd'],
    'separators': ['\u2028', '\u2029', '\u2003', '\u3000', '\u1680', '\u202f'],
    'surrogates': ['\ud800', '\udbff', '\udc00', '\udc80', '\udfff'],
    'nonbmp-printable': ['\U0001f600', '\U00010000', '\U0002000b', '\U0001d11e'],
    'nonbmp-unprintable': ['\U000e0001', '\U0010ffff', '\U000f0000', '\U0001fffe', '\U000e0fff'],
    'unassigned': ['\u0378', '\u05ff', '\uffff', '\ufffe', '\U000e0fff'],
    'private': ['\ue000', '\uf8ff', '\U000f0000', '\U0010fffd'],
}

ALPHABET_SMALL = ['a', 'Z', '0', '-', ' ', "'", '"', '\\', '\n', '\t', '\x1b', '\x7f', '\x9b', '\xe9', '\xa0', '\u200b', '\u202e',
                  '\u2028', '\ud800', '\U0001f600', '\U000e0001', '\uffff']

def class_strings(rng, count, maxlen=12):
    """random strings mixing the classes, biased towards short ones and towards 1–2 classes per string"""
    names = list(CLASSES)
    for _ in range(count):
        k = rng.choice([1, 1, 2, 2, 3, len(names)])
        cls = rng.sample(names, k)
        n = rng.choice([1, 1, 2, 3, 4, 6, maxlen])
        yield ''.join(rng.choice(CLASSES[rng.choice(cls)]) for _ in range(n))

def small_scope(maxlen=2, alphabet=ALPHABET_SMALL):
    """all strings up to maxlen over the representative alphabet"""
    level = ['']
    yield ''
    for _ in range(maxlen):
        level = [s + a for s in level for a in alphabet]
        yield from level

def boundary_codepoints(printable_ranges=None):
    """both ends of every maximal run of equal (isprintable, category) plus neighbours — computed from the interpreter"""
    cps = set()
    prev = None
    for cp in range(0x110000):
        ch = chr(cp)
        key = (ch.isprintable(), unicodedata.category(ch) in ('Cc', 'Cf', 'Cs', 'Zl', 'Zp'))
        if key != prev:
            cps.update((cp - 1, cp))
            prev = key
    cps.discard(-1)
    cps.add(0x10FFFF)
    return sorted(cps)

# ------------------------------------------------------------------------------------------------ hostile markers

MARKERS = {
    'newline': '\n',
    'esc-sgr': '\x1b[31m',
    'c1-csi': '\u009b31m',
    'rlo': '\u202e',
    'zwsp': '\u200b',
    'del': '\x7f',
    'all': 'M\n\x1b[31m\u009b\u202e\u200b\x7fW',
    'cr': 'x\ry',
    'bell-tab': '\x07\t\x0b',
    'ls': '\u2028\u2029\u0085',
}

HOSTILE_CATS = ('Cc', 'Cf', 'Cs', 'Zl', 'Zp')

def hostile_chars(s):
    """the characters of s the property forbids on stdout when they stem from file content (independent of Lean:
    straight from unicodedata)"""
    return sorted({ch for ch in s if unicodedata.category(ch) in HOSTILE_CATS})

# ------------------------------------------------------------------------------------------------ PO rendering

def po_quote(s):
    out = []
    for ch in s:
        if ch == '\\':
            out.append('\\\\')
        elif ch == '"':
            out.append('\\"')
        elif ch == '\n':
            out.append('\\n')
        elif ch == '\t':
            out.append('\\t')
        elif ch == '\r':
            out.append('\\r')
        else:
            out.append(ch)
    return '"' + ''.join(out) + '"'

def render_entry(e):
    lines = []
    for c in e.get('tcomments', []):
        lines.append('# ' + c.replace('\n', ' '))
    for c in e.get('xcomments', []):
        lines.append('#. ' + c.replace('\n', ' '))
    for ref in e.get('refs', []):
        lines.append('#: ' + ref.replace('\n', ' '))
    if e.get('flags'):
        lines.append('#, ' + ', '.join(f.replace('\n', ' ') for f in e['flags']))
    if e.get('prev_msgid') is not None:
        lines.append('#| msgid ' + po_quote(e['prev_msgid']))
    pre = '#~ ' if e.get('obsolete') else ''
    if e.get('msgctxt') is not None:
        lines.append(pre + 'msgctxt ' + po_quote(e['msgctxt']))
    lines.append(pre + 'msgid ' + po_quote(e['msgid']))
    if e.get('msgid_plural') is not None:
        lines.append(pre + 'msgid_plural ' + po_quote(e['msgid_plural']))
        for i, s in enumerate(e.get('msgstr_plural', ['', ''])):
            lines.append(pre + f'msgstr[{i}] ' + po_quote(s))
    else:
        lines.append(pre + 'msgstr ' + po_quote(e.get('msgstr', '')))
    return '\n'.join(lines) + '\n'

CLEAN_HEADER = [
    ('Project-Id-Version', 'Gizmo Enhancer 1.0'),
    ('Report-Msgid-Bugs-To', 'gizmoenhancer@jwilk.net'),
    ('POT-Creation-Date', '2012-11-01 14:42+0100'),
    ('PO-Revision-Date', '2012-11-01 14:42+0100'),
    ('Last-Translator', 'Jakub Wilk <jwilk@jwilk.net>'),
    ('Language-Team', 'Polish <debian-l10n-polish@lists.debian.org>'),
    ('Language', 'pl'),
    ('MIME-Version', '1.0'),
    ('Content-Type', 'text/plain; charset=UTF-8'),
    ('Content-Transfer-Encoding', '8bit'),
    ('Plural-Forms', 'nplurals=3; plural=n==1 ? 0 : n%10>=2 && n%10<=4 && (n%100<10 || n%100>=20) ? 1 : 2;'),
]

def render_po(cat):
    out = []
    for c in cat.get('initial_comments', []):
        out.append('# ' + c.replace('\n', ' ') + '\n')
    hdr = {'msgid': '', 'msgstr': ''.join(f'{k}: {v}\n' if k is not None else v + '\n' for k, v in cat['header']),
           'flags': cat.get('header_flags', []), 'refs': cat.get('header_refs', [])}
    if cat.get('header_plural'):
        hdr['msgid_plural'] = 'x'
        hdr['msgstr_plural'] = [hdr.pop('msgstr'), '']
    entries = [hdr] + cat['entries'] if not cat.get('no_header') else cat['entries']
    if cat.get('distant_header') and len(entries) > 1:
        entries = [entries[1], entries[0]] + entries[2:]
    out.append('\n'.join(render_entry(e) for e in entries))
    return ''.join(out)

# ------------------------------------------------------------------------------------------------ MO writing

def mo_bytes(cat, encoding='UTF-8', big=False, revision=0):
    pairs = []
    hdr = ''.join(f'{k}: {v}\n' if k is not None else v + '\n' for k, v in cat['header'])
    if not cat.get('no_header'):
        pairs.append(('', hdr))
    for e in cat['entries']:
        if e.get('obsolete'):
            continue
        mid = e['msgid']
        if e.get('msgctxt') is not None:
            mid = e['msgctxt'] + '\x04' + mid
        if e.get('msgid_plural') is not None:
            mid += '\0' + e['msgid_plural']
            ms = '\0'.join(e.get('msgstr_plural', ['', '']))
        else:
            ms = e.get('msgstr', '')
        if ms == '' or all(x == '' for x in ms.split('\0')):
            continue
        pairs.append((mid, ms))
    enc = lambda s: s.encode(encoding, 'surrogateescape') if encoding.lower().replace('-', '') == 'utf8' else s.encode(encoding, 'replace')
    bp = sorted({enc(a): enc(b) for a, b in pairs}.items())
    n = len(bp)
    e = '>' if big else '<'
    o_off, t_off = 28, 28 + 8 * n
    data_off = t_off + 8 * n
    ids, strs, blob = [], [], b''
    for a, _ in bp:
        ids.append((len(a), data_off + len(blob)))
        blob += a + b'\0'
    for _, b in bp:
        strs.append((len(b), data_off + len(blob)))
        blob += b + b'\0'
    out = struct.pack(e + 'I', 0x950412de) + struct.pack(e + 'IIIIII', revision, n, o_off, t_off, 0, 0)
    for ln, off in ids:
        out += struct.pack(e + 'II', ln, off)
    for ln, off in strs:
        out += struct.pack(e + 'II', ln, off)
    return out + blob

# ------------------------------------------------------------------------------------------------ tainted catalogs

def base_catalog():
    return {
        'initial_comments': [],
        'header': list(CLEAN_HEADER),
        'entries': [
            {'msgid': 'A quick brown fox jumps over the lazy dog.', 'msgstr': 'Mężny bądź, chroń pułk twój i sześć flag.'},
        ],
    }

def set_header(cat, key, value, add=False):
    if not add:
        cat['header'] = [(k, v) for k, v in cat['header'] if k != key]
    cat['header'].append((key, value))

def fmt_entries(m, rng):
    """messages whose format directives carry the marker in every name / key / spec slot"""
    safe = m.replace('\n', '').replace('%', '').replace('{', '').replace('}', '').replace(')', '').replace('(', '')
    E = []
    # python-format: mapping keys (the known finding: two types for one key), unknown / missing keys
    E.append({'flags': ['python-format'], 'msgid': '%(a)s', 'msgstr': f'%(a{safe})s %(a{safe})d'})
    E.append({'flags': ['python-format'], 'msgid': f'%(k{safe})s %(b)s', 'msgstr': f'%(b)s %(z{safe})s'})
    E.append({'flags': ['python-format'], 'msgid': f'%(k{safe})s %(k{safe})d', 'msgstr': 'x'})
    E.append({'flags': ['python-format'], 'msgid': '%s', 'msgstr': f'%{safe}'})
    E.append({'flags': ['python-format'], 'msgid': '%s %d', 'msgstr': f'%d %s %({safe}'})
    E.append({'flags': ['python-format'], 'msgid': '%s', 'msgstr': f'%#s %ld %0-d {m}'})
    # python-brace-format
    E.append({'flags': ['python-brace-format'], 'msgid': '{a}', 'msgstr': '{a' + safe + '}'})
    E.append({'flags': ['python-brace-format'], 'msgid': '{k' + safe + '} {b}', 'msgstr': '{b}'})
    E.append({'flags': ['python-brace-format'], 'msgid': '{0}', 'msgstr': '{0:' + safe + '}'})
    E.append({'flags': ['python-brace-format'], 'msgid': '{0:d}', 'msgstr': '{0:s} {' + safe})
    E.append({'flags': ['python-brace-format'], 'msgid': '{0!r}', 'msgstr': '{0!' + safe + '}'})
    # perl-brace-format
    E.append({'flags': ['perl-brace-format'], 'msgid': '{a}', 'msgstr': '{a' + safe + '}'})
    E.append({'flags': ['perl-brace-format'], 'msgid': '{k' + safe + '} {b}', 'msgstr': '{b}'})
    E.append({'flags': ['perl-brace-format'], 'msgid': '{a}', 'msgstr': '{a} {' + safe})
    # c-format
    E.append({'flags': ['c-format'], 'msgid': '%s', 'msgstr': f'%{safe}'})
    E.append({'flags': ['c-format'], 'msgid': '%s %d', 'msgstr': f'%d %s {m}'})
    E.append({'flags': ['c-format'], 'msgid': '%1$s', 'msgstr': f'%1$s %1$d %3$s{safe}'})
    E.append({'flags': ['c-format'], 'msgid': '%s', 'msgstr': f'%#s %hhs %-0d %I{safe}d %Lx'})
    E.append({'flags': ['c-format'], 'msgid': f'%d {m}', 'msgid_plural': f'%d {m}s', 'msgstr_plural': [f'%s {m}', f'%d %d {m}', f'{m}']})
    E.append({'flags': ['c-format', 'python-format'], 'msgid': f'%(x{safe})s', 'msgstr': f'%(y{safe})d'})
    for e in E:
        if rng.random() < 0.3:
            e['msgctxt'] = m
    return E

def slots(m, rng):
    """name -> function(cat) planting marker m in one free-text slot"""
    oneline = m.replace('\n', ' ')
    S = {}
    def slot(f):
        S[f.__name__] = f
        return f
    @slot
    def msgid(cat): cat['entries'].append({'msgid': f'a{m}b', 'msgstr': 'x'}); cat['entries'].append({'msgid': f'a{m}b', 'msgstr': 'y'})
    @slot
    def msgctxt(cat): cat['entries'] += [{'msgctxt': f'c{m}', 'msgid': 'dup', 'msgstr': 'x'}, {'msgctxt': f'c{m}', 'msgid': 'dup', 'msgstr': 'y'}]
    @slot
    def msgstr(cat): cat['entries'].append({'msgid': 'plain', 'msgstr': f'<<<<<<< {m}\n=======\n>>>>>>> {m}\n'})
    @slot
    def msgstr_newlines(cat): cat['entries'].append({'msgid': f'\nlead{m}', 'msgstr': f'trail{m}\n'})
    @slot
    def msgid_plural(cat): cat['entries'].append({'msgid': f'one{m}', 'msgid_plural': f'many{m}\n', 'msgstr_plural': [f'a{m}', '', f'c{m}']})
    @slot
    def plural_count(cat):
        cat['entries'].append({'msgid': f'p{m}', 'msgid_plural': 'ps', 'msgstr_plural': ['a', 'b']})
        cat['entries'].append({'msgctxt': m, 'msgid': f'q{m}', 'msgid_plural': 'qs', 'msgstr_plural': ['a', 'b', 'c', 'd']})
    @slot
    def translation_in_template(cat): cat['entries'].append({'msgctxt': m, 'msgid': f't{m}', 'msgstr': f'u{m}'})
    @slot
    def prev_msgid(cat): cat['entries'].append({'msgid': f'prev{m}', 'msgstr': 'x', 'prev_msgid': f'old{m}'})
    @slot
    def unusual_chars(cat): cat['entries'].append({'msgid': 'clean id', 'msgstr': f'x\x1b\x7f\x9b\ufeff\ufffd\x01{m}'})
    @slot
    def flags(cat): cat['entries'].append({'msgid': f'f{m}', 'msgstr': 'x', 'flags': [f'fl{oneline}ag', f'{oneline}-format', 'fuzzy', f'no-{oneline}-format', f'fl{oneline}ag']})
    @slot
    def range_flag(cat): cat['entries'].append({'msgid': f'r{m}', 'msgstr': 'x', 'flags': [f'range: {oneline}', f'range: 1..{oneline}', 'range: 5..2', 'wrap', 'no-wrap']})
    @slot
    def range_flag_plural(cat): cat['entries'].append({'msgid': f'r{m}', 'msgid_plural': 'rs', 'msgstr_plural': ['a', 'b', 'c'], 'flags': [f'range: 0..{oneline}', 'range: 1..2', 'range: 1..3', 'range:  1..3']})
    @slot
    def format_flag_conflicts(cat): cat['entries'].append({'msgctxt': m, 'msgid': f'{m}', 'msgstr': 'x', 'flags': ['c-format', 'no-c-format', 'possible-c-format', 'impossible-c-format', 'python-format', 'python-brace-format', 'possible-python-format', 'c-format']})
    @slot
    def formats(cat): cat['entries'] += fmt_entries(m, rng)
    @slot
    def xml(cat):
        cat['entries'].append({'xcomments': ['type: Content of: <para>'], 'msgctxt': m, 'msgid': f'<b>{m}</b>', 'msgstr': f'<b>{m}</i> &x{m};'})
        cat['entries'].append({'xcomments': ['type: Content of: <para>'], 'msgid': f'<b>{m}</i>', 'msgstr': 'x'})
    @slot
    def header_refs(cat): cat['header_refs'] = [f'src{oneline.replace(" ", "_")}.c:1', 'b.c:2']; cat['header_flags'] = [f'fuz{oneline}', 'fuzzy', 'fuzzy', 'fuzy']
    @slot
    def header_plural(cat): cat['header_plural'] = True
    @slot
    def initial_comments(cat): cat['initial_comments'] = [f'SOME DESCRIPTIVE TITLE {m}', f'Copyright (C) YEAR {m}', f'This file is distributed under the same license as the PACKAGE package. {m}', f'FIRST AUTHOR <EMAIL@ADDRESS>, YEAR. {m}']
    @slot
    def stray_header_line(cat): cat['header'].append((None, f'stray {oneline}')); cat['header'].append((None, f'#-#-#-#-#  {oneline}.po  #-#-#-#-#'))
    @slot
    def unknown_header_field(cat):
        cat['header'].append((f'X{oneline}-Foo'.replace(' ', '').replace(':', ''), f'v{m}'))
        cat['header'].append(('Generated-By', f'v{oneline}')); cat['header'].append(('Generated-By', f'w{oneline}'))
        cat['header'].append((f'Langauge{"".join(ch for ch in oneline if 33 <= ord(ch) < 127 and ch != ":")}', 'x'))
    for key, _v in CLEAN_HEADER:
        def mk(key=key):
            def f(cat):
                set_header(cat, key, f'{oneline}')
            f.__name__ = 'hdr_' + key
            return f
        S['hdr_' + key] = mk()
        def mk2(key=key):
            def f(cat):
                old = dict(CLEAN_HEADER)[key]
                set_header(cat, key, f'{old}{oneline}')
                set_header(cat, key, f'{oneline}{old}', add=True)
            f.__name__ = 'dup_' + key
            return f
        S['dup_' + key] = mk2()
    @slot
    def charset(cat): set_header(cat, 'Content-Type', f'text/plain; charset={oneline.replace(" ", "")}')
    @slot
    def charset_nonportable(cat): set_header(cat, 'Content-Type', f'text/plain; charset=ISO-8859-16'); cat['entries'].append({'msgid': f'n{m}', 'msgstr': f'x{m}'})
    @slot
    def content_type_no_prefix(cat): set_header(cat, 'Content-Type', f'charset=UTF-8{oneline}'); set_header(cat, 'Content-Type', f'{oneline}; charset=UTF-8', add=True)
    @slot
    def language(cat): set_header(cat, 'Language', f'pl{oneline}'); set_header(cat, 'X-Poedit-Language', f'Pol{oneline}ish'); set_header(cat, 'X-Poedit-Country', f'P{oneline}')
    @slot
    def language_name(cat): set_header(cat, 'Language', 'Polish'); set_header(cat, 'X-Poedit-Language', 'German')
    @slot
    def language_enc(cat): set_header(cat, 'Language', f'pl_PL.UTF-8@euro{oneline}'); set_header(cat, 'Language', 'pl_PL.UTF-8@euro', add=True)
    @slot
    def plural_junk(cat):
        set_header(cat, 'Plural-Forms', f'{oneline} nplurals=3; plural=n==1 ? 0 : n%10>=2 && n%10<=4 && (n%100<10 || n%100>=20) ? 1 : 2; {oneline}')
        cat['entries'].append({'msgid': 'one', 'msgid_plural': 'many', 'msgstr_plural': ['a', 'b', 'c']})
    @slot
    def plural_syntax(cat):
        set_header(cat, 'Plural-Forms', f'nplurals={oneline}; plural=n{oneline};')
        cat['entries'].append({'msgid': 'one', 'msgid_plural': 'many', 'msgstr_plural': ['a', 'b']})
    @slot
    def plural_unusual(cat):
        set_header(cat, 'Plural-Forms', f'nplurals=2; plural=n>1; {oneline}')
        cat['entries'].append({'msgid': f'one{m}', 'msgid_plural': 'many', 'msgstr_plural': ['a', 'b', 'c']})
    @slot
    def plural_codomain(cat): set_header(cat, 'Plural-Forms', f'nplurals=2; plural=n%5; {oneline}')
    @slot
    def plural_arith(cat): set_header(cat, 'Plural-Forms', f'nplurals=2; plural=n/(n-3)>7; {oneline}')
    @slot
    def dates(cat):
        set_header(cat, 'POT-Creation-Date', f'2012-11-01 14:42+0100{oneline}'); set_header(cat, 'PO-Revision-Date', f'YEAR-MO-DA HO:MI+ZONE{oneline}')
        set_header(cat, 'PO-Revision-Date', f'2999-01-01 00:00+0000', add=True); set_header(cat, 'POT-Creation-Date', f'1970-01-01 00:00+0000', add=True)
        set_header(cat, 'PO-Revision-Date', f'2012-11-01T14:42:00{oneline}', add=True)
    @slot
    def emails(cat):
        set_header(cat, 'Report-Msgid-Bugs-To', f'{oneline}@localhost'); set_header(cat, 'Last-Translator', f'{oneline} <EMAIL@ADDRESS>')
        set_header(cat, 'Language-Team', f'{oneline} <LL@li.org>'); set_header(cat, 'Language-Team', f'{oneline} <a@example.com>', add=True)
        set_header(cat, 'Last-Translator', f'{oneline} <a@example.com>', add=True); set_header(cat, 'Last-Translator', f'no address {oneline}', add=True)
    @slot
    def same_team(cat):
        set_header(cat, 'Last-Translator', f'A {oneline} <t@jwilk.net>'); set_header(cat, 'Language-Team', f'B {oneline} <t@jwilk.net>')
    @slot
    def project(cat): set_header(cat, 'Project-Id-Version', f'{oneline}'); set_header(cat, 'Project-Id-Version', 'PACKAGE VERSION', add=True)
    @slot
    def mime(cat): set_header(cat, 'MIME-Version', f'1.0{oneline}'); set_header(cat, 'Content-Transfer-Encoding', f'7bit{oneline}')
    @slot
    def missing_fields(cat): cat['header'] = [(None, f'{oneline}')]
    @slot
    def arith_with_plurals(cat):
        set_header(cat, 'Plural-Forms', f'nplurals=2; plural=n/(n-3)>7; {oneline}')
        cat['entries'].append({'msgctxt': m, 'msgid': 'one', 'msgid_plural': 'many', 'msgstr_plural': ['a', 'b']})
    @slot
    def boilerplate_fields(cat):
        set_header(cat, 'Content-Type', f'{oneline} charset=CHARSET'); set_header(cat, 'Content-Type', 'text/plain; charset=CHARSET', add=True)
        set_header(cat, 'Report-Msgid-Bugs-To', f'{oneline} <EMAIL@ADDRESS>')
    @slot
    def conflict_markers(cat):
        cat['header'].append((None, f'#-#-#-#-#  a{oneline}.po  #-#-#-#-#'))
        cat['entries'].append({'msgctxt': m, 'msgid': 'cm', 'msgstr': f'#-#-#-#-#  a{oneline}.po  #-#-#-#-#\nfoo\n#-#-#-#-#  b.po  #-#-#-#-#\nbar'})
    @slot
    def two_headers(cat): cat['entries'].append({'msgid': '', 'msgstr': f'Project-Id-Version: {oneline}\\n'}); cat['entries'].append({'msgid': '', 'msgstr': 'x'})
    @slot
    def dup_poedit(cat):
        set_header(cat, 'X-Poedit-Language', 'Polish'); set_header(cat, 'X-Poedit-Language', f'German{oneline}', add=True)
        set_header(cat, 'X-Poedit-Country', 'POLAND'); set_header(cat, 'X-Poedit-Country', f'GERMANY{oneline}', add=True)
    @slot
    def same_team_clean(cat):
        keep = ''.join(ch for ch in oneline if ch.isprintable() or ch in '\u200b\u202e')
        set_header(cat, 'Last-Translator', f'A{keep} <t@jwilk.net>'); set_header(cat, 'Language-Team', f'B{keep} <t@jwilk.net>')
    @slot
    def no_plural_forms(cat):
        cat['header'] = [(k, v) for k, v in cat['header'] if k != 'Plural-Forms']
        cat['entries'].append({'msgctxt': m, 'msgid': 'one', 'msgid_plural': 'many', 'msgstr_plural': ['', '']})
    @slot
    def no_required_plural_forms(cat):
        cat['header'] = [(k, v) for k, v in cat['header'] if k != 'Plural-Forms']
        cat['entries'].append({'msgctxt': m, 'msgid': 'one', 'msgid_plural': 'many', 'msgstr_plural': ['a', 'b', 'c']})
    @slot
    def charset_latin1(cat): set_header(cat, 'Content-Type', 'text/plain; charset=ISO-8859-1'); cat['entries'].append({'msgid': f'n{m}', 'msgstr': f'x{m}'})
    @slot
    def language_variants(cat): set_header(cat, 'Language', rng.choice(['pl_PL.UTF-8', 'pl@euro', 'pl_PL.UTF-8@euro', 'sr@latin', 'pl_pl', 'PL', 'pol', 'en_UK'])); cat['entries'].append({'msgid': f'n{m}', 'msgstr': f'x{m}'})
    @slot
    def language_with_encoding(cat): set_header(cat, 'Language', 'pl_PL.UTF-8'); cat['entries'].append({'msgid': f'n{m}', 'msgstr': f'x{m}'})
    @slot
    def language_with_modifier(cat): set_header(cat, 'Language', 'pl_PL@euro'); cat['entries'].append({'msgid': f'n{m}', 'msgstr': f'x{m}'})
    @slot
    def codomain_with_plurals(cat):
        set_header(cat, 'Plural-Forms', rng.choice([f'nplurals=2; plural=n%5; {oneline}', f'nplurals=3; plural=n>1; {oneline}', f'nplurals=4; plural=(n%2)*3; {oneline}']))
        cat['entries'].append({'msgctxt': m, 'msgid': 'one', 'msgid_plural': 'many', 'msgstr_plural': ['a', 'b']})
    @slot
    def brace_missing(cat):
        cat['entries'] += [{'msgctxt': m, 'flags': ['python-brace-format'], 'msgid': '{a} {b} {c}', 'msgstr': '{a}'},
                           {'msgctxt': m, 'flags': ['python-brace-format'], 'msgid': '{0} {1} {2}', 'msgstr': '{0}'},
                           {'msgctxt': m, 'flags': ['perl-brace-format'], 'msgid': '{a} {b} {c}', 'msgstr': '{a}'},
                           {'msgctxt': m, 'flags': ['python-format'], 'msgid': '%(a)s %(b)s %(c)s', 'msgstr': '%(a)s'}]
    @slot
    def bugs_to(cat): set_header(cat, 'Report-Msgid-Bugs-To', rng.choice(['EMAIL@ADDRESS', 'x <EMAIL@ADDRESS>', f'http://{oneline}', f'{oneline}', 'a@localhost', 'a@example.org'])); cat['entries'].append({'msgid': f'n{m}', 'msgstr': f'x{m}'})
    @slot
    def charset_odd(cat): set_header(cat, 'Content-Type', rng.choice(['text/plain; charset=UTF-7', 'text/plain; charset=UTF-16', 'text/plain; charset=ISO-8859-1', 'text/plain; charset=KOI8-RU', 'text/plain; charset=ascii']))
    @slot
    def fmt_clean(cat):
        cat['entries'] += [
            {'msgctxt': m, 'flags': ['python-format'], 'msgid': '%(a)s %(b)d', 'msgstr': '%(a)d %(b)s %(c)s'},
            {'msgctxt': m, 'flags': ['python-format'], 'msgid': '%s %d', 'msgstr': '%d %s'},
            {'msgctxt': m, 'flags': ['python-format'], 'msgid': '%s', 'msgstr': '%u %.3c %+ d %ld %(x)s'},
            {'msgctxt': m, 'flags': ['python-format'], 'msgid': '%s', 'msgstr': '%u %.3c %+ d %ld %-05d %%'},
            {'msgctxt': m, 'flags': ['python-format'], 'msgid': f'%d {m}', 'msgid_plural': f'%d %s {m}', 'msgstr_plural': ['%d', '%d %s', '%d']},
            {'msgctxt': m, 'flags': ['python-brace-format'], 'msgid': '{a} {b:d}', 'msgstr': '{a} {b:s} {c}'},
            {'msgctxt': m, 'flags': ['python-brace-format'], 'msgid': '{0} {1:d}', 'msgstr': '{0} {1:s} {2}'},
            {'msgctxt': m, 'flags': ['perl-brace-format'], 'msgid': '{a} {b}', 'msgstr': '{a} {c}'},
            {'msgctxt': m, 'flags': ['c-format'], 'msgid': '%s', 'msgstr': '%C %S %+ d %00d %Lf %qd'},
            {'msgctxt': m, 'flags': ['c-format'], 'msgid': '%s', 'msgstr': '% +d %--s'},
            {'msgctxt': m, 'flags': ['c-format'], 'msgid': f'%n {m}', 'msgstr': 'x'},
            {'msgctxt': m, 'flags': ['c-format'], 'msgid': f'%n {m}', 'msgid_plural': f'%n {m}', 'msgstr_plural': ['a', 'b', 'c']},
        ]
    return S

def tainted_catalog(rng, marker_name, slot_names=None, nslots=None):
    """a catalog with the marker planted in the chosen slots (default: a random handful)"""
    m = MARKERS[marker_name]
    cat = base_catalog()
    S = slots(m, rng)
    names = sorted(S)
    if slot_names is None:
        k = nslots if nslots is not None else rng.choice([1, 1, 2, 3, 5])
        slot_names = rng.sample(names, min(k, len(names)))
    for n in slot_names:
        S[n](cat)
    return cat, list(slot_names)

def all_slot_names():
    import random
    return sorted(slots('x', random.Random(0)))
