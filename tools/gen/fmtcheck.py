"""Generators for C14: per format kind a signature is drawn first, then rendered twice or more with independent
permutations and perturbations (drop, add, retype, rename, renumber, invalidate); message shapes plain / plural;
Plural-Forms values; range flags.  Every string carries its REFERENCE signature *by construction* (what it was built to
consume), which is what the falsifier compares with - never the tool's own parse.

A string is a dict {'text', 'ref', 'how'}; 'ref' is None for a string built to be invalid, else
  c            : ('c', [C type of argument 1, 2, ...], [per argument: index of the conversion using it], [per conversion: integer?])
  python       : ('seq', [type, ...]) | ('map', {key: type})
  python-brace : ('brace', {key(int|str): frozenset of type names})
  perl-brace   : ('perl', frozenset of names)
"""

LITERALS = ['', ' ', ' ', 'a', 'abc ', ' files in ', '\n', 'é', '€ ', '$', '*', '.', '<', '1$', '0', '\\', '"', "'", '\t', '&', '#', '-', ': ', ', ']

# ------------------------------------------------------------------------------------------------ C

C_INT = [('d', 'int'), ('i', 'int'), ('u', 'unsigned int'), ('x', 'unsigned int'), ('X', 'unsigned int'), ('o', 'unsigned int'),
         ('ld', 'long int'), ('li', 'long int'), ('lu', 'unsigned long int'), ('lld', 'long long int'), ('llu', 'unsigned long long int'),
         ('hhd', 'signed char'), ('hu', 'unsigned short int'), ('hd', 'short int'), ('zu', 'size_t'), ('zd', 'ssize_t'), ('jd', 'intmax_t'),
         ('td', 'ptrdiff_t'), ('<PRId64>', 'int64_t'), ('<PRIu32>', 'uint32_t'), ('<PRIxLEAST16>', 'uint_least16_t'), ('<PRIdMAX>', 'intmax_t'),
         ('<PRIuPTR>', 'uintptr_t'), ('qd', 'long long int')]
C_OTHER = [('s', 'const char *'), ('s', 'const char *'), ('ls', 'const wchar_t *'), ('c', 'char'), ('lc', 'wint_t'), ('f', 'double'), ('g', 'double'),
           ('e', 'double'), ('Lf', 'long double'), ('p', 'void *'), ('n', 'int *'), ('hn', 'short int *'), ('a', 'double'), ('S', 'const wchar_t *'),
           ('C', 'wint_t'), ('lf', 'double')]
C_PREC_OK = set('diouxXaAeEfFgGsS')
_conv_id = 0

def c_conv(rng, integer=None):
    """one conversion: {'body','type','integer','sw','sp','flags','width','prec'}"""
    if integer is None:
        integer = rng.random() < 0.5
    body, tp = rng.choice(C_INT if integer else C_OTHER)
    conv = body[4] if body.startswith('<') else body[-1]
    global _conv_id
    _conv_id += 1
    d = {'id': _conv_id, 'body': body, 'type': tp, 'integer': integer, 'sw': False, 'sp': False, 'flags': '', 'width': '', 'prec': ''}
    if conv != 'n':
        r = rng.random()
        if r < 0.12:
            d['sw'] = True
        elif r < 0.25:
            d['width'] = str(rng.choice([1, 5, 12]))
        if conv in C_PREC_OK:
            r = rng.random()
            if r < 0.1:
                d['sp'] = True
            elif r < 0.2:
                d['prec'] = '.' + rng.choice(['', '0', '3'])
        if rng.random() < 0.15:
            d['flags'] = rng.choice(['-', '+', ' ', '-+'] + (['0'] if conv in 'diouxXaAeEfFgG' and not d['prec'] and not d['sp'] else []))
    return d

def c_layout(convs):
    """argument slots: ([type per argument], [conversions using each argument], [per conversion: (integer?, argument holding its value)],
    {conversion id: argument of its value}, [per conversion: argument of its * width or None]).
    An item {'dupof': j} is a further conversion referring to argument j again; 'sw_to': id makes the `*` width of a
    conversion refer to the (int) value of another conversion instead of consuming an argument of its own."""
    types, users, info, value_of, width_of = [], [], [], {}, []
    ids = {c.get('id') for c in convs}
    pending = []
    for ci, c in enumerate(convs):
        if 'dupof' in c:
            users[c['dupof']].append(ci)
            info.append((c['integer'], c['dupof']))
            width_of.append(None)
            continue
        shared = c.get('sw_to') in ids and c.get('sw_to') is not None
        if shared:
            pending.append((ci, c['sw_to']))
            width_of.append('pending')
        elif c['sw']:
            types.append('int'); users.append([ci]); width_of.append(len(types) - 1)
        else:
            width_of.append(None)
        if c['sp']:
            types.append('int'); users.append([ci])
        types.append(c['type']); users.append([ci])
        info.append((c['integer'], len(types) - 1))
        value_of[c['id']] = len(types) - 1
    for ci, target in pending:
        j = value_of[target]
        users[j].append(ci)
        width_of[ci] = j
    return types, users, info, value_of, width_of

def c_ref(convs):
    types, users, info, _, _ = c_layout(convs)
    return ('c', types, users, info)

def c_types(convs):
    return c_layout(convs)[0]

def c_render(rng, convs, numbered=None, shuffle=True):
    """render a list of conversions: unnumbered in order, or numbered (indices = consumption order) in shuffled order"""
    types, users, info, value_of, width_of = c_layout(convs)
    ids = {c.get('id') for c in convs}
    if numbered is None:
        numbered = rng.random() < 0.4
    if any('dupof' in c or (c.get('sw_to') is not None and c.get('sw_to') in ids) for c in convs):
        numbered = True
    if not convs:
        numbered = False
    pieces = []
    k = 1
    for ci, c in enumerate(convs):
        if 'dupof' in c:
            pieces.append('%%%d$%s' % (c['dupof'] + 1, c['body']))
            continue
        s = '%'
        w = p = ''
        shared = c.get('sw_to') is not None and c.get('sw_to') in ids
        if numbered:
            if shared:
                w = '*%d$' % (width_of[ci] + 1)
            elif c['sw']:
                w = '*%d$' % k; k += 1
            if c['sp']:
                p = '.*%d$' % k; k += 1
            s += '%d$' % k; k += 1
        else:
            if c['sw']:
                w = '*'
            if c['sp']:
                p = '.*'
        s += c['flags'] + (w or c['width']) + (p or c['prec']) + c['body']
        pieces.append(s)
    if numbered and shuffle:
        rng.shuffle(pieces)
    out = rng.choice(LITERALS)
    for pc in pieces:
        out += pc + rng.choice(LITERALS)
        if rng.random() < 0.08:
            out += rng.choice(['%%', '%m']) + rng.choice(LITERALS)
    return out

def c_add_dup(rng, convs):
    """a second reference to an existing argument, by a conversion of the same type"""
    types = c_types(convs)
    if not types:
        return convs
    j = rng.randrange(len(types))
    cands = [(b, t, True) for b, t in C_INT if t == types[j]] + [(b, t, False) for b, t in C_OTHER if t == types[j]]
    if not cands:
        return convs
    b, t, integer = rng.choice(cands)
    return convs + [{'dupof': j, 'body': b, 'type': t, 'integer': integer}]

C_INVALID = ['%', '%!', '%1$d %s', '%2$d', '%#d', '%ls %hs', '%1$d %1$s', '%0$d', '%4097$d', '% ', '%.', '%l', '%<PRId7>', '%*%', '%1$%']

def c_perturb(rng, convs, how):
    """a perturbed copy of the conversion list, or None when the perturbation does not apply"""
    cs = [dict(c) for c in convs]
    if how == 'same':
        return cs
    if how == 'drop_last':
        return cs[:-1] if cs else None
    if how == 'drop_last_int':
        return cs[:-1] if cs and cs[-1]['integer'] else None
    if how == 'drop_first':
        return cs[1:] if cs else None
    if how == 'drop_any':
        if not cs: return None
        del cs[rng.randrange(len(cs))]
        return cs
    if how == 'drop_two':
        return cs[:-2] if len(cs) >= 2 else None
    if how == 'drop_shared':
        # drop the conversion whose value another conversion uses as its * width, and that width
        ids = {c['id']: j for j, c in enumerate(cs)}
        cand = [c for c in cs if c.get('sw_to') in ids]
        if not cand: return None
        b = rng.choice(cand)
        del cs[ids[b['sw_to']]]
        b['sw_to'] = None
        b['sw'] = False
        return cs
    if how == 'add':
        cs.insert(rng.randint(0, len(cs)), c_conv(rng))
        return cs
    if how == 'add_end':
        cs.append(c_conv(rng))
        return cs
    if how == 'retype':
        if not cs: return None
        j = rng.randrange(len(cs))
        for _ in range(20):
            n = c_conv(rng)
            if n['type'] != cs[j]['type']:
                n['sw'], n['sp'] = cs[j]['sw'], (cs[j]['sp'] and n['body'][-1] in C_PREC_OK and not n['body'].startswith('<') or (cs[j]['sp'] and n['body'].startswith('<')))
                if n['body'][-1] == 'n' and not n['body'].startswith('<'):
                    n['sw'] = n['sp'] = False
                    n['flags'] = n['width'] = n['prec'] = ''
                cs[j] = n
                return cs
        return None
    if how == 'retype_last':
        if not cs: return None
        for _ in range(20):
            n = c_conv(rng)
            if n['type'] != cs[-1]['type'] and not n['sw'] and not n['sp'] and not cs[-1]['sw'] and not cs[-1]['sp']:
                cs[-1] = n
                return cs
        return None
    if how == 'respell':
        # another spelling of the same type
        if not cs: return None
        j = rng.randrange(len(cs))
        alts = [b for b, t in C_INT + C_OTHER if t == cs[j]['type'] and b != cs[j]['body']]
        if not alts: return None
        b = rng.choice(alts)
        conv = b[4] if b.startswith('<') else b[-1]
        cs[j]['body'] = b
        if conv not in C_PREC_OK:
            cs[j]['sp'] = False; cs[j]['prec'] = ''
        cs[j]['flags'] = ''
        return cs if c_types(cs) == c_types(convs) else None
    if how == 'restar':
        cand = [j for j, c in enumerate(cs) if c['body'][-1] != 'n' or c['body'].startswith('<')]
        if not cand: return None
        j = rng.choice(cand)
        cs[j]['sw'] = not cs[j]['sw']
        cs[j]['width'] = ''
        return cs
    if how == 'swap':
        if len(cs) < 2: return None
        i, j = rng.sample(range(len(cs)), 2)
        cs[i], cs[j] = cs[j], cs[i]
        return cs
    raise ValueError(how)

C_HOWS = ['same', 'same', 'same', 'drop_last', 'drop_last_int', 'drop_last_int', 'drop_first', 'drop_any', 'drop_two', 'drop_shared', 'add', 'add_end', 'retype',
          'retype_last', 'respell', 'restar', 'swap', 'invalid']

def c_string(rng, convs, how, dup=False, **kw):
    if how == 'invalid':
        plain = [dict(c, sw_to=None) for c in convs if 'dupof' not in c]
        base = c_render(rng, plain, numbered=False) if rng.random() < 0.5 else ''
        return {'text': base + rng.choice(C_INVALID), 'ref': None, 'how': how}
    cs = c_perturb(rng, convs, how)
    if cs is None:
        cs, how = [dict(c) for c in convs], 'same'
    if dup:
        cs = c_add_dup(rng, cs)
    return {'text': c_render(rng, cs, **kw), 'ref': c_ref(cs), 'how': how}

def c_sig(rng):
    n = rng.choice([0, 1, 1, 1, 2, 2, 2, 3, 3, 4, 6])
    convs = [c_conv(rng) for _ in range(n)]
    if convs and rng.random() < 0.5:
        convs[-1] = c_conv(rng, integer=True)
    if convs and rng.random() < 0.25:
        convs[0] = c_conv(rng, integer=True)
    if len(convs) >= 2 and rng.random() < 0.12:
        # the * width of one conversion is the (int) value of another one
        a = rng.randrange(len(convs))
        convs[a] = dict(c_conv(rng, integer=True), body=rng.choice(['d', 'i']), type='int', sw=False, sp=False, prec='', flags='', width='')
        others = [j for j in range(len(convs)) if j != a and convs[j]['body'][-1:] != 'n' or convs[j]['body'].startswith('<')]
        others = [j for j in others if j != a]
        if others:
            bsel = rng.choice(others)
            convs[bsel]['sw'] = False
            convs[bsel]['width'] = ''
            convs[bsel]['sw_to'] = convs[a]['id']
    return convs

# ------------------------------------------------------------------------------------------------ Python %

PY_CONVS = [('d', 'int'), ('i', 'int'), ('u', 'int'), ('x', 'int'), ('X', 'int'), ('o', 'int'), ('e', 'float'), ('f', 'float'), ('g', 'float'),
            ('E', 'float'), ('G', 'float'), ('F', 'float'), ('c', 'chr'), ('s', 'str'), ('s', 'str'), ('r', 'object'), ('a', 'object')]
PY_KEYS = ['a', 'b', 'n', 'name', 'count', 'x y', '', '0', '1', 'é', 'k(1)', 'A', 'Z', 'aa', '\x1b[1m', 'n' * 12, '_', '-']

def py_conv(rng, integer=None):
    if integer:
        conv, tp = rng.choice(PY_CONVS[:6])
    elif integer is False:
        conv, tp = rng.choice(PY_CONVS[6:])
    else:
        conv, tp = rng.choice(PY_CONVS)
    return {'conv': conv, 'type': tp, 'sw': False, 'sp': False, 'flags': rng.choice(['', '', '', '-', '0', '+']), 'width': rng.choice(['', '', '5']),
            'prec': rng.choice(['', '', '', '.2', '.']), 'len': rng.choice(['', '', '', 'l'])}

def py_directive(key, c):
    return '%' + key + c['flags'] + ('*' if c['sw'] else c['width']) + ('.*' if c['sp'] else c['prec']) + c['len'] + c['conv']

def py_sig(rng):
    """('seq', [conv...]) or ('map', [(key, conv)...]) with distinct keys"""
    if rng.random() < 0.45:
        n = rng.choice([0, 1, 1, 2, 2, 3, 4])
        cs = [py_conv(rng) for _ in range(n)]
        for c in cs:
            if rng.random() < 0.1: c['sw'] = True
            if rng.random() < 0.08: c['sp'] = True
        return ('seq', cs)
    n = rng.choice([1, 1, 2, 2, 3, 4, 5])
    keys = rng.sample(PY_KEYS, n)
    cs = [(k, py_conv(rng)) for k in keys]
    if rng.random() < 0.6:
        cs[rng.randrange(n)] = (cs[0][0] if n == 1 else rng.choice(keys), py_conv(rng, integer=True))
        seen, out = set(), []
        for k, c in cs:
            if k not in seen:
                seen.add(k); out.append((k, c))
        cs = out
    return ('map', cs)

def py_ref(sig):
    kind, cs = sig
    if kind == 'seq':
        out = []
        for c in cs:
            out += ['int'] * (c['sw'] + c['sp']) + [c['type']]
        return ('seq', out)
    return ('map', {k: c['type'] for k, c in cs})

def py_render(rng, sig, shuffle=True, dup=False):
    kind, cs = sig
    pieces = []
    if kind == 'seq':
        for c in cs:
            pieces.append(py_directive('', c))
    else:
        for k, c in cs:
            pieces.append(py_directive('(' + k + ')', c))
        if dup and cs:
            k, c = rng.choice(cs)
            alt = rng.choice([x for x, t in PY_CONVS if t == c['type']])
            pieces.append('%(' + k + ')' + alt)
        if shuffle:
            rng.shuffle(pieces)
    out = rng.choice(LITERALS)
    for pc in pieces:
        out += pc + rng.choice(LITERALS)
        if rng.random() < 0.06:
            out += '%%'
    return out

PY_INVALID = ['%', '%!', '%(a', '%(a)', '%(a)d %d', '%d %(a)d', '%(a)d %(a)s', '%(a)*d', '%y', '% ', '%(a)%']

def py_perturb(rng, sig, how):
    kind, cs = sig
    cs = [dict(c) if kind == 'seq' else (c[0], dict(c[1])) for c in cs]
    if how == 'same':
        return (kind, cs)
    if how in ('drop_last', 'drop_any', 'drop_first'):
        if not cs: return None
        del cs[{'drop_last': len(cs) - 1, 'drop_first': 0}.get(how, rng.randrange(len(cs)))]
        return (kind, cs)
    if how == 'drop_int':
        idx = [j for j, c in enumerate(cs) if (c if kind == 'seq' else c[1])['type'] == 'int']
        if not idx: return None
        del cs[rng.choice(idx)]
        return (kind, cs)
    if how == 'drop_two':
        if len(cs) < 2: return None
        for j in sorted(rng.sample(range(len(cs)), 2), reverse=True):
            del cs[j]
        return (kind, cs)
    if how == 'add':
        if kind == 'seq':
            cs.insert(rng.randint(0, len(cs)), py_conv(rng))
        else:
            free = [k for k in PY_KEYS if k not in {k for k, _ in cs}]
            cs.append((rng.choice(free), py_conv(rng)))
        return (kind, cs)
    if how == 'retype':
        if not cs: return None
        j = rng.randrange(len(cs))
        old = cs[j] if kind == 'seq' else cs[j][1]
        for _ in range(20):
            n = py_conv(rng)
            if n['type'] != old['type']:
                if kind == 'seq':
                    n['sw'], n['sp'] = old['sw'], old['sp']
                    cs[j] = n
                else:
                    cs[j] = (cs[j][0], n)
                return (kind, cs)
        return None
    if how == 'respell':
        if not cs: return None
        j = rng.randrange(len(cs))
        old = cs[j] if kind == 'seq' else cs[j][1]
        alts = [x for x, t in PY_CONVS if t == old['type'] and x != old['conv']]
        if not alts: return None
        old['conv'] = rng.choice(alts)
        return (kind, cs)
    if how == 'rename':
        if kind != 'map' or not cs: return None
        j = rng.randrange(len(cs))
        free = [k for k in PY_KEYS if k not in {k for k, _ in cs}]
        cs[j] = (rng.choice(free), cs[j][1])
        return (kind, cs)
    if how == 'rename_two':
        if kind != 'map' or len(cs) < 2: return None
        free = [k for k in PY_KEYS if k not in {k for k, _ in cs}]
        a, b = rng.sample(free, 2)
        i, j = rng.sample(range(len(cs)), 2)
        cs[i] = (a, cs[i][1]); cs[j] = (b, cs[j][1])
        return (kind, cs)
    if how == 'restar':
        if kind != 'seq' or not cs: return None
        j = rng.randrange(len(cs))
        cs[j]['sw'] = not cs[j]['sw']
        return (kind, cs)
    if how == 'switch':
        # named <-> unnamed
        if kind == 'seq':
            keys = rng.sample(PY_KEYS, len(cs))
            return ('map', [(k, dict(c, sw=False, sp=False)) for k, c in zip(keys, cs)])
        return ('seq', [c for _, c in cs])
    if how == 'swap':
        if len(cs) < 2: return None
        i, j = rng.sample(range(len(cs)), 2)
        cs[i], cs[j] = cs[j], cs[i]
        return (kind, cs)
    raise ValueError(how)

PY_HOWS = ['same', 'same', 'same', 'drop_last', 'drop_any', 'drop_first', 'drop_int', 'drop_int', 'drop_two', 'add', 'retype', 'respell', 'rename',
           'rename_two', 'restar', 'switch', 'swap', 'invalid']

def py_string(rng, sig, how, **kw):
    if how == 'invalid':
        base = py_render(rng, sig) if rng.random() < 0.5 else ''
        return {'text': base + rng.choice(PY_INVALID), 'ref': None, 'how': how}
    s = py_perturb(rng, sig, how)
    if s is None:
        s, how = py_perturb(rng, sig, 'same'), 'same'
    return {'text': py_render(rng, s, **kw), 'ref': py_ref(s), 'how': how}

# ------------------------------------------------------------------------------------------------ python-brace

ALL3 = frozenset({'str', 'int', 'float'})
# (what follows the field name, type set) - only specifications whose meaning for str.format is beyond doubt
BRACE_SPECS = [('', ALL3), ('', ALL3), (':d', frozenset({'int'})), (':s', frozenset({'str'})), (':f', frozenset({'float'})), (':.2f', frozenset({'float'})),
               (':n', frozenset({'int', 'float'})), (':>5', ALL3), ('!r', ALL3), (':x', frozenset({'int'})), (':5d', frozenset({'int'})),
               (':e', frozenset({'float'})), (':+d', frozenset({'int'})), (':,d', frozenset({'int'})), (':<8s', frozenset({'str'})), (':.3', frozenset({'str', 'float'})),
               (':+', frozenset({'int', 'float'})), (':05', frozenset({'int', 'float'})), ('!s:>3', ALL3), (':%', frozenset({'float'})), (':c', frozenset({'int'}))]
# the tool identifies an argument by its full field name (`a.b`, `a[0]` are arguments of their own)
BRACE_NAMES = ['a', 'b', 'n', 'name', 'count', 'foo', 'é', '_x', 'A', 'Z', 'a1', 'aa', 'ñandú', 'N', 'a.b', 'a[0]', 'n[key]']

def brace_field(rng, int_only=None):
    if int_only:
        return rng.choice([s for s in BRACE_SPECS if 'int' in s[1]])
    if int_only is False:
        return rng.choice([s for s in BRACE_SPECS if 'int' not in s[1]])
    return rng.choice(BRACE_SPECS)

def brace_sig(rng):
    """list of (key, (spec text, types)); key None = auto-numbered, int = numbered, str = named; never auto and numbered together"""
    r = rng.random()
    n = rng.choice([0, 1, 1, 2, 2, 3, 4])
    fields = []
    if r < 0.2:                      # auto-numbered (+ names)
        fields = [(None, brace_field(rng)) for _ in range(n)]
    elif r < 0.55:                   # numbered (+ names)
        idx = list(range(n))
        if n and rng.random() < 0.15:
            idx[-1] = rng.choice([7, 10, 100])
        fields = [(i, brace_field(rng)) for i in idx]
    else:
        fields = []
    m = rng.choice([0, 0, 1, 1, 2, 3]) if fields else rng.choice([1, 1, 2, 2, 3, 4])
    for nm in rng.sample(BRACE_NAMES, m):
        fields.append((nm, brace_field(rng)))
    if fields and rng.random() < 0.5:
        j = rng.randrange(len(fields))
        fields[j] = (fields[j][0], brace_field(rng, int_only=True))
    return fields

def brace_ref(fields):
    out = {}
    auto = 0
    for k, (_, ts) in fields:
        if k is None:
            k = auto; auto += 1
        out[k] = (out[k] & ts) if k in out else ts
    if any(not v for v in out.values()):
        return None
    return ('brace', out)

def brace_render(rng, fields, shuffle=True, dup=False):
    fs = list(fields)
    has_auto = any(k is None for k, _ in fs)
    if dup and fs:
        k, (sp, ts) = rng.choice(fs)
        if k is not None:
            fs.append((k, ('', ALL3)))
    if shuffle and not has_auto:
        rng.shuffle(fs)
    elif shuffle:
        # auto-numbered fields keep their relative order; named ones move freely
        autos = [f for f in fs if f[0] is None]
        named = [f for f in fs if f[0] is not None]
        fs = autos
        for f in named:
            fs.insert(rng.randint(0, len(fs)), f)
    out = rng.choice(LITERALS)
    for k, (sp, _) in fs:
        name = '' if k is None else str(k)
        out += '{' + name + sp + '}' + rng.choice(LITERALS)
        if rng.random() < 0.06:
            out += rng.choice(['{{', '}}', '{{}}'])
    return out

BRACE_INVALID = ['{', '}', '{0', '{!}', '{0!x}', '{:d!r}', '{} {0}', '{0} {}', '{a-b}', '{0:d} {0:s}', '{:dd}', '{0:s!r}', '{a:+s}', '{ }']

def brace_perturb(rng, fields, how):
    fs = list(fields)
    keys = {k for k, _ in fs}
    if how == 'same':
        return fs
    if how in ('drop_last', 'drop_any', 'drop_first'):
        if not fs: return None
        j = {'drop_last': len(fs) - 1, 'drop_first': 0}.get(how, rng.randrange(len(fs)))
        if fs[j][0] is None:
            j = max(i for i, f in enumerate(fs) if f[0] is None)          # dropping an auto field = dropping the last one
        del fs[j]
        return fs
    if how == 'drop_int':
        idx = [j for j, f in enumerate(fs) if 'int' in f[1][1] and f[0] is not None]
        if not idx: return None
        del fs[rng.choice(idx)]
        return fs
    if how == 'drop_num_and_name':
        nums = [j for j, f in enumerate(fs) if isinstance(f[0], int)]
        names = [j for j, f in enumerate(fs) if isinstance(f[0], str)]
        if not nums or not names: return None
        for j in sorted([rng.choice(nums), rng.choice(names)], reverse=True):
            del fs[j]
        return fs
    if how == 'drop_all':
        return []
    if how == 'add':
        if rng.random() < 0.5 and not any(k is None for k in keys):
            free = [i for i in range(12) if i not in keys]
            fs.append((rng.choice(free), brace_field(rng)))
        else:
            free = [k for k in BRACE_NAMES if k not in keys]
            fs.append((rng.choice(free), brace_field(rng)))
        return fs
    if how == 'add_num_and_name':
        if any(k is None for k in keys): return None
        fs.append((rng.choice([i for i in range(12) if i not in keys]), brace_field(rng)))
        fs.append((rng.choice([k for k in BRACE_NAMES if k not in keys]), brace_field(rng)))
        return fs
    if how == 'retype':
        if not fs: return None
        j = rng.randrange(len(fs))
        for _ in range(30):
            n = brace_field(rng)
            if not (n[1] & fs[j][1][1]):
                fs[j] = (fs[j][0], n)
                return fs
        return None
    if how == 'narrow':
        # a different specification with a common type: silent
        if not fs: return None
        j = rng.randrange(len(fs))
        for _ in range(30):
            n = brace_field(rng)
            if (n[1] & fs[j][1][1]) and n != fs[j][1]:
                fs[j] = (fs[j][0], n)
                return fs
        return None
    if how == 'rename':
        cand = [j for j, f in enumerate(fs) if f[0] is not None]
        if not cand: return None
        j = rng.choice(cand)
        if isinstance(fs[j][0], int):
            fs[j] = (rng.choice([i for i in range(12) if i not in keys]), fs[j][1])
        else:
            fs[j] = (rng.choice([k for k in BRACE_NAMES if k not in keys]), fs[j][1])
        return fs
    if how == 'num_to_name':
        cand = [j for j, f in enumerate(fs) if isinstance(f[0], int)]
        if not cand: return None
        j = rng.choice(cand)
        fs[j] = (rng.choice([k for k in BRACE_NAMES if k not in keys]), fs[j][1])
        return fs
    if how == 'auto_to_num':
        if not any(k is None for k in keys): return None
        out, a = [], 0
        for k, f in fs:
            if k is None:
                out.append((a, f)); a += 1
            else:
                out.append((k, f))
        return out
    raise ValueError(how)

BRACE_HOWS = ['same', 'same', 'same', 'drop_last', 'drop_any', 'drop_first', 'drop_int', 'drop_int', 'drop_num_and_name', 'drop_num_and_name', 'drop_all',
              'add', 'add_num_and_name', 'retype', 'narrow', 'rename', 'num_to_name', 'auto_to_num', 'invalid']

def brace_string(rng, fields, how, **kw):
    if how == 'invalid':
        base = brace_render(rng, [f for f in fields if f[0] is not None]) if rng.random() < 0.5 else ''
        return {'text': base + rng.choice(BRACE_INVALID), 'ref': None, 'how': how}
    fs = brace_perturb(rng, fields, how)
    if fs is None:
        fs, how = list(fields), 'same'
    ref = brace_ref(fs)
    return {'text': brace_render(rng, fs, **kw), 'ref': ref, 'how': how if ref is not None else 'invalid'}

# ------------------------------------------------------------------------------------------------ perl-brace

PERL_NAMES = ['a', 'b', 'n', 'name', 'count', 'foo', 'é', '_x', 'A', 'Z', 'a1', 'aa', 'num_files', 'N']
PERL_INVALID = ['{', '{1}', '{a-b}', '{}', '{a', '{ a}', '{a }', '{{a}}']

def perl_sig(rng):
    return rng.sample(PERL_NAMES, rng.choice([0, 1, 1, 2, 2, 3, 4]))

def perl_render(rng, names, shuffle=True, dup=False):
    ns = list(names)
    if dup and ns:
        ns.append(rng.choice(ns))
    if shuffle:
        rng.shuffle(ns)
    out = rng.choice(LITERALS)
    for nm in ns:
        out += '{' + nm + '}' + rng.choice(LITERALS + ['}', '} '])
    return out

def perl_perturb(rng, names, how):
    ns = list(names)
    if how == 'same':
        return ns
    if how in ('drop_last', 'drop_any'):
        if not ns: return None
        del ns[len(ns) - 1 if how == 'drop_last' else rng.randrange(len(ns))]
        return ns
    if how == 'drop_two':
        return ns[:-2] if len(ns) >= 2 else None
    if how == 'drop_all':
        return []
    if how == 'add':
        ns.append(rng.choice([k for k in PERL_NAMES if k not in ns]))
        return ns
    if how == 'add_two':
        ns += rng.sample([k for k in PERL_NAMES if k not in ns], 2)
        return ns
    if how == 'rename':
        if not ns: return None
        ns[rng.randrange(len(ns))] = rng.choice([k for k in PERL_NAMES if k not in ns])
        return ns
    raise ValueError(how)

PERL_HOWS = ['same', 'same', 'same', 'drop_last', 'drop_any', 'drop_any', 'drop_two', 'drop_all', 'add', 'add_two', 'rename', 'invalid']

def perl_string(rng, names, how, **kw):
    if how == 'invalid':
        base = perl_render(rng, names) if rng.random() < 0.5 else ''
        return {'text': base + rng.choice(PERL_INVALID), 'ref': None, 'how': how}
    ns = perl_perturb(rng, names, how)
    if ns is None:
        ns, how = list(names), 'same'
    return {'text': perl_render(rng, ns, **kw), 'ref': ('perl', frozenset(ns)), 'how': how}

# ------------------------------------------------------------------------------------------------ per kind interface

KINDS = ['c', 'python', 'python-brace', 'perl-brace']

def make_sig(rng, kind):
    return {'c': c_sig, 'python': py_sig, 'python-brace': brace_sig, 'perl-brace': perl_sig}[kind](rng)

def make_string(rng, kind, sig, how=None, **kw):
    hows = {'c': C_HOWS, 'python': PY_HOWS, 'python-brace': BRACE_HOWS, 'perl-brace': PERL_HOWS}[kind]
    if how is None:
        how = rng.choice(hows)
    if kind in ('python', 'python-brace', 'perl-brace'):
        kw.setdefault('dup', rng.random() < 0.1)
    else:
        kw.setdefault('dup', rng.random() < 0.08)
    return {'c': c_string, 'python': py_string, 'python-brace': brace_string, 'perl-brace': perl_string}[kind](rng, sig, how, **kw)

def drop_int_how(kind, rng=None):
    if kind == 'c' and rng is not None and rng.random() < 0.2:
        return 'drop_shared'
    return {'c': 'drop_last_int', 'python': 'drop_int', 'python-brace': 'drop_int', 'perl-brace': 'drop_any'}[kind]

# ------------------------------------------------------------------------------------------------ plural forms, preimages, ranges

PLURAL_FORMS = [
    'nplurals=1; plural=0;',
    'nplurals=2; plural=n != 1;',
    'nplurals=2; plural=n > 1;',
    'nplurals=2; plural=n>1;',
    'nplurals=2; plural=n==1 ? 0 : 1;',
    'nplurals=2; plural=n%10==1 && n%100!=11 ? 0 : 1;',
    'nplurals=3; plural=n%10==1 && n%100!=11 ? 0 : n%10>=2 && n%10<=4 && (n%100<10 || n%100>=20) ? 1 : 2;',
    'nplurals=3; plural=n==1 ? 0 : n%10>=2 && n%10<=4 && (n%100<10 || n%100>=20) ? 1 : 2;',
    'nplurals=3; plural=(n==1) ? 0 : (n>=2 && n<=4) ? 1 : 2;',
    'nplurals=3; plural=n%10==1 && n%100!=11 ? 0 : n != 0 ? 1 : 2;',
    'nplurals=3; plural=n==0 ? 0 : n==1 ? 1 : 2;',
    'nplurals=3; plural=n==1 ? 0 : (n==0 || (n%100 > 0 && n%100 < 20)) ? 1 : 2;',
    'nplurals=4; plural=n==1 ? 0 : n==2 ? 1 : (n>2 && n<7) ? 2 : 3;',
    'nplurals=4; plural=n%100==1 ? 0 : n%100==2 ? 1 : n%100==3 || n%100==4 ? 2 : 3;',
    'nplurals=6; plural=n==0 ? 0 : n==1 ? 1 : n==2 ? 2 : n%100>=3 && n%100<=10 ? 3 : n%100>=11 ? 4 : 5;',
    'nplurals=3; plural=n<=1 ? 0 : n==2 ? 1 : 2;',           # form 0 for {0, 1}
    'nplurals=3; plural=n==0 || n==7 ? 0 : n==3 || n==4 ? 1 : 2;',   # {0, 7}, {3, 4}
    'nplurals=4; plural=n<3 ? 0 : n==3 ? 1 : n==199 ? 2 : 3;',   # {0,1,2}, {3}, {199}
    'nplurals=3; plural=n==1 || n==0 || n==5 ? 0 : n==199 || n==200 ? 1 : 2;',   # three elements; one in + one outside the window
    'nplurals=2; plural=n==250;',                             # form 1 never selected inside the window
    'nplurals=3; plural=n==1 ? 0 : n==2 ? 1 : 2;',
    'nplurals=2; plural=n%3;',                                # codomain error: no preimage
    'nplurals=2; plural=n/0;',
    'nplurals=2; plural=n+;',
    'nplurals=3; plural=n%2*2;',                              # gap: no preimage
    'nplurals=2; plural=(n != 1)',
    ' nplurals=2; plural=n != 1; x',
]

RANGES = [None, None, None, None, (0, 10), (1, 5), (2, 30), (0, 1), (1, 2), (2, 3), (0, 2), (1, 21), (1, 22), (20, 40), (3, 4), (0, 199), (1, 199),
          (198, 300), (5, 7), (0, 7), (1, 7), (100, 1000), (250, 260), (0, 0), (5, 5), (7, 3)]

def synthetic_preimage(rng, nforms):
    """a `ctx.plural_preimage` as the check could meet it - including shapes check_plurals never builds"""
    r = rng.random()
    if r < 0.06:
        return None
    if r < 0.1:
        return {}
    pre = {}
    pool = [[1], [1], [0], [5], [], [0, 1], [0, 7], [1, 2], [1, 21, 31], [0, 1, 2], [2, 3, 4, 22, 23, 24], [0, 5, 6, 7, 8, 9, 10, 11], [21], [0, 199],
            [1, 0], [7, 0], [2], [0, 2, 3], list(range(5, 200))]
    for i in range(nforms):
        if rng.random() < 0.08:
            continue                                              # a form index without preimage entry (KeyError)
        pre[i] = list(rng.choice(pool))
    if rng.random() < 0.1:
        pre[nforms + 1] = [3]
    return pre
