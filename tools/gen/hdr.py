"""Generators for C15: header values per field (good / boilerplate / bad / near-miss), headers with any subset, multiplicity and
order of fields plus stray lines, header-entry shapes (position, duplicates, obsolete, flags, references, plural), initial comments,
and the three file kinds."""
import random

KINDS = ('po', 'pot', 'mo')

FIELDS = ['Project-Id-Version', 'Report-Msgid-Bugs-To', 'POT-Creation-Date', 'PO-Revision-Date', 'Last-Translator', 'Language-Team',
          'Language', 'MIME-Version', 'Content-Type', 'Content-Transfer-Encoding', 'Plural-Forms']

CLEAN = [
    ('Project-Id-Version', 'Gizmo Enhancer 1.0'),
    ('Report-Msgid-Bugs-To', 'gizmoenhancer@jwilk.net'),
    ('POT-Creation-Date', '2012-11-01 14:42+0100'),
    ('PO-Revision-Date', '2012-11-01 14:42+0100'),
    ('Last-Translator', 'Jakub Wilk <jwilk@jwilk.net>'),
    ('Language-Team', 'Polish <pl@lists.jwilk.net>'),
    ('Language', 'pl'),
    ('MIME-Version', '1.0'),
    ('Content-Type', 'text/plain; charset=UTF-8'),
    ('Content-Transfer-Encoding', '8bit'),
    ('Plural-Forms', 'nplurals=3; plural=n==1 ? 0 : n%10>=2 && n%10<=4 && (n%100<10 || n%100>=20) ? 1 : 2;'),
]

ADDR_GOOD = ['bugs@foo.org', 'Foo Bugs <bugs@lists.foo.org>', 'jan@kowalski.pl', 'Jan Kowalski <jan@kowalski.pl>', '"Kowalski, Jan" <jan@kowalski.pl>',
             'jan@kowalski.pl (Jan)', '<a@b.c>', 'x@sub.domain.tld', 'x@EXAMPLES.COM', 'x@notexample.com', 'x@example.company', 'x@testing.org',
             'x@mytest.pl', 'x@localhost.pl', 'x@foo.locale.net', 'x@in-addr.arpa.net', 'x@invalid.pl', 'x@ıexample.org', 'x@\u212Aexample.com']
ADDR_SPECIAL = ['user@localhost', 'user@foo.localhost', 'x@example.com', 'x@example.net', 'x@example.org', 'x@example', 'x@sub.example.org',
                'x@EXAMPLE.COM', 'x@Example.Org', 'x@foo.test', 'x@test', 'x@TEST', 'x@invalid', 'x@foo.invalid', 'x@host.local', 'x@a.b.local',
                'x@1.0.0.127.in-addr.arpa', 'x@0.ip6.arpa', 'A <a@foo.example>', 'x@y@example.com', 'x@example.com@real.org', 'x@.test', 'x@..local']
ADDR_DOTLESS = ['a@b', 'user@host', 'root@LOCALHOSTX', 'x@local', 'x@in-addr', 'x@arpa', 'x@ip6', 'x@examplecom', 'x@testx', 'x@', '@', '@x', 'a@b@c']
ADDR_NONE = ['', 'Jan Kowalski', 'not an address', '<>', 'Jan <>', 'jan(at)kowalski.pl', 'foo.org', ';', ',', 'a b c', '<', '"', '(', 'x <y',
             '=?utf-8?q?x?=', 'Jan <jan kowalski.pl>', '(' * 1000, '(' * 700 + 'a@b.c', 'a@b.c ' + '(' * 600 + ')' * 600, '(' * 40 + 'x' + ')' * 40 + ' <a@b.c>']
URLS = ['https://bugs.foo.org/', 'http://foo.org/bugs?x=1', 'mailto:bugs@foo.org', 'ftp://x', 'x:', 'a+b-c.d:rest', 'HTTP://FOO', 'http://[foo', 'http://[::1]/',
        'http://[::1', 'https://[v1.x]/', '//foo.org/', '/bugs', 'foo.org/bugs', 'www.foo.org', ':x', '1http://x', 'h ttp://x', 'http//x', 'ht_tp://x',
        'https://foo.org/@x', 'https://x@y/', 'git+ssh://x', 'urn:isbn:1', 'javascript:alert(1)', 'http://]', 'http://[', 'x://[', 'a://b]c', 'a://[b]c[', 'http://[foo]bar/']
ADDR_BOILER = ['EMAIL@ADDRESS', 'FULL NAME <EMAIL@ADDRESS>', 'LANGUAGE <LL@li.org>', 'LL@li.org', 'LANGUAGE <EMAIL@ADDRESS>', 'Polish <pl@li.org>',
               'email@address', 'EMAIL@ADDRESSX', 'XEMAIL@ADDRESS', 'll@li.org', 'LL@LI.ORG', '<EMAIL@ADDRESS>', 'EMAIL@ADDRESS (FULL NAME)']

VALUES = {
    'Project-Id-Version': {
        'good': ['Gizmo Enhancer 1.0', 'i18nspector 0.27', 'hello-2.10', 'łódź 3', 'x1', 'a 0', 'PACKAGE VERSION 1', 'package version1'],
        'boiler': ['PACKAGE VERSION', 'PROJECT VERSION'],
        'bad': ['', 'gizmo', '1.0', '_', '___ 1', '٣', 'foo ٣', '½', '1½', '-', 'PACKAGE VERSIO', 'package version', 'PACKAGE  VERSION', 'PROJECT', 'VERSION',
                '12_34', 'ⅷ', '²', '2²', 'é', '\u0660\u0661', '١ a', '__', '9', ' ', 'PACKAGE VERSION '],
    },
    'Report-Msgid-Bugs-To': {
        'good': ADDR_GOOD + [u for u in URLS if ':' in u],
        'boiler': ['EMAIL@ADDRESS', 'Foo <EMAIL@ADDRESS>', 'FULL NAME <EMAIL@ADDRESS>'],
        'bad': [''] + ADDR_SPECIAL + ADDR_DOTLESS + ADDR_NONE + URLS + ADDR_BOILER,
    },
    'Last-Translator': {
        'good': ADDR_GOOD,
        'boiler': ['FULL NAME <EMAIL@ADDRESS>', 'EMAIL@ADDRESS'],
        'bad': [''] + ADDR_SPECIAL + ADDR_DOTLESS + ADDR_NONE + URLS[:8] + ADDR_BOILER,
    },
    'Language-Team': {
        'good': ['Polish <pl@lists.foo.org>', 'Polish', 'https://l10n.foo.org/pl/', 'none', 'Polish <translation-team-pl@lists.sourceforge.net>'] + ADDR_GOOD,
        'boiler': ['LANGUAGE <LL@li.org>', 'LANGUAGE <EMAIL@ADDRESS>', 'LL@li.org', 'EMAIL@ADDRESS'],
        'bad': [''] + ADDR_SPECIAL + ADDR_DOTLESS + ADDR_NONE + ADDR_BOILER,
    },
    'MIME-Version': {
        'good': ['1.0'],
        'boiler': [],
        'bad': ['', '1', '1.00', '1.0.', '1,0', '01.0', '1.1', '2.0', '1.0 (produced by x)', '1 .0', '1.O', '１.０', '1.0\t1.0', '"1.0"',
                '1.0\r', '1.0\x0c', '1.0\u00a0', '\x0b1.0', '1.0\x1f', '\u20031.0', '1.0\x85'],
    },
    'Content-Transfer-Encoding': {
        'good': ['8bit'],
        'boiler': ['ENCODING'],
        'bad': ['', '8BIT', '8Bit', '7bit', '8 bit', '8bits', 'binary', 'base64', 'quoted-printable', '８bit', '8bit;', '"8bit"',
                '8bit\r', '8bit\x0c', '8bit\u00a0', '\x0b8bit', '8bit\x1f', '\u20038bit'],
    },
    'Content-Type': {
        'good': ['text/plain; charset=UTF-8', 'text/plain; charset=ISO-8859-2', 'text/plain; charset=utf-8', 'text/plain; charset=KOI8-R',
                 'text/plain; charset=ASCII', 'text/plain; charset=ISO-8859-15', 'text/plain; charset=CP1250', 'text/plain; charset=EUC-JP'],
        'boiler': ['text/plain; charset=CHARSET', 'charset=CHARSET', 'text/plain;charset=CHARSET', 'text/plain; charset=charset', 'text/plain; charset=CHARSETS'],
        'bad': ['', 'text/plain', 'text/plain;', 'text/plain; charset=', 'text/plain;charset=UTF-8', 'text/plain;  charset=UTF-8', 'text/plain ; charset=UTF-8',
                'charset=UTF-8', 'charset=utf-8;', 'text/plain; charset=utf-8;', 'text/plain; charset=UTF-8; format=flowed', 'text/plain; charset="UTF-8"',
                'Text/Plain; charset=UTF-8', 'text/html; charset=UTF-8', 'text/plain; Charset=UTF-8', 'text/plain; xcharset=UTF-8', 'text/plain; x-charset=UTF-8',
                'text/plain; _charset=UTF-8', 'text/plain; charset=UTF 8', 'text/plain; charset=UTF-8 x', 'text/plain; charset=foobar', 'text/plain; charset=UTF-7',
                'text/plain; charset=UTF-16', 'text/plain; charset=KOI8-RU', 'text/plain; charset=ISO_8859-2', 'text/plain; charset=latin2', 'text/plain; charset=utf8',
                'text/plain; charset=windows-1250', 'text/plain; charset=cp1250', 'text/plain; charset=idna', 'text/plain; charset=rot13', 'text/plain; charset=hex',
                'text/plain; charset=UTF-8\u00a0', 'text/plain; charset=UTF\u2003-8', 'text/plain; charset=ąę', 'application/x-publican; charset=UTF-8',
                'text/plain; charset=charset=UTF-8', 'charset=a charset=UTF-8', 'text/plain; charset=a b; charset=UTF-8', 'text/plain; text/plain; charset=UTF-8',
                'xtext/plain; charset=UTF-8', ' text/plain; charset=UTF-8', 'text/plain; charset=CHARSET;', 'text/plain; charset=EBCDIC-US', 'text/plain; charset=cp037',
                'text/plain; charset=ISO-8859-16', 'text/plain; charset=EUC-TW', 'text/plain; charset=TIS-620', 'text/plain; charset=GEORGIAN-PS', 'text/plain; charset=KOI8-T',
                'text/plain; charset=\x1b', 'text/plain; charset=U\x0bT', 'éćharset=UTF-8', '.charset=UTF-8', '-charset=UTF-8', '9charset=UTF-8', 'charset=UTF-8\n'],
    },
    'POT-Creation-Date': {
        'good': ['2012-11-01 14:42+0100', '2020-02-29 23:59-0330'],
        'boiler': ['YEAR-MO-DA HO:MI+ZONE'],
        'bad': ['', '2012-11-01 14:42', '2012-13-01 14:42+0100', '1990-01-01 00:00+0000', '2999-01-01 00:00+0000', '2012-11-01 14:42 CET', '2012-11-01T14:42:00+01:00',
                '2012-11-01 14:42 EST', '2012-11-01  14:42+0100', '2012-11-01T14:42'],
    },
    'Language': {
        'good': ['pl', 'de', 'pt_BR', 'sr@latin'],
        'boiler': [''],
        'bad': ['pl_PL', 'pol', 'Polish', 'xx', 'pl_PL.UTF-8', 'en_US', 'ru', 'ka', 'vi'],
    },
    'Plural-Forms': {
        'good': ['nplurals=3; plural=n==1 ? 0 : n%10>=2 && n%10<=4 && (n%100<10 || n%100>=20) ? 1 : 2;', 'nplurals=2; plural=n != 1;'],
        'boiler': ['nplurals=INTEGER; plural=EXPRESSION;'],
        'bad': ['', 'nplurals=2; plural=n/0;', 'nplurals=2 plural=n'],
    },
}
VALUES['PO-Revision-Date'] = VALUES['POT-Creation-Date']

EXTRA_NAMES = ['X-Generator', 'x-generator', 'X-', 'x-', 'X', 'x', 'X_Foo', 'X-Poedit-Language', 'X-Poedit-Country', 'X-Poedit-Basepath', 'Generated-By',
               'generated-by', 'Generated-by', 'GENERATED-BY', 'Foo', 'Bar-Baz', 'Language-Teem', 'Langauge', 'language', 'LANGUAGE', 'Content-type', 'content-type',
               'Mime-Version', 'MIME-version', 'Project-ID-Version', 'Project-Id-Versio', 'Project-Id-Versions', 'Plural-forms', 'PluralForms', 'Report-Msgid-Bugs-to',
               'Report-MsgId-Bugs-To', 'Last-Translater', 'Last-Translators', 'PO-Revision-date', 'POT-Creation-Date ', 'PO-Creation-Date', 'Content-Transfer-Encodin',
               'Content-Transfer-encoding', 'Xx-Foo', '-X-Foo', 'X-ą', '!', '~', 'a;b', '0', 'X-\x7f']

STRAYS = ['stray line', '', ' ', '\t', ': novalue', ' : x', 'Bad Field: x', 'Zażółć: x', 'A\x7f: x', 'a b:c', 'no colon here', '#-#-#-#-#  x.po  #-#-#-#-#',
          '#-#-#-#-#  a  #-#-#-#-#', '#-#-#-#-#    #-#-#-#-#', '#-#-#-#-#   #-#-#-#-#', '#-#-#-#-#  #-#-#-#-#', '#-#-#-#-#  x.po  #-#-#-#-# ', ' #-#-#-#-#  x.po  #-#-#-#-#',
          '#-#-#-#-#  x.po (foo 1.0)  #-#-#-#-#', '#-#-#-#-# x.po #-#-#-#-#', '#-#-#-#-#  x.po  #-#-#-#-#:', '#-#-#-#-#  \r  #-#-#-#-#', 'x\x7f', '\x0c', 'a\rb', 'ä:ö', 'A\u00a0B: c']

UNUSUAL = ['\x00', '\x07', '\x08', '\x0b', '\x0c', '\x0e', '\x1a', '\x1b', '\x1b[', '\x1b[0m', '\x1c', '\x1f', '\x7f', '\x80', '\x85', '\x9f', '\ufeff', '\ufffd', '\ufffe',
           '\uffff', '¿', 'a¿', ' ¿', '_¿', '9¿', 'é¿', '\x1b\x1b[', '\t', '\r', '\xa0', '\U0001F600']

FLAGS = ['fuzzy', 'Fuzzy', 'FUZZY', 'fuzy', 'fuzzzy', 'fuzz', 'fuzzyy', 'uzzy', 'fuzzi', 'fuzzy ', 'c-format', 'no-c-format', 'python-format', 'range: 1..2', 'no-wrap', 'wrap',
         'ＦＵＺＺＹ', 'fuZZy', 'fuz', 'buzzy', 'fuzzy-format', '', 'ſuzzy', 'FUZZ\u0130', 'x']

COMMENT_LINES = [
    'SOME DESCRIPTIVE TITLE.', 'Copyright (C) YEAR THE PACKAGE\'S COPYRIGHT HOLDER', 'This file is distributed under the same license as the PACKAGE package.',
    'FIRST AUTHOR <EMAIL@ADDRESS>, YEAR.', '', 'Polish translation of gizmo', 'Copyright (C) 2012 Jakub Wilk', 'Jakub Wilk <jwilk@jwilk.net>, 2012.',
    'Copyright © YEAR Foo', 'Copyright  YEAR', 'Copyright YEAR', 'Copyright x YEARS', 'Copyright x YEAR_', 'Copyright x YEAR.', 'xCopyright x YEAR', 'Copyright x y YEAR',
    'Copyright\tx YEAR', 'Copyright x\u00a0YEAR', 'Copyright x  YEAR', 'Copyright  x YEAR', 'Copyright a YEAR b YEAR', 'Copyright a b YEAR Copyright c YEAR',
    'the PACKAGE package', 'PACKAGE packages', 'XPACKAGE package', 'PACKAGE package.', '_PACKAGE package', 'PACKAGE  package', 'package PACKAGE package',
    "THE PACKAGE'S COPYRIGHT HOLDER", "THE PACKAGE'S COPYRIGHT HOLDERS", "BY THE PACKAGE'S COPYRIGHT HOLDER.", "éTHE PACKAGE'S COPYRIGHT HOLDER",
    'FIRST AUTHOR', 'FIRST AUTHORS', 'MY FIRST AUTHOR', 'MYFIRST AUTHOR', 'FIRST AUTHOR9', 'FIRST AUTHOR-', '<EMAIL@ADDRESS>', 'EMAIL@ADDRESS', '<EMAIL@ADDRESS', 'x<EMAIL@ADDRESS>y',
    '>, YEAR', '>, YEAR.', '>, YEARS', ', YEAR', 'x>, YEAR', '> , YEAR', '>,YEAR', 'Jan <j@k.pl>, YEAR.', 'Jan <j@k.pl>, YEAR2', '>, YEAR\u00e9', '>>, YEAR',
]

ALPHABET = list('abzAZ019 .;:@<>=-_/"()[]\\\t') + ['é', 'ł', '\u00a0', '\u2003', 'İ', '\u212a', '٣', '\x1b', '\x7f', '\x85', '\u2028']

def mutate(rng, s):
    """one or two random edits"""
    for _ in range(rng.choice([1, 1, 2])):
        op = rng.random()
        i = rng.randrange(len(s) + 1)
        if op < 0.35 and s:
            i = min(i, len(s) - 1)
            s = s[:i] + s[i + 1:]
        elif op < 0.7:
            s = s[:i] + rng.choice(ALPHABET) + s[i:]
        elif op < 0.85 and s:
            i = min(i, len(s) - 1)
            s = s[:i] + s[i].swapcase() + s[i + 1:]
        elif s:
            i = min(i, len(s) - 1)
            s = s[:i] + rng.choice(ALPHABET) + s[i + 1:]
    return s

def field_value(rng, name):
    v = VALUES.get(name)
    if v is None:
        return rng.choice(['x', '', 'vi', 'Polish', 'POLAND', '1', 'a b'])
    r = rng.random()
    if r < 0.3 and v['good']:
        return rng.choice(v['good'])
    if r < 0.45 and v['boiler']:
        return rng.choice(v['boiler'])
    if r < 0.85 and v['bad']:
        return rng.choice(v['bad'])
    pool = v['good'] + v['boiler'] + v['bad']
    return mutate(rng, rng.choice(pool))

def clean_value(name):
    return dict(CLEAN)[name]

def header_lines(rng, profile=None):
    """a list of header lines (without `\\n`): any subset, multiplicity and order of fields, stray lines, extra fields"""
    profile = profile or rng.choice(['clean', 'one', 'one', 'few', 'few', 'wild', 'dup', 'sparse'])
    fields = [[k, v] for k, v in CLEAN]
    if profile == 'clean':
        pass
    elif profile in ('one', 'few'):
        for _ in range(1 if profile == 'one' else rng.randint(2, 4)):
            op = rng.random()
            if op < 0.5:
                f = rng.choice(fields)
                if f[0] is not None:
                    f[1] = field_value(rng, f[0])
            elif op < 0.65:
                fields.pop(rng.randrange(len(fields)))
                if not fields:
                    fields = [list(CLEAN[0])]
            elif op < 0.78:
                f = rng.choice(fields)
                if f[0] is not None:
                    fields.insert(rng.randrange(len(fields) + 1), [f[0], field_value(rng, f[0]) if rng.random() < 0.6 else f[1]])
            elif op < 0.9:
                fields.insert(rng.randrange(len(fields) + 1), [rng.choice(EXTRA_NAMES), field_value(rng, 'X')])
            else:
                fields.insert(rng.randrange(len(fields) + 1), [None, rng.choice(STRAYS)])
    elif profile == 'dup':
        for _ in range(rng.randint(1, 4)):
            name = rng.choice(FIELDS + EXTRA_NAMES[:12])
            vals = [field_value(rng, name) for _ in range(rng.randint(1, 2))]
            for _ in range(rng.randint(2, 4)):
                fields.insert(rng.randrange(len(fields) + 1), [name, rng.choice(vals)])
    elif profile == 'sparse':
        fields = [f for f in fields if rng.random() < 0.4]
        for f in fields:
            if rng.random() < 0.4:
                f[1] = field_value(rng, f[0])
    else:
        fields = []
        for _ in range(rng.randint(0, 14)):
            r = rng.random()
            if r < 0.7:
                name = rng.choice(FIELDS)
                fields.append([name, field_value(rng, name)])
            elif r < 0.85:
                fields.append([rng.choice(EXTRA_NAMES), field_value(rng, 'X')])
            else:
                fields.append([None, rng.choice(STRAYS)])
        rng.shuffle(fields)
    if rng.random() < 0.08:
        trs = [f[1] for f in fields if f[0] == 'Last-Translator']
        teams = [f for f in fields if f[0] == 'Language-Team']
        if trs and teams:
            tr = rng.choice(trs)
            import email.utils
            try:
                addr = email.utils.parseaddr(tr)[1]
            except RecursionError:
                addr = ''
            rng.choice(teams)[1] = rng.choice([tr, addr, 'Team <' + addr + '>', addr.upper(), tr + ' '])
            if rng.random() < 0.4:
                fields.append(['Last-Translator', rng.choice(['Other <' + addr + '>', 'Zed <' + addr + '>', tr])])
    lines = []
    for k, v in fields:
        if k is None:
            lines.append(v)
        else:
            sep = rng.choice([': ', ': ', ': ', ':', ':  ', ':\t', ': \t '])
            tail = rng.choice(['', '', '', '', '', ' ', '\t', ' \t ', '\r', '\x0c', '\u00a0'] if rng.random() < 0.25 else [''])
            lines.append(k + sep + v.replace('\n', ' ') + tail)
    if rng.random() < 0.06:
        i = rng.randrange(len(lines) + 1)
        lines.insert(i, rng.choice(['x', 'Foo: ']) + rng.choice(UNUSUAL) + rng.choice(['', 'y', '[']))
    return lines

def header_text(rng, profile=None):
    lines = header_lines(rng, profile)
    text = '\n'.join(lines)
    r = rng.random()
    if lines and r < 0.85:
        text += '\n'
    elif r < 0.9:
        text += '\n\n'
    return text

def single_field_header(name, value, others=True):
    """the clean header with field `name` set to `value` (None = dropped)"""
    out = []
    for k, v in CLEAN:
        if k == name:
            if value is not None:
                out.append(f'{k}: {value}')
        elif others:
            out.append(f'{k}: {v}')
    return '\n'.join(out) + '\n'

def entry(msgid='', msgctxt=None, obsolete=False, occurrences=(), plural=None, msgstr='', msgstr0=None, flags=()):
    return {'msgid': msgid, 'msgctxt': msgctxt, 'obsolete': bool(obsolete), 'occurrences': [tuple(o) for o in occurrences], 'plural': plural,
            'msgstr': msgstr, 'msgstr0': msgstr0, 'flags': list(flags)}

def entries(rng, text, profile=None):
    """a list of entries containing (usually) one header entry whose msgstr is `text`"""
    profile = profile or rng.choice(['plain'] * 6 + ['flags', 'flags', 'distant', 'dup', 'obsolete', 'ctxt', 'refs', 'plural', 'none', 'wild'])
    other = lambda i: entry(msgid=f'm{i}', msgstr=f't{i}', flags=rng.choice([[], ['fuzzy'], ['c-format']]))
    hdr = entry(msgstr=text)
    es = [hdr]
    if profile == 'flags' or (profile == 'wild' and rng.random() < 0.5):
        hdr['flags'] = [rng.choice(FLAGS) for _ in range(rng.randint(1, 4))]
        if rng.random() < 0.4:
            hdr['flags'].append(rng.choice(hdr['flags']))
    if profile == 'distant' or (profile == 'wild' and rng.random() < 0.3):
        es = [other(i) for i in range(rng.randint(1, 2))] + es
    if profile == 'dup' or (profile == 'wild' and rng.random() < 0.3):
        es = es + [other(7)] * rng.randint(0, 1) + [entry(msgstr=header_text(rng, 'sparse'), flags=rng.choice([[], ['fuzzy']]))] * rng.randint(1, 2)
    if profile == 'obsolete' or (profile == 'wild' and rng.random() < 0.3):
        ob = entry(msgstr=header_text(rng, 'sparse'), obsolete=True)
        es = ([ob] + es) if rng.random() < 0.5 else (es + [ob])
    if profile == 'ctxt' or (profile == 'wild' and rng.random() < 0.3):
        cx = entry(msgctxt=rng.choice(['', 'menu']), msgstr='Foo: bar\n')
        es = ([cx] + es) if rng.random() < 0.5 else (es + [cx])
    if profile == 'refs' or (profile == 'wild' and rng.random() < 0.3):
        hdr['occurrences'] = [(rng.choice(['a.c', 'src/b.py', 'x y', '']), rng.choice(['1', '22', ''])) for _ in range(rng.randint(1, 3))]
    if profile == 'plural' or (profile == 'wild' and rng.random() < 0.3):
        hdr['plural'] = rng.choice(['', 'xs'])
        r = rng.random()
        if r < 0.6:
            hdr['msgstr0'] = text
            hdr['msgstr'] = rng.choice(['', 'Foo: other\n'])
        elif r < 0.8:
            hdr['msgstr0'] = ''
    if profile == 'none':
        es = [other(i) for i in range(rng.randint(0, 2))]
    if profile == 'wild' and rng.random() < 0.3:
        es.append(other(9))
    return es

def comments(rng):
    r = rng.random()
    if r < 0.3:
        return ''
    n = rng.randint(1, 5)
    lines = [rng.choice(COMMENT_LINES) if rng.random() < 0.85 else mutate(rng, rng.choice(COMMENT_LINES)) for _ in range(n)]
    sep = '\n'
    if rng.random() < 0.08:
        sep = rng.choice(['\r\n', '\r', '\x0b', '\x0c', '\x1c', '\x1d', '\x1e', '\x85', '\u2028', '\u2029', '\n\r', '\n\n'])
    text = sep.join(lines)
    if rng.random() < 0.2:
        text += rng.choice(['\n', '\r\n', '\r'])
    return text

def case(rng, profile=None):
    """one file-level case: kind, initial comments, entries, language of the context"""
    text = header_text(rng, profile)
    return {'kind': rng.choice(KINDS), 'comments': comments(rng), 'entries': entries(rng, text),
            'language': rng.choice([None, None, 'pl', 'de', 'ru', 'ka', 'vi', 'pt_BR', 'sr@latin', 'tg', 'xx'])}

def fixed_cases():
    """deterministic cases every run includes: the clean header × kinds, every field × every listed value × kinds"""
    out = []
    clean = ''.join(f'{k}: {v}\n' for k, v in CLEAN)
    for kind in KINDS:
        out.append({'kind': kind, 'comments': '', 'entries': [entry(msgstr=clean)], 'language': 'pl'})
        out.append({'kind': kind, 'comments': 'Polish translation\nCopyright (C) 2012 Jakub Wilk\n', 'entries': [entry(msgstr=clean)], 'language': None})
        out.append({'kind': kind, 'comments': '\n'.join(COMMENT_LINES), 'entries': [entry(msgstr=clean, flags=['fuzzy'])], 'language': None})
        out.append({'kind': kind, 'comments': '', 'entries': [], 'language': None})
        out.append({'kind': kind, 'comments': '', 'entries': [entry(msgstr='')], 'language': None})
        for name in VALUES:
            out.append({'kind': kind, 'comments': '', 'entries': [entry(msgstr=single_field_header(name, None))], 'language': 'pl'})
            for cls in ('good', 'boiler', 'bad'):
                for v in VALUES[name][cls]:
                    if '\n' in v:
                        continue
                    out.append({'kind': kind, 'comments': '', 'entries': [entry(msgstr=single_field_header(name, v))], 'language': 'pl'})
            for v in VALUES[name]['good'][:2] + VALUES[name]['boiler'][:1] + VALUES[name]['bad'][:3]:
                two = single_field_header(name, v) + f'{name}: {v}\n'
                out.append({'kind': kind, 'comments': '', 'entries': [entry(msgstr=two)], 'language': None})
                other = (VALUES[name]['bad'] + VALUES[name]['good'])[1]
                out.append({'kind': kind, 'comments': '', 'entries': [entry(msgstr=two + f'{name}: {other}\n{name}: {v}\n')], 'language': None})
        for n in EXTRA_NAMES:
            out.append({'kind': kind, 'comments': '', 'entries': [entry(msgstr=clean + f'{n}: x\n')], 'language': None})
            out.append({'kind': kind, 'comments': '', 'entries': [entry(msgstr=clean + f'{n}: x\n{n}: y\n')], 'language': None})
        for s in STRAYS:
            out.append({'kind': kind, 'comments': '', 'entries': [entry(msgstr=clean + s + '\n' + s + '\nstray\n')], 'language': None})
        for f in FLAGS:
            out.append({'kind': kind, 'comments': '', 'entries': [entry(msgstr=clean, flags=[f, 'fuzzy', f])], 'language': None})
        for u in UNUSUAL:
            out.append({'kind': kind, 'comments': '', 'entries': [entry(msgstr=clean + 'X-Foo: a' + u + 'b' + u + '\n')], 'language': None})
    return out
