"""Generators of PO/POT/MO files for the end-to-end streams (C01, C03, C17)."""
import glob, os, random

GOOD_HEADER = [
    ('Project-Id-Version', 'Gizmo Enhancer 1.0'),
    ('Report-Msgid-Bugs-To', 'gizmoenhancer@jwilk.net'),
    ('POT-Creation-Date', '2012-11-01 14:42+0100'),
    ('PO-Revision-Date', '2012-11-01 14:42+0100'),
    ('Last-Translator', 'Jakub Wilk <jwilk@jwilk.net>'),
    ('Language-Team', 'Polish <pl@li.org.example>'),
    ('Language', 'pl'),
    ('MIME-Version', '1.0'),
    ('Content-Type', 'text/plain; charset=UTF-8'),
    ('Content-Transfer-Encoding', '8bit'),
    ('Plural-Forms', 'nplurals=3; plural=n==1 ? 0 : n%10>=2 && n%10<=4 && (n%100<10 || n%100>=20) ? 1 : 2;'),
]

FIELD_VARIANTS = {
    'Project-Id-Version': ['PACKAGE VERSION', 'gizmo', '1.0', '', 'Gizmo 2'],
    'Report-Msgid-Bugs-To': ['', 'EMAIL@ADDRESS', 'https://example.org/bugs', 'nobody@localhost', 'x@example.com', 'not an address'],
    'POT-Creation-Date': ['YEAR-MO-DA HO:MI+ZONE', '2012-11-01 14:42', '2012-13-01 14:42+0100', '1990-01-01 00:00+0000', '2999-01-01 00:00+0000', '2012-11-01 14:42 CET', '2012-11-01T14:42:00+01:00'],
    'PO-Revision-Date': ['YEAR-MO-DA HO:MI+ZONE', '2012-11-01 14:42+0100', '2012-02-30 14:42+0100', '2012-11-01 25:42+0100', '2012-11-01 14:42 EST'],
    'Last-Translator': ['FULL NAME <EMAIL@ADDRESS>', 'A <a@b>', 'A', 'A <a@example.net>'],
    'Language-Team': ['LANGUAGE <LL@li.org>', 'Polish <pl@li.org>', 'Jakub Wilk <jwilk@jwilk.net>', 'Polish'],
    'Language': ['pl', 'pl_PL', 'pol', 'Polish', 'de', 'xx', 'pl_PL.UTF-8', 'sr@latin', 'en_US', 'pl\x1b[31m'],
    'MIME-Version': ['1.0', '1.1', ''],
    'Content-Type': ['text/plain; charset=UTF-8', 'text/plain; charset=ISO-8859-2', 'text/plain; charset=CHARSET', 'text/plain; charset=UTF-7',
                     'text/plain; charset=KOI8-RU', 'text/plain; charset=foobar', 'charset=UTF-8', 'text/html; charset=UTF-8', 'text/plain; charset=ascii'],
    'Content-Transfer-Encoding': ['8bit', '7bit', 'ENCODING'],
    'Plural-Forms': ['nplurals=2; plural=n != 1;', 'nplurals=INTEGER; plural=EXPRESSION;', 'nplurals=2; plural=n/0;', 'nplurals=3; plural=n%3;', 'nplurals=2; plural=n>1',
                     'nplurals=1; plural=0;', 'nplurals=3; plural=n%2*2;', 'nplurals=2 plural=n', 'nplurals=2; plural=n%5;'],
}
EXTRA_FIELDS = [('X-Generator', 'vi'), ('X-Poedit-Language', 'Polish'), ('X-Poedit-Country', 'POLAND'), ('Generated-By', 'hand'), ('Foo', 'bar'), ('X-Foo', '\x1b[1m')]

MSGS = [
    # (flags, msgid, msgid_plural, [msgstr…])
    ([], 'A quick brown fox', None, ['Szybki brązowy lis']),
    ([], 'Hello\n', None, ['Cześć']),
    ([], 'tab\there', None, ['tab\ttam\n']),
    (['c-format'], 'Copy %d files to %s', None, ['Kopiuj %d plików do %s']),
    (['c-format'], 'Copy %d files to %s', None, ['Kopiuj %s plików do %d']),
    (['c-format'], '%1$s and %2$s', None, ['%2$s i %1$s']),
    (['c-format'], '%s %s', None, ['%s']),
    (['c-format'], '100%', None, ['100%']),
    (['c-format'], '%d file', '%d files', ['%d plik', '%d pliki', '%d plików']),
    (['c-format'], 'one file', '%d files', ['jeden plik', '%d pliki', '%d plików']),
    (['python-format'], '%(a)s and %(b)d', None, ['%(b)d i %(a)s']),
    (['python-format'], '%(a)s', None, ['%(a)d %(b)s']),
    (['python-format'], '%s of %s', None, ['%s z %s']),
    (['python-brace-format'], '{0} and {1}', None, ['{1} i {0}']),
    (['python-brace-format'], '{0:n}', None, ['{0:s}']),
    (['python-brace-format'], '{0:d} {name}', None, ['{name} {0:f}']),
    (['python-brace-format'], '{a} {b} {c}', None, ['{c}']),
    (['perl-brace-format'], '{foo} and {bar}', None, ['{bar} i {baz}']),
    (['fuzzy'], 'fuzzy one', None, ['rozmyty']),
    (['fuzzy', 'c-format'], '%d', None, ['%s']),
    (['no-wrap', 'wrap'], 'wrapped', None, ['zawinięty']),
    (['range: 0..5', 'c-format'], '%d thing', '%d things', ['%d rzecz', '%d rzeczy', '%d rzeczy']),
    (['range: 5..1'], 'x', 'xs', ['a', 'b', 'c']),
    (['unknown-flag', 'c-format', 'c-format'], 'dup %s', None, ['dup %s']),
    ([], 'plural untranslated', 'plurals untranslated', ['', '', '']),
    ([], 'partial', 'partials', ['a', '', '']),
    ([], 'two forms', 'two formss', ['a', 'b']),
    ([], '<<<<<<< HEAD', None, ['#-#-#-#-#  a.po  #-#-#-#-#\nx']),
    ([], 'bell', None, ['dzwon\x07ek']),
    ([], 'esc', None, ['\x1b[31mred\x1b[0m']),
    ([], 'nbsp ¿', None, ['a¿b ﻿ �']),
    ([], '', None, ['stray header?']),
]
CONTEXTS = [None, None, None, 'menu', 'ctx\x1b', 'ą']

def po_escape(s):
    out = ''
    for ch in s:
        if ch == '\\': out += '\\\\'
        elif ch == '"': out += '\\"'
        elif ch == '\n': out += '\\n'
        elif ch == '\t': out += '\\t'
        elif ch == '\r': out += '\\r'
        elif ord(ch) < 32 or ord(ch) == 127: out += '\\%03o' % ord(ch)
        else: out += ch
    return out

def po_string(keyword, s, rng=None):
    if rng is not None and '\n' in s[:-1] and rng.random() < 0.7:
        parts = s.split('\n')
        lines = [p + '\n' for p in parts[:-1]] + ([parts[-1]] if parts[-1] else [])
        return keyword + ' ""\n' + ''.join('"%s"\n' % po_escape(l) for l in lines)
    return '%s "%s"\n' % (keyword, po_escape(s))

def gen_header(rng, template=False):
    fields = list(GOOD_HEADER)
    r = rng.random()
    nmut = 0 if r < 0.35 else 1 if r < 0.7 else rng.randint(2, 4)
    for _ in range(nmut):
        op = rng.random()
        if op < 0.55:
            i = rng.randrange(len(fields))
            name = fields[i][0]
            if name in FIELD_VARIANTS:
                fields[i] = (name, rng.choice(FIELD_VARIANTS[name]))
        elif op < 0.7:
            fields.pop(rng.randrange(len(fields)))
        elif op < 0.82:
            fields.insert(rng.randrange(len(fields) + 1), rng.choice(fields))
        elif op < 0.92:
            fields.insert(rng.randrange(len(fields) + 1), rng.choice(EXTRA_FIELDS))
        else:
            fields.insert(rng.randrange(len(fields) + 1), (None, rng.choice(['stray line', '#-#-#-#-#  x.po  #-#-#-#-#', ': novalue', 'Bad Field: x'])))
    if template and rng.random() < 0.7:
        fields = [(k, {'PO-Revision-Date': 'YEAR-MO-DA HO:MI+ZONE', 'Last-Translator': 'FULL NAME <EMAIL@ADDRESS>',
                       'Language-Team': 'LANGUAGE <LL@li.org>', 'Language': '', 'Plural-Forms': 'nplurals=INTEGER; plural=EXPRESSION;'}.get(k, v)) for k, v in fields]
    text = ''.join((f'{k}: {v}\n' if k is not None else v + '\n') for k, v in fields)
    return text

def gen_po(rng):
    """-> (text, extension)"""
    template = rng.random() < 0.15
    out = ''
    if rng.random() < 0.2:
        out += rng.choice(['# SOME DESCRIPTIVE TITLE.\n# Copyright (C) YEAR THE PACKAGE\'S COPYRIGHT HOLDER\n# FIRST AUTHOR <EMAIL@ADDRESS>, YEAR.\n#\n',
                           '# Polish translation\n# Copyright (C) 2012 Jakub Wilk\n#\n'])
    hflags = rng.choice([[], [], [], ['fuzzy'], ['fuzzy', 'c-format']])
    if template and rng.random() < 0.5:
        hflags = ['fuzzy']
    if hflags:
        out += '#, ' + ', '.join(hflags) + '\n'
    out += 'msgid ""\n' + po_string('msgstr', gen_header(rng, template), rng) + '\n'
    n = rng.choice([0, 1, 2, 3, 5, 8])
    for _ in range(n):
        flags, msgid, plural, strs = rng.choice(MSGS)
        flags = list(flags)
        ctx = rng.choice(CONTEXTS)
        obsolete = rng.random() < 0.07
        pfx = '#~ ' if obsolete else ''
        if rng.random() < 0.15:
            out += '#. ' + rng.choice(['extracted comment', 'type: Content of: <para>', 'TRANSLATORS: hi']) + '\n'
        if rng.random() < 0.2:
            out += '#: src/a.c:%d\n' % rng.randint(1, 99)
        if flags:
            out += '#, ' + ', '.join(flags) + '\n'
        if rng.random() < 0.08:
            out += '#| msgid "old"\n'
        if ctx is not None:
            out += pfx + po_string('msgctxt', ctx)
        out += pfx + po_string('msgid', msgid, rng)
        if template and rng.random() < 0.8:
            strs = [''] * len(strs)
        if plural is not None:
            out += pfx + po_string('msgid_plural', plural)
            for i, s in enumerate(strs):
                out += pfx + po_string('msgstr[%d]' % i, s)
        else:
            out += pfx + po_string('msgstr', strs[0], rng)
        out += '\n'
    return out, ('.pot' if template else '.po')

def corpus(repo):
    """(name, bytes) of the project's own black-box corpus"""
    res = []
    for path in sorted(glob.glob(os.path.join(repo, 'tests', 'blackbox_tests', '*'))):
        if path.endswith(('.po', '.pot', '.mo', '.gmo')):
            with open(path, 'rb') as f:
                res.append((os.path.basename(path), f.read()))
    return res

def mutate_bytes(rng, b):
    if not b:
        return b'\x00'
    b = bytearray(b)
    for _ in range(rng.choice([1, 1, 2, 4])):
        r = rng.random()
        i = rng.randrange(len(b))
        if r < 0.3:
            b[i] = rng.randrange(256)
        elif r < 0.5:
            del b[i:i + rng.choice([1, 1, 4, 16])]
        elif r < 0.7:
            b[i:i] = bytes(rng.randrange(256) for _ in range(rng.choice([1, 2, 8])))
        elif r < 0.85:
            j = rng.randrange(len(b))
            lo, hi = min(i, j), max(i, j)
            b[lo:lo] = b[lo:min(hi, lo + 64)]
        else:
            tok = rng.choice([b'%', b'{', b'}', b'\\', b'"', b'\n', b'%s', b'%1$', b'{0', b'nplurals=', b'#,', b'msgid', b'\xff', b'\x1b[31m', b'0' * 50])
            b[i:i] = tok
        if not b:
            return b'\n'
    return bytes(b)

def compile_mo(po_path, mo_path):
    """PO → MO with polib (there is no msgfmt here)"""
    import polib
    polib.pofile(po_path).save_as_mofile(mo_path)
