"""Generators for the MO streams: catalogs (byte level), a serializer with a family of legal layouts, corruptions.

A catalog is a list of entries `(ctxt | None, msgid, plural | None, [forms])`, all `bytes` (already encoded in the
charset the header entry names).  `serialize` places header, the two descriptor tables, an optional hash table and the
strings in any order, with padding, shared suffixes and either byte order — the degrees of freedom the MO format leaves.
"""
import struct

LE_MAGIC = b'\xde\x12\x04\x95'
BE_MAGIC = LE_MAGIC[::-1]

# ----------------------------------------------------------------------------- catalogs

COMPAT = ['ASCII', 'UTF-8', 'ISO-8859-1', 'ISO-8859-2', 'KOI8-R', 'CP1252', 'ISO-8859-15', 'utf8', 'latin1', 'us-ascii']
NONCOMPAT = ['UTF-16', 'UTF-32', 'cp037', 'UTF-16LE']
UNKNOWN = ['bogus-charset', 'X-UNKNOWN', 'CHARSET', 'no-such-codec']

ALPHABETS = {
    'ASCII': 'abcxyz ABC%s{0}\t<>&;:=-_.,!?\\"\'012',
    'UTF-8': 'abc żółć äöü €→☃ 日本 \U0001f600%d ',
    'ISO-8859-1': 'abc äöüß éèà ¿¡ÿ %s',
    'ISO-8859-2': 'abc żółćęąśźń %s',
    'KOI8-R': 'abc привет мир %s',
    'CP1252': 'abc äöü €‚„ %s',
    'ISO-8859-15': 'abc äöü €Šš %s',
}
CANON = {'utf8': 'UTF-8', 'latin1': 'ISO-8859-1', 'us-ascii': 'ASCII'}

def gen_text(rng, charset, maxlen=12, allow_empty=True):
    alpha = ALPHABETS.get(CANON.get(charset, charset), ALPHABETS['ASCII'])
    n = rng.randint(0 if allow_empty else 1, maxlen)
    return ''.join(rng.choice(alpha) for _ in range(n))

def encode(text, charset):
    try:
        return text.encode(CANON.get(charset, charset))
    except (UnicodeError, LookupError):
        return text.encode('ASCII', 'replace')

def header_value(rng, charset, style=None):
    """the msgstr of the header entry; `style` varies how (and whether) the charset is named"""
    style = style if style is not None else rng.choice(['std'] * 8 + ['end', 'tab', 'space', 'twice', 'upper', 'none', 'first', 'semi'])
    pre = 'Project-Id-Version: x 1\nMIME-Version: 1.0\n'
    post = 'Content-Transfer-Encoding: 8bit\n'
    if charset is None or style == 'none':
        return (pre + 'Content-Type: text/plain\n' + post).encode()
    if style == 'std':
        s = pre + f'Content-Type: text/plain; charset={charset}\n' + post
    elif style == 'end':
        s = pre + f'Content-Type: text/plain; charset={charset}'
    elif style == 'tab':
        s = pre + f'Content-Type: text/plain; charset={charset}\tx\n' + post
    elif style == 'space':       # 'charset=' followed by a delimiter does not match; the later one does
        s = pre + f'X-Note: charset= none\nContent-Type: text/plain; charset={charset}\n' + post
    elif style == 'twice':       # leftmost wins
        s = pre + f'Content-Type: text/plain; charset={charset}\nX-Other: charset=UTF-16\n' + post
    elif style == 'upper':       # case-sensitive: no match
        s = pre + f'Content-Type: text/plain; Charset={charset}\n' + post
    elif style == 'first':
        s = f'charset={charset}\n' + pre
    elif style == 'semi':
        s = pre + f'Content-Type: text/plain; charset={charset}; format=flowed\n' + post
    return s.encode('ASCII', 'replace')

def effective_charset(charset, style):
    """which codec a gettext-conforming reader uses for a header built by `header_value` (None = ASCII fallback)"""
    if charset is None or style in ('none', 'upper'):
        return None
    if style == 'semi':
        return charset + ';'
    return charset

def gen_catalog(rng, charset=None, n=None, with_header=True, contexts=True, sort=True, bad_bytes=0.0):
    """→ (entries, text_charset) ; entries sorted by key like msgfmt does (unless sort=False)"""
    text_cs = charset if charset in ALPHABETS or charset in CANON else 'ASCII'
    n = rng.randint(0, 6) if n is None else n
    ents = {}
    for _ in range(n):
        ctxt = encode(gen_text(rng, text_cs, 6), text_cs).replace(b'\x04', b'') if contexts and rng.random() < 0.3 else None
        msgid = encode(gen_text(rng, text_cs, 10, allow_empty=ctxt is not None), text_cs)
        if ctxt is None:
            msgid = msgid.replace(b'\x04', b'')
            if not msgid:
                msgid = b'x'
        if rng.random() < 0.3:
            plural = encode(gen_text(rng, text_cs, 10), text_cs)
            forms = [encode(gen_text(rng, text_cs, 10), text_cs) for _ in range(rng.randint(1, 4))]
        else:
            plural = None
            forms = [encode(gen_text(rng, text_cs, 14), text_cs)]
        if bad_bytes and rng.random() < bad_bytes:
            forms[-1] += bytes([rng.choice([0x80, 0xff, 0xc3, 0x81, 0xa4])])
        key0 = msgid if ctxt is None else ctxt + b'\x04' + msgid
        ents[key0] = (ctxt, msgid, plural, forms)
    out = [ents[k] for k in (sorted(ents) if sort else ents)]
    return out, text_cs

def key_of(e):
    ctxt, msgid, plural, _forms = e
    k = msgid if ctxt is None else ctxt + b'\x04' + msgid
    return k if plural is None else k + b'\0' + plural

def value_of(e):
    return b'\0'.join(e[3])

# ----------------------------------------------------------------------------- layouts

def gen_layout(rng, simple=False):
    if simple:
        return dict(be=rng.random() < 0.5, major=0, minor=0, nsysdep=0, hash=0, order='ktp', pad=0, share=False, pool='kv', gap=0)
    return dict(
        be=rng.random() < 0.5,
        major=rng.choice([0, 0, 0, 1]),
        minor=rng.choice([0, 0, 0, 1, 1]),
        nsysdep=0,
        hash=rng.choice([0, 0, 3, 7]),                 # number of hash-table words
        order=rng.choice(['ktp', 'tkp', 'pkt', 'kpt', 'ptk', 'tpk', 'hktp', 'kthp', 'pkth']),   # k/t tables, p pool, h hash
        pad=rng.choice([0, 0, 1, 3, 4]),               # junk bytes before each string
        share=rng.random() < 0.4,                      # a string that is a suffix of one already placed points into it
        pool=rng.choice(['kv', 'vk', 'mix', 'rev']),   # order in which the strings are placed
        gap=rng.choice([0, 0, 4, 5]),                  # junk between regions
    )

def serialize(cat, lay, rng=None):
    """→ bytes.  Every layout produced here is a legal MO file for `cat`."""
    n = len(cat)
    end = '>' if lay['be'] else '<'
    keys = [key_of(e) for e in cat]
    vals = [value_of(e) for e in cat]
    hdr_len = 48 if lay['minor'] >= 1 else 28
    # string pool (relative offsets)
    items = [('k', i) for i in range(n)] + [('v', i) for i in range(n)]
    if lay['pool'] == 'vk':
        items = items[n:] + items[:n]
    elif lay['pool'] == 'mix':
        items = [x for i in range(n) for x in (('k', i), ('v', i))]
    elif lay['pool'] == 'rev':
        items = items[::-1]
    pool = bytearray()
    rel = {}
    for kind, i in items:
        s = keys[i] if kind == 'k' else vals[i]
        if lay['share']:
            j = bytes(pool).find(s + b'\0')
            if j >= 0:
                rel[kind, i] = j
                continue
        pool += bytes((0x41 + (len(pool) + t) % 23) for t in range(lay['pad']))
        rel[kind, i] = len(pool)
        pool += s + b'\0'
    sizes = {'k': 8 * n, 't': 8 * n, 'p': len(pool), 'h': 4 * lay['hash']}
    order = lay['order']
    if 'h' not in order:
        order += 'h'
    pos = {}
    cur = hdr_len
    for r in order:
        cur += lay['gap']
        pos[r] = cur
        cur += sizes[r]
    total = cur
    out = bytearray(b'\xaa' * total)
    out[0:4] = BE_MAGIC if lay['be'] else LE_MAGIC
    revision = (lay['major'] << 16) | lay['minor']
    out[4:28] = struct.pack(end + '6I', revision, n, pos['k'], pos['t'], lay['hash'], pos['h'] if lay['hash'] else 0)
    if hdr_len == 48:
        out[28:48] = struct.pack(end + '5I', 0, total, lay['nsysdep'], total, total)
    for i in range(n):
        out[pos['k'] + 8 * i: pos['k'] + 8 * i + 8] = struct.pack(end + '2I', len(keys[i]), pos['p'] + rel['k', i])
        out[pos['t'] + 8 * i: pos['t'] + 8 * i + 8] = struct.pack(end + '2I', len(vals[i]), pos['p'] + rel['v', i])
    out[pos['p']: pos['p'] + len(pool)] = pool
    for w in range(lay['hash']):
        out[pos['h'] + 4 * w: pos['h'] + 4 * w + 4] = struct.pack(end + 'I', (w * 7 + 1) % (n + 1))
    return bytes(out)

# ----------------------------------------------------------------------------- corruptions

def word_positions(data):
    """offsets of every 32-bit header word and descriptor-table word of a well-formed file"""
    if len(data) < 20 or data[:4] not in (LE_MAGIC, BE_MAGIC):
        return []
    end = '<' if data[:4] == LE_MAGIC else '>'
    rev, n, ko, to = struct.unpack(end + '4I', data[4:20])
    hdr = 48 if rev & 0xffff >= 1 and len(data) >= 48 else 28
    pos = list(range(0, min(hdr, len(data) - 3), 4))
    for base in (ko, to):
        for i in range(min(n, 64)):
            for d in (0, 4):
                p = base + 8 * i + d
                if p + 4 <= len(data):
                    pos.append(p)
    return pos

def boundary_values(data, at):
    end = '<' if data[:4] == LE_MAGIC else '>'
    (orig,) = struct.unpack(end + 'I', data[at:at + 4])
    L = len(data)
    vals = {0, 1, L - 1, L, L + 1, 1 << 31, (1 << 32) - 1, (orig + 1) & 0xffffffff, (orig - 1) & 0xffffffff,
            L - 4, L - 8, (1 << 16), (1 << 16) | 1, (2 << 16), orig ^ 0x10000}
    return sorted(v for v in vals if 0 <= v < (1 << 32) and v != orig)

def set_word(data, at, v):
    end = '<' if data[:4] == LE_MAGIC else '>'
    return data[:at] + struct.pack(end + 'I', v) + data[at + 4:]

def flips(rng, data, count):
    for _ in range(count):
        if not data:
            return
        b = bytearray(data)
        for _ in range(rng.choice([1, 1, 1, 2, 3])):
            p = rng.randrange(len(b))
            b[p] = rng.choice([b[p] ^ (1 << rng.randrange(8)), 0, 4, 0xff, 0x3d, 0x20, rng.randrange(256)])
        yield bytes(b)

def random_behind_magic(rng, count, maxlen=96):
    for _ in range(count):
        magic = rng.choice([LE_MAGIC, BE_MAGIC])
        n = rng.randint(0, maxlen)
        style = rng.random()
        if style < 0.4:      # small words, so that offsets point into the file
            body = b''.join(struct.pack('<I' if magic == LE_MAGIC else '>I', rng.choice([0, 1, 2, rng.randrange(64), rng.randrange(n + 1)]))
                            for _ in range(n // 4)) + bytes(rng.randrange(256) for _ in range(n % 4))
        elif style < 0.7:
            body = bytes(rng.choice([0, 0, 1, 4, 8, 16, 28, rng.randrange(256)]) for _ in range(n))
        else:
            body = bytes(rng.randrange(256) for _ in range(n))
        yield magic + body
