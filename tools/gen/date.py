"""Generators for C18: date header values (regex-directed, calendar boundaries, boilerplate, garbage), timezone hints,
and `check_dates` contexts with `now` placed around the instant."""
import datetime

SPACES = [' ', '\t', '\n', '\r', '\x0b', '\x0c', '\x1c', '\x1d', '\x1e', '\x1f', '\x85', '\xa0', ' ', ' ', ' ',
          ' ', ' ', ' ', ' ', ' ', '　']
NONSPACES = ['​', '᠎', '﻿', '\x00', '\x1b', '_', '⁠']       # look like spaces, are not
ODD_DIGITS = ['٠', '١', '३', '０', '１', '²', '①', '\U0001d7ce']

YEARS = ['0000', '0001', '0002', '0004', '0099', '0100', '0400', '1582', '1600', '1700', '1752', '1899', '1900', '1901', '1969', '1970',
         '1994', '1995', '1996', '1999', '2000', '2001', '2004', '2012', '2023', '2024', '2026', '2027', '2038', '2100', '2400',
         '9996', '9998', '9999']
MONTHS = ['00', '01', '02', '03', '04', '05', '06', '07', '08', '09', '10', '11', '12', '13', '19', '20', '99']
DAYS = ['00', '01', '02', '09', '10', '27', '28', '29', '30', '31', '32', '39', '40', '99']
HOURS = ['00', '01', '09', '10', '12', '19', '20', '23', '24', '25', '29', '30', '99']
MINUTES = ['00', '01', '09', '30', '59', '60', '61', '99']
ZH = ['00', '01', '02', '05', '09', '10', '11', '12', '13', '14', '19', '20', '23', '24', '25', '47', '48', '99']
ZM = ['00', '01', '15', '30', '45', '59', '60', '61', '99']

BOILER_BITS = ['YEAR-', '-MO-', '-DA ', '-DA\t', ' HO:', ' HO:', ':MI', ':MI+', '+ZONE', 'YEAR', 'MO', 'DA', 'HO', 'MI', 'ZONE',
               '-MO', 'MO-', '-DA', 'HO:', ':MI-', ':MIx', '+ZONEx', '-ZONE', ' YEAR-', 'xYEAR-']
BOILERPLATE = 'YEAR-MO-DA HO:MI+ZONE'

HINTS_OK = ['-0000', '+0000', '+0900', '-0330', '+2359', '-2359', '+1400', '+0059']
HINTS_BAD = ['', 'Z', 'z', '+09:00', '-00:00', '+090000', '+09:00:00', '+0900.5', '+090000.123456', 'bad', '+2400', '-2400', '+0960', '+9959',
             '0900', ' +0900', '+0900 ', '+0900\n', '+090', '+09000', '−0900', '+٠٩٠٠', '+09٣٠',
             '+0９00', 'UTC', 'GMT+0100', '+09', '+-900', '+ 900', '＋0900']


def pick(rng, xs):
    return xs[rng.randrange(len(xs))]

def digits(rng, n):
    return ''.join(rng.choice('0123456789') for _ in range(n))

def ws(rng, lo=0, hi=3):
    return ''.join(pick(rng, SPACES) if rng.random() < 0.6 else ' ' for _ in range(rng.randint(lo, hi)))

def gen_date(rng):
    r = rng.random()
    if r < 0.45:     # a valid-looking date biased to the boundaries
        y = pick(rng, YEARS) if rng.random() < 0.7 else digits(rng, 4)
        m = pick(rng, MONTHS[1:13]) if rng.random() < 0.85 else pick(rng, MONTHS)
        d = pick(rng, DAYS) if rng.random() < 0.7 else '%02d' % rng.randint(1, 28)
    elif r < 0.9:
        y, m, d = digits(rng, 4), '%02d' % rng.randint(1, 12), '%02d' % rng.randint(1, 31)
    else:
        y, m, d = digits(rng, 4), digits(rng, 2), digits(rng, 2)
    return f'{y}-{m}-{d}'

def gen_time(rng):
    if rng.random() < 0.8:
        h = pick(rng, HOURS) if rng.random() < 0.5 else '%02d' % rng.randint(0, 23)
        m = pick(rng, MINUTES) if rng.random() < 0.5 else '%02d' % rng.randint(0, 59)
    else:
        h, m = digits(rng, 2), digits(rng, 2)
    return f'{h}:{m}'

def gen_numzone(rng):
    sg = rng.choice('+-')
    if rng.random() < 0.6:
        zh, zm = pick(rng, ZH), pick(rng, ZM)
    else:
        zh, zm = '%02d' % rng.randint(0, 23), '%02d' % rng.randint(0, 59)
    pre = pick(rng, ['', '', '', 'GMT', 'UTC', 'gmt', 'UT', 'GMT ', 'Z'])
    colon = pick(rng, ['', '', ':', ':', '::', ' ', '.', '-', ',', 'h', '：'])
    return f'{pre}{sg}{zh}{colon}{zm}'

def gen_zone(rng, abbrs):
    r = rng.random()
    if r < 0.45:
        return gen_numzone(rng)
    if r < 0.8:
        a = pick(rng, abbrs)
        r2 = rng.random()
        if r2 < 0.1: a = a.lower()
        elif r2 < 0.15: a = a + 'X'
        elif r2 < 0.2: a = a[:-1]
        return pick(rng, ['', '', '+', '-', '++']) + a
    if r < 0.9:
        return ''
    return pick(rng, ['Z', 'UTC', 'GMT', 'UTC+1', '+1', '+100', '+01000', '+01:0', '0100', 'CEST+0200', '+0200CEST', 'Europe/Warsaw', '(CET)'])

def month_len(y, m):
    leap = y % 4 == 0 and (y % 100 != 0 or y % 400 == 0)
    return [31, 29 if leap else 28, 31, 30, 31, 30, 31, 31, 30, 31, 30, 31][m - 1]

def gen_valid(rng, abbrs, unique):
    """a string the statement says is accepted (when the zone is there), biased to the edges of validity"""
    y = int(pick(rng, YEARS[1:])) if rng.random() < 0.6 else rng.randint(1, 9999)
    m = rng.randint(1, 12) if rng.random() < 0.7 else pick(rng, [1, 2, 2, 12])
    ml = month_len(y, m)
    d = pick(rng, [1, ml, ml, ml - 1, 28]) if rng.random() < 0.6 else rng.randint(1, ml)
    hh = pick(rng, [0, 23, 12, 19, 20]) if rng.random() < 0.5 else rng.randint(0, 23)
    mi = pick(rng, [0, 59, 30]) if rng.random() < 0.5 else rng.randint(0, 59)
    sep = pick(rng, ['T', ' ', ' ', ' ']) if rng.random() < 0.7 else ''.join(pick(rng, SPACES) for _ in range(rng.randint(1, 3)))
    secs = pick(rng, ['', '', ':00', ':59', ':60', ':99'])
    gap = pick(rng, ['', '', ' ']) if rng.random() < 0.7 else ws(rng, 0, 3)
    r = rng.random()
    if r < 0.55:
        zh = pick(rng, [0, 23, 12, 14, 1]) if rng.random() < 0.5 else rng.randint(0, 23)
        zm = pick(rng, [0, 59, 30, 45]) if rng.random() < 0.6 else rng.randint(0, 59)
        zone = pick(rng, ['', '', '', 'GMT', 'UTC']) + rng.choice('+-') + '%02d' % zh + pick(rng, ['', '', ':']) + '%02d' % zm
    elif r < 0.9:
        zone = pick(rng, ['', '', '+']) + pick(rng, unique if rng.random() < 0.8 and unique else abbrs)
    else:
        zone = ''
    s = f'{y:04d}-{m:02d}-{d:02d}{sep}{hh:02d}:{mi:02d}{secs}{gap}{zone}'
    if rng.random() < 0.3:
        s = ws(rng, 0, 2) + s + ws(rng, 0, 2)
    return s

def gen_structured(rng, abbrs):
    """a string of the `_parse_date` language, or one step beside it"""
    date = gen_date(rng)
    sep = pick(rng, ['T', ' ', ' ', ' ', '  ', '\t', '\n']) if rng.random() < 0.8 else pick(rng, SPACES + NONSPACES + ['', 'T ', ' T', 't', 'TT'])
    time = gen_time(rng)
    secs = pick(rng, ['', '', '', ':00', ':59', ':60', ':99', ':7', ':', ':123', '.5', ':00.5'])
    gap = ws(rng, 0, 2) if rng.random() < 0.7 else pick(rng, NONSPACES + [''])
    zone = gen_zone(rng, abbrs)
    s = f'{date}{sep}{time}{secs}{gap}{zone}'
    r = rng.random()
    if r < 0.25:
        s = ws(rng, 0, 2) + s + ws(rng, 0, 2)
    elif r < 0.3:
        s = pick(rng, NONSPACES) + s
    elif r < 0.35:
        s = s + pick(rng, NONSPACES + ['\n', '\n\n', ' \n'])
    return s

def mutate(rng, s):
    """one edit: delete / duplicate / replace a character, or splice a boilerplate bit / odd digit"""
    if not s:
        return pick(rng, BOILER_BITS)
    i = rng.randrange(len(s))
    r = rng.random()
    if r < 0.25:
        return s[:i] + s[i + 1:]
    if r < 0.4:
        return s[:i] + s[i] + s[i:]
    if r < 0.5:
        return s[:i] + pick(rng, list('0123456789-+: T:Z') + SPACES + NONSPACES) + s[i + 1:]
    if r < 0.6:
        # swap one separator / sign / letter for a look-alike
        js = [j for j, ch in enumerate(s) if ch in '-:+ TGMUC'] or [i]
        j = pick(rng, js)
        return s[:j] + pick(rng, list('.,;/_|-:+ tTzZ') + ['−', '：', '＋', '‐', '–']) + s[j + 1:]
    if r < 0.75 and s[i].isdigit():
        return s[:i] + pick(rng, ODD_DIGITS) + s[i + 1:]
    if r < 0.9:
        return s[:i] + pick(rng, BOILER_BITS) + s[i + len(pick(rng, ['', 'xx', 'xxxx'])):]
    return s[:i] + pick(rng, list('YMDHOZENAR')) + s[i:]

def gen_boilerplate(rng, abbrs):
    base = pick(rng, [BOILERPLATE, gen_structured(rng, abbrs), '2012-11-01 14:42+0100', ''])
    r = rng.random()
    if r < 0.3:
        # replace one field of a good date by its placeholder
        good = '2012-11-01 14:42+0100'
        k = rng.randrange(6)
        parts = [('YEAR', 0, 4), ('MO', 5, 7), ('DA', 8, 10), ('HO', 11, 13), ('MI', 14, 16), ('ZONE', 17, 21)]
        name, a, b = parts[k]
        return good[:a] + name + good[b:]
    if r < 0.6:
        i = rng.randrange(len(base) + 1)
        return base[:i] + pick(rng, BOILER_BITS) + base[i:]
    return mutate(rng, base)

def boundary_dates():
    out = []
    for y in YEARS:
        for md in ('01-01', '02-28', '02-29', '02-30', '03-01', '12-31', '04-30', '04-31', '06-31', '09-31', '11-31', '00-10', '13-01', '01-00', '01-32'):
            for hm, z in (('00:00', '+0000'), ('23:59', '-2359'), ('00:00', '+2359'), ('12:00', '-0000')):
                out.append(f'{y}-{md} {hm}{z}')
    for m in range(1, 13):
        for d in (28, 29, 30, 31, 32):
            for y in ('2023', '2024', '1900', '2000'):
                out.append(f'{y}-{m:02d}-{d:02d} 10:00+0100')
    for hm in ('23:59', '24:00', '23:60', '00:60', '24:59', '99:99', '00:00'):
        for z in ('+0000', '-0000', '+2359', '-2359', '+2400', '-2400', '+2360', '+0060', '+9959', '-9900', '+1259', '+1260'):
            out.append(f'2020-06-15 {hm}{z}')
    # around the epoch 1995-07-02T00:00Z and around "now"-like values, with offsets moving the instant across
    for d, hm in (('1995-07-01', '23:59'), ('1995-07-02', '00:00'), ('1995-07-02', '00:01'), ('1995-07-02', '01:00'), ('1995-07-01', '22:59'),
                  ('1995-07-02', '23:59'), ('1995-06-30', '23:59')):
        for z in ('+0000', '-0000', '+0001', '-0001', '+0100', '-0100', '+2359', '-2359'):
            out.append(f'{d} {hm}{z}')
    return out

def gen_hint(rng):
    r = rng.random()
    if r < 0.5:
        return None
    if r < 0.88:
        return pick(rng, HINTS_OK) if rng.random() < 0.6 else rng.choice('+-') + '%02d%02d' % (rng.randint(0, 23), rng.randint(0, 59))
    if r < 0.95:
        return pick(rng, HINTS_BAD)
    return mutate(rng, pick(rng, HINTS_OK))

def fix_inputs(rng, n, abbrs, unique=None):
    """(s, hint) pairs"""
    out = []
    unique = unique or abbrs
    for _ in range(n):
        r = rng.random()
        if r < 0.35:
            s = gen_valid(rng, abbrs, unique)
        elif r < 0.55:
            s = mutate(rng, gen_valid(rng, abbrs, unique))
        elif r < 0.75:
            s = gen_structured(rng, abbrs)
        elif r < 0.82:
            s = mutate(rng, gen_structured(rng, abbrs))
        elif r < 0.94:
            s = gen_boilerplate(rng, abbrs)
        else:
            s = ''.join(pick(rng, list('0123456789-:+ TZ') + SPACES[:4] + ['GMT', 'UTC', 'CET']) for _ in range(rng.randint(0, 24)))
        out.append((s, gen_hint(rng)))
    return out

def abbr_inputs(abbrs):
    """every abbreviation in every zone position"""
    out = []
    for a in abbrs:
        for tpl in ('2012-11-01 14:42 {}', '2012-11-01 14:42{}', '2012-11-01T14:42:07 +{}', '2012-11-01 14:42 {}\n', '2012-11-01 14:42 GMT{}',
                    '2012-11-01 14:42 -{}', '2012-02-30 14:42 {}'):
            out.append((tpl.format(a), None))
        out.append((f'2012-11-01 14:42 {a.lower()}', None))
        out.append((f'2012-11-01 14:42 {a}', '+0900'))
    return out

UNIX = datetime.datetime(1970, 1, 1, tzinfo=datetime.timezone.utc)

def to_us(dt):
    return (dt - UNIX) // datetime.timedelta(microseconds=1)

def from_us(us):
    return UNIX + datetime.timedelta(microseconds=us)

NOW_MIN_US = to_us(datetime.datetime(1, 1, 1, tzinfo=datetime.timezone.utc))
NOW_MAX_US = to_us(datetime.datetime(9999, 12, 31, 23, 59, 59, 999999, tzinfo=datetime.timezone.utc))


def calendar_texts(rng, exhaustive):
    """canonical-shape texts covering the calendar: (every | a stratified sample of) year 0000..9999 x month 00..13 x
    day 00,01,28..32; plus every hh:mm in 00..99 x 00..99 and every offset +-(00..99)(00..99) on a fixed date"""
    if exhaustive:
        years = range(0, 10000)
    else:
        ys = set(range(0, 51)) | set(range(0, 10000, 100)) | set(range(1580, 1601)) | set(range(1890, 2111)) | set(range(9990, 10000))
        ys |= {rng.randrange(10000) for _ in range(300)}
        years = sorted(ys)
    out = []
    for y in years:
        for m in range(0, 14):
            for d in (0, 1, 28, 29, 30, 31, 32):
                out.append(f'{y:04d}-{m:02d}-{d:02d} 12:00+0000')
    step = 1 if exhaustive else 7
    for h in range(0, 100, 1):
        for mi in range(0, 100, step):
            out.append(f'2024-02-29 {h:02d}:{mi:02d}-0130')
    for sg in '+-':
        for zh in range(0, 100):
            for zm in range(0, 100, step):
                out.append(f'1995-07-02 00:00{sg}{zh:02d}{zm:02d}')
    return out
