"""Exhaustive small sweeps for C01: every row of every data table the tool trusts, and every member of the character classes its
code distinguishes, goes through the real `Checker.check` at least once per run.

* data tables (read from the LOADED tool, so an edited data file changes the sweep): every language of data/languages through
  each of the five language sources with a valid Plural-Forms header (its own registry declarations and a foreign one), every
  `characters[@modifier]` list against a non-Unicode charset, every language/territory code of data/iso-codes (sampled, all
  two-letter ones always), every charset of data/encodings (+ charmaps), every field of data/header-fields, every format of
  data/string-formats, every abbreviation of data/timezones, every control character of data/control-characters, every
  special domain;
* character classes (taken from the interpreter, not from a hand list): every `str.isspace()` character as a line of its own
  (alone / repeated / mixed with blanks) at every structural position of a PO file, and as the separator in every slot where
  `split()`/`strip()`/`\\s` decides structure; every `str.isdigit()` character that is not `[0-9]` (decimal digits of other
  scripts, superscripts, circled digits …) in every slot where the code reads a number or an identifier.

Each case: (bytes, extension, options for the harness, description)."""
import struct, unicodedata

GOOD = [
    ('Project-Id-Version', 'Gizmo Enhancer 1.0'),
    ('Report-Msgid-Bugs-To', 'gizmoenhancer@jwilk.net'),
    ('POT-Creation-Date', '2012-11-01 14:42+0100'),
    ('PO-Revision-Date', '2012-11-01 14:42+0100'),
    ('Last-Translator', 'Jakub Wilk <jwilk@jwilk.net>'),
    ('Language-Team', 'Polish <pl@li.org.example>'),
    ('Language', 'pl'),
    ('MIME-Version', '1.0'),
    ('Content-Type', 'text/plain; charset=UTF-8'),
    ('Content-Transfer-Encoding', '8bit'),
    ('Plural-Forms', 'nplurals=2; plural=n != 1;'),
]

def q(s):
    out = []
    for ch in s:
        out.append({'\\': '\\\\', '"': '\\"', '\n': '\\n', '\t': '\\t', '\r': '\\r'}.get(ch, ch))
    return '"' + ''.join(out) + '"'

def header(fields):
    return ''.join('%s: %s\n' % kv for kv in fields)

def fields_with(**repl):
    """GOOD with some values replaced (None drops the field); extra keys are appended"""
    repl = {k.replace('_', '-'): v for k, v in repl.items()}
    out = []
    for k, v in GOOD:
        if k in repl:
            if repl[k] is not None:
                out.append((k, repl[k]))
        else:
            out.append((k, v))
    for k, v in repl.items():
        if k not in dict(GOOD) and v is not None:
            out.append((k, v))
    return out

PLURAL_MSG = 'msgid "%d file"\nmsgid_plural "%d files"\n{forms}\n'
def plural_msg(n, flag='c-format'):
    return ('#, %s\n' % flag if flag else '') + 'msgid "%d file"\nmsgid_plural "%d files"\n' + ''.join('msgstr[%d] "%%d plik%d"\n' % (i, i) for i in range(n)) + '\n'

def po(fields, body='msgid "a"\nmsgstr "b"\n\n', pre='', enc='utf-8'):
    return (pre + 'msgid ""\nmsgstr ' + q(header(fields)) + '\n\n' + body).encode(enc, 'surrogatepass' if enc == 'utf-8' else 'replace')

def mo(fields, entries=((b'a', b'b'),), extra_nul_plural=None):
    """little-endian MO of the header and the (key, value) byte pairs"""
    ents = sorted([(b'', header(fields).encode('utf-8', 'surrogatepass'))] + list(entries))
    n = len(ents)
    ko, to = 28, 28 + 8 * n
    pool = to + 8 * n
    kd, vd, blob = [], [], b''
    for k, _ in ents:
        kd.append((len(k), pool + len(blob))); blob += k + b'\x00'
    for _, v in ents:
        vd.append((len(v), pool + len(blob))); blob += v + b'\x00'
    return struct.pack('<7I', 0x950412de, 0, n, ko, to, 0, 0) + b''.join(struct.pack('<2I', *d) for d in kd) + b''.join(struct.pack('<2I', *d) for d in vd) + blob

def nplurals_of(pf):
    import re
    m = re.search(r'nplurals=([0-9]+)', pf)
    return min(int(m.group(1)), 9) if m else 2

# ----------------------------------------------------------------------------- data tables

def language_cases(rng):
    from lib import ling
    cases = []
    langs = sorted(ling._primary_languages)
    for code in langs:
        sect = ling._primary_languages[code]
        own = ling._get_plural_forms(code) or []
        foreign = 'nplurals=2; plural=n != 1;' if not any('n != 1' in x for x in own) else 'nplurals=2; plural=n > 1;'
        names = [x.strip() for x in sect.get('names', '').splitlines() if x.strip()]
        pfs = list(own) + [foreign]
        # 1. Language header field, every declaration of the registry for it + a foreign one, PO and MO
        for pf in pfs:
            n = nplurals_of(pf)
            f = fields_with(Language=code, Plural_Forms=pf)
            cases.append((po(f, plural_msg(n)), '.po', {}, 'registry:language %s via Language header (PO), Plural-Forms %r' % (code, pf)))
        pf = pfs[0]
        n = nplurals_of(pf)
        f = fields_with(Language=code, Plural_Forms=pf)
        cases.append((mo(f, [(b'%d file\x00%d files', b'\x00'.join(b'%d plik' for _ in range(n)))]), '.mo', {}, 'registry:language %s via Language header (MO)' % code))
        nolang = fields_with(Language=None, Plural_Forms=pf)
        # 2. -l, 3. base name, 4. LC_MESSAGES directory, 5. X-Poedit-Language (English name)
        cases.append((po(nolang, plural_msg(n)), '.po', {'language': code}, 'registry:language %s via -l' % code))
        cases.append((po(nolang, plural_msg(n)), '.po', {'basename': code}, 'registry:language %s via base name' % code))
        cases.append((mo(nolang, [(b'%d file\x00%d files', b'\x00'.join(b'%d plik' for _ in range(n)))]), '.mo', {'subdir': code + '/LC_MESSAGES'}, 'registry:language %s via LC_MESSAGES directory' % code))
        if names:
            nm = rng.choice(names)
            cases.append((po(fields_with(Language=None, Plural_Forms=pf, **{'X-Poedit-Language': nm}), plural_msg(n)), '.po', {}, 'registry:language %s via X-Poedit-Language %r' % (code, nm)))
            cases.append((po(fields_with(Language=nm, Plural_Forms=pf), plural_msg(n)), '.po', {}, 'registry:language %s via its English name in the Language field' % code))
        # characters[@modifier] against charsets that cannot hold everything
        for key in sect:
            if key.startswith('characters'):
                mod = key.partition('@')[2]
                lang = code + ('@' + mod if mod else '')
                for cs in ('ISO-8859-1', rng.choice(['ISO-8859-2', 'KOI8-R', 'CP1250', 'ASCII', 'EUC-JP', 'KOI8-RU', 'KOI8-T', 'TCVN5712-1', 'VISCII', 'CP1256'])):
                    cases.append((po(fields_with(Language=lang, Content_Type='text/plain; charset=' + cs, Plural_Forms=None), enc='ascii'), '.po', {}, 'registry:characters of %s against %s' % (lang, cs)))
    return cases

def iso_cases(rng, per_run=120):
    from lib import ling
    codes = sorted(ling._iso_639)
    two = [c for c in codes if len(c) == 2]
    three = [c for c in codes if len(c) != 2]
    pick = two + rng.sample(three, min(per_run, len(three)))
    cases = []
    for c in pick:
        cases.append((po(fields_with(Language=c, Plural_Forms=None)), '.po', {}, 'registry:iso-639 code %s' % c))
    terr = sorted(ling._iso_3166)
    for cc in terr:
        lang = rng.choice(['pl', 'de', 'pt', 'zh', 'sr', 'en'])
        cases.append((po(fields_with(Language='%s_%s' % (lang, cc))), '.po', {}, 'registry:iso-3166 code %s' % cc))
    return cases

def charset_cases(rng):
    from lib import encodings as E
    names = set()
    for attr in ('_portable_encodings', '_extra_encodings', '_pycodec_to_encoding', '_unmangle_encoding'):
        d = getattr(E, attr, None) or {}
        names.update(d if not isinstance(d, dict) else list(d.keys()) + [v for v in d.values() if isinstance(v, str)])
    try:
        names.update(E.get_portable_encodings())
    except Exception:
        pass
    import os
    try:
        from lib import paths
        names.update(os.listdir(os.path.join(paths.datadir, 'charmaps')))
    except Exception:
        pass
    cases = []
    for nm in sorted(x for x in names if isinstance(x, str) and x):
        for variant in {nm, nm.upper(), nm.lower()}:
            f = fields_with(Content_Type='text/plain; charset=' + variant)
            cases.append((po(f, 'msgid "a"\nmsgstr "za\\304\\205b \\344 \\200"\n\n', enc='ascii'), '.po', {}, 'registry:charset %s (PO, 8-bit escapes)' % variant))
        f = fields_with(Content_Type='text/plain; charset=' + nm)
        cases.append((mo(f, [(b'a', b'b\xc4\x85\xe4\x80')]), '.mo', {}, 'registry:charset %s (MO, 8-bit bytes)' % nm))
    return cases

def header_field_cases(rng):
    from lib import gettext
    cases = []
    known = sorted(gettext.header_fields)
    for k in known:
        for v in ('x', ''):
            f = [kv for kv in GOOD if kv[0] != k] + [(k, v)]
            cases.append((po(f), '.po', {}, 'registry:header field %s = %r' % (k, v)))
        f = list(GOOD) + [(k, 'x'), (k, 'y')]
        cases.append((po(f), '.po', {}, 'registry:header field %s twice' % k))
        # near misses of the name (difflib suggestions)
        for nm in (k.lower(), k.upper(), k[:-1], k + 's', k.replace('-', '_')):
            if nm and nm != k:
                cases.append((po(list(GOOD) + [(nm, 'x')]), '.po', {}, 'registry:header field near miss %s' % nm))
    cases.append((po(list(GOOD) + [(k, 'x') for k in known if k not in dict(GOOD)]), '.po', {}, 'registry:all header fields'))
    cases.append((mo(list(GOOD) + [(k, 'x') for k in known if k not in dict(GOOD)]), '.mo', {}, 'registry:all header fields (MO)'))
    return cases

def string_format_cases(rng):
    from lib import gettext
    cases = []
    for fmt, examples in sorted(gettext.string_formats.items()):
        ex = sorted(examples)
        body = ''
        for i, pre in enumerate(('', 'no-', 'possible-', 'impossible-')):
            body += '#, %s%s-format\nmsgid "m%d %s"\nmsgstr "t%d %s"\n\n' % (pre, fmt, i, ' '.join(ex), i, ' '.join(reversed(ex)))
        body += '#, %s-format, no-%s-format\nmsgid "c"\nmsgstr "d"\n\n#, %s-format, possible-%s-format\nmsgid "e %s"\nmsgstr "f"\n\n' % (fmt, fmt, fmt, fmt, ex[0] if ex else '')
        body += '#, %s-format\nmsgid "one %s"\nmsgid_plural "many %s"\nmsgstr[0] "a %s"\nmsgstr[1] "b"\n\n' % (fmt, ex[0] if ex else '', ex[-1] if ex else '', ex[0] if ex else '')
        cases.append((po(list(GOOD), body), '.po', {}, 'registry:string format %s' % fmt))
        cases.append((po(list(GOOD), body), '.pot', {}, 'registry:string format %s (template)' % fmt))
    return cases

def timezone_cases(rng):
    from lib import gettext
    cases = []
    for tz in sorted(gettext._timezones):
        for shape in ('2012-11-01 14:42 %s', '2012-11-01 14:42%s', '2012-11-01 14:42+%s', '2012-11-01T14:42 %s'):
            d = shape % tz
            cases.append((po(fields_with(POT_Creation_Date=d, PO_Revision_Date=d)), '.po', {}, 'registry:timezone %s as %r' % (tz, d)))
    return cases

def control_char_cases(rng):
    cases = []
    chars = [chr(c) for c in list(range(0, 32)) + list(range(127, 160))] + ['\ufeff', '\ufffd', '\ufffe', '\uffff', 'a\u00bf']
    for ch in chars:
        if ch in '\n':
            continue
        s = 'x' + ch + 'y'
        cases.append((po(list(GOOD), 'msgid "a"\nmsgstr %s\n\n' % q(s)), '.po', {}, 'registry:control character U+%04X in msgstr' % ord(ch[-1])))
    return cases

def domain_cases(rng):
    cases = []
    try:
        from lib import domains
        import re
        alts = re.findall(r'[a-z0-9][a-z0-9.-]*[a-z]', getattr(domains, '_regexps', '') or '')
    except Exception:
        alts = []
    alts = sorted(set(alts + ['test', 'localhost', 'invalid', 'example', 'example.com', 'example.net', 'example.org', 'local', 'onion', 'in-addr.arpa', 'ip6.arpa']))
    for d in alts:
        for addr in ('A <a@%s>' % d, 'A <a@x.%s>' % d, 'a@%s.' % d):
            cases.append((po(fields_with(Last_Translator=addr, Language_Team=addr, Report_Msgid_Bugs_To=addr)), '.po', {}, 'registry:special domain %s' % addr))
    return cases

# ----------------------------------------------------------------------------- character classes

def ws_chars():
    return [chr(c) for c in range(0x110000) if chr(c).isspace() and chr(c) != '\n']

def odd_digits(rng, sample=None):
    """every isdigit() character that is not an ASCII digit: all non-decimal ones (superscripts, circled, …) and one decimal digit
    per script (the 3s) — or a sample of them"""
    nondec = [chr(c) for c in range(0x110000) if chr(c).isdigit() and not chr(c).isdecimal()]
    threes = [chr(c) for c in range(0x110000) if chr(c).isdecimal() and unicodedata.digit(chr(c)) == 3 and chr(c) != '3']
    numeric_only = [chr(c) for c in range(0x110000) if chr(c).isnumeric() and not chr(c).isdigit()]
    if sample is None:
        return nondec + threes
    return rng.sample(nondec, min(sample, len(nondec))) + rng.sample(threes, min(sample, len(threes))) + rng.sample(numeric_only, min(3, len(numeric_only)))

def whitespace_line_cases(rng):
    """a line made only of white space (in the sense of str.isspace / str.split) at every structural position of a PO file"""
    cases = []
    hdr = 'msgid ""\nmsgstr ' + q(header(GOOD)) + '\n'
    e1 = '#. extracted\n#: a.c:1\n#, c-format\nmsgid "a %d"\nmsgstr "b %d"\n'
    e2 = 'msgid "c"\nmsgstr "d"\n'
    for ch in ws_chars():
        for form, line in (('alone', ch), ('x3', ch * 3), ('with blanks', ' ' + ch + '\t' + ch + ' '), ('after blank', '  ' + ch)):
            L = line + '\n'
            texts = {
                'at the start of the file': L + hdr + '\n' + e1 + '\n' + e2,
                'between header and first entry': hdr + L + e1 + '\n' + e2,
                'between entries': hdr + '\n' + e1 + L + e2,
                'between comment lines': hdr + '\n#. extracted\n' + L + '#: a.c:1\nmsgid "a"\nmsgstr "b"\n',
                'between msgid and msgstr': hdr + '\n' + 'msgid "a"\n' + L + 'msgstr "b"\n',
                'inside a continued string': hdr + '\n' + 'msgid ""\n"a"\n' + L + '"b"\nmsgstr "c"\n',
                'after a translator comment': '# comment\n' + L + hdr + '\n' + e2,
                'after an obsolete entry': hdr + '\n' + e2 + '\n#~ msgid "o"\n#~ msgstr "p"\n' + L,
                'at the end, with newline': hdr + '\n' + e2 + L,
                'at the end, without newline': hdr + '\n' + e2 + line,
                'as the only content': L,
            }
            if form in ('x3', 'after blank'):
                keep = rng.sample(sorted(texts), 3)
                texts = {k: texts[k] for k in keep}
            for where, t in texts.items():
                cases.append((t.encode('utf-8'), rng.choice(['.po', '.po', '.pot']), {}, 'class:white-space line U+%04X (%s) %s' % (ord(ch), form, where)))
    return cases

def whitespace_separator_cases(rng):
    """each white-space character where split()/strip()/\\s decide structure"""
    cases = []
    for ch in ws_chars():
        u = 'U+%04X' % ord(ch)
        specs = [
            ('Plural-Forms separator', po(fields_with(Plural_Forms='nplurals=2;%splural=n != 1;' % ch), plural_msg(2))),
            ('inside the plural expression', po(fields_with(Plural_Forms='nplurals=2; plural=n%s!=%s1;' % (ch, ch)), plural_msg(2))),
            ('around nplurals', po(fields_with(Plural_Forms='%snplurals=2; plural=n != 1;%s' % (ch, ch)), plural_msg(2))),
            ('Content-Type separator', po(fields_with(Content_Type='text/plain;%scharset=UTF-8' % ch))),
            ('after charset name', po(fields_with(Content_Type='text/plain; charset=UTF-8%s' % ch))),
            ('date separator', po(fields_with(PO_Revision_Date='2012-11-01%s14:42+0100' % ch, POT_Creation_Date='2012-11-01 14:42%s+0100' % ch))),
            ('header field value padding', po([(k, ch + v + ch) for k, v in GOOD])),
            ('header field name', po(list(GOOD) + [('X%sFoo' % ch, 'x'), (ch, 'y'), ('Language' + ch, 'de')])),
            ('Language value', po(fields_with(Language='pl%s' % ch))),
            ('address', po(fields_with(Last_Translator='Jakub%sWilk%s<jwilk@jwilk.net>' % (ch, ch), Language_Team='%s<pl@li.org.example>' % ch))),
            ('flag separator', po(list(GOOD), '#,%sfuzzy,%sc-format\nmsgid "a %%d"\nmsgstr "b %%d"\n\n#, fuzzy%s\nmsgid "c"\nmsgstr "d"\n\n' % (ch, ch, ch))),
            ('range flag', po(list(GOOD), '#, range:%s1..2\nmsgid "a"\nmsgid_plural "as"\nmsgstr[0] "b"\nmsgstr[1] "c"\n\n#, range: 1%s..%s2\nmsgid "e"\nmsgstr "f"\n\n' % (ch, ch, ch))),
            ('after keyword', po(list(GOOD), 'msgid%s"a"\nmsgstr%s"b"\n\n' % (ch, ch))),
            ('reference comment', po(list(GOOD), '#:%sa.c:1%sb.c:2\n#.%sx\n#%sy\nmsgid "a"\nmsgstr "b"\n\n' % (ch, ch, ch, ch))),
            ('obsolete marker', po(list(GOOD), '#~%smsgid "a"\n#~%smsgstr "b"\n\n#|%smsgid "o"\nmsgid "c"\nmsgstr "d"\n\n' % (ch, ch, ch))),
            ('format directive flag', po(list(GOOD), '#, c-format\nmsgid "a %%%sd"\nmsgstr "b %%%sd"\n\n#, python-format\nmsgid "a %%%sd"\nmsgstr "b %%%s5d"\n\n#, python-brace-format\nmsgid "a {0:%s>5}"\nmsgstr "b {0 %s}"\n\n' % (ch, ch, ch, ch, ch, ch))),
            ('XML comment', po(list(GOOD), '#. type:%sContent of: <para>\nmsgid "<a>x</a>"\nmsgstr "<a%sb=\\"c\\">y</a>"\n\n' % (ch, ch))),
            ('trailing on keyword lines', po(list(GOOD), 'msgid "a"%s\nmsgstr "b"%s\n\n' % (ch, ch))),
        ]
        for what, data in specs:
            cases.append((data, '.po', {}, 'class:white space %s as %s' % (u, what)))
    return cases

def digit_cases(rng, quick=True):
    """every non-ASCII digit where the code reads a number or tells a digit from a letter"""
    cases = []
    everywhere = odd_digits(rng, None)
    sampled = odd_digits(rng, 8) if quick else everywhere
    def add(d, what, data, ext='.po', opts=None):
        cases.append((data, ext, opts or {}, 'class:digit U+%04X as %s' % (ord(d), what)))
    for d in everywhere:
        add(d, 'msgstr[N] index', po(list(GOOD), 'msgid "a"\nmsgid_plural "as"\nmsgstr[%s] "b"\nmsgstr[1] "c"\n\n' % d))
        add(d, 'python-brace argument name / index', po(list(GOOD), '#, python-brace-format\nmsgid "{%s} {a%s} {0[%s]} {0.a%s}"\nmsgstr "{%s:%s} {a%s!r:>%s.%s}"\n\n' % (d, d, d, d, d, d, d, d, d)))
    for d in sampled:
        add(d, 'nplurals', po(fields_with(Plural_Forms='nplurals=%s; plural=n != 1;' % d), plural_msg(2)))
        add(d, 'numeral of the plural expression', po(fields_with(Plural_Forms='nplurals=2; plural=n != %s;' % d), plural_msg(2)))
        add(d, 'mixed numeral of the plural expression', po(fields_with(Plural_Forms='nplurals=2; plural=n %% 1%s == %s1;' % (d, d)), plural_msg(2)))
        add(d, 'range flag', po(list(GOOD), '#, range: %s..1%s\nmsgid "a"\nmsgid_plural "as"\nmsgstr[0] "b"\nmsgstr[1] "c"\n\n' % (d, d)))
        add(d, 'C directive width / precision / index', po(list(GOOD), '#, c-format\nmsgid "%%%sd %%.%sd %%%s$d"\nmsgstr "%%1%sd %%*%s$d %%d"\n\n' % (d, d, d, d, d)))
        add(d, 'python directive width / precision / key', po(list(GOOD), '#, python-format\nmsgid "%%%sd %%.%sf %%(%s)s"\nmsgstr "%%1%sd %%(a%s)s %%(%s)d"\n\n' % (d, d, d, d, d, d)))
        add(d, 'perl-brace name', po(list(GOOD), '#, perl-brace-format\nmsgid "{%s} {a%s}"\nmsgstr "{a%s} {%sa}"\n\n' % (d, d, d, d)))
        add(d, 'date', po(fields_with(PO_Revision_Date='201%s-11-01 14:42+0100' % d, POT_Creation_Date='2012-11-01 14:42+010%s' % d)))
        add(d, 'MIME-Version / Project-Id-Version', po(fields_with(MIME_Version='1.%s' % d, Project_Id_Version='gizmo %s' % d)))
        add(d, 'reference line number', po(list(GOOD), '#: a.c:%s b.c:1%s\nmsgid "a"\nmsgstr "b"\n\n' % (d, d)))
        add(d, 'octal / hex escape', po(list(GOOD), 'msgid "\\%s \\x%s \\1%s"\nmsgstr "\\x4%s"\n\n' % (d, d, d, d)))
        add(d, 'MO charset / nplurals', mo(fields_with(Plural_Forms='nplurals=%s; plural=n != 1;' % d, Content_Type='text/plain; charset=ISO-8859-%s' % d)), '.mo')
        add(d, 'language option / base name', po(fields_with(Language=None)), '.po', {'basename': 'pl%s' % d, 'language': 'pl_P%s' % d})
        add(d, 'charset name', po(fields_with(Content_Type='text/plain; charset=ISO-8859-%s' % d)))
        add(d, 'XML character reference', po(list(GOOD), '#. type: Content of: <para>\nmsgid "<a>x</a>"\nmsgstr "<a%s>&#%s;&#x%s;</a%s>"\n\n' % (d, d, d, d)))
    return cases

# ----------------------------------------------------------------------------- MO structure: every truncation point

def mo_truncation_cases(rng):
    """a small well-formed MO file (header, a message with context, a plural message; strings end exactly at EOF when the last
    NUL is dropped) cut at EVERY length, and with each of its 32-bit words pointing just past / at / before the end"""
    base = mo(list(GOOD), [(b'menu\x04File', b'Plik'), (b'%d file\x00%d files', b'%d plik\x00%d pliki'), (b'z', b'last')])
    cases = []
    for n in range(len(base)):
        cases.append((base[:n], '.mo', {}, 'structure:MO file cut to %d of %d bytes' % (n, len(base))))
    nstr = struct.unpack('<I', base[8:12])[0]
    for w in range(7 + 4 * nstr):
        at = 4 * w
        for v in (len(base), len(base) - 1, len(base) + 1, len(base) - 4, 0, 0xFFFFFFFF, 0x7FFFFFFF):
            cases.append((base[:at] + struct.pack('<I', v) + base[at + 4:], '.mo', {}, 'structure:MO word %d set to %d (file of %d bytes)' % (w, v, len(base))))
        # the string this descriptor names ends exactly at the end of the file
        old = struct.unpack('<I', base[at:at + 4])[0]
        if w >= 7 and (w - 7) % 2 == 0:
            off = struct.unpack('<I', base[at + 4:at + 8])[0]
            cases.append((base[:at] + struct.pack('<I', max(len(base) - off, 0)) + base[at + 4:], '.mo', {}, 'structure:MO string %d made to end exactly at EOF' % ((w - 7) // 2)))
    return cases

# ----------------------------------------------------------------------------- codec exotica

EXOTIC_PROBES = [b'\\ud800', b'\\udc00 \\ud800', b'\\ud800\\udc00', b'\\udfff', b'\\u0000', b'\\x00', b'\\ufffe', b'\\uffff', b'\\U0010ffff', b'\\U0001f600',
                 b'\\N{BELL}', b'\\u2028', b'\\u0085', b'\\x1b[31m', b'\\x9b31m', b'\\u202e', b'\\ufeff', b'\\xbf', b'\\u00e4', b'\\u0661', b'\\ud7ff\\ue000',
                 b'+2AA-', b'+AAA-', b'+//8-', b'~{<:~}', b'\x1b$B0!\x1b(B', b'\x1b$)C\x0e0!\x0f', b'\x0e\x0f', b'&#xD800;']

def classify_text(t, src):
    kinds = set()
    for ch in t:
        o = ord(ch)
        if 0xD800 <= o <= 0xDFFF:
            kinds.add('surrogate')
        elif o == 0:
            kinds.add('NUL')
        elif (o & 0xFFFE) == 0xFFFE or 0xFDD0 <= o <= 0xFDEF:
            kinds.add('noncharacter')
        elif o < 32 and ch not in '\n\t\r' or 0x7F <= o <= 0x9F:
            kinds.add('control')
        elif o > 127:
            kinds.add('non-ASCII')
    return kinds if t != src.decode('ascii', 'replace') else set()

_exotic_cache = {}
def exotic_codecs():
    """{codec name: [(ASCII probe bytes, kinds of surprising text it decodes to)]} for every codec the LOADED tool accepts as
    ASCII-compatible (all names and aliases of the interpreter's registry + the tool's own tables)"""
    if 'v' in _exotic_cache:
        return _exotic_cache['v']
    import encodings, encodings.aliases, pkgutil
    from lib import encodings as E
    names = set(encodings.aliases.aliases.values()) | set(encodings.aliases.aliases) | {m.name for m in pkgutil.iter_modules(encodings.__path__)}
    for attr in ('_portable_encodings', '_extra_encodings'):
        names |= set(getattr(E, attr, None) or ())
    res = {}
    seen_codec = {}
    for n in sorted(names):
        try:
            if not E.is_ascii_compatible_encoding(n):
                continue
        except Exception:
            continue
        hits = []
        for p in EXOTIC_PROBES:
            try:
                t = p.decode(n)
            except Exception:
                continue
            kinds = classify_text(t, p)
            if kinds:
                hits.append((p, tuple(sorted(kinds))))
        if hits:
            key = tuple(hits)
            # one name per distinct behaviour and codec object is enough (aliases decode alike)
            if key not in seen_codec:
                seen_codec[key] = n
                res[n] = hits
    _exotic_cache['v'] = res
    return res

def exotica_cases(rng, thorough=False):
    """for each such codec and each probe it turns into surprising text: the probe in every text slot of a PO and an MO file
    declared in that codec (gen/hostile.slot_files), backslashes of the carrier file doubled where the codec itself reads
    backslash escapes (so that the file still parses and the probe alone is decoded)"""
    from . import hostile as HG
    cases = []
    table = exotic_codecs()
    for codec, hits in sorted(table.items()):
        eats_backslash = False
        try:
            eats_backslash = (b'\\n'.decode(codec) != '\\n')
        except Exception:
            pass
        chosen = hits if thorough else [h for h in hits if 'surrogate' in h[1] or 'NUL' in h[1] or 'noncharacter' in h[1]][:4] + rng.sample(hits, min(2, len(hits)))
        for probe, kinds in chosen:
            marker = 'EXOTICPROBE'
            for slot, data, ext in HG.slot_files(marker):
                data = data.replace(b'charset=UTF-8', b'charset=' + codec.encode('ascii'))
                if eats_backslash and ext == '.po':
                    data = data.replace(b'\\', b'\\\\')
                data = data.replace(marker.encode(), probe)
                cases.append((data, ext, {'basename': 'pl'}, 'exotica:%s %r (%s) in slot %s' % (codec, probe.decode('ascii', 'replace'), '+'.join(kinds), slot)))
    return cases

def all_cases(rng, thorough=False):
    """→ (cases, {group: count})"""
    groups = [
        ('languages', language_cases(rng)),
        ('iso-codes', iso_cases(rng, 2000 if thorough else 120)),
        ('charsets', charset_cases(rng)),
        ('header-fields', header_field_cases(rng)),
        ('string-formats', string_format_cases(rng)),
        ('timezones', timezone_cases(rng)),
        ('control-characters', control_char_cases(rng)),
        ('special-domains', domain_cases(rng)),
        ('white-space lines', whitespace_line_cases(rng)),
        ('white-space separators', whitespace_separator_cases(rng)),
        ('digits', digit_cases(rng, quick=not thorough)),
        ('codec exotica', exotica_cases(rng, thorough)),
        ('MO truncation', mo_truncation_cases(rng)),
    ]
    cases = []
    counts = {}
    for name, cs in groups:
        counts[name] = len(cs)
        cases += cs
    return cases, counts
