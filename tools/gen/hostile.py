"""Crash- and hang-seeking file generator for C01: a slot grammar over PO/POT/MO files.

A file is a base catalog (header fields + messages) in which some *slots* (header values, flags, format strings of
the four kinds, plural expressions, charset, dates, language, addresses, comments, XML strings, PO lexical shapes)
are replaced by values from hostile pools: boundary numerals, deep nesting, unusual codecs, non-ASCII digits,
unbalanced braces, mixed key kinds, … — the inputs that only reading the code suggests.  Every random choice comes
from the `rng` handed in."""
import os, random, struct
from . import catalog as CAT

NUMERALS = ['0', '1', '2', '9', '10', '4095', '4096', '4097', '65535', '65536', '2147483644', '2147483645', '2147483646', '2147483647', '2147483648',
            '4294967295', '4294967296', '4294967297', '9223372036854775807', '9223372036854775808', '18446744073709551616',
            '9' * 20, '1' * 4300, '1' * 4301, '0' * 4400 + '1', '00', '01', '007']

def numeral(rng):
    return rng.choice(NUMERALS) if rng.random() < 0.8 else str(rng.choice([2 ** k + d for k in (7, 8, 15, 16, 31, 32, 63, 64) for d in (-1, 0, 1)]))

def plural_exprs(rng):
    k = rng.choice([3, 30, 120, 400, 700, 1500])
    pool = [
        'n/0', 'n%0', '0/0', '1/(n-n)', 'n/(n%2)', 'n-1', 'n-2', '0-1', 'n*n*n*n*n*n*n*n', 'n*4294967295', 'n+4294967295', '4294967296', '4294967295+1',
        'n != 1', 'n>1', 'n==1 ? 0 : 1', 'n%10==1 && n%100!=11 ? 0 : n%10>=2 && n%10<=4 && (n%100<10 || n%100>=20) ? 1 : 2',
        '!' * k + 'n', 'n+' * k + 'n', '(' * k + 'n' + ')' * k, 'n?' * k + '1' + ':1' * k, 'n&&' * k + 'n', 'n==' * k + 'n', '1?' * k + 'n' + ':0' * k,
        'n<' * k + '1', 'n%' + '3%' * k + '2', '-n', '~n', 'n<<1', 'n&1', 'n|1', 'n^1', 'n ! = 1', 'n = 1', 'n==', '==n', '()', '(n', 'n)', 'n n', '1 2', 'nn',
        'm', 'N', 'n?1', 'n?:1', 'n?1:', '\u0663', 'n%\u0661\u0660', 'n == \u00b2', 'n\u00a0!= 1', 'n\t!=\t1', 'n\x0b!= 1', 'n\n!= 1', 'n != 1e3', 'n != 0x10', 'n != 010',
        'n != ' + numeral(rng), numeral(rng), 'n%' + numeral(rng), 'n/' + numeral(rng), 'n*' + numeral(rng), 'n>=' + numeral(rng) + '?' + numeral(rng) + ':0',
        '', ' ', ';', 'EXPRESSION', 'n ' * k,
    ]
    return rng.choice(pool)

def plural_forms(rng):
    r = rng.random()
    n = rng.choice(['0', '1', '2', '3', '4', '6', '7', '99', 'INTEGER', '', '-1', '+2', '2.0', '\u0662']) if r < 0.7 else numeral(rng)
    e = plural_exprs(rng)
    shape = rng.choice(['nplurals={n}; plural={e};', 'nplurals={n}; plural={e}', 'nplurals={n};plural={e};', 'nplurals={n}; plural={e}; junk', 'junk nplurals={n}; plural={e};',
                        'nplurals={n} plural={e};', 'plural={e}; nplurals={n};', 'nplurals={n};', 'plural={e};', 'nplurals={n}; plural={e};;', 'nplurals = {n}; plural = {e};',
                        'nplurals={n};\tplural={e};', 'NPLURALS={n}; PLURAL={e};', 'nplurals={n}; plural={e}; nplurals=2; plural=n!=1;'])
    return shape.format(n=n, e=e)

CODECS = ['UTF-8', 'utf8', 'UTF-7', 'UTF-16', 'UTF-16LE', 'UTF-32', 'ASCII', 'us-ascii', 'ANSI_X3.4-1968', '646', 'ISO-8859-1', 'ISO_8859-1', 'latin1', 'ISO-8859-2', 'ISO-8859-15',
          'ISO-8859-16', 'CP1250', 'windows-1252', 'CP437', 'KOI8-R', 'KOI8-U', 'KOI8-RU', 'KOI8-T', 'VISCII', 'GEORGIAN-PS', 'EUC-TW', 'EUC-JP', 'EUC-KR', 'SHIFT_JIS', 'SJIS', 'BIG5',
          'BIG5-HKSCS', 'GB2312', 'GBK', 'GB18030', 'HZ', 'ISO-2022-JP', 'ISO-2022-KR', 'TIS-620', 'CP874', 'CP932', 'CP949', 'CP950', 'CP1255', 'CP1256', 'CP1258', 'TCVN', 'TCVN5712-1',
          'JOHAB', 'ARMSCII-8', 'MACINTOSH', 'mac-roman', 'PT154', 'RK1048', 'CP037', 'CP500', 'cp1140', 'EBCDIC-US',
          'hex', 'hex_codec', 'base64', 'base_64', 'rot13', 'rot_13', 'zlib', 'zip', 'bz2', 'quopri', 'quoted-printable', 'uu', 'idna', 'punycode', 'unicode_escape', 'unicode-escape',
          'raw_unicode_escape', 'undefined', 'mbcs', 'oem', 'charmap', 'unicode_internal', 'string_escape', 'utf_8_sig', 'utf-8-sig', 'utf8mb4', 'CESU-8', 'UCS-2', 'UCS-4', 'UTF-EBCDIC',
          'CHARSET', 'foobar', '', ' ', 'x' * 300, 'UTF-8 ', 'UTF-8;', 'UTF-8\\n', 'utf\u20138', '\u00fctf-8', 'UTF-8\x00', '../../etc/passwd', '.', '..', '-', '_', '8bit', 'none', 'None',
          'ISO-8859-17', 'ISO-8859-0', 'ISO-8859-' + '1' * 50, 'CP0', 'CP' + '9' * 30, 'latin_1', 'l1', 'iso-ir-6', 'csASCII', 'IBM367']

OWN_CODECS = ['KOI8-RU', 'VISCII', 'GEORGIAN-PS', 'KOI8-T', 'EUC-TW', 'TCVN', 'TCVN5712-1', 'CP1258', 'UTF-7', 'UTF-16', 'UTF-32', 'CP037', 'HZ', 'ISO-2022-JP', 'idna', 'punycode', 'unicode_escape',
              'raw_unicode_escape', 'utf_8_sig', 'koi8-ru', 'viscii', 'georgian-ps', 'Georgian-PS', 'koi8_ru']

def content_type(rng):
    cs = rng.choice(OWN_CODECS) if rng.random() < 0.3 else rng.choice(CODECS)
    return rng.choice(['text/plain; charset={0}', 'text/plain; charset={0}', 'text/plain; charset={0}', 'charset={0}', 'text/plain;charset={0}', 'text/plain; charset="{0}"',
                       'text/html; charset={0}', 'text/plain; charset={0}; format=flowed', 'text/plain', '', 'text/plain; charset=', 'text/plain; charset={0} charset=UTF-8',
                       'TEXT/PLAIN; CHARSET={0}', 'text/plain; charset={0}\\n']).format(cs)

DATES = ['2012-11-01 14:42+0100', '2012-11-01 14:42', '2012-11-01 14:42 +0100', '2012-11-01 14:42:33+0100', '2012-11-01T14:42+0100', '2012-11-01 14:42+01:00', '2012-11-01 14:42Z',
         '2012-11-01 14:42 UTC', '2012-11-01 14:42 CET', '2012-11-01 14:42 EST', '2012-11-01 14:42 IST', '2012-11-01 14:42 XYZ', '2012-11-01 14:42 BST', '2012-11-01 14:42+CET',
         '0000-00-00 00:00+0000', '0000-01-01 00:00+0000', '0001-01-01 00:00+0000', '0001-01-01 00:00+2359', '0001-01-01 00:00+0001', '9999-12-31 23:59-2359', '9999-12-31 23:59-0001',
         '9999-12-31 23:59+0000', '10000-01-01 00:00+0000', '2012-02-29 12:00+0000', '2011-02-29 12:00+0000', '1900-02-29 12:00+0000', '2000-02-29 12:00+0000', '2012-02-30 14:42+0100',
         '2012-13-01 14:42+0100', '2012-00-01 14:42+0100', '2012-11-31 14:42+0100', '2012-11-00 14:42+0100', '2012-11-01 24:00+0100', '2012-11-01 23:60+0100', '2012-11-01 14:42+2400',
         '2012-11-01 14:42+2359', '2012-11-01 14:42-2359', '2012-11-01 14:42+0060', '2012-11-01 14:42+0099', '2012-11-01 14:42-0000', '2012-11-01 14:42+9999', '1995-07-02 00:00+0000',
         '1995-07-01 23:59+0000', '1995-07-02 01:00+0100', '1970-01-01 00:00+0000', '1969-12-31 23:59+0000', '2038-01-19 03:14+0000', '2999-01-01 00:00+0000', 'YEAR-MO-DA HO:MI+ZONE',
         'YEAR-MO-DA HO:MI+DIST', '2012-MO-DA 14:42+0100', '2012-11-01 HO:MI+ZONE', '', ' ', 'x', '2012', '2012-11-01', '14:42+0100', '\u0662\u0660\u0661\u0662-11-01 14:42+0100',
         '2012-11-01 14:42+\u0660\u0661\u0660\u0660', '２０１２-11-01 14:42+0100', '2012-11-01  14:42+0100', '2012-11-01\t14:42+0100', ' 2012-11-01 14:42+0100 ', '2012-11-01 14:42+0100\\n',
         '2012-1-1 1:2+0100', '12-11-01 14:42+0100', '2012-11-01 14:42+010', '2012-11-01 14:42+01000', '+2012-11-01 14:42+0100', '-2012-11-01 14:42+0100', '2012-11-01 14:42+0100 (CET)',
         'Thu, 01 Nov 2012 14:42:00 +0100', '2012-11-01 14:42 ' + 'A' * 300, '9' * 400 + '-11-01 14:42+0100', '2012-11-01 14:42+' + '0' * 400]

LANGS = ['pl', 'pl_PL', 'pl_PL.UTF-8', 'pl_PL.UTF-8@euro', 'pl@euro', 'sr@latin', 'sr_RS@latin', 'ca@valencia', 'en@boldquot', 'en_US@quot', 'pol', 'pol_PL', 'deu', 'ger', 'Polish',
         'polish', 'German', 'Portuguese (Brazil)', 'Chinese (traditional)', 'xx', 'xxx', 'xx_XX', 'pl_XX', 'pl_pl', 'PL', 'Pl_PL', 'pl-PL', 'pl_PL_PL', 'pl_', '_PL', 'pl.', 'pl@', '@', '.', '_',
         '', ' ', 'pl ', ' pl', 'pl\\n', 'C', 'POSIX', 'en', 'en_US', 'zh_CN', 'zh_TW', 'zh_Hant', 'zh-Hans-CN', 'no', 'nb', 'nn', 'tl', 'fil', 'mo', 'ro_MD', 'sh', 'iw', 'he', 'in', 'id', 'ji', 'yi',
         'x-klingon', 'tlh', 'art-lojban', 'und', 'mul', 'zxx', 'qaa', 'aa', 'zu', 'p\u013a', '\u0440\u0443', 'pl\x00', 'p' * 300, 'pl_' + 'P' * 300, 'pl.' + 'x' * 300, 'pl@' + 'x' * 300, 'LL', 'LANGUAGE',
         'None', 'pl_None']

ADDRS = ['(' * 1200, 'A <a@b.c> ' + '(' * 700, '(' * 700 + ')' * 700, 'a@b.c (' + '(x)' * 700, '<' * 1200, '"' * 1201, '[' * 1200, 'a@[' + '[' * 900, '\\\\' * 900, 'a@' + 'b.' * 700 + 'c', '(\\\\' * 700,
         'Jakub Wilk <jwilk@jwilk.net>', 'jwilk@jwilk.net', '<jwilk@jwilk.net>', 'FULL NAME <EMAIL@ADDRESS>', 'EMAIL@ADDRESS', 'LANGUAGE <LL@li.org>', 'Polish <pl@li.org>', 'A <a@b>',
         'A <a@localhost>', 'A <a@example.com>', 'A <a@example.net>', 'A <a@test>', 'A <a@foo.invalid>', 'A <a@foo.local>', 'A <a@foo.onion>', 'A <a@[127.0.0.1]>', 'A <a@127.0.0.1>',
         'A <a@b.>', 'A <a@.b>', 'A <a@b..c>', 'A <@b.c>', 'A <a@>', 'A <@>', 'A <>', '<>', '@', 'A', '', ' ', 'A <a b@c.d>', '"A B" <a@c.d>', 'A (comment) <a@c.d>', 'a@c.d (A)', 'A <a@c.d>, B <b@c.d>',
         'A <a@c.d> B', 'A <<a@c.d>>', 'A <a@c.d', 'A a@c.d>', 'A <a@\u00e4.example>', 'A <\u00e4@example.org>', 'A <a@xn--4ca.example>', 'A <a@EXAMPLE.ORG>', 'A <A@Example.Org>',
         'https://example.org/bugs', 'http://bugs.example.org', 'mailto:a@c.d', 'ftp://x', 'x:', ':', '://', 'https://', 'http://[::1]/', 'http://[', 'https://user:pw@host:99999/', 'file:///etc/passwd',
         'javascript:alert(1)', 'A <a@' + 'x.' * 200 + 'org>', 'A <' + 'a' * 500 + '@c.d>', 'A' * 1000 + ' <a@c.d>', 'A <a@c.d>' + ' ' * 500, '\x1b[31mA <a@c.d>', 'A <a@c.d>\\n', 'A\\tB <a@c.d>',
         '=?utf-8?q?A?= <a@c.d>', 'A <a@c.d>;', ';', ',', 'A <a@c,d>', 'A <a@c;d>', 'undisclosed-recipients:;', 'Group: a@c.d, b@c.d;', '(', ')', '"', '"A', '\\', 'A <a@c.d> (', '[', ']', '<', '>']

PROJECTS = ['Gizmo Enhancer 1.0', 'PACKAGE VERSION', 'PROJECT VERSION', 'PACKAGE', 'VERSION', 'gizmo', '1.0', '', ' ', '1', 'a', '\u0661', '\u00e4 \u0662', 'Gizmo\\n1.0', 'x' * 2000, '1' * 2000, '-', '.', 'v', 'Gizmo v1']

FLAGS = ['fuzzy', 'c-format', 'no-c-format', 'possible-c-format', 'impossible-c-format', 'python-format', 'no-python-format', 'python-brace-format', 'no-python-brace-format', 'perl-brace-format',
         'perl-format', 'sh-format', 'java-format', 'java-printf-format', 'kde-format', 'qt-format', 'boost-format', 'objc-format', 'c++-format', 'gcc-internal-format', 'lua-format',
         'javascript-format', 'elisp-format', 'tcl-format', 'awk-format', 'ycp-format', 'smalltalk-format', 'scheme-format', 'lisp-format', 'librep-format', 'gfc-internal-format', 'php-format',
         'csharp-format', 'object-pascal-format', 'qt-plural-format', 'kde-kuit-format', 'wrap', 'no-wrap', 'markdown-text', 'range: 0..5', 'range: 1..1', 'range: 5..1', 'range: 0..0',
         'range:0..5', 'range: 0 .. 5', 'range: 0..', 'range: ..5', 'range: a..b', 'range: -1..5', 'range: 0..5..9', 'range:', 'range', 'range: 0..4294967296', 'range: 4294967295..4294967296',
         'range: 0..' + '9' * 400, 'range: ' + '0' * 400 + '..1', 'range: 1..2', 'range: 0..1', 'range: 2..3', 'range: 0..200', 'range: 199..201', 'range: 1000..1001', 'range: \u0661..\u0662',
         '', ' ', 'x', 'X-format', 'format', '-format', 'no--format', 'no-', 'possible-', 'impossible-fuzzy', 'no-fuzzy', 'no-wrap-format', 'no-no-c-format', 'c-format ', ' c-format',
         'C-FORMAT', 'c_format', 'c-format\\n', '\u0441-format', 'c-format\x00', 'f' * 500, 'fuzzy\tfuzzy', '%', '{', '#', '#,', 'fuzzy #, c-format']

CFMT = ['%d', '%s', '%', '%%', '%%%', '% d', '%5%', '%-5%', '%1$%', '%1$d', '%1$d %1$s', '%1$d %d', '%2$d', '%2$d %1$s', '%0$d', '%4096$d', '%4097$d', '%2147483648$d', '%*d', '%*1$d', '%1$*2$d',
        '%1$*d', '%*.*d', '%.*d', '%.d', '%.0d', '%.-1d', '%2147483647d', '%2147483648d', '%.2147483647d', '%.2147483648d', '%' + '9' * 400 + 'd', '%.' + '9' * 400 + 'd', '%' + '0' * 4400 + 'd',
        '%' + '1' * 4301 + '$d', '%hhd', '%hhhd', '%lld', '%llld', '%Ld', '%Lf', '%qd', '%jd', '%zd', '%td', '%Zd', '%hs', '%ls', '%lc', '%Lc', '%hc', '%C', '%S', '%n', '%hhn', '%#n', '%5n', '%m',
        '%#m', '%5m', '%1$m', '%a', '%A', '%e', '%g', '%i', '%o', '%u', '%x', '%X', '%p', '%#p', '%0p', '%#d', '%#x', '%0s', "%'d", "%'s", "%'x", '%Id', '%Ix', '%+s', '% s', '%-s', '%--d',
        '%00d', '%+ d', '%-0d', '%<PRId64>', '%<PRIx32>', '%<PRIdMAX>', '%<PRIuPTR>', '%<PRIdLEAST8>', '%<PRIdFAST64>', '%<PRIdFOO>', '%<PRId>', '%<PRIc32>', '%<PRId128>', '%<PRIdFASTMAX>',
        '%#<PRIx64>', '%0*<PRIu32>', '%1$<PRId64> %2$s', '%<', '%<PRI', '%<PRId64', '%<>', '%l<PRId64>', '%v', '%y', '%!', '%\x00', '%\n', '%\u00e4', '%\u0661d', '%d' * 300, '%1$d' * 300,
        ' '.join('%%%d$d' % i for i in range(1, 200)), ' '.join('%%%d$d' % i for i in range(200, 0, -1)), '%1$d %3$d', '%2$s %4$s %6$s', '%s %d %f %c %p %ld %lu %lld %hhd %zu %Lf %ls %lc',
        '%c', '%5c', '%.5c', '%05c', '%lc %c', '%s%%%s', '100%', '100% sure', '%1$s %2$s %3$s', '%3$s %2$s %1$s']

PYFMT = ['%s', '%d', '%r', '%a', '%c', '%i', '%u', '%o', '%x', '%X', '%e', '%E', '%f', '%F', '%g', '%G', '%b', '%%', '%', '%5%', '%(a)%', '%(a)s', '%(a)d', '%(a)s %(a)d', '%(a)s %s', '%s %(a)s',
         '%(a)s %(b)s', '%(b)s %(a)s', '%()s', '%(', '%(a', '%(a)', '%(a))s', '%((a))s', '%((a)s', '%(a(b)c)s', '%(a\x1b[31m)s %(a\x1b[31m)d', '%(\u00e4)s', '%( )s', '%(a b)s', '%(a)(b)s', '%(%)s',
         '%*d', '%*s', '%.*f', '%*.*f', '%(a)*d', '%(a).*f', '%-5s', '%+d', '% d', '%#x', '%05d', '%0s', '%-05d', '%+ d', '%5.3s', '%.3d', '%.s', '%.0s', '%2147483647d', '%2147483648d',
         '%.2147483644d', '%.2147483645d', '%.2147483647s', '%.2147483648s', '%' + '9' * 400 + 'd', '%.' + '9' * 400 + 'f', '%' + '1' * 4301 + 'd', '%ld', '%hd', '%Ld', '%lld', '%hhd', '%zd',
         '%y', '%!', '%\u0661d', '%d' * 300, '%(a)s' * 300, '%s %s %s', '%s %s', '%(a)d %(b)d %(c)d', '%\n', '%\x00', '100%', '%5', '%.', '%-', '%(a)5', '%(a).']

BRACE = ['{}', '{0}', '{1}', '{0} {1}', '{1} {0}', '{} {}', '{} {0}', '{0} {}', '{a}', '{a} {b}', '{0} {foo}', '{foo} {0}', '{0} {a} {1} {b}', '{', '}', '{{', '}}', '{{}}', '{{}', '{}}', '{0', '0}',
         '{0!r}', '{0!s}', '{0!a}', '{0!x}', '{0!}', '{0!rr}', '{!r}', '{0!r:>10}', '{0:d}', '{0:s}', '{0:n}', '{0:f}', '{0:c}', '{0:x}', '{0:b}', '{0:o}', '{0:e}', '{0:g}', '{0:%}', '{0:X}',
         '{0:+c}', '{0:#c}', '{0:,c}', '{0:,x}', '{0:,b}', '{0:_x}', '{0:_d}', '{0:,d}', '{0:,s}', '{0:+s}', '{0:#s}', '{0:0s}', '{0:=s}', '{0:=d}', '{0:.3d}', '{0:.3s}', '{0:.3f}', '{0:5.3}',
         '{0:>10}', '{0:*^10}', '{0:{<10}', '{0:}<10}', '{0:x<10}', '{0:\u00e4^5}', '{0:10.5f}', '{0:010}', '{0:+010.3f}', '{0: d}', '{0:-d}', '{0:z}', '{0:zf}', '{0:10d5}', '{0:dd}', '{0:5 d}',
         '{0:{1}}', '{0:{1}.{2}}', '{0:{}}', '{:{}}', '{0:{1:{2}}}', '{0:{a}}', '{0:{1}d}', '{0:{1!r}}', '{0:{0[}]}}', '{0[0]}', '{0[a]}', '{0[}', '{0[]}', '{0[a]b}', '{0.a}', '{0.}', '{0..a}',
         '{0.a.b[c].d}', '{a.b}', '{a[0]}', '{a[{]}', '{a[}]}', '{a]}', '{.a}', '{[0]}', '{0 }', '{ 0}', '{0\n}', '{a b}', '{a-b}', '{\u00e4}', '{\u00b2}', '{\u0661}', '{\uff11}', '{1\u0661}', '{00}',
         '{01}', '{-1}', '{+1}', '{1.0}', '{1e3}', '{0x1}', '{' + '9' * 400 + '}', '{' + '1' * 4301 + '}', '{0:' + '9' * 400 + '}', '{0:.' + '9' * 400 + '}', '{0:' + '1' * 4301 + 'd}', '{2147483647}',
         '{2147483648}', '{9223372036854775807}', '{9223372036854775808}', '{0:2147483647}', '{0:2147483648}', '{0:.2147483648}', '{:' + 'a' * 12, '{:' + 'a' * 40, '{:' + 'a' * 4000, '{0:' + '{' * 30,
         '{' * 50, '}' * 50, '{}' * 300, '{0}' * 300, ' '.join('{%d}' % i for i in range(200)), '{a!r:{b}}', '{0!r:{1}}{2!s}', '{0:\x00}', '{\x00}', '{0:\n}', '{:}', '{!}', '{:!}', '{!:}', '{0:!r}']

PERL = ['{a}', '{a} {b}', '{b} {a}', '{a} {a}', '{', '}', '{{', '}}', '{}', '{a', 'a}', '{1}', '{1a}', '{a1}', '{_}', '{_a}', '{a_b}', '{a b}', '{a-b}', '{a.b}', '{ a}', '{a }', '{\u00e4}', '{\u00b2}',
        '{\u0661}', '{a\u0661}', '{a{b}}', '{{a}}', '{a}{', '}{a}', '{a}' * 300, '{' + 'a' * 4000 + '}', '{' * 4000, '{a\n}', '{\x00}', '{A}', '{aA0_}']

XMLS = ['+2AA-', '<a>+2AA-</a>', '<a>+2ADcAA-</a>', '\\udc80', '<a b="+2AA-"/>', '<a>&#xD800;</a>', '<a>\x85</a>', '<a>\u2028</a>', '<a>x</a>', '<a>', '</a>', '<a></b>', '<a/>', '<a', 'a>', '&amp;', '&foo;', '&', '&#0;', '&#x110000;', '&#65;', '<!-- x -->', '<!-- -- -->', '<![CDATA[x]]>', ']]>', '<?xml version="1.0"?>', '<?pi?>',
        '<!DOCTYPE a [<!ENTITY e "x">]>', '<a b="c"/>', '<a b=c/>', '<a b="c" b="d"/>', '<a:b/>', '<xml:a/>', '<\u00e4/>', '<1/>', '<a>' * 3000 + '</a>' * 3000, '<a>' * 3000, '<a x="' + 'y' * 5000 + '"/>',
        '\x00', '\x0b', '\ud800', '\ufffe', 'x' * 5000, '<a>&lt;</a>', '<a>\x1b</a>']

TEXTS = ['+2AA-', '+2AA', '+AGEAYgBj-', '+-', '+', 'xn--a', '.xn--a', 'a.xn--', '\\u00e4', '\\ud800', '\\N{BELL}', '\\x', '\\U0010ffff', '\\U00110000', '~{', '~{ab', '\x1b$B', '\x1b$B!!', '\x0e', '', ' ', '\n', '\n\n', 'a', 'a\n', '\na', '\na\n', 'a\r\n', 'a\r', '\ta', 'a\t', '\x00', 'a\x00b', '\x07', '\x1b[31mred', '\x7f', '\x9b31m', '\u202e', '\u200b', '\ufeff', '\ufffd', '\ufffe', '\uffff',
         '\ud800', '\udc80', 'a\u00bfb', '\u00bf', '<<<<<<< HEAD', '=======', '>>>>>>> x', '#-#-#-#-#  a.po  #-#-#-#-#', '#-#-#-#-#  a.po  #-#-#-#-#\nx', 'x' * 20000, '\n' * 2000, '\\', '\\\\', '"', '\\"',
         '\U0001f600', '\U0010ffff', 'a\u0301', '\u0130', '\u00df', 'SS', '\u017f', '\ufb01']

PO_SHAPES = [  # raw PO fragments appended after the header: lexical and structural oddities
    'msgid "a"\nmsgstr "b"\n', 'msgid "a"\nmsgstr "b"', 'msgid "a"\n', 'msgstr "b"\n', 'msgid "a"\nmsgid "b"\nmsgstr "c"\n', 'msgid "a"\nmsgstr "b"\nmsgstr "c"\n', 'msgid\nmsgstr ""\n', 'msgid "a\nmsgstr "b"\n',
    'msgid a\nmsgstr b\n', 'msgid "a" "b"\nmsgstr "c"\n', 'msgid "a"x\nmsgstr "c"\n', 'msgid "a\\"\nmsgstr "c"\n', 'msgid "a\\\\"\nmsgstr "c"\n', 'msgid "\\x"\nmsgstr "c"\n', 'msgid "\\x4"\nmsgstr "c"\n',
    'msgid "\\x41\\x42"\nmsgstr "\\101\\102"\n', 'msgid "\\777"\nmsgstr "\\400"\n', 'msgid "\\8"\nmsgstr "\\9"\n', 'msgid "\\q"\nmsgstr "\\z"\n', 'msgid "\\xff"\nmsgstr "\\377"\n', 'msgid "\\xc4\\x85"\nmsgstr "\\304\\205"\n',
    'msgid "\\xc4"\nmsgstr "\\x85"\n', 'msgid "\\u0105"\nmsgstr "\\N{BELL}"\n', 'msgid "\\\n"\nmsgstr ""\n', 'msgid ""\n"a"\n"b"\nmsgstr ""\n"c"\n', '"stray"\n', 'msgid "a"\n"b\nmsgstr "c"\n',
    'msgctxt "c"\nmsgid "a"\nmsgstr "b"\n', 'msgctxt "c"\nmsgstr "b"\n', 'msgctxt "c"\nmsgctxt "d"\nmsgid "a"\nmsgstr "b"\n', 'msgid "a"\nmsgctxt "c"\nmsgstr "b"\n',
    'msgid "a"\nmsgid_plural "as"\nmsgstr[0] "b"\nmsgstr[1] "c"\n', 'msgid "a"\nmsgid_plural "as"\nmsgstr "b"\n', 'msgid "a"\nmsgstr[0] "b"\n', 'msgid "a"\nmsgid_plural "as"\nmsgstr[1] "c"\n',
    'msgid "a"\nmsgid_plural "as"\nmsgstr[0] "b"\nmsgstr[0] "c"\n', 'msgid "a"\nmsgid_plural "as"\nmsgstr[10] "b"\n', 'msgid "a"\nmsgid_plural "as"\nmsgstr[9] "b"\n', 'msgid "a"\nmsgid_plural "as"\nmsgstr[-1] "b"\n',
    'msgid "a"\nmsgid_plural "as"\nmsgstr[x] "b"\n', 'msgid "a"\nmsgid_plural "as"\nmsgstr[] "b"\n', 'msgid "a"\nmsgid_plural "as"\nmsgstr[0 "b"\n', 'msgid "a"\nmsgid_plural "as"\nmsgstr[\u0661] "b"\n',
    'msgid "a"\nmsgid_plural "as"\nmsgstr[0] "b"\nmsgstr[2] "c"\n', 'msgid "a"\nmsgid_plural "as"\nmsgid_plural "at"\nmsgstr[0] "b"\n', 'msgid_plural "as"\nmsgstr[0] "b"\n',
    '#~ msgid "a"\n#~ msgstr "b"\n', '#~ msgid "a"\n', '#~ msgstr "b"\n', '#~ msgid "a"\nmsgstr "b"\n', 'msgid "a"\n#~ msgstr "b"\n', '#~| msgid "old"\n#~ msgid "a"\n#~ msgstr "b"\n', '#~ "x"\n', '#~\n', '#~ \n', '#~x\n',
    '#| msgid "old"\nmsgid "a"\nmsgstr "b"\n', '#, fuzzy\n#| msgid "old"\nmsgid "a"\nmsgstr "b"\n', '#| msgctxt "c"\n#| msgid "old"\n#| msgid_plural "olds"\nmsgid "a"\nmsgstr "b"\n', '#| msgid "old\nmsgid "a"\nmsgstr "b"\n',
    '#| x "y"\nmsgid "a"\nmsgstr "b"\n', '#| \x1b[31mmsgid "x"\nmsgid "a"\nmsgstr "b"\n', '#|\nmsgid "a"\nmsgstr "b"\n', '#| msgid\nmsgid "a"\nmsgstr "b"\n', '#| msgstr "old"\nmsgid "a"\nmsgstr "b"\n',
    '#. \n#: \n#, \nmsgid "a"\nmsgstr "b"\n', '#.\n#:\n#,\n#|\nmsgid "a"\nmsgstr "b"\n', '#: a.c:1 b.c:2\n#: c.c\n#: :\n#: a:b:c\n#: a.c:\u0661\nmsgid "a"\nmsgstr "b"\n', '#:a.c:1\nmsgid "a"\nmsgstr "b"\n',
    '#,fuzzy\nmsgid "a"\nmsgstr "b"\n', '#, fuzzy\n#, c-format\nmsgid "a"\nmsgstr "b"\n', '#!\n#@\n#x\n##\n#\n# \n#\t\nmsgid "a"\nmsgstr "b"\n', 'msgid "a"\nmsgstr "b"\n#. trailing\n', 'msgid "a"\nmsgstr "b"\n#~|\n',
    'msgid "a"\nmsgstr "b"\n#,\n', 'msgid "a"\nmsgstr "b"\n#: x\n', 'msgid "a"\nmsgstr "b"\n# x\n', 'msgid "a"\nmsgstr "b"\n\n\n\n', '\n\n\nmsgid "a"\n\n\nmsgstr "b"\n', 'msgid "a"\r\nmsgstr "b"\r\n', 'msgid "a"\rmsgstr "b"\r',
    'msgid "a"\x0bmsgstr "b"\n', 'msgid "a"\x0cmsgstr "b"\n', 'msgid "a"\x1cmsgstr "b"\n', 'msgid "a"\x85msgstr "b"\n', 'msgid "a"\u2028msgstr "b"\n', 'msgid\t"a"\nmsgstr\t"b"\n', 'msgid  "a"\nmsgstr  "b"\n',
    ' msgid "a"\n msgstr "b"\n', 'MSGID "a"\nMSGSTR "b"\n', 'msgid"a"\nmsgstr"b"\n', 'domain "x"\nmsgid "a"\nmsgstr "b"\n', 'msgid "a"\nmsgstr "b"\nmsgid "a"\nmsgstr "c"\n', 'msgid ""\nmsgstr "second header"\n',
    'msgctxt ""\nmsgid ""\nmsgstr "x"\n', 'msgctxt "c"\nmsgid ""\nmsgstr "x"\n', '#~ msgid ""\n#~ msgstr "Project-Id-Version: old\\n"\n', 'msgid ""\nmsgid_plural ""\nmsgstr[0] ""\n',
    '\ufeffmsgid "a"\nmsgstr "b"\n', 'msgid "' + 'a' * 70000 + '"\nmsgstr "b"\n', 'msgid ""\n' + '"a"\n' * 5000 + 'msgstr "b"\n', ('msgid "m%d"\nmsgstr "t%d"\n\n' * 1).replace('%d', '1') * 1,
]

def fmt_string(rng, kind):
    pool = {'c': CFMT, 'python': PYFMT, 'python-brace': BRACE, 'perl-brace': PERL}[kind]
    s = rng.choice(pool)
    r = rng.random()
    if r < 0.15:
        s = s + ' ' + rng.choice(pool)
    elif r < 0.2:
        s = CAT.mutate_bytes(rng, s.encode('utf-8', 'surrogatepass')).decode('utf-8', 'replace')
    return s

def po_q(s):
    out = []
    for ch in s:
        if ch == '\\': out.append('\\\\')
        elif ch == '"': out.append('\\"')
        elif ch == '\n': out.append('\\n')
        elif ch == '\t': out.append('\\t')
        elif ch == '\r': out.append('\\r')
        else: out.append(ch)
    return '"' + ''.join(out) + '"'

def po_kw(keyword, s, rng):
    if '\n' in s[:-1] and rng.random() < 0.7:
        parts = s.split('\n')
        lines = [p + '\n' for p in parts[:-1]] + ([parts[-1]] if parts[-1] else [])
        return keyword + ' ""\n' + ''.join(po_q(l) + '\n' for l in lines)
    return keyword + ' ' + po_q(s) + '\n'

HEADER_SLOTS = {
    'Project-Id-Version': lambda rng: rng.choice(PROJECTS),
    'Report-Msgid-Bugs-To': lambda rng: rng.choice(ADDRS),
    'POT-Creation-Date': lambda rng: rng.choice(DATES),
    'PO-Revision-Date': lambda rng: rng.choice(DATES),
    'Last-Translator': lambda rng: rng.choice(ADDRS),
    'Language-Team': lambda rng: rng.choice(ADDRS),
    'Language': lambda rng: rng.choice(LANGS),
    'MIME-Version': lambda rng: rng.choice(['1.0', '1.1', '', '1', '1.0 ', '\u0661.0', '1.0\\n', 'x' * 500]),
    'Content-Type': content_type,
    'Content-Transfer-Encoding': lambda rng: rng.choice(['8bit', '7bit', 'ENCODING', 'binary', 'base64', 'quoted-printable', '', '8BIT', '8bit ', 'x' * 500]),
    'Plural-Forms': plural_forms,
    'X-Poedit-Language': lambda rng: rng.choice(LANGS + ['Polish', 'polish', 'Portuguese', 'Klingon']),
    'X-Poedit-Country': lambda rng: rng.choice(['POLAND', 'Poland', 'BRAZIL', 'XX', '', 'UNITED STATES', 'x' * 300]),
}

def gen_header_fields(rng, hostile_p=0.35):
    fields = []
    for k, v in CAT.GOOD_HEADER:
        r = rng.random()
        if r < hostile_p:
            v = HEADER_SLOTS[k](rng)
        elif r < hostile_p + 0.06:
            continue
        fields.append((k, v))
        if rng.random() < 0.05:
            fields.append((k, HEADER_SLOTS[k](rng) if rng.random() < 0.7 else v))
    for _ in range(rng.choice([0, 0, 0, 1, 2])):
        k = rng.choice(['X-Poedit-Language', 'X-Poedit-Country', 'X-Generator', 'Generated-By', 'Foo', 'X-Foo', 'x-foo', 'project-id-version', 'Language ', ' Language', 'Lang\u00fcage', 'A' * 300, '',
                        'X-Language', 'X-Source-Language', 'X-Is-Fallback-For', 'X-Launchpad-Export-Date', 'X-Poedit-SourceCharset', 'X-Poedit-Basepath', 'X-POOTLE-MTIME', 'X-Qt-Contexts'])
        v = HEADER_SLOTS[k](rng) if k in HEADER_SLOTS else rng.choice(TEXTS + ['vi', 'bar'])
        fields.insert(rng.randrange(len(fields) + 1), (k, v))
    if rng.random() < 0.08:
        fields.insert(rng.randrange(len(fields) + 1), (None, rng.choice(['stray line', '#-#-#-#-#  x.po  #-#-#-#-#', ': novalue', 'Bad Field: x', ':', '::', ' : ', 'a\tb: c', '\x1b: x', 'X-\x1b: y'])))
    if rng.random() < 0.1:
        rng.shuffle(fields)
    return fields

def header_text(fields):
    return ''.join((f'{k}: {v}\n' if k is not None else v + '\n') for k, v in fields)

def gen_message(rng):
    """→ PO text of one message"""
    r = rng.random()
    out = ''
    flags = []
    kind = None
    if r < 0.55:
        kind = rng.choice(['c', 'python', 'python-brace', 'perl-brace'])
        flags.append(kind + '-format')
        if rng.random() < 0.1:
            flags.append(rng.choice(['c', 'python', 'python-brace', 'perl-brace']) + '-format')
    if rng.random() < 0.35:
        flags += [rng.choice(FLAGS) for _ in range(rng.choice([1, 1, 2, 3]))]
    if rng.random() < 0.1:
        flags.append('fuzzy')
    rng.shuffle(flags)
    def text():
        if kind is not None and rng.random() < 0.9:
            return fmt_string(rng, kind)
        return rng.choice(TEXTS) if rng.random() < 0.5 else rng.choice(['A quick brown fox', 'Hello\n', '%d file', '{0} files'])
    if rng.random() < 0.12:
        out += '#. ' + rng.choice(['type: Content of: <para>', 'type: Content of: <a><b>', 'type: Content of: ', 'type: Content of: <\x1b>', 'type: Attribute x of: <y>', 'TRANSLATORS: hi', '']) + '\n'
        xml = True
    else:
        xml = False
    if rng.random() < 0.15:
        out += '#: ' + rng.choice(['src/a.c:12', 'a b c', ':', 'a.c:' + '9' * 50, '\x1b[31m']) + '\n'
    if flags:
        sep = rng.choice([', ', ',', ' , ', ',\t', ', ,'])
        out += '#, ' + sep.join(flags) + '\n'
    if rng.random() < 0.06:
        out += '#| msgid ' + po_q(text()) + '\n'
    obsolete = '#~ ' if rng.random() < 0.05 else ''
    if rng.random() < 0.2:
        out += obsolete + po_kw('msgctxt', rng.choice(TEXTS[:30] + ['menu', 'ctx']), rng)
    msgid = text()
    out += obsolete + po_kw('msgid', msgid, rng)
    if rng.random() < 0.3:
        out += obsolete + po_kw('msgid_plural', text(), rng)
        n = rng.choice([0, 1, 2, 3, 3, 4, 7])
        idx = list(range(n))
        if rng.random() < 0.05 and idx:
            idx[rng.randrange(len(idx))] = rng.choice([9, 5, 0])
        for i in idx:
            s = rng.choice(XMLS) if xml and rng.random() < 0.5 else (msgid if rng.random() < 0.3 else text())
            out += obsolete + po_kw('msgstr[%d]' % i, s if rng.random() < 0.85 else '', rng)
    else:
        s = rng.choice(XMLS) if xml and rng.random() < 0.6 else (msgid if rng.random() < 0.3 else text())
        out += obsolete + po_kw('msgstr', s if rng.random() < 0.9 else '', rng)
    return out + '\n'

def gen_po_text(rng):
    """→ (text, ext)"""
    template = rng.random() < 0.12
    out = ''
    if rng.random() < 0.15:
        out += rng.choice(["# SOME DESCRIPTIVE TITLE.\n# Copyright (C) YEAR THE PACKAGE'S COPYRIGHT HOLDER\n# This file is distributed under the same license as the PACKAGE package.\n# FIRST AUTHOR <EMAIL@ADDRESS>, YEAR.\n#\n",
                           '# Polish translation\n# Copyright (C) 2012 Jakub Wilk\n#\n', '#\n' * 50, '# ' + 'x' * 5000 + '\n', '# <EMAIL@ADDRESS>, YEAR\n', '# \x1b[31m FIRST AUTHOR\n', '#' + '\u00e4' * 10 + '\n'])
    r = rng.random()
    if r < 0.9:
        hflags = rng.choice([[], [], [], ['fuzzy'], ['fuzzy', 'c-format'], [rng.choice(FLAGS)], ['fuzzy', 'fuzzy'], ['fuzy']])
        if hflags:
            out += '#, ' + ', '.join(hflags) + '\n'
        if rng.random() < 0.04:
            out += '#: src/a.c:1\n'
        hdr = header_text(gen_header_fields(rng))
        if rng.random() < 0.04:
            out += 'msgid ""\nmsgid_plural ""\n' + po_kw('msgstr[0]', hdr, rng) + '\n'
        else:
            out += 'msgid ""\n' + po_kw('msgstr', hdr, rng) + '\n'
    r = rng.random()
    if r < 0.25:
        out += rng.choice(PO_SHAPES) + '\n'
    n = rng.choice([0, 0, 1, 1, 2, 3, 5])
    for _ in range(n):
        out += gen_message(rng)
    if rng.random() < 0.1:
        out += rng.choice(PO_SHAPES)
    if rng.random() < 0.04 and r >= 0.25:
        # header not first
        out = gen_message(rng) + out
    return out, ('.pot' if template else '.po')

import re as _re
_CHARSET_RE = _re.compile(r'charset=([^\s;"\\]+)')

# codecs whose byte form of ASCII text is not ASCII (or not even text): a header declared in one of them can only be read if the
# whole file is in it — or, more interestingly, if only the part after the header is
WIDE_CODECS = ['utf-16', 'utf-16le', 'utf-16be', 'utf-32', 'utf-7', 'cp037', 'cp500', 'cp1140', 'utf-8-sig', 'hz', 'iso2022_jp', 'iso2022_kr',
               'unicode_escape', 'raw_unicode_escape', 'punycode', 'idna', 'koi8-ru', 'viscii', 'georgian-ps', 'koi8-t', 'euc-tw', 'tcvn', 'big5hkscs', 'shift_jis', 'gb18030']

def encode_declared(rng, text):
    """the text in the charset its own header declares, when Python (or the harness's copy of the tool's codecs) can encode it"""
    m = _CHARSET_RE.search(text)
    if not m:
        return None
    try:
        return text.encode(m.group(1), 'replace')
    except Exception:
        return None

def encode_po(rng, text):
    """bytes of a PO text: mostly UTF-8, sometimes the declared charset or a wrong one, sometimes byte-mutated"""
    r = rng.random()
    if r < 0.62:
        b = text.encode('utf-8', 'surrogatepass')
    elif r < 0.72:
        b = encode_declared(rng, text)
        if b is None:
            b = text.encode('utf-8', 'surrogatepass')
    elif r < 0.75:
        # ASCII header, body in a wide / stateful codec (what a careless conversion produces)
        cut = text.find('\n\n')
        enc = rng.choice(WIDE_CODECS)
        try:
            b = text[:cut + 2].encode('utf-8', 'replace') + text[cut + 2:].encode(enc, 'replace')
        except Exception:
            b = text.encode('utf-8', 'surrogatepass')
    elif r < 0.85:
        b = text.encode('iso-8859-2', 'replace')
    elif r < 0.9:
        b = text.encode('utf-16', 'surrogatepass')
    else:
        b = text.encode('utf-8', 'surrogatepass')
        b = CAT.mutate_bytes(rng, b)
    if rng.random() < 0.03:
        b = b'\xef\xbb\xbf' + b
    if rng.random() < 0.03:
        b = b.replace(b'\n', b'\r\n')
    return b

def mo_file(rng, text_po=None):
    """an MO file: compiled (in Python) from generated strings, with hostile header values, sometimes corrupted"""
    from . import mo as MO
    ents = {}
    hdr = header_text(gen_header_fields(rng, hostile_p=0.3))
    ents[b''] = (None, b'', None, [hdr.encode('utf-8', 'surrogatepass')])
    for _ in range(rng.choice([0, 1, 2, 4])):
        kind = rng.choice(['c', 'python', 'python-brace', 'perl-brace', None])
        a = (fmt_string(rng, kind) if kind else rng.choice(TEXTS)).replace('\x00', '').replace('\x04', '')
        b = (fmt_string(rng, kind) if kind else rng.choice(TEXTS)).replace('\x00', '')
        ctxt = rng.choice([None, None, 'menu', '\x1b'])
        a8 = a.encode('utf-8', 'surrogatepass'); b8 = b.encode('utf-8', 'surrogatepass')
        if rng.random() < 0.3:
            pl = (a + 's').encode('utf-8', 'surrogatepass')
            forms = [b8] * rng.choice([1, 2, 3, 4])
            e = (ctxt.encode() if ctxt else None, a8, pl, forms)
        else:
            e = (ctxt.encode() if ctxt else None, a8, None, [b8])
        ents[MO.key_of(e).split(b'\x00')[0]] = e
    cat = [ents[k] for k in sorted(ents)]
    data = MO.serialize(cat, MO.gen_layout(rng), rng)
    r = rng.random()
    if r < 0.25:
        data = CAT.mutate_bytes(rng, data)
    elif r < 0.35:
        data = data[:rng.randrange(len(data) + 1)]
    elif r < 0.45:
        pos = MO.word_positions(data)
        if pos:
            at = rng.choice(pos)
            data = MO.set_word(data, at, rng.choice(MO.boundary_values(data, at)))
    return data

def gen_file(rng):
    """→ (bytes, extension, description)"""
    r = rng.random()
    if r < 0.72:
        text, ext = gen_po_text(rng)
        return encode_po(rng, text), ext, 'po'
    if r < 0.92:
        return mo_file(rng), rng.choice(['.mo', '.gmo']), 'mo'
    if r < 0.96:
        n = rng.choice([0, 1, 3, 4, 5, 20, 28, 64, 300])
        head = rng.choice([b'', b'\xde\x12\x04\x95', b'\x95\x04\x12\xde', b'msgid', b'\xef\xbb\xbf', b'\x00' * 4])
        return head + bytes(rng.randrange(256) for _ in range(n)), rng.choice(['.po', '.pot', '.mo', '.gmo']), 'random-bytes'
    text, ext = gen_po_text(rng)
    return encode_po(rng, text), rng.choice(['.txt', '', '.PO', '.po~', '.mo.bak', '.deb', '.dsc']), 'other-extension'

# ----------------------------------------------------------------------------- size-parameterised families (timing)

def _wrap(msgs, plural_forms='nplurals=3; plural=n==1 ? 0 : n%10>=2 && n%10<=4 && (n%100<10 || n%100>=20) ? 1 : 2;', extra_fields=''):
    hdr = ''.join(f'{k}: {v}\n' for k, v in CAT.GOOD_HEADER if k != 'Plural-Forms') + f'Plural-Forms: {plural_forms}\n' + extra_fields
    rng = random.Random(0)
    return ('msgid ""\n' + po_kw('msgstr', hdr, rng) + '\n' + msgs).encode('utf-8', 'surrogatepass')

def _msg(flag, msgid, msgstr):
    rng = random.Random(0)
    return (('#, ' + flag + '\n') if flag else '') + po_kw('msgid', msgid, rng) + po_kw('msgstr', msgstr, rng) + '\n'

TIMING_FAMILIES = {
    # name: (function N -> bytes, extension, base N)
    'pybrace-unclosed-spec': (lambda n: _wrap(_msg('python-brace-format', '{:' + 'a' * n, 'x')), '.po', 12),
    'pybrace-open-braces': (lambda n: _wrap(_msg('python-brace-format', '{0:' + '{' * n, 'x')), '.po', 2000),
    'pybrace-many-fields': (lambda n: _wrap(_msg('python-brace-format', ' '.join('{%d}' % i for i in range(n)), ' '.join('{%d}' % i for i in range(n - 1, -1, -1)))), '.po', 1500),
    'pybrace-index-brackets': (lambda n: _wrap(_msg('python-brace-format', '{0' + '[a]' * n + '}', '{0' + '[' * n)), '.po', 2000),
    'perlbrace-open': (lambda n: _wrap(_msg('perl-brace-format', '{' * n, '{a' * n)), '.po', 4000),
    'c-many-numbered': (lambda n: _wrap(_msg('c-format', ' '.join('%%%d$d' % i for i in range(1, min(n, 4096) + 1)), ' '.join('%%%d$d' % i for i in range(min(n, 4096), 0, -1)))), '.po', 1000),
    'c-percent-run': (lambda n: _wrap(_msg('c-format', '%' * n, '% ' * n)), '.po', 4000),
    'c-flags-run': (lambda n: _wrap(_msg('c-format', '%' + '-' * n + 'd', '%' + '0' * n + 'd')), '.po', 4000),
    'c-long-numeral': (lambda n: _wrap(_msg('c-format', '%' + '1' * n + 'd %.' + '0' * n + '1d', '%' + '9' * n + '$d')), '.po', 4000),
    'python-many-keys': (lambda n: _wrap(_msg('python-format', ' '.join('%%(k%d)s' % i for i in range(n)), ' '.join('%%(k%d)d' % i for i in range(n)))), '.po', 1000),
    'python-open-key': (lambda n: _wrap(_msg('python-format', '%(' + '(' * n, '%(' + 'a' * n)), '.po', 4000),
    'plural-long-numeral': (lambda n: _wrap('', plural_forms='nplurals=' + '1' * n + '; plural=n != ' + '9' * n + ';'), '.po', 4000),
    'plural-long-chain': (lambda n: _wrap(_msg('', 'a', 'b'), plural_forms='nplurals=2; plural=' + '(n+1)%3*' * min(n, 140) + 'n' + ' ' * n + ';'), '.po', 4000),
    'plural-junk': (lambda n: _wrap('', plural_forms='x' * n + 'nplurals=2; plural=n>1;' + 'y' * n), '.po', 4000),
    'plural-many-decls': (lambda n: _wrap('', plural_forms='nplurals=2; plural=n>1; ' * n), '.po', 1000),
    'many-messages': (lambda n: _wrap(''.join(_msg('c-format', 'm%d %%s' % i, 't%d %%s' % i) for i in range(n))), '.po', 500),
    'many-duplicates': (lambda n: _wrap(_msg('', 'same', 'x') * n), '.po', 500),
    'many-header-fields': (lambda n: _wrap('', extra_fields=''.join('X-F%d: v\n' % i for i in range(n))), '.po', 1000),
    'many-dup-header-fields': (lambda n: _wrap('', extra_fields='Language: pl\nX-Foo: bar\nFoo: bar\n' * n), '.po', 500),
    'many-flags': (lambda n: _wrap(_msg(', '.join(['c-format', 'no-c-format', 'fuzzy', 'wrap', 'no-wrap', 'range: 0..%d' % n] * n), 'a', 'b')), '.po', 500),
    'long-flag': (lambda n: _wrap(_msg('range: ' + '0' * n + '..' + '9' * n, 'a', 'b')), '.po', 4000),
    'long-msgid': (lambda n: _wrap(_msg('', 'a' * n, 'b' * n + '\n')), '.po', 8000),
    'long-unusual': (lambda n: _wrap(_msg('', 'a', '\x07\x1b' * n)), '.po', 2000),
    'conflict-markers': (lambda n: _wrap(_msg('', 'a', '#-#-#-#-#  a.po  #-#-#-#-#\nx\n' * n)), '.po', 1000),
    'escapes': (lambda n: _wrap('msgid "' + '\\\\' * n + '"\nmsgstr "' + '\\x41\\101\\n' * n + '"\n'), '.po', 4000),
    'continuation-lines': (lambda n: _wrap('msgid ""\n' + '"a"\n' * n + 'msgstr ""\n' + '"b"\n' * n), '.po', 2000),
    'comment-lines': (lambda n: ('# FIRST AUTHOR <EMAIL@ADDRESS>, YEAR.\n' * n).encode() + _wrap(_msg('', 'a', 'b')), '.po', 1000),
    'odd-comments': (lambda n: _wrap(('#!x\n#~|\n#.\n' * n) + _msg('', 'a', 'b')), '.po', 1000),
    'xml-deep': (lambda n: _wrap('#. type: Content of: <para>\n' + _msg('', '<a>' * n + '</a>' * n, '<b>' * n + '</b>' * n)), '.pot', 1000),
    'xml-attrs': (lambda n: _wrap('#. type: Content of: <para>\n' + _msg('', '<a ' + ' '.join('x%d="y"' % i for i in range(n)) + '/>', '<a>' + '&amp;' * n + '</a>')), '.po', 1000),
    'address-dots': (lambda n: _wrap('', extra_fields='').replace(b'jwilk@jwilk.net>', b'jwilk@' + b'x.' * n + b'net>'), '.po', 2000),
    'address-spaces': (lambda n: _wrap('').replace(b'Jakub Wilk <jwilk@jwilk.net>', b'Jakub ' + b' ' * n + b'Wilk <jwilk@jwilk.net> ' + b'(' * n), '.po', 2000),
    'date-junk': (lambda n: _wrap('').replace(b'2012-11-01 14:42+0100', b'2012-11-01 14:42+0100' + b' ' * n + b'x'), '.po', 4000),
    'language-junk': (lambda n: _wrap('').replace(b'Language: pl', b'Language: pl_' + b'P' * n + b'@' + b'x' * n), '.po', 4000),
    'charset-junk': (lambda n: _wrap('').replace(b'charset=UTF-8', b'charset=' + b'x' * n), '.po', 4000),
    'project-junk': (lambda n: _wrap('').replace(b'Gizmo Enhancer 1.0', b'\xc3\xa4' * n), '.po', 4000),
    'invalid-utf8': (lambda n: _wrap(_msg('', 'a', 'b')) + b'msgid "x"\nmsgstr "' + b'\xff\xfe' * n + b'"\n', '.po', 4000),
    'mo-many-entries': (lambda n: _mo_n(n), '.mo', 500),
    'mo-long-string': (lambda n: _mo_long(n), '.mo', 8000),
}

def _mo_simple(entries):
    """plain little-endian MO of sorted (key, value) byte pairs"""
    entries = sorted(entries)
    n = len(entries)
    ko, to = 28, 28 + 8 * n
    pool = to + 8 * n
    kd, vd, blob = [], [], b''
    for k, _ in entries:
        kd.append((len(k), pool + len(blob))); blob += k + b'\x00'
    for _, v in entries:
        vd.append((len(v), pool + len(blob))); blob += v + b'\x00'
    out = struct.pack('<7I', 0x950412de, 0, n, ko, to, 0, 0)
    out += b''.join(struct.pack('<2I', *d) for d in kd) + b''.join(struct.pack('<2I', *d) for d in vd) + blob
    return out

def _hdr_bytes():
    return ''.join(f'{k}: {v}\n' for k, v in CAT.GOOD_HEADER).encode()

def _mo_n(n):
    return _mo_simple([(b'', _hdr_bytes())] + [(b'm%06d %%s' % i, b't%d %%s' % i) for i in range(n)])

def _mo_long(n):
    return _mo_simple([(b'', _hdr_bytes()), (b'a' * n, b'b' * n + b'\n'), (b'c\x00cs', b'\x00'.join([b'd' * n] * 3))])

# ----------------------------------------------------------------------------- one string in every slot

def slot_files(pump):
    """the string `pump` placed in every sub-language slot of a PO file and of an MO file → [(slot, bytes, extension)]"""
    res = []
    for flag in ('c-format', 'python-format', 'python-brace-format', 'perl-brace-format'):
        res.append(('msgid:' + flag, _wrap(_msg(flag, pump, 'x')), '.po'))
        res.append(('msgstr:' + flag, _wrap(_msg(flag, 'x', pump)), '.po'))
    res.append(('msgid', _wrap(_msg('', pump, 'x')), '.po'))
    res.append(('msgstr', _wrap(_msg('', 'x', pump)), '.po'))
    res.append(('msgctxt', _wrap('msgctxt ' + po_q(pump) + '\n' + _msg('', 'a', 'b')), '.po'))
    res.append(('flags', _wrap(_msg(pump.replace('\n', ' '), 'a', 'b')), '.po'))
    res.append(('range-flag', _wrap(_msg('range: ' + pump.replace('\n', ' '), 'a', 'b')), '.po'))
    res.append(('extracted-comment', _wrap('#. ' + pump.replace('\n', ' ') + '\n' + _msg('', '<a>x</a>', '<a>y</a>')), '.po'))
    res.append(('translator-comment', ('# ' + pump.replace('\n', '\n# ') + '\n').encode('utf-8', 'surrogatepass') + _wrap(_msg('', 'a', 'b')), '.po'))
    res.append(('xml-msgstr', _wrap('#. type: Content of: <para>\n' + _msg('', '<a>x</a>', pump)), '.po'))
    res.append(('previous-msgid', _wrap('#| msgid ' + po_q(pump) + '\n' + _msg('fuzzy', 'a', 'b')), '.po'))
    res.append(('raw-line', _wrap(pump + '\n' + _msg('', 'a', 'b')), '.po'))
    res.append(('plural-expression', _wrap(_msg('', 'a', 'b'), plural_forms='nplurals=2; plural=' + pump.replace(';', ',').replace('\n', ' ') + ';'), '.po'))
    res.append(('plural-forms', _wrap(_msg('', 'a', 'b'), plural_forms=pump.replace('\n', ' ')), '.po'))
    good = dict(CAT.GOOD_HEADER)
    for field in ('Project-Id-Version', 'Report-Msgid-Bugs-To', 'POT-Creation-Date', 'PO-Revision-Date', 'Last-Translator', 'Language-Team', 'Language',
                  'MIME-Version', 'Content-Type', 'Content-Transfer-Encoding'):
        old = ('%s: %s' % (field, good[field])).encode()
        new = ('%s: %s' % (field, pump.replace('\n', ' '))).encode('utf-8', 'surrogatepass')
        res.append(('header:' + field, _wrap(_msg('', 'a', 'b')).replace(old.replace(b'"', b'\\"'), new.replace(b'\\', b'\\\\').replace(b'"', b'\\"')), '.po'))
    flat = pump.replace('\n', ' ').replace('"', '').replace('\\', '')
    for field, good_value in (('Report-Msgid-Bugs-To', good['Report-Msgid-Bugs-To']), ('Last-Translator', good['Last-Translator']), ('Language-Team', good['Language-Team'])):
        for shape, value in (('e-mail domain', 'A <a@%s>' % flat), ('bare e-mail domain', 'a@%s' % flat), ('e-mail local part', 'A <%s@example.org>' % flat),
                             ('display name', '%s <a@example.org>' % flat), ('URL host', 'http://%s/x' % flat), ('URL path', 'http://example.org/%s' % flat)):
            old = ('%s: %s' % (field, good_value)).encode()
            res.append(('header:%s as %s' % (field, shape), _wrap(_msg('', 'a', 'b')).replace(old, ('%s: %s' % (field, value)).encode('utf-8', 'surrogatepass')), '.po'))
    res.append(('header:charset', _wrap(_msg('', 'a', 'b')).replace(b'charset=UTF-8', b'charset=' + pump.replace('\n', ' ').replace(' ', '_').encode('utf-8', 'surrogatepass').replace(b'\\', b'\\\\').replace(b'"', b'\\"')), '.po'))
    res.append(('header:X-Poedit-Language', _wrap(_msg('', 'a', 'b'), extra_fields='X-Poedit-Language: ' + pump.replace('\n', ' ') + '\n'), '.po'))
    res.append(('header:unknown-field', _wrap(_msg('', 'a', 'b'), extra_fields=pump.replace('\n', ' ') + ': x\n'), '.po'))
    try:
        p8 = pump.encode('utf-8', 'surrogatepass').replace(b'\x00', b'')
        res.append(('mo:msgid', _mo_simple([(b'', _hdr_bytes()), (p8 or b'x', b'y')]), '.mo'))
        res.append(('mo:msgstr', _mo_simple([(b'', _hdr_bytes()), (b'x', p8)]), '.mo'))
        res.append(('mo:header', _mo_simple([(b'', _hdr_bytes() + b'X-Foo: ' + p8.replace(b'\n', b' ') + b'\n')]), '.mo'))
    except Exception:
        pass
    return res
