"""Generators for C16: catalogs from an entry grammar (contexts, plural shapes, flag lists with near misses, fuzzy / obsolete /
previous markers, newline shapes, unusual characters explained by the msgid or reported earlier in the file, conflict markers,
XML gates), strings directed at the four hand-modelled regexes, and a PO/POT writer for the end-to-end stream."""
import itertools

class E:
    """an entry as the message checks read it"""
    __slots__ = ('msgid', 'msgctxt', 'msgid_plural', 'msgstr', 'msgstr_plural', 'flags', 'obsolete', 'previous_msgctxt',
                 'previous_msgid', 'previous_msgid_plural', 'comment')
    def __init__(self, msgid, msgctxt=None, msgid_plural=None, msgstr='', msgstr_plural=None, flags=(), obsolete=False,
                 previous_msgctxt=None, previous_msgid=None, previous_msgid_plural=None, comment=''):
        self.msgid, self.msgctxt, self.msgid_plural, self.msgstr = msgid, msgctxt, msgid_plural, msgstr
        self.msgstr_plural = dict(msgstr_plural or {})
        self.flags = list(flags)
        self.obsolete = obsolete
        self.previous_msgctxt, self.previous_msgid, self.previous_msgid_plural = previous_msgctxt, previous_msgid, previous_msgid_plural
        self.comment = comment
    def as_dict(self):
        d = {k: getattr(self, k) for k in self.__slots__}
        d['msgstr_plural'] = [[k, v] for k, v in self.msgstr_plural.items()]
        return d
    @classmethod
    def from_dict(cls, d):
        d = dict(d)
        d['msgstr_plural'] = {int(k): v for k, v in d['msgstr_plural']}
        return cls(**d)

MARK = '#-#-#-#-#  %s  #-#-#-#-#'
CONFLICT = [MARK % 'a.po', 'x\n' + MARK % 'b', MARK % 'b' + '\ny', '#-#-#-#-#    #-#-#-#-#', '#-#-#-#-#   #-#-#-#-#', '#-#-#-#-#     #-#-#-#-#',
            ' ' + MARK % 'a', MARK % 'a' + ' ', '#-#-#-#-# a #-#-#-#-#', MARK % 'a' + '\r\nz', 'q\r' + MARK % 'a', MARK % 'a\nb',
            MARK % 'a' + '\n' + MARK % 'b', 'x' + MARK % 'a', '#-#-#-#-#  a  #-#-#-#-', MARK % ('x  #-#-#-#-#  y')]
UNUSUAL = ['\x1b', '\x1b[', '\x1b[0m', 'a\x1bb', '\x07', '\x00', '\x7f', '\x80', '\x9f', '\xa0', '﻿', '�', '￾', '￿', 'a\xbf', ' \xbf', '\xbf',
           '_\xbf', '1\xbf', '٣\xbf', '\xb2\xbf', 'é\xbf', '\xbf\xbf', 'a\xbf\x1b', '\x1b\x1b[', '\t', '\x0b', '\x1a', '\x1c', '\x08', '\x0c', '\r']
XMLS = ['<b>x</b>', '<b>x', 'x</b>', 'a &amp; b', 'a & b', '<a href="x">y</a>', '<a href=x>y</a>', 'plain', '<br/>', '<?xml version="1.0"?>', '<!-- c -->', '&foo;',
        '<b><i>x</b></i>', '\x00', ']]>', '<![CDATA[x]]>']
GATES = ['type: Content of: <p>', 'type: Content of: <p><b>', 'type: Content of: <sect1><title>', 'type: Content of: <p', 'type: Content of: p>', 'type: Content of: <1p>',
         'type: Content of: <p> ', 'type: Content of: <p>\n', 'Type: Content of: <p>', 'type: Content of:<p>', 'type: Content of: <p:q.r-s_t\xb7>', 'type: Content of: <\xe9l\xe9ment>',
         'type: Content of: <-p>', 'type: Content of: <.p>', 'type: Content of: <p><>', 'type: Content of: ', 'x\ntype: Content of: <p>', 'type: Content of: <p>x', 'type: Content of: <p >',
         'type: Content of: <a><b><c>', 'type: Content of: <\xd7>', 'type: Content of: <a‿>', 'type: Content of: <‿a>', 'type: Attribute \'x\' of: <p>', 'type: Content of: <a\n>']
BASE_WORDS = ['a', 'b', 'file', 'Hello', '%d files', '{0}', 'caf\xe9']
NL_SHAPES = [lambda s: s, lambda s: s, lambda s: s, lambda s: '\n' + s, lambda s: s + '\n', lambda s: '\n' + s + '\n', lambda s: s + '\n\n', lambda s: '\n', lambda s: '\r\n' + s, lambda s: ' \n' + s]

def formats(repo_formats=None):
    return repo_formats or ['c', 'python', 'python-brace', 'perl-brace', 'java', 'csharp', 'qt', 'qt-plural', 'kde', 'sh', 'lisp', 'scheme', 'tcl', 'perl']

RANGE_FLAGS = ['range:1..2', 'range: 1..2', 'range:1..2 ', 'range:\t1..2', 'range:01..2', 'range:1..02', 'range:0..1', 'range:1..1', 'range:2..1', 'range:0..0', 'range:1...2',
               'range:1..', 'range:..2', 'range:', 'range: ', 'range:1.2', 'range:1..2..3', 'range:+1..2', 'range:-1..2', 'range:1 ..2', 'range:1.. 2', 'range:1..2\n', 'range:\n1..2',
               'range:١..٢', 'range:1..٢', 'range:１..2', 'RANGE:1..2', 'range 1..2', 'range:9..10', 'range:10..11', 'range:2..10', 'range:0..100', 'range:3..5',
               'range: 3..5', 'range:03..5', 'range:1..2x', 'xrange:1..2', 'range:1..2,', 'range:0x1..2', 'range:1..2 3', 'range:1 2', 'range:\x0b1..2\x0c', 'range:\xa01..2',
               'range:' + '1' * 30 + '..' + '2' * 30, 'range:' + '9' * 4400 + '..' + '1' + '0' * 4400]

def gen_flag(rng, fmts):
    r = rng.random()
    if r < 0.22:
        return 'fuzzy'
    if r < 0.32:
        return rng.choice(['wrap', 'no-wrap', 'no-wrap', 'wrap', 'markdown-text'])
    if r < 0.50:
        return rng.choice(RANGE_FLAGS)
    if r < 0.86:
        f = rng.choice(fmts[:4] * 3 + fmts)
        p = rng.choice(['', '', '', 'no-', 'possible-', 'impossible-', 'no-', 'possible-'])
        return p + f + '-format'
    if r < 0.93:
        return rng.choice(['foo-format', '-format', 'no-format', 'no--format', 'possible-format', 'impossible-format', 'no-no-c-format', 'possible-no-c-format', 'no-possible-c-format',
                           'c-format ', ' c-format', 'c-formatx', 'C-format', 'c_format', 'c-Format', 'no-foo-format', 'impossible-foo-format', 'nop-c-format', 'format', 'c-format-format',
                           'im-possible-c-format', 'possible--c-format', 'no-\xe7-format', 'python-brace-formatt', 'object-pascal-format', 'no-object-pascal-format', 'gcc-internal-format'])
    return rng.choice(['', '', 'fuzy', 'Fuzzy', 'fuzzy ', 'nowrap', 'wrap ', 'no-wrap-', 'markdown', 'markdown-text ', 'x', 'range', 'c', '\x1b[31m', 'fuzzy\n', 'no-c', 'wrapx', 'z' * 3])

def gen_flags(rng, fmts):
    r = rng.random()
    if r < 0.30:
        return []
    k = rng.choice([1, 1, 1, 2, 2, 2, 3, 3, 4, 5, 6])
    fl = [gen_flag(rng, fmts) for _ in range(k)]
    if rng.random() < 0.25 and fl:      # duplicates
        fl += [rng.choice(fl) for _ in range(rng.choice([1, 1, 2]))]
    if rng.random() < 0.12:             # a directed combination
        f = rng.choice(fmts[:4] + fmts)
        g = rng.choice(fmts[:4] + fmts)
        fl += rng.choice([[f + '-format', 'no-' + f + '-format'], [f + '-format', 'possible-' + f + '-format'], [f + '-format', 'impossible-' + f + '-format'],
                          ['possible-' + f + '-format', 'impossible-' + f + '-format'], ['no-' + f + '-format', 'impossible-' + f + '-format'],
                          ['no-' + f + '-format', 'possible-' + f + '-format'], [f + '-format', g + '-format'], ['wrap', 'no-wrap'],
                          ['range:1..2', 'range: 1..2'], ['range:1..2', 'range:1..3'], ['range:1..3', 'range:0..9', 'range:1..2'], ['range:9..10', 'range:10..11'],
                          ['range:1..2', 'range:01..2', 'range:1..3'], ['range:2..10', 'range:10..20', 'range: 2..10']])
    rng.shuffle(fl)
    return fl

def gen_text(rng, base=None, kind=None):
    base = rng.choice(BASE_WORDS) if base is None else base
    r = rng.random() if kind is None else kind
    if r < 0.55:
        s = base
    elif r < 0.70:
        s = rng.choice(['', base + ' ', base]) + rng.choice(UNUSUAL) + rng.choice(['', '', 'z', '['])
    elif r < 0.80:
        s = rng.choice(CONFLICT)
    elif r < 0.90:
        s = rng.choice(XMLS)
    else:
        s = base + rng.choice(UNUSUAL) + rng.choice(UNUSUAL)
    return rng.choice(NL_SHAPES)(s)

def gen_entry(rng, fmts, pool):
    """`pool`: msgids used so far in this catalog (to force duplicates)"""
    r = rng.random()
    if r < 0.05:
        msgid, ctxt = '', rng.choice([None, None, 'c', ''])
    elif r < 0.30 and pool:
        msgid, ctxt = rng.choice(pool)
        if rng.random() < 0.25:
            ctxt = rng.choice([None, 'c', '', 'd'])
    else:
        msgid = gen_text(rng, kind=rng.choice([0.1, 0.1, 0.1, 0.6, 0.75, 0.85]))
        ctxt = rng.choice([None, None, None, 'c', '', 'ctx\x1b'])
    pool.append((msgid, ctxt))
    plural = None
    forms = {}
    msgstr = rng.choice(['', '', None]) if rng.random() < 0.5 else None
    if rng.random() < 0.35:
        plural = rng.choice(NL_SHAPES)(rng.choice(['files', 'bs', '%d files', 'x\x1by', '\xbf']))
        n = rng.choice([1, 2, 2, 3, 3, 4])
        keys = list(range(n))
        if rng.random() < 0.2:
            rng.shuffle(keys)
        if rng.random() < 0.1:
            keys = [k + rng.choice([0, 1, 5]) for k in keys]
            keys = list(dict.fromkeys(keys))
        shape = rng.random()
        for k in keys:
            if shape < 0.15:
                forms[k] = ''
            elif shape < 0.40:
                forms[k] = '' if rng.random() < 0.4 else gen_text(rng)
            else:
                forms[k] = gen_text(rng)
        if rng.random() < 0.08:
            msgstr = gen_text(rng)          # both msgstr and msgstr[n]
        if rng.random() < 0.05:
            forms = {}
    else:
        rr = rng.random()
        if rr < 0.2:
            msgstr = rng.choice(['', None])
        else:
            msgstr = gen_text(rng)
        if rng.random() < 0.04:
            forms = {0: gen_text(rng), 1: rng.choice(['', gen_text(rng)])}     # msgstr[n] without msgid_plural
    e = E(msgid, ctxt, plural, msgstr, forms, gen_flags(rng, fmts), rng.random() < 0.10)
    if rng.random() < 0.15:
        which = rng.randrange(1, 8)
        if which & 1:
            e.previous_msgid = rng.choice(['old', '', 'old\n'])
        if which & 2:
            e.previous_msgctxt = rng.choice(['oc', ''])
        if which & 4:
            e.previous_msgid_plural = rng.choice(['olds', ''])
    if rng.random() < 0.22:
        e.comment = rng.choice(GATES[:3] * 4 + GATES)
        if rng.random() < 0.6:
            e.msgid = rng.choice(NL_SHAPES[:5])(rng.choice(XMLS))
            if e.msgstr is not None or rng.random() < 0.7:
                e.msgstr = rng.choice(NL_SHAPES[:5])(rng.choice(XMLS + ['']))
    return e

def gen_catalog(rng, fmts):
    n = rng.choice([0, 0, 1, 1, 2, 2, 3, 3, 4, 5, 6, 8])
    pool = []
    entries = [gen_entry(rng, fmts, pool) for _ in range(n)]
    if rng.random() < 0.08 and entries:      # only obsolete / header entries: empty-file
        for e in entries:
            if rng.random() < 0.7:
                e.obsolete = True
            else:
                e.msgid, e.msgctxt = '', None
    ctx = {'is_template': rng.random() < 0.3, 'is_binary': rng.random() < 0.12, 'hidden': rng.random() < 0.5, 'encoding': rng.random() < 0.85}
    return ctx, entries

# ----------------------------------------------------------------------------- strings directed at the regexes

UNUSUAL_ALPHABET = ['a', '\x1b', '[', '\xbf', ' ', '_', '٣', '\x80', '�', '\n', '\x00', '\t', '\xb2', '￿']

def unusual_strings(rng, count, thorough=False):
    out = []
    k = 4 if thorough else 3
    small = UNUSUAL_ALPHABET[:8] if not thorough else UNUSUAL_ALPHABET[:9]
    for n in range(0, k + 1):
        out += [''.join(t) for t in itertools.product(small, repeat=n)]
    # every boundary of every class
    for c in [0, 8, 9, 0xa, 0xb, 0x1a, 0x1b, 0x1c, 0x1f, 0x20, 0x7e, 0x7f, 0x80, 0x9f, 0xa0, 0xbe, 0xbf, 0xc0, 0xfefe, 0xfeff, 0xff00, 0xfffc, 0xfffd, 0xfffe, 0xffff, 0x10000, 0x10ffff,
              0xd800, 0xdfff, 0x5a, 0x5b, 0x5c]:
        ch = chr(c)
        out += [ch, 'a' + ch, ch + '[', ch + 'a', '\x1b' + ch, ch + '\xbf', ch + ch]
    for _ in range(count):
        out.append(''.join(rng.choice(UNUSUAL_ALPHABET) if rng.random() < 0.8 else chr(rng.choice([rng.randrange(0x300), rng.randrange(0x3000), rng.randrange(0x110000)]))
                           for _ in range(rng.randrange(1, 9))))
    return out

MARKER_PIECES = ['#-#-#-#-#  ', '  #-#-#-#-#', 'x', '\n', ' ', '#', '\r', '#-#-#-#-#', '-', '\x85', ' ', '  ']

def marker_strings(rng, count, thorough=False):
    out = list(CONFLICT)
    for n in range(0, 5 if thorough else 4):
        out += [''.join(t) for t in itertools.product(MARKER_PIECES[:7], repeat=n)]
    for _ in range(count):
        out.append(''.join(rng.choice(MARKER_PIECES) for _ in range(rng.randrange(1, 10))))
    return out

GATE_PIECES = ['type: Content of: ', '<', '>', 'p', ':', '-', '.', '1', ' ', '\n', '\xb7', '\xd7', '‿', '̀', ';', 'type: Content of:', '\U00010000', '\U000f0000', '￾', '_']

def gate_strings(rng, count, thorough=False):
    out = list(GATES) + ['']
    for n in range(0, 6 if thorough else 5):
        out += ['type: Content of: ' + ''.join(t) for t in itertools.product(GATE_PIECES[1:9], repeat=n)]
    for _ in range(count):
        out.append(''.join(rng.choice(GATE_PIECES) for _ in range(rng.randrange(1, 10))))
    # class boundaries of xml.name_re
    for c in [0x39, 0x3a, 0x3b, 0x40, 0x41, 0x5a, 0x5b, 0x5e, 0x5f, 0x60, 0x61, 0x7a, 0x7b, 0xb6, 0xb7, 0xb8, 0xbf, 0xc0, 0xd6, 0xd7, 0xd8, 0xf6, 0xf7, 0xf8, 0x2ff, 0x300, 0x36f, 0x370, 0x37d, 0x37e,
              0x37f, 0x1fff, 0x2000, 0x200b, 0x200c, 0x200d, 0x200e, 0x203e, 0x203f, 0x2040, 0x2041, 0x206f, 0x2070, 0x218f, 0x2190, 0x2bff, 0x2c00, 0x2fef, 0x2ff0, 0x3000, 0x3001, 0xd7ff,
              0xd800, 0xf8ff, 0xf900, 0xfdcf, 0xfdd0, 0xfdef, 0xfdf0, 0xfffd, 0xfffe, 0xffff, 0x10000, 0xeffff, 0xf0000, 0x2d, 0x2e, 0x2f, 0x30]:
        ch = chr(c)
        out += ['type: Content of: <' + ch + '>', 'type: Content of: <a' + ch + '>', 'type: Content of: <a' + ch + 'b><c>']
    return out

RANGE_PIECES = ['range:', ' ', '1', '2', '10', '.', '..', '\t', '\n', '٣', '+', '-', '0', '\r', '\x0b', '\x0c', '\xa0', 'x', '\x1c']

def range_strings(rng, count, thorough=False):
    out = list(RANGE_FLAGS)
    for n in range(0, 6 if thorough else 5):
        out += ['range:' + ''.join(t) for t in itertools.product(RANGE_PIECES[1:8], repeat=n)]
    for a in [0, 1, 2, 9, 10, 11, 99, 100, 4294967295, 4294967296, 10**30]:
        for b in [0, 1, 2, 9, 10, 11, 99, 100, 4294967295, 4294967296, 10**30]:
            out.append(f'range:{a}..{b}')
    for _ in range(count):
        out.append(''.join(rng.choice(RANGE_PIECES) for _ in range(rng.randrange(1, 9))))
    return out

# ----------------------------------------------------------------------------- PO writer (end-to-end stream)

def po_quote(s):
    out = []
    for ch in s:
        if ch == '\\':
            out.append('\\\\')
        elif ch == '"':
            out.append('\\"')
        elif ch == '\n':
            out.append('\\n')
        elif ch == '\t':
            out.append('\\t')
        elif ch == '\r':
            out.append('\\r')
        elif ord(ch) < 0x20 or ord(ch) == 0x7f:
            out.append('\\%03o' % ord(ch))
        else:
            out.append(ch)
    return '"' + ''.join(out) + '"'

def writable(e):
    """can this entry be written to a PO file so that the loader reads back exactly these fields?"""
    for f in e.flags:
        if f != f.strip(' \t\r\f\v') or ',' in f or '\n' in f or '\r' in f or '\x0b' in f or '\x0c' in f or '\x1c' in f or '\x85' in f or ' ' in f:
            return False
    if e.flags and not ', '.join(e.flags).strip():
        return False            # a bare `#,` line is skipped by the loader
    strs = [e.msgid, e.msgctxt, e.msgid_plural, e.msgstr, e.previous_msgid, e.previous_msgctxt, e.previous_msgid_plural] + list(e.msgstr_plural.values())
    for s in strs:
        if s is None:
            continue
        for ch in s:
            o = ord(ch)
            if 0xd800 <= o <= 0xdfff or o in (0x85, 0x2028, 0x2029, 0x1c, 0x1d, 0x1e, 0x0b, 0x0c):
                return False
    if e.comment and any(ch in e.comment for ch in '\r\x0b\x0c\x1c\x1d\x1e\x85  '):
        return False
    if e.comment != e.comment.strip() or '\n ' in e.comment or ' \n' in e.comment:
        return False
    if e.obsolete and (e.previous_msgid is not None or e.previous_msgctxt is not None or e.previous_msgid_plural is not None):
        return False
    if e.msgid_plural is None and e.msgstr_plural:
        return False
    if e.msgid_plural is not None and not e.msgstr_plural:
        return False
    if e.msgid_plural is not None and e.msgstr:
        return False
    if e.msgid == '' and e.msgctxt is None:
        return False            # header entries are written separately
    return True

def render_entry(e):
    pre = '#~ ' if e.obsolete else ''
    lines = []
    if e.comment:
        for l in e.comment.split('\n'):
            lines.append('#. ' + l)
    if e.flags:
        lines.append('#, ' + ', '.join(e.flags))
    if e.previous_msgctxt is not None:
        lines.append('#| msgctxt ' + po_quote(e.previous_msgctxt))
    if e.previous_msgid is not None:
        lines.append('#| msgid ' + po_quote(e.previous_msgid))
    if e.previous_msgid_plural is not None:
        lines.append('#| msgid_plural ' + po_quote(e.previous_msgid_plural))
    if e.msgctxt is not None:
        lines.append(pre + 'msgctxt ' + po_quote(e.msgctxt))
    lines.append(pre + 'msgid ' + po_quote(e.msgid))
    if e.msgid_plural is not None:
        lines.append(pre + 'msgid_plural ' + po_quote(e.msgid_plural))
        for k, v in e.msgstr_plural.items():
            lines.append(pre + 'msgstr[%d] ' % k + po_quote(v))
    else:
        lines.append(pre + 'msgstr ' + po_quote(e.msgstr or ''))
    return '\n'.join(lines) + '\n'

HEADER = ('msgid ""\nmsgstr ""\n"Project-Id-Version: Gizmo Enhancer 1.0\\n"\n"Report-Msgid-Bugs-To: gizmoenhancer@jwilk.net\\n"\n"POT-Creation-Date: 2012-11-01 14:42+0100\\n"\n'
          '"PO-Revision-Date: 2012-11-01 14:42+0100\\n"\n"Last-Translator: Jakub Wilk <jwilk@jwilk.net>\\n"\n"Language-Team: Polish <pl@li.org.example>\\n"\n"Language: pl\\n"\n'
          '"MIME-Version: 1.0\\n"\n"Content-Type: text/plain; charset=%s\\n"\n"Content-Transfer-Encoding: 8bit\\n"\n'
          '"Plural-Forms: nplurals=3; plural=n==1 ? 0 : n%%10>=2 && n%%10<=4 && (n%%100<10 || n%%100>=20) ? 1 : 2;\\n"\n')

def render_po(entries, with_header=True, charset='UTF-8'):
    parts = []
    if with_header:
        parts.append(HEADER % charset)
    for e in entries:
        parts.append(render_entry(e))
    return '\n'.join(parts)
