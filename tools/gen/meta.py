"""Generators for C17 (metamorphic family): catalogs, PO spellings of one catalog, MO layouts of one catalog, packages.

A *catalog* is what gettext sees: an ordered list of messages `(msgctxt | None, msgid, msgid_plural | None, [msgstr…])`
of `str`, the first of which is the header entry (`msgid ""`), plus PO-only decoration (flags, comments, references,
previous msgid, obsolete entries, initial comments) that every spelling renders verbatim.  The degrees of freedom of a
*spelling* are exactly the ones the property names:

* wrapping: where a string is cut into `"…"` segments (never inside a line of the header entry: cuts there only
  after a `\\n`), empty segments, `keyword ""` first lines;
* escape style: for every character one of its equivalent spellings (raw; named escape; octal with 1-3 digits; hex with
  1-2 digits), a non-ASCII character either as the raw bytes of the declared charset or with ALL its bytes escaped;
* blank lines: 0-3 blank or whitespace-only lines between entries, before the first and after the last one, inside an
  entry, and the final newline;
* transcoding: the same text in another charset that can encode it, `charset=` adjusted.
"""
import os, struct, sys
from . import mo as MO
from . import catalog as CAT

# charsets the tool supports (data/encodings) – every one is tried, the ones that can encode the catalog are kept
CHARSETS = ['UTF-8', 'ISO-8859-1', 'ISO-8859-2', 'ISO-8859-3', 'ISO-8859-4', 'ISO-8859-5', 'ISO-8859-7', 'ISO-8859-9', 'ISO-8859-13',
            'ISO-8859-14', 'ISO-8859-15', 'KOI8-R', 'KOI8-U', 'CP850', 'CP866', 'CP1250', 'CP1251', 'CP1252', 'CP1253', 'CP1254', 'CP1257',
            'EUC-JP', 'SHIFT_JIS', 'CP932', 'EUC-KR', 'CP949', 'GB2312', 'GBK', 'GB18030', 'BIG5', 'CP950', 'BIG5-HKSCS', 'JOHAB', 'TIS-620', 'CP874',
            'KOI8-RU', 'VISCII', 'GEORGIAN-PS', 'ASCII',
            # other names of the same codecs (non-portable names: a charset diagnostic, nothing else may change)
            'utf8', 'latin2', 'iso8859_15', 'windows-1250', 'koi8_r', 'sjis', 'euc_jp', 'UTF8']

FAMILIES = {
    'ascii': dict(lang=['de', 'pl', 'fr', 'en_GB'], alpha='abcxyz ABC .,:;!?-_/()[]<>&=+*#@~^|`\'$0123456789'),
    'latin1': dict(lang=['de', 'fr', 'es', 'da'], alpha='abc äöüß éèàç ñ ¿¡ øå «» xyz'),
    'latin2': dict(lang=['pl', 'cs', 'hu'], alpha='abc żółć ęąśźń čřšž őű xyz'),
    'cyrillic': dict(lang=['ru', 'uk', 'bg'], alpha='abc привет мир ёжик Щука xyz'),
    'greek': dict(lang=['el'], alpha='abc καλημέρα κόσμε Ωμέγα xyz'),
    'japanese': dict(lang=['ja'], alpha='abc 日本語 ソフト 表示 能力 カタカナ ひらがな ー xyz'),       # ソ 表 能: trail byte 0x5C in SHIFT_JIS
    'korean': dict(lang=['ko'], alpha='abc 한국어 번역 파일 xyz'),
    'chinese': dict(lang=['zh_CN', 'zh_TW'], alpha='abc 中文 文件 你好 世界 xyz'),
    'thai': dict(lang=['th'], alpha='abc ภาษาไทย สวัสดี xyz'),
    'c1': dict(lang=['de'], alpha='abc \x80\x85\x9b äö xyz'),                                         # C1 controls: ISO-8859-x and UTF-8 only
}

SPECIALS = ['\n', '\t', '"', '\\', '\a', '\b', '\f', '\v', '\r', '\x1b', '\x7f', '\x01', '%s', '%d', '{0}', '{a}', '%(x)s', '\\n', '%%', '0', '7', 'f', 'A']

# ----------------------------------------------------------------------------- catalogs

def gen_text(rng, family, maxlen=14, special=0.25, allow_empty=False):
    alpha = FAMILIES[family]['alpha']
    n = rng.randint(0 if allow_empty else 1, maxlen)
    out = []
    for _ in range(n):
        out.append(rng.choice(SPECIALS) if rng.random() < special else rng.choice(alpha))
    s = ''.join(out).replace('\x04', '').replace('\0', '')
    return s if (s or allow_empty) else 'x'

HEADER_BASE = [
    ('Project-Id-Version', 'Gizmo Enhancer 1.0'),
    ('Report-Msgid-Bugs-To', 'gizmoenhancer@jwilk.net'),
    ('POT-Creation-Date', '2012-11-01 14:42+0100'),
    ('PO-Revision-Date', '2012-11-01 14:42+0100'),
    ('Last-Translator', 'Jakub Wilk <jwilk@jwilk.net>'),
    ('Language-Team', 'Polish <pl@li.org.example>'),
    ('Language', 'pl'),
    ('MIME-Version', '1.0'),
    ('Content-Type', None),          # filled in per charset
    ('Content-Transfer-Encoding', '8bit'),
    ('Plural-Forms', 'nplurals=3; plural=n==1 ? 0 : n%10>=2 && n%10<=4 && (n%100<10 || n%100>=20) ? 1 : 2;'),
]
PLURAL_FORMS = ['nplurals=2; plural=n != 1;', 'nplurals=1; plural=0;', 'nplurals=3; plural=n%3;', 'nplurals=2; plural=n>1;',
                'nplurals=3; plural=n==1 ? 0 : n%10>=2 && n%10<=4 && (n%100<10 || n%100>=20) ? 1 : 2;', 'nplurals=2; plural=n/0;',
                'nplurals=3; plural=(n%10==1 && n%100!=11 ? 0 : n%10>=2 && n%10<=4 && (n%100<10 || n%100>=20) ? 1 : 2);', 'nplurals=4; plural=n%5;']

def gen_header(rng, family, defects=True, date_bias=False):
    """→ list of (name | None, value); Content-Type stays well-formed (value None = to be filled in per charset)"""
    fields = [list(f) for f in HEADER_BASE]
    if date_bias:        # the date fields are where PO and MO files are treated differently
        for name, p_drop, p_dup in (('POT-Creation-Date', 0.3, 0.1), ('PO-Revision-Date', 0.15, 0.1)):
            r = rng.random()
            i = [k for k, f in enumerate(fields) if f[0] == name][0]
            if r < p_drop:
                fields.pop(i)
            elif r < p_drop + p_dup:
                fields.insert(i, [name, rng.choice(['2012-11-01 14:42+0100', '2013-01-01 00:00+0000'])])
    for f in fields:
        if f[0] == 'Language':
            f[1] = rng.choice(FAMILIES[family]['lang'])
        if f[0] == 'Plural-Forms':
            f[1] = rng.choice(PLURAL_FORMS)
    if rng.random() < 0.3:          # non-ASCII text in the header entry too
        for f in fields:
            if f[0] == 'Last-Translator':
                f[1] = gen_text(rng, family, 8, special=0.0).strip() + ' <translator@example.org>'
    r = rng.random()
    nmut = 0 if (not defects or r < 0.3) else 1 if r < 0.65 else rng.randint(2, 4)
    for _ in range(nmut):
        op = rng.random()
        cand = [i for i, f in enumerate(fields) if f[0] != 'Content-Type']
        if op < 0.45:
            i = rng.choice(cand)
            name = fields[i][0]
            if name in CAT.FIELD_VARIANTS:
                v = rng.choice(CAT.FIELD_VARIANTS[name])
                if '\x1b' not in v:
                    fields[i][1] = v
        elif op < 0.7:
            fields.pop(rng.choice(cand))
        elif op < 0.8:
            fields.insert(rng.randrange(len(fields) + 1), list(fields[rng.choice(cand)]))
        elif op < 0.9:
            k, v = rng.choice(CAT.EXTRA_FIELDS)
            fields.insert(rng.randrange(len(fields) + 1), [k, v.replace('\x1b', 'E')])
        elif op < 0.95:
            fields.insert(rng.randrange(len(fields) + 1), [None, rng.choice(['stray line', '#-#-#-#-#  x.po  #-#-#-#-#', 'Bad Field: x'])])
        else:
            fields.insert(rng.randrange(len(fields) + 1), ['X-Note', gen_text(rng, family, 8, special=0.0)])
    return [tuple(f) for f in fields]

def header_text(fields, charset):
    out = []
    for k, v in fields:
        if k == 'Content-Type' and v is None:
            v = 'text/plain; charset=' + charset
        out.append(f'{k}: {v}\n' if k is not None else v + '\n')
    return ''.join(out)

FORMAT_MSGS = [m for m in CAT.MSGS if m[1] != '' and all(ord(c) < 128 for s in [m[1]] + [m[2] or ''] + m[3] for c in s)]

def gen_catalog(rng, family=None, po_features=True, fully_translated=False, defects=True, n=None, date_bias=False):
    """→ dict(family, header=[(k,v)], initial=str, msgs=[dict(ctxt,msgid,plural,forms,flags,comments,obsolete,previous)])
    Messages have distinct (ctxt, msgid); no NUL/EOT in text (MO-encodable)."""
    family = family or rng.choice(list(FAMILIES))
    n = rng.choice([0, 1, 2, 3, 5, 8]) if n is None else n
    seen = set()
    msgs = []
    for _ in range(n):
        if rng.random() < 0.35 and FORMAT_MSGS:
            flags, msgid, plural, forms = rng.choice(FORMAT_MSGS)
            flags, forms = list(flags), list(forms)
        else:
            flags = []
            msgid = gen_text(rng, family, 12)
            if rng.random() < 0.3:
                plural = gen_text(rng, family, 12)
                forms = [gen_text(rng, family, 12, allow_empty=not fully_translated) for _ in range(rng.choice([1, 2, 3, 3, 4]))]
            else:
                plural = None
                forms = [gen_text(rng, family, 16, allow_empty=not fully_translated and rng.random() < 0.2)]
            r = rng.random()
            if r < 0.25:       # newline discipline, respected or not
                nl = rng.choice(['\n', ''])
                msgid = msgid.rstrip('\n') + '\n'
                forms = [f.rstrip('\n') + nl for f in forms]
            elif r < 0.35:
                msgid = '\n' + msgid
        if fully_translated:
            forms = [f if f else 'x' for f in forms]
        ctxt = rng.choice([None, None, None, 'menu', '', gen_text(rng, family, 5, special=0.1)])
        if (ctxt, msgid) in seen or (ctxt is None and msgid == ''):
            continue
        seen.add((ctxt, msgid))
        m = dict(ctxt=ctxt, msgid=msgid, plural=plural, forms=forms, flags=[], comments=[], obsolete=False, previous=None)
        if po_features:
            m['flags'] = flags + ([rng.choice(['fuzzy', 'no-wrap', 'c-format', 'range: 1..5', 'python-format', 'no-c-format', 'bogus-flag'])] if rng.random() < 0.2 else [])
            if rng.random() < 0.15:
                m['comments'].append('#. ' + rng.choice(['extracted comment', 'type: Content of: <para>', 'TRANSLATORS: hi']))
            if rng.random() < 0.15:
                m['comments'].append('#: src/a.c:%d' % rng.randint(1, 99))
            if rng.random() < 0.1:
                m['comments'].append('# translator comment ' + gen_text(rng, family, 6, special=0.0).strip())
            if rng.random() < 0.07:
                m['previous'] = 'old ' + gen_text(rng, 'ascii', 5, special=0.0)
                if rng.random() < 0.7 and 'fuzzy' not in m['flags']:
                    m['flags'].append('fuzzy')
            m['obsolete'] = rng.random() < 0.06
        elif flags and rng.random() < 0.0:
            pass
        msgs.append(m)
    initial = ''
    if po_features and rng.random() < 0.2:
        initial = rng.choice(['# SOME DESCRIPTIVE TITLE.\n# Copyright (C) YEAR THE PACKAGE\'S COPYRIGHT HOLDER\n# FIRST AUTHOR <EMAIL@ADDRESS>, YEAR.\n#\n',
                              '# Polish translation\n# Copyright (C) 2012 Jakub Wilk\n#\n'])
    hflags = rng.choice([[], [], [], [], ['fuzzy']]) if po_features else []
    return dict(family=family, header=gen_header(rng, family, defects=defects, date_bias=date_bias), hflags=hflags, initial=initial, msgs=msgs)

def all_strings(cat):
    for k, v in cat['header']:
        yield (k or '') + (v or '')
    yield cat['initial']
    for m in cat['msgs']:
        yield m['ctxt'] or ''
        yield m['msgid']
        yield m['plural'] or ''
        yield from m['forms']
        yield from m['comments']

def can_encode(cat, charset):
    """every string of the catalog survives encode → decode in `charset` (the codec must already be registered)"""
    try:
        for s in all_strings(cat):
            b = s.encode(charset)
            if b.decode(charset) != s:
                return False
            if any(ord(c) < 128 for c in s) and False:
                return False
        # ASCII must stay ASCII (an ASCII-compatible charset)
        probe = ''.join(chr(i) for i in range(1, 127))
        return probe.encode(charset) == probe.encode('ascii')
    except (UnicodeError, LookupError):
        return False

def charsets_for(cat, names=CHARSETS):
    return [cs for cs in names if can_encode(cat, cs)]

def entries_of(cat, charset):
    """the catalog as gettext sees it, header entry first: [(ctxt, msgid, plural, forms)] of str (obsolete entries are not part of it)"""
    out = [(None, '', None, [header_text(cat['header'], charset)])]
    for m in cat['msgs']:
        if not m['obsolete']:
            out.append((m['ctxt'], m['msgid'], m['plural'], list(m['forms'])))
    return out

# ----------------------------------------------------------------------------- PO spellings

NAMED = {'\n': 'n', '\t': 't', '\b': 'b', '\r': 'r', '\f': 'f', '\v': 'v', '\a': 'a', '\\': '\\', '"': '"'}
HEXDIGITS = set('0123456789abcdefABCDEF')
OCTDIGITS = set('01234567')

class Style:
    """how one spelling makes its free choices; `level` 0 = the canonical writer (no optional escapes, no wrapping)"""
    def __init__(self, rng, level=2):
        self.rng = rng
        self.level = level
        self.p_escape_ascii = [0.0, 0.03, 0.15][level]
        self.p_escape_high = [0.0, 0.15, 0.5][level]
        self.p_cut = [0.0, 0.05, 0.2][level]
        self.p_empty_seg = [0.0, 0.02, 0.1][level]
        self.blank = [(1, 1), (1, 2), (0, 3)][level]
        self.p_inner_blank = [0.0, 0.0, 0.08][level]
        self.final_newline = True if level < 2 else rng.random() < 0.8
        self.raw_tab = level > 0

def byte_escape(b, style, next_is_hex, next_is_oct, prefer=None):
    """one byte as an escape sequence, unambiguous whatever follows (for gettext as well as for the tool)"""
    rng = style.rng
    forms = []
    if not next_is_oct:
        forms.append('\\%o' % b)                                  # shortest octal
    forms.append('\\%03o' % b)
    if not next_is_hex:
        forms.append('\\x%02x' % b)
        forms.append('\\x%02X' % b)
        if b < 16:
            forms.append('\\x%x' % b)
    return rng.choice(forms)

def atoms_of(s, charset, style, optional_escapes=True, nxt=b''):
    """→ list of (source text as bytes, is_newline) – one atom per character of `s`; cutting is allowed between atoms.
    `nxt`: the source text that will follow (decides which short escapes are unambiguous)"""
    rng = style.rng
    atoms = []
    chars = list(s)
    # the raw rendering of what follows decides which short escapes are unambiguous; compute right-to-left
    out = [None] * len(chars)
    for i in range(len(chars) - 1, -1, -1):
        ch = chars[i]
        o = ord(ch)
        first = nxt[:1].decode('latin1')
        next_hex, next_oct = first in HEXDIGITS, first in OCTDIGITS
        enc = ch.encode(charset)
        choices = []
        if ch in NAMED:
            choices.append(('\\' + NAMED[ch]).encode())
            if optional_escapes and rng.random() < style.p_escape_ascii * 3:
                choices = [byte_escape(o, style, next_hex, next_oct).encode()]
            if ch == '\t' and style.raw_tab and rng.random() < 0.3:
                choices = [b'\t']
        elif o < 0x20 or o == 0x7f:
            choices.append(byte_escape(o, style, next_hex, next_oct).encode())
        elif o < 0x80:
            if optional_escapes and rng.random() < style.p_escape_ascii:
                choices.append(byte_escape(o, style, next_hex, next_oct).encode())
            else:
                choices.append(enc)
        else:
            if optional_escapes and rng.random() < style.p_escape_high:
                # all bytes of the character escaped; inside the run each escape is followed by a backslash
                parts = []
                for k, b in enumerate(enc):
                    last = k == len(enc) - 1
                    parts.append(byte_escape(b, style, next_hex if last else False, next_oct if last else False))
                choices.append(''.join(parts).encode())
            else:
                choices.append(enc)
        out[i] = rng.choice(choices)
        nxt = out[i]
    return [(out[i], chars[i] == '\n') for i in range(len(chars))]

def po_string(keyword, s, charset, style, header=False, prefix=b''):
    """`keyword "…"` with continuation lines.  `header`: cut only after a newline atom, no optional escapes in the Content-Type line."""
    rng = style.rng
    if header:
        atoms = []
        for line in reversed(s.splitlines(keepends=True)):
            atoms = atoms_of(line, charset, style, optional_escapes=not line.startswith('Content-Type:'),
                             nxt=atoms[0][0] if atoms else b'') + atoms
    else:
        atoms = atoms_of(s, charset, style)
    segs = [b'']
    for i, (src, is_nl) in enumerate(atoms):
        segs[-1] += src
        last = i == len(atoms) - 1
        if last:
            break
        if header:
            cut = is_nl and (style.level == 0 or rng.random() < 0.85)
        else:
            cut = rng.random() < style.p_cut or (is_nl and rng.random() < 0.6 and style.level < 2) or (is_nl and style.level == 2 and rng.random() < 0.5)
        if cut:
            segs.append(b'')
            while rng.random() < style.p_empty_seg:
                segs.append(b'')
    if style.level > 0 and rng.random() < style.p_empty_seg:
        segs.append(b'')
    if len(segs) > 1 and (style.level == 0 or rng.random() < 0.6) or (header and style.level < 2):
        segs.insert(0, b'')
    sep = rng.choice([b' ', b' ', b' ', b'\t', b'  ']) if style.level == 2 else b' '
    lines = [prefix + keyword.encode() + sep + b'"' + segs[0] + b'"']
    for seg in segs[1:]:
        if style.p_inner_blank and rng.random() < style.p_inner_blank and not prefix:
            lines.append(b'')
        lines.append(prefix + b'"' + seg + b'"')
    return b'\n'.join(lines) + b'\n'

def blank_lines(style, minimum=0):
    rng = style.rng
    lo, hi = style.blank
    n = max(minimum, rng.randint(lo, hi))
    return b''.join(rng.choice([b'\n', b'\n', b'\n', b' \n', b'\t\n']) if style.level == 2 else b'\n' for _ in range(n))

def render_po(cat, charset, style):
    """one spelling of `cat` in `charset` → bytes"""
    rng = style.rng
    out = [cat['initial'].encode(charset)]
    if style.level == 2 and rng.random() < 0.3 and not cat['initial']:
        out.append(blank_lines(style))
    if cat['hflags']:
        out.append(('#, ' + ', '.join(cat['hflags']) + '\n').encode())
    out.append(po_string('msgid', '', charset, Style(rng, 0)))
    if style.p_inner_blank and rng.random() < style.p_inner_blank:
        out.append(b'\n')
    out.append(po_string('msgstr', header_text(cat['header'], charset), charset, style, header=True))
    for m in cat['msgs']:
        # an entry that starts with a comment line must be separated from the previous one by at least... nothing: comments attach forward
        out.append(blank_lines(style))
        for c in m['comments']:
            out.append(c.encode(charset) + b'\n')
        if m['flags']:
            out.append(('#, ' + ', '.join(m['flags']) + '\n').encode())
        if m['previous'] is not None:
            out.append(b'#| msgid "' + m['previous'].encode() + b'"\n')
        pfx = b'#~ ' if m['obsolete'] else b''
        st = Style(rng, 0) if m['obsolete'] else style
        inner = lambda: out.append(b'\n') if (st.p_inner_blank and rng.random() < st.p_inner_blank) else None
        if m['ctxt'] is not None:
            out.append(po_string('msgctxt', m['ctxt'], charset, st, prefix=pfx)); inner()
        out.append(po_string('msgid', m['msgid'], charset, st, prefix=pfx)); inner()
        if m['plural'] is not None:
            out.append(po_string('msgid_plural', m['plural'], charset, st, prefix=pfx))
            for i, f in enumerate(m['forms']):
                inner()
                out.append(po_string('msgstr[%d]' % i, f, charset, st, prefix=pfx))
        else:
            out.append(po_string('msgstr', m['forms'][0], charset, st, prefix=pfx))
    data = b''.join(out)
    if style.level == 2:
        data += blank_lines(style) if rng.random() < 0.5 else b''
    if not style.final_newline and data.endswith(b'"\n'):
        data = data[:-1]
    return data

# ----------------------------------------------------------------------------- MO layouts

def mo_entries(cat, charset, order='sorted'):
    """byte-level entries for tools/gen/mo.py, in msgfmt order (sorted by `[ctxt EOT] msgid`)"""
    ents = []
    for ctxt, msgid, plural, forms in entries_of(cat, charset):
        ents.append((None if ctxt is None else ctxt.encode(charset), msgid.encode(charset),
                     None if plural is None else plural.encode(charset), [f.encode(charset) for f in forms]))
    if order == 'sorted':
        ents.sort(key=lambda e: e[1] if e[0] is None else e[0] + b'\x04' + e[1])
    return ents

def sort_catalog(cat, charset):
    """the same catalog with its messages in the order msgfmt writes them for `charset`"""
    key = lambda m: (m['msgid'] if m['ctxt'] is None else m['ctxt'] + '\x04' + m['msgid']).encode(charset)
    c = dict(cat)
    c['msgs'] = sorted(cat['msgs'], key=key)
    return c

def render_mo(cat, charset, layout):
    return MO.serialize(mo_entries(cat, charset), layout)

def gen_layout(rng, simple=False):
    lay = MO.gen_layout(rng, simple=simple)
    if not simple and lay['minor'] == 1:
        lay['nsysdep'] = rng.choice([0, 0, 0, 1, 7])
    return lay

def hidden_of(lay):
    return lay['minor'] > 1 or (lay['minor'] == 1 and lay['nsysdep'] > 0)

# ----------------------------------------------------------------------------- packages

CONTROL = 'Package: gizmo\nVersion: 1.0-1\nArchitecture: all\nMaintainer: Jakub Wilk <jwilk@jwilk.net>\nDescription: gizmo\n'

MEMBER_DIRS = ['usr/share/locale/%(lang)s/LC_MESSAGES', 'usr/share/doc/gizmo', 'usr/share/gizmo/po', 'usr/lib/gizmo', 'opt/x y', 'usr/share/gizmo/%(lang)s']
OTHER_MEMBERS = [('usr/share/doc/gizmo/README', b'hello\n'), ('usr/share/doc/gizmo/changelog.gz', b'\x1f\x8b\x08\x00junk'), ('usr/bin/gizmo', b'#!/bin/sh\n'),
                 ('usr/share/gizmo/notes.txt', b'msgid "x"\nmsgstr "y"\n'), ('usr/share/gizmo/data.po.bak', b'msgid "x"\nmsgstr "y"\n'),
                 ('usr/share/gizmo/messages.PO', b'msgid "x"\nmsgstr "y"\n'), ('usr/share/doc/gizmo/po', b'not a po file\n'), ('usr/share/gizmo/.mo', b'junk'),
                 ('usr/share/gizmo/inner.deb', b'not a package\n'), ('usr/share/gizmo/inner.dsc', b'Format: 1.0\n'), ('usr/share/gizmo/empty', b'')]
