#!/usr/bin/env python3
"""The "does it bite" tables of the C15 / C16 ties (domains, gettexthdr, hdrchk, msgchk): registers them with tools/tie_edits.py and runs it.
usage: tools/trb_tie_edits.py <tie> [--check Cxx] [edit …]      (see tools/tie_edits.py)"""
import os, sys
sys.path.insert(0, os.path.dirname(os.path.abspath(__file__)))
import tie_edits
from tie_edits import ed, seeded, both

DM = 'lib/domains.py'
GT = 'lib/gettext.py'
CK = 'lib/check/__init__.py'

TIES = {
 'domains': {
  'translators': ['domains'], 'module': 'I18n.Props.C15Tie', 'tests': ['tests/test_domains.py'],
  'edits': {
   'seeded/C15-d': seeded('C15-d'),
   'dom-lower-dropped': ed(DM, ("    domain = domain.lower()\n    return _is_special(domain)", "    return _is_special(domain)")),
   'dom-split-first-at': ed(DM, ("def is_email_in_special_domain(email):\n    _, domain = email.rsplit('@', 1)", "def is_email_in_special_domain(email):\n    _, domain = email.split('@', 1)")),
   'dom-dotless-split-first-at': ed(DM, ("    # See also: RFC 7085 <https://www.rfc-editor.org/rfc/rfc7085.html>\n    _, domain = email.rsplit('@', 1)", "    # See also: RFC 7085 <https://www.rfc-editor.org/rfc/rfc7085.html>\n    _, domain = email.split('@', 1)")),
   'dom-local-part': ed(DM, ("def is_email_in_special_domain(email):\n    _, domain = email.rsplit('@', 1)", "def is_email_in_special_domain(email):\n    domain, _ = email.rsplit('@', 1)")),
   'dom-dotless-inverted': ed(DM, ("    return '.' not in domain", "    return '.' in domain")),
   'dom-dotless-other-char': ed(DM, ("    return '.' not in domain", "    return ',' not in domain")),
   'dom-dotless-whole-address': ed(DM, ("    _, domain = email.rsplit('@', 1)\n    return is_dotless_domain(domain)", "    return is_dotless_domain(email)")),
   'dom-special-whole-address': ed(DM, ("    _, domain = email.rsplit('@', 1)\n    return is_special_domain(domain)", "    return is_special_domain(email)")),
   'dom-lower-after-match': ed(DM, ("    domain = domain.lower()\n    return _is_special(domain)", "    match = _is_special(domain)\n    domain = domain.lower()\n    return match")),
   'dom-search-not-fullmatch': ed(DM, ("_is_special = re.compile(f'({_regexps})').fullmatch", "_is_special = re.compile(f'({_regexps})').search")),
   'dom-ignorecase-flag': ed(DM, ("_is_special = re.compile(f'({_regexps})').fullmatch", "_is_special = re.compile(f'({_regexps})', re.DOTALL).fullmatch")),
   'dom-special-uses-dotless': ed(DM, ("    _, domain = email.rsplit('@', 1)\n    return is_special_domain(domain)", "    _, domain = email.rsplit('@', 1)\n    return is_dotless_domain(domain)")),
   # behaviour-preserving
   'bp-rename': ed(DM, ("def is_email_in_special_domain(email):\n    _, domain = email.rsplit('@', 1)\n    return is_special_domain(domain)", "def is_email_in_special_domain(address):\n    local_part, host = address.rsplit('@', 1)\n    return is_special_domain(host)")),
   'bp-helper-split': ed(DM, ("def is_email_in_special_domain(email):\n    _, domain = email.rsplit('@', 1)\n    return is_special_domain(domain)", "def _email_domain(email):\n    _, domain = email.rsplit('@', 1)\n    return domain\n\ndef is_email_in_special_domain(email):\n    return is_special_domain(_email_domain(email))"),
                             ("    _, domain = email.rsplit('@', 1)\n    return is_dotless_domain(domain)", "    return is_dotless_domain(_email_domain(email))")),
   'bp-temp-lowered': ed(DM, ("    domain = domain.lower()\n    return _is_special(domain)", "    lowered = domain.lower()\n    match = _is_special(lowered)\n    return match")),
   'bp-inline-lower': ed(DM, ("    domain = domain.lower()\n    return _is_special(domain)", "    return _is_special(domain.lower())")),
   'bp-not-form': ed(DM, ("    return '.' not in domain", "    return not ('.' in domain)")),
   'bp-comments-reorder': ed(DM, ("def is_dotless_domain(domain):\n    return '.' not in domain\n", "def is_dotless_domain(domain):\n    '''no dot at all'''\n    # RFC 7085\n    return '.' not in domain\n")),
  }},
 'gettexthdr': {
  'translators': ['gettexthdr'], 'module': 'I18n.Props.C15Tie', 'tests': ['tests/test_gettext.py'],
  'edits': {
   'ph-strip-all-whitespace': ed(GT, ("value = values[0].strip(' \\t')", "value = values[0].strip()")),
   'ph-strip-blank-only': ed(GT, ("value = values[0].strip(' \\t')", "value = values[0].strip(' ')")),
   'ph-lstrip': ed(GT, ("value = values[0].strip(' \\t')", "value = values[0].lstrip(' \\t')")),
   'ph-no-strip': ed(GT, ("value = values[0].strip(' \\t')", "value = values[0]")),
   'ph-rsplit-colon': ed(GT, ("key, *values = line.split(':', 1)", "key, *values = line.rsplit(':', 1)")),
   'ph-split-all-colons': ed(GT, ("key, *values = line.split(':', 1)", "key, *values = line.split(':')")),
   'ph-keep-final-empty-line': ed(GT, ("    if lines[-1] == '':\n        lines.pop()\n    for line in lines:\n        key, *values", "    for line in lines:\n        key, *values")),
   'ph-pop-unconditionally': ed(GT, ("    if lines[-1] == '':\n        lines.pop()\n    for line in lines:\n        key, *values", "    lines.pop()\n    for line in lines:\n        key, *values")),
   'ph-first-line-test': ed(GT, ("    if lines[-1] == '':\n        lines.pop()\n    for line in lines:\n        key, *values", "    if lines[0] == '':\n        lines.pop()\n    for line in lines:\n        key, *values")),
   'ph-name-check-dropped': ed(GT, ("        if values and is_valid_field_name(key):", "        if values:")),
   'ph-stray-yields-key': ed(GT, ("            yield {key: value}\n        else:\n            yield line", "            yield {key: value}\n        else:\n            yield key")),
   'ph-field-swapped': ed(GT, ("            yield {key: value}", "            yield {value: key}")),
   'ph-field-name-pattern': ed(GT, ("is_valid_field_name = re.compile(r'^[\\x21-\\x39\\x3B-\\x7E]+$').match", "is_valid_field_name = re.compile(r'^[\\x21-\\x7E]+$').match")),
   'ph-splitlines': ed(GT, ("    lines = s.split('\\n')\n    if lines[-1] == '':", "    lines = s.splitlines()\n    if lines and lines[-1] == '':")),
   # behaviour-preserving
   'bp-rename': ed(GT, ("    lines = s.split('\\n')\n    if lines[-1] == '':\n        lines.pop()\n    for line in lines:\n        key, *values = line.split(':', 1)\n        if values and is_valid_field_name(key):\n            assert len(values) == 1\n            value = values[0].strip(' \\t')\n            yield {key: value}\n        else:\n            yield line",
                            "    pieces = s.split('\\n')\n    if pieces[-1] == '':\n        pieces.pop()\n    for piece in pieces:\n        name, *rest = piece.split(':', 1)\n        if rest and is_valid_field_name(name):\n            assert len(rest) == 1\n            body = rest[0].strip(' \\t')\n            yield {name: body}\n        else:\n            yield piece")),
   'bp-no-assert': ed(GT, ("            assert len(values) == 1\n", "")),
   'bp-inline-value': ed(GT, ("            value = values[0].strip(' \\t')\n            yield {key: value}", "            yield {key: values[0].strip(' \\t')}")),
   'bp-inverted-test': ed(GT, ("        if values and is_valid_field_name(key):\n            assert len(values) == 1\n            value = values[0].strip(' \\t')\n            yield {key: value}\n        else:\n            yield line", "        if not (values and is_valid_field_name(key)):\n            yield line\n        else:\n            assert len(values) == 1\n            value = values[0].strip(' \\t')\n            yield {key: value}")),
   'bp-continue-form': ed(GT, ("        if values and is_valid_field_name(key):\n            assert len(values) == 1\n            value = values[0].strip(' \\t')\n            yield {key: value}\n        else:\n            yield line", "        if values and is_valid_field_name(key):\n            assert len(values) == 1\n            value = values[0].strip(' \\t')\n            yield {key: value}\n            continue\n        yield line")),
   'bp-comments': ed(GT, ("    lines = s.split('\\n')\n    if lines[-1] == '':", "    # the lines of a header\n    lines = s.split('\\n')\n    # a final newline terminates the last line:\n    if lines[-1] == '':")),
  }},
}
tie_edits.TIES.update(TIES)

if __name__ == '__main__':
    tie_edits.main()
