#!/usr/bin/env python3
"""The "does it bite" tables of the C15 / C16 ties (domains, gettexthdr, hdrchk, msgchk): registers them with tools/tie_edits.py and runs it.
usage: tools/trb_tie_edits.py <tie> [--check Cxx] [edit …]      (see tools/tie_edits.py)"""
import os, sys
sys.path.insert(0, os.path.dirname(os.path.abspath(__file__)))
import tie_edits
from tie_edits import ed, seeded, both

DM = 'lib/domains.py'
GT = 'lib/gettext.py'
CK = 'lib/check/__init__.py'

TIES = {
 'domains': {
  'translators': ['domains'], 'module': 'I18n.Props.C15Tie', 'tests': ['tests/test_domains.py'],
  'edits': {
   'seeded/C15-d': seeded('C15-d'),
   'dom-lower-dropped': ed(DM, ("    domain = domain.lower()\n    return _is_special(domain)", "    return _is_special(domain)")),
   'dom-split-first-at': ed(DM, ("def is_email_in_special_domain(email):\n    _, domain = email.rsplit('@', 1)", "def is_email_in_special_domain(email):\n    _, domain = email.split('@', 1)")),
   'dom-dotless-split-first-at': ed(DM, ("    # See also: RFC 7085 <https://www.rfc-editor.org/rfc/rfc7085.html>\n    _, domain = email.rsplit('@', 1)", "    # See also: RFC 7085 <https://www.rfc-editor.org/rfc/rfc7085.html>\n    _, domain = email.split('@', 1)")),
   'dom-local-part': ed(DM, ("def is_email_in_special_domain(email):\n    _, domain = email.rsplit('@', 1)", "def is_email_in_special_domain(email):\n    domain, _ = email.rsplit('@', 1)")),
   'dom-dotless-inverted': ed(DM, ("    return '.' not in domain", "    return '.' in domain")),
   'dom-dotless-other-char': ed(DM, ("    return '.' not in domain", "    return ',' not in domain")),
   'dom-dotless-whole-address': ed(DM, ("    _, domain = email.rsplit('@', 1)\n    return is_dotless_domain(domain)", "    return is_dotless_domain(email)")),
   'dom-special-whole-address': ed(DM, ("    _, domain = email.rsplit('@', 1)\n    return is_special_domain(domain)", "    return is_special_domain(email)")),
   'dom-lower-after-match': ed(DM, ("    domain = domain.lower()\n    return _is_special(domain)", "    match = _is_special(domain)\n    domain = domain.lower()\n    return match")),
   'dom-search-not-fullmatch': ed(DM, ("_is_special = re.compile(f'({_regexps})').fullmatch", "_is_special = re.compile(f'({_regexps})').search")),
   'dom-ignorecase-flag': ed(DM, ("_is_special = re.compile(f'({_regexps})').fullmatch", "_is_special = re.compile(f'({_regexps})', re.DOTALL).fullmatch")),
   'dom-special-uses-dotless': ed(DM, ("    _, domain = email.rsplit('@', 1)\n    return is_special_domain(domain)", "    _, domain = email.rsplit('@', 1)\n    return is_dotless_domain(domain)")),
   # behaviour-preserving
   'bp-rename': ed(DM, ("def is_email_in_special_domain(email):\n    _, domain = email.rsplit('@', 1)\n    return is_special_domain(domain)", "def is_email_in_special_domain(address):\n    local_part, host = address.rsplit('@', 1)\n    return is_special_domain(host)")),
   'bp-helper-split': ed(DM, ("def is_email_in_special_domain(email):\n    _, domain = email.rsplit('@', 1)\n    return is_special_domain(domain)", "def _email_domain(email):\n    _, domain = email.rsplit('@', 1)\n    return domain\n\ndef is_email_in_special_domain(email):\n    return is_special_domain(_email_domain(email))"),
                             ("    _, domain = email.rsplit('@', 1)\n    return is_dotless_domain(domain)", "    return is_dotless_domain(_email_domain(email))")),
   'bp-temp-lowered': ed(DM, ("    domain = domain.lower()\n    return _is_special(domain)", "    lowered = domain.lower()\n    match = _is_special(lowered)\n    return match")),
   'bp-inline-lower': ed(DM, ("    domain = domain.lower()\n    return _is_special(domain)", "    return _is_special(domain.lower())")),
   'bp-not-form': ed(DM, ("    return '.' not in domain", "    return not ('.' in domain)")),
   'bp-comments-reorder': ed(DM, ("def is_dotless_domain(domain):\n    return '.' not in domain\n", "def is_dotless_domain(domain):\n    '''no dot at all'''\n    # RFC 7085\n    return '.' not in domain\n")),
  }},
}
tie_edits.TIES.update(TIES)

if __name__ == '__main__':
    tie_edits.main()
