#!/usr/bin/env python3
"""The "does it bite" tables of the C15 / C16 ties (domains, gettexthdr, hdrchk, msgchk): registers them with tools/tie_edits.py and runs it.
usage: tools/trb_tie_edits.py <tie> [--check Cxx] [edit …]      (see tools/tie_edits.py)"""
import os, sys
sys.path.insert(0, os.path.dirname(os.path.abspath(__file__)))
import tie_edits
from tie_edits import ed, seeded, both

DM = 'lib/domains.py'
GT = 'lib/gettext.py'
CK = 'lib/check/__init__.py'

TIES = {
 'domains': {
  'translators': ['domains'], 'module': 'I18n.Props.C15Tie', 'tests': ['tests/test_domains.py'],
  'edits': {
   'seeded/C15-d': seeded('C15-d'),
   'dom-lower-dropped': ed(DM, ("    domain = domain.lower()\n    return _is_special(domain)", "    return _is_special(domain)")),
   'dom-split-first-at': ed(DM, ("def is_email_in_special_domain(email):\n    _, domain = email.rsplit('@', 1)", "def is_email_in_special_domain(email):\n    _, domain = email.split('@', 1)")),
   'dom-dotless-split-first-at': ed(DM, ("    # See also: RFC 7085 <https://www.rfc-editor.org/rfc/rfc7085.html>\n    _, domain = email.rsplit('@', 1)", "    # See also: RFC 7085 <https://www.rfc-editor.org/rfc/rfc7085.html>\n    _, domain = email.split('@', 1)")),
   'dom-local-part': ed(DM, ("def is_email_in_special_domain(email):\n    _, domain = email.rsplit('@', 1)", "def is_email_in_special_domain(email):\n    domain, _ = email.rsplit('@', 1)")),
   'dom-dotless-inverted': ed(DM, ("    return '.' not in domain", "    return '.' in domain")),
   'dom-dotless-other-char': ed(DM, ("    return '.' not in domain", "    return ',' not in domain")),
   'dom-dotless-whole-address': ed(DM, ("    _, domain = email.rsplit('@', 1)\n    return is_dotless_domain(domain)", "    return is_dotless_domain(email)")),
   'dom-special-whole-address': ed(DM, ("    _, domain = email.rsplit('@', 1)\n    return is_special_domain(domain)", "    return is_special_domain(email)")),
   'dom-lower-after-match': ed(DM, ("    domain = domain.lower()\n    return _is_special(domain)", "    match = _is_special(domain)\n    domain = domain.lower()\n    return match")),
   'dom-search-not-fullmatch': ed(DM, ("_is_special = re.compile(f'({_regexps})').fullmatch", "_is_special = re.compile(f'({_regexps})').search")),
   'dom-ignorecase-flag': ed(DM, ("_is_special = re.compile(f'({_regexps})').fullmatch", "_is_special = re.compile(f'({_regexps})', re.DOTALL).fullmatch")),
   'dom-special-uses-dotless': ed(DM, ("    _, domain = email.rsplit('@', 1)\n    return is_special_domain(domain)", "    _, domain = email.rsplit('@', 1)\n    return is_dotless_domain(domain)")),
   # behaviour-preserving
   'bp-rename': ed(DM, ("def is_email_in_special_domain(email):\n    _, domain = email.rsplit('@', 1)\n    return is_special_domain(domain)", "def is_email_in_special_domain(address):\n    local_part, host = address.rsplit('@', 1)\n    return is_special_domain(host)")),
   'bp-helper-split': ed(DM, ("def is_email_in_special_domain(email):\n    _, domain = email.rsplit('@', 1)\n    return is_special_domain(domain)", "def _email_domain(email):\n    _, domain = email.rsplit('@', 1)\n    return domain\n\ndef is_email_in_special_domain(email):\n    return is_special_domain(_email_domain(email))"),
                             ("    _, domain = email.rsplit('@', 1)\n    return is_dotless_domain(domain)", "    return is_dotless_domain(_email_domain(email))")),
   'bp-temp-lowered': ed(DM, ("    domain = domain.lower()\n    return _is_special(domain)", "    lowered = domain.lower()\n    match = _is_special(lowered)\n    return match")),
   'bp-inline-lower': ed(DM, ("    domain = domain.lower()\n    return _is_special(domain)", "    return _is_special(domain.lower())")),
   'bp-not-form': ed(DM, ("    return '.' not in domain", "    return not ('.' in domain)")),
   'bp-comments-reorder': ed(DM, ("def is_dotless_domain(domain):\n    return '.' not in domain\n", "def is_dotless_domain(domain):\n    '''no dot at all'''\n    # RFC 7085\n    return '.' not in domain\n")),
  }},
 'gettexthdr': {
  'translators': ['gettexthdr'], 'module': 'I18n.Props.C15Tie', 'tests': ['tests/test_gettext.py'],
  'edits': {
   'ph-strip-all-whitespace': ed(GT, ("value = values[0].strip(' \\t')", "value = values[0].strip()")),
   'ph-strip-blank-only': ed(GT, ("value = values[0].strip(' \\t')", "value = values[0].strip(' ')")),
   'ph-lstrip': ed(GT, ("value = values[0].strip(' \\t')", "value = values[0].lstrip(' \\t')")),
   'ph-no-strip': ed(GT, ("value = values[0].strip(' \\t')", "value = values[0]")),
   'ph-rsplit-colon': ed(GT, ("key, *values = line.split(':', 1)", "key, *values = line.rsplit(':', 1)")),
   'ph-split-all-colons': ed(GT, ("key, *values = line.split(':', 1)", "key, *values = line.split(':')")),
   'ph-keep-final-empty-line': ed(GT, ("    if lines[-1] == '':\n        lines.pop()\n    for line in lines:\n        key, *values", "    for line in lines:\n        key, *values")),
   'ph-pop-unconditionally': ed(GT, ("    if lines[-1] == '':\n        lines.pop()\n    for line in lines:\n        key, *values", "    lines.pop()\n    for line in lines:\n        key, *values")),
   'ph-first-line-test': ed(GT, ("    if lines[-1] == '':\n        lines.pop()\n    for line in lines:\n        key, *values", "    if lines[0] == '':\n        lines.pop()\n    for line in lines:\n        key, *values")),
   'ph-name-check-dropped': ed(GT, ("        if values and is_valid_field_name(key):", "        if values:")),
   'ph-stray-yields-key': ed(GT, ("            yield {key: value}\n        else:\n            yield line", "            yield {key: value}\n        else:\n            yield key")),
   'ph-field-swapped': ed(GT, ("            yield {key: value}", "            yield {value: key}")),
   'ph-field-name-pattern': ed(GT, ("is_valid_field_name = re.compile(r'^[\\x21-\\x39\\x3B-\\x7E]+$').match", "is_valid_field_name = re.compile(r'^[\\x21-\\x7E]+$').match")),
   'ph-splitlines': ed(GT, ("    lines = s.split('\\n')\n    if lines[-1] == '':", "    lines = s.splitlines()\n    if lines and lines[-1] == '':")),
   # behaviour-preserving
   'bp-rename': ed(GT, ("    lines = s.split('\\n')\n    if lines[-1] == '':\n        lines.pop()\n    for line in lines:\n        key, *values = line.split(':', 1)\n        if values and is_valid_field_name(key):\n            assert len(values) == 1\n            value = values[0].strip(' \\t')\n            yield {key: value}\n        else:\n            yield line",
                            "    pieces = s.split('\\n')\n    if pieces[-1] == '':\n        pieces.pop()\n    for piece in pieces:\n        name, *rest = piece.split(':', 1)\n        if rest and is_valid_field_name(name):\n            assert len(rest) == 1\n            body = rest[0].strip(' \\t')\n            yield {name: body}\n        else:\n            yield piece")),
   'bp-no-assert': ed(GT, ("            assert len(values) == 1\n", "")),
   'bp-inline-value': ed(GT, ("            value = values[0].strip(' \\t')\n            yield {key: value}", "            yield {key: values[0].strip(' \\t')}")),
   'bp-inverted-test': ed(GT, ("        if values and is_valid_field_name(key):\n            assert len(values) == 1\n            value = values[0].strip(' \\t')\n            yield {key: value}\n        else:\n            yield line", "        if not (values and is_valid_field_name(key)):\n            yield line\n        else:\n            assert len(values) == 1\n            value = values[0].strip(' \\t')\n            yield {key: value}")),
   'bp-continue-form': ed(GT, ("        if values and is_valid_field_name(key):\n            assert len(values) == 1\n            value = values[0].strip(' \\t')\n            yield {key: value}\n        else:\n            yield line", "        if values and is_valid_field_name(key):\n            assert len(values) == 1\n            value = values[0].strip(' \\t')\n            yield {key: value}\n            continue\n        yield line")),
   'bp-comments': ed(GT, ("    lines = s.split('\\n')\n    if lines[-1] == '':", "    # the lines of a header\n    lines = s.split('\\n')\n    # a final newline terminates the last line:\n    if lines[-1] == '':")),
  }},
 'hdrchk': {
  'translators': ['domains', 'gettexthdr', 'hdrchk'], 'module': 'I18n.Props.C15Tie', 'tests': ['tests/blackbox_tests'],
  'edits': {
   'seeded/C15-a': seeded('C15-a'),
   'seeded/C15-c': seeded('C15-c'),
   'pj-dup-threshold': ed(CK, ("        if len(project_id_versions) > 1:", "        if len(project_id_versions) > 2:")),
   'pj-boilerplate-set': ed(CK, ("            if project_id_version in {'PACKAGE VERSION', 'PROJECT VERSION'}:", "            if project_id_version in {'PACKAGE VERSION'}:")),
   'pj-version-only-if-name': ed(CK, ("                if not re.search(r'[0-9]', project_id_version):", "                elif not re.search(r'[0-9]', project_id_version):")),
   'pj-no-sorted-set': ed(CK, ("            project_id_versions = sorted(set(project_id_versions))", "            project_id_versions = sorted(project_id_versions)")),
   'rp-empty-test-dropped': ed(CK, ("        if report_msgid_bugs_tos == ['']:\n            report_msgid_bugs_tos = []\n", "")),
   'rp-scheme-any': ed(CK, ("                if uri_scheme == '':\n                    self.tag('invalid-report-msgid-bugs-to', report_msgid_bugs_to)", "                if uri_scheme != 'http':\n                    self.tag('invalid-report-msgid-bugs-to', report_msgid_bugs_to)")),
   'rp-valueerror-silent': ed(CK, ("                    # e.g. \"http://[foo\" (unbalanced bracket in the netloc)\n                    uri_scheme = ''", "                    uri_scheme = 'invalid'")),
   'rp-boilerplate-before-special': ed(CK, ("            elif domains.is_email_in_special_domain(email_address):\n                self.tag('invalid-report-msgid-bugs-to', report_msgid_bugs_to)\n            elif email_address == 'EMAIL@ADDRESS':\n                self.tag('boilerplate-in-report-msgid-bugs-to', report_msgid_bugs_to)",
                                                 "            elif email_address == 'EMAIL@ADDRESS':\n                self.tag('boilerplate-in-report-msgid-bugs-to', report_msgid_bugs_to)\n            elif domains.is_email_in_special_domain(email_address):\n                self.tag('invalid-report-msgid-bugs-to', report_msgid_bugs_to)")),
   'rp-dotless-dropped': ed(CK, ("            elif domains.is_email_in_dotless_domain(email_address):\n                self.tag('invalid-report-msgid-bugs-to', report_msgid_bugs_to)\n", "")),
   'rp-tag-extra-address': ed(CK, ("            elif email_address == 'EMAIL@ADDRESS':\n                self.tag('boilerplate-in-report-msgid-bugs-to', report_msgid_bugs_to)", "            elif email_address == 'EMAIL@ADDRESS':\n                self.tag('boilerplate-in-report-msgid-bugs-to', email_address)")),
   'tr-template-test-dropped': ed(CK, ("            elif translator_email == 'EMAIL@ADDRESS':\n                if not ctx.is_template:\n                    self.tag('boilerplate-in-last-translator', translator)", "            elif translator_email == 'EMAIL@ADDRESS':\n                self.tag('boilerplate-in-last-translator', translator)")),
   'tr-emails-after-test': ed(CK, ("            translator_emails[translator_email] = translator\n            if '@' not in translator_email:\n                self.tag('invalid-last-translator', translator)\n            elif domains.is_email_in_special_domain(translator_email):", "            if '@' not in translator_email:\n                self.tag('invalid-last-translator', translator)\n                continue\n            translator_emails[translator_email] = translator\n            if domains.is_email_in_special_domain(translator_email):")),
   'tr-emails-keyed-by-value': ed(CK, ("            translator_emails[translator_email] = translator\n", "            translator_emails[translator] = translator_email\n")),
   'tm-boilerplate-set': ed(CK, ("            elif team_email in {'LL@li.org', 'EMAIL@ADDRESS'}:", "            elif team_email in {'EMAIL@ADDRESS'}:")),
   'tm-equal-before-dotless': ed(CK, ("            elif domains.is_email_in_dotless_domain(team_email):\n                self.tag('invalid-language-team', team)\n            else:\n                translator = translator_emails.get(team_email)\n                if translator is not None:\n                    self.tag('language-team-equal-to-last-translator', team, translator)",
                                          "            else:\n                translator = translator_emails.get(team_email)\n                if translator is not None:\n                    self.tag('language-team-equal-to-last-translator', team, translator)\n                elif domains.is_email_in_dotless_domain(team_email):\n                    self.tag('invalid-language-team', team)")),
   'tm-no-at-reported': ed(CK, ("                # self.tag('invalid-language-team', translator)\n                pass", "                self.tag('invalid-language-team', team)")),
   'tm-dup-elif-to-if': ed(CK, ("            teams = sorted(set(teams))\n        elif len(teams) == 0:", "            teams = sorted(set(teams))\n        if len(teams) == 0:")),
   # behaviour-preserving
   'bp-rename': ed(CK, ("        for team in teams:\n            team_name, team_email = parse_address(team)\n            del team_name\n            if '@' not in team_email:", "        for team in teams:\n            name_of_team, team_email = parse_address(team)\n            del name_of_team\n            if '@' not in team_email:"),
                       ("        for project_id_version in project_id_versions:\n            if project_id_version in {'PACKAGE VERSION', 'PROJECT VERSION'}:\n                self.tag('boilerplate-in-project-id-version', project_id_version)\n            else:\n                if not re.search(r'[^_\\d\\W]', project_id_version):\n                    self.tag('no-package-name-in-project-id-version', project_id_version)\n                if not re.search(r'[0-9]', project_id_version):\n                    self.tag('no-version-in-project-id-version', project_id_version)",
                        "        for piv in project_id_versions:\n            if piv in {'PACKAGE VERSION', 'PROJECT VERSION'}:\n                self.tag('boilerplate-in-project-id-version', piv)\n            else:\n                if not re.search(r'[^_\\d\\W]', piv):\n                    self.tag('no-package-name-in-project-id-version', piv)\n                if not re.search(r'[0-9]', piv):\n                    self.tag('no-version-in-project-id-version', piv)")),
   'bp-set-order': ed(CK, ("{'PACKAGE VERSION', 'PROJECT VERSION'}", "{'PROJECT VERSION', 'PACKAGE VERSION'}"), ("{'LL@li.org', 'EMAIL@ADDRESS'}", "{'EMAIL@ADDRESS', 'LL@li.org'}")),
   'bp-flip-comparison': ed(CK, ("        if len(project_id_versions) > 1:", "        if 1 < len(project_id_versions):"), ("            elif translator_email == 'EMAIL@ADDRESS':", "            elif 'EMAIL@ADDRESS' == translator_email:")),
   'bp-temp-scheme': ed(CK, ("                if uri_scheme == '':\n                    self.tag('invalid-report-msgid-bugs-to', report_msgid_bugs_to)", "                no_scheme = uri_scheme == ''\n                if no_scheme:\n                    self.tag('invalid-report-msgid-bugs-to', report_msgid_bugs_to)")),
   'bp-nested-else': ed(CK, ("            elif domains.is_email_in_dotless_domain(email_address):\n                self.tag('invalid-report-msgid-bugs-to', report_msgid_bugs_to)\n", "            else:\n                if domains.is_email_in_dotless_domain(email_address):\n                    self.tag('invalid-report-msgid-bugs-to', report_msgid_bugs_to)\n")),
   'bp-independent-reorder': ed(CK, ("        translator_emails = {}\n        for translator in translators:", "        translator_emails = {}\n        # addresses seen so far:\n        for translator in translators:"),
                                    ("            translator_name, translator_email = parse_address(translator)\n            del translator_name\n", "            translator_name, translator_email = parse_address(translator)\n")),
   # check_comments
   'cm-template-test-inverted': ed(CK, ("        if not ctx.is_template:\n            regexs |= {", "        if ctx.is_template:\n            regexs |= {")),
   'cm-pattern-moved': ed(CK, ("            r\"\\bTHE PACKAGE'S COPYRIGHT HOLDER\\b\",\n        }", "        }"), ("                r'\\bFIRST AUTHOR\\b',", "                r'\\bFIRST AUTHOR\\b',\n                r\"\\bTHE PACKAGE'S COPYRIGHT HOLDER\\b\",")),
   'cm-pattern-dropped': ed(CK, ("                r'<EMAIL@ADDRESS>',\n", "")),
   'cm-pattern-changed': ed(CK, ("            r'\\bCopyright \\S+ YEAR\\b',", "            r'\\bCopyright \\S* YEAR\\b',")),
   'cm-fullmatch': ed(CK, ("            match = regex.search(line)", "            match = regex.fullmatch(line)")),
   'cm-split-newline': ed(CK, ("        for line in ctx.file.header.splitlines():", "        for line in ctx.file.header.split('\\n'):")),
   'cm-tag-whole-header': ed(CK, ("            self.tag('boilerplate-in-initial-comments', line)", "            self.tag('boilerplate-in-initial-comments', ctx.file.header)")),
   'cm-break-after-first': ed(CK, ("            self.tag('boilerplate-in-initial-comments', line)", "            self.tag('boilerplate-in-initial-comments', line)\n            break")),
   'bp-cm-set-order': ed(CK, ("            r'\\bPACKAGE package\\b',\n            r'\\bCopyright \\S+ YEAR\\b',", "            r'\\bCopyright \\S+ YEAR\\b',\n            r'\\bPACKAGE package\\b',"), ("                r'\\bFIRST AUTHOR\\b',\n                r'<EMAIL@ADDRESS>',", "                r'<EMAIL@ADDRESS>',\n                r'\\bFIRST AUTHOR\\b',")),
   'bp-cm-positive-form': ed(CK, ("            if match is None:\n                continue\n            self.tag('boilerplate-in-initial-comments', line)", "            if match is not None:\n                self.tag('boilerplate-in-initial-comments', line)")),
   'bp-cm-rename': ed(CK, ("        regex = re.compile(str.join('|', regexs))\n        for line in ctx.file.header.splitlines():\n            match = regex.search(line)\n            if match is None:", "        boilerplate = re.compile(str.join('|', regexs))\n        for line in ctx.file.header.splitlines():\n            match = boilerplate.search(line)\n            if match is None:")),
   # check_mime
   'mm-version-literal': ed(CK, ("            if mime_version != '1.0':", "            if mime_version != '1.1':")),
   'mm-strip': ed(CK, ("            if mime_version != '1.0':", "            if mime_version.strip(' ') != '1.0':")),
   'mm-cte-dup-threshold': ed(CK, ("        if len(ctes) > 1:", "        if len(ctes) > 2:")),
   'mm-no-return': ed(CK, ("            self.tag('no-content-type-header-field', tags.safestr('Content-Type: ' + content_type_hint))\n            return\n", "            self.tag('no-content-type-header-field', tags.safestr('Content-Type: ' + content_type_hint))\n")),
   'mm-charset-boilerplate-in-template': ed(CK, ("                    if encoding == 'CHARSET':\n                        if not ctx.is_template:\n                            self.tag('boilerplate-in-content-type', ct)", "                    if encoding == 'CHARSET':\n                        self.tag('boilerplate-in-content-type', ct)")),
   'mm-unknown-keeps-encoding': ed(CK, ("                        self.tag('unknown-encoding', encoding)\n                    encoding = None", "                        self.tag('unknown-encoding', encoding)\n                        encoding = None")),
   'mm-portable-test-first': ed(CK, ("                    if not is_ascii_compatible:\n                        self.tag('non-ascii-compatible-encoding', encoding)\n                    elif encinfo.is_portable_encoding(encoding):\n                        pass", "                    if encinfo.is_portable_encoding(encoding):\n                        pass\n                    elif not is_ascii_compatible:\n                        self.tag('non-ascii-compatible-encoding', encoding)")),
   'mm-proposal-not-adopted': ed(CK, ("                            self.tag('non-portable-encoding', encoding, '=>', new_encoding)\n                            encoding = new_encoding", "                            self.tag('non-portable-encoding', encoding, '=>', new_encoding)")),
   'mm-truncate-at-six': ed(CK, ("                            if len(unrepresentable_characters) > 5:", "                            if len(unrepresentable_characters) > 6:")),
   'mm-hint-without-encoding': ed(CK, ("                    if encoding is not None:\n                        content_type_hint = content_type_hint.replace('<encoding>', encoding)\n", "")),
   'mm-invalid-ct-when-prefix': ed(CK, ("                if match.group(1) is None:", "                if match.group(1) is not None:")),
   'mm-encoding-any': ed(CK, ("        if len(encodings) == 1:\n            [ctx.encoding] = encodings", "        if len(encodings) >= 1:\n            ctx.encoding = sorted(encodings)[0]")),
   'mm-missing-ok': ed(CK, ("is_ascii_compatible = encinfo.is_ascii_compatible_encoding(encoding, missing_ok=False)", "is_ascii_compatible = encinfo.is_ascii_compatible_encoding(encoding)")),
   'bp-mm-rename': ed(CK, ("        for mime_version in mime_versions:\n            if mime_version != '1.0':\n                self.tag('invalid-mime-version', mime_version, '=>', '1.0')", "        for mv in mime_versions:\n            if mv != '1.0':\n                self.tag('invalid-mime-version', mv, '=>', '1.0')")),
   'bp-mm-not-eq': ed(CK, ("            if cte != '8bit':", "            if not (cte == '8bit'):")),
   'bp-mm-pass-branch': ed(CK, ("                    elif encinfo.is_portable_encoding(encoding):\n                        pass\n                    else:\n                        new_encoding = encinfo.propose_portable_encoding(encoding)", "                    elif not encinfo.is_portable_encoding(encoding):\n                        new_encoding = encinfo.propose_portable_encoding(encoding)")),
   'bp-mm-hint-hoisted': ed(CK, ("        encodings = set()\n        for ct in cts:\n            content_type_hint = 'text/plain; charset=<encoding>'\n", "        encodings = set()\n        for ct in cts:\n            # what the field should look like:\n            content_type_hint = 'text/plain; charset=<encoding>'\n")),
  }},
}
tie_edits.TIES.update(TIES)

if __name__ == '__main__':
    tie_edits.main()
