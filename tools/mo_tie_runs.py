#!/usr/bin/env python3
"""Run the C08/C09 checks against edited copies of /repo's lib/moparser.py and report what the TIE
(tools/translate/mo2lean.py + Props/C08Tie.lean) says next to what the falsifiers find.
usage: tools/mo_tie_runs.py [case …]      cases: seeded/C08-a … seeded/C09-d, bp-rename, bp-split
Never touches /repo: every case runs on a fresh clone under /tmp; Generated/MoParser.lean is regenerated from /repo at the end."""
import json, os, re, shutil, subprocess, sys, tempfile, time
HERE = os.path.dirname(os.path.dirname(os.path.abspath(__file__)))

def sh(cmd, cwd=None, env=None):
    p = subprocess.run(cmd, cwd=cwd, env=env, capture_output=True, text=True)
    return p.returncode, p.stdout + p.stderr

def edit(path, pairs, count=1):
    s = open(path, encoding='utf-8').read()
    for a, b in pairs:
        if a not in s: raise SystemExit(f'edit: {a!r} not found')
        s = s.replace(a, b)
    open(path, 'w', encoding='utf-8').write(s)

def c08a_rebased(repo):
    # seeded/C08-a was written before the fix ded8ac2 (`x.decode(enc)` -> `encodings.decode(x, enc)`); same change on the current text
    edit(os.path.join(repo, 'lib/moparser.py'), [
        ("        if len(msgids) == 1:\n            assert [msgstr] == msgstrs\n", "        if len(msgstrs) == 1:\n            # single translation string\n            [msgstr] = msgstrs\n"),
        ("            assert len(msgids) == 2\n            assert len(msgstrs) >= 1\n", "            assert len(msgids) == 2\n"),
    ])

def bp_rename(repo):
    """rename locals of the Parser methods (behaviour-preserving): NAME tokens only, not attributes, not keyword arguments"""
    import io, tokenize
    p = os.path.join(repo, 'lib/moparser.py')
    src = open(p, encoding='utf-8').read()
    ren = {'length': 'size', 'offset': 'start', 'msgids': 'key_parts', 'msgstrs': 'forms', 'kwargs': 'fields', 'begin': 'lo', 'end': 'hi',
           'possible_hidden_strings': 'hidden', 'revision': 'rev', 'n_strings': 'count', 'magic': 'head', 'view': 'buf', 'match': 'found',
           'n_sysdep_strings': 'nsys', 'msgctxt': 'context', 's': 'form'}
    lines = src.split('\n')
    first = next(i for i, l in enumerate(lines) if l.startswith('class Parser')) + 1
    last = next(i for i, l in enumerate(lines) if l.startswith('__all__'))
    toks = list(tokenize.generate_tokens(io.StringIO(src).readline))
    depth, edits = 0, []
    for k, t in enumerate(toks):
        if t.type == tokenize.OP and t.string in '([{': depth += 1
        if t.type == tokenize.OP and t.string in ')]}': depth -= 1
        if t.type == tokenize.NAME and t.string in ren and first <= t.start[0] <= last:
            prev, nxt = toks[k - 1], toks[k + 1]
            if prev.type == tokenize.OP and prev.string == '.': continue          # attribute
            if depth > 0 and nxt.type == tokenize.OP and nxt.string == '=' and prev.string in '(,': continue   # keyword argument
            edits.append((t.start[0] - 1, t.start[1], t.end[1], ren[t.string]))
    for ln, c0, c1, new in sorted(edits, reverse=True):
        lines[ln] = lines[ln][:c0] + new + lines[ln][c1:]
    open(p, 'w', encoding='utf-8').write('\n'.join(lines))

def bp_split(repo):
    """split _parse_entry into two methods (behaviour-preserving)"""
    edit(os.path.join(repo, 'lib/moparser.py'), [
        ("        encoding = self._encoding\n        if i == 0:\n",
         "        return self._make_entry(i, msgid, msgids, msgstr, msgstrs)\n\n    def _make_entry(self, i, msgid, msgids, msgstr, msgstrs):\n        encoding = self._encoding\n        if i == 0:\n"),
    ])

def _ed(*pairs):
    return lambda repo: edit(os.path.join(repo, 'lib/moparser.py'), list(pairs))

# one-line edits (tie only: translate + build Props/C08Tie, no streams/falsifier): `tools/mo_tie_runs.py --tie-only`
SMALL = {
    'm-drop-bound-test': _ed(("        if end > len(view):\n            raise SyntaxError('truncated file')\n", "")),
    'm-probe-minus-1': _ed(("            if view[offset + length] != b'\\0':\n                raise SyntaxError('msgid is", "            if view[offset + length - 1] != b'\\0':\n                raise SyntaxError('msgid is")),
    'm-swap-endian': _ed(("self._endian = '<'", "self._endian = '@'"), ("self._endian = '>'", "self._endian = '<'"), ("self._endian = '@'", "self._endian = '>'")),
    'm-maxsplit-1': _ed(("msgid.split(b'\\0', 2)", "msgid.split(b'\\0', 1)")),
    'm-word-32': _ed(("self._read_ints(at=36)", "self._read_ints(at=32)")),
    'm-no-order-test': _ed(("elif msgid < self._last_msgid:", "elif False:")),
    'm-major-2': _ed(("if major_revision > 1:", "if major_revision > 2:")),
    'm-charset-any-entry': _ed(("if encoding is None and msgid == b'':", "if encoding is None:")),
    'm-regex': _ed(("charset=([^ \\t\\n]+)", "charset=([^ \\t]+)")),
    'm-no-compat-test': _ed(("elif not encodings.is_ascii_compatible_encoding(encoding):", "elif False:")),
    'm-shift-15': _ed(("1 << 16", "1 << 15")),
    'm-stride-4': _ed(("msgid_offset + 8 * i", "msgid_offset + 4 * i")),
    'm-ge-1-to-gt-1': _ed(("assert len(msgstrs) >= 1", "assert len(msgstrs) > 1")),
    'm-message-text': _ed(("'unexpected null byte in msgstr'", "'unexpected null byte in msgid'")),
    'm-flag-not-set': _ed(("        self.instance.possible_hidden_strings = possible_hidden_strings\n", "")),
    'bp-reorder-independent': _ed(("        begin = at\n        end = at + 4 * n\n        view = self._view\n", "        view = self._view\n        end = at + 4 * n\n        begin = at\n"),
                                  ("        [msgid_offset, msgstr_offset] = self._read_ints(at=12, n=2)\n        self._last_msgid = None\n", "        self._last_msgid = None\n        [msgid_offset, msgstr_offset] = self._read_ints(at=12, n=2)\n")),
    'bp-flip-comparison': _ed(("if end > len(view):", "if len(view) < end:")),
    'bp-comments-docstrings': _ed(("    def _parse(self):\n", "    def _parse(self):\n        \'\'\'read the header, then the entries\'\'\'\n        # nothing else\n\n")),
    'bp-inline-temp': _ed(("        begin = at\n        end = at + 4 * n\n", "        end = at + 4 * n\n"), ("view[begin:end]", "view[at:end]")),
    'bp-not-eq-form': _ed(("if len(msgids) > 2:", "if not len(msgids) <= 2:")),
}

def tie_only(name):
    scratch = tempfile.mkdtemp(prefix='motr-scratch.')
    repo = os.path.join(scratch, 'repo')
    res = {'case': name}
    try:
        subprocess.run(['git', 'clone', '-q', '/repo', repo], check=True)
        SMALL[name](repo)
        rc, out = sh(['/venv/bin/python', '-m', 'pytest', '-q', '-p', 'no:cacheprovider', '-x', 'tests/test_moparser.py'], cwd=repo)
        res['moparser_tests'] = out.strip().splitlines()[-1] if out.strip() else ''
        rc, out = sh(['/venv/bin/python', os.path.join(HERE, 'tools/translate/mo2lean.py'), repo])
        res['translator'] = 'untranslatable: ' + out.strip().split('untranslatable: ')[-1] if rc == 3 else out.strip()
        t0 = time.time()
        rc, out = sh(['lake', 'build', 'I18n.Props.C08Tie'], cwd=os.path.join(HERE, 'lean'))
        res['tie'] = 'holds' if rc == 0 else 'fails'
        res['build_s'] = round(time.time() - t0, 1)
        if rc != 0:
            errs = re.findall(r'^error: (.*)$', out, re.M)
            res['first_errors'] = [e[:160] for e in errs[:3]]
    finally:
        shutil.rmtree(scratch, ignore_errors=True)
    return res

CASES = {'bp-rename': bp_rename, 'bp-split': bp_split, 'seeded/C08-a': c08a_rebased}

def run_case(name):
    scratch = tempfile.mkdtemp(prefix='motr-scratch.')
    repo = os.path.join(scratch, 'repo')
    res = {'case': name}
    try:
        subprocess.run(['git', 'clone', '-q', '/repo', repo], check=True)
        if name in CASES:
            CASES[name](repo)
        else:
            rc, out = sh(['git', 'apply', os.path.join(HERE, name, 'patch.diff')], cwd=repo)
            if rc != 0:
                res['error'] = 'patch does not apply: ' + out[-300:]
                return res
        rc, out = sh(['git', 'diff', '--stat'], cwd=repo)
        res['diff'] = out.strip().splitlines()[-1] if out.strip() else ''
        rc, out = sh(['/venv/bin/python', '-m', 'pytest', '-q', '-p', 'no:cacheprovider', '-x', 'tests/test_moparser.py'], cwd=repo)
        res['moparser_tests'] = out.strip().splitlines()[-1] if out.strip() else ''
        env = dict(os.environ, VERIF_REPO=repo)
        for pid in ('C08', 'C09'):
            t0 = time.time()
            rc, out = sh([os.path.join(HERE, 'check'), pid, 'quick'], cwd=HERE, env=env)
            lines = [l for l in out.splitlines() if l.startswith(('VIOLATION', 'KNOWN-FINDING', 'OK ', 'INFRA'))]
            ev = json.load(open(os.path.join(HERE, 'evidence', pid + '.json')))
            tie = ev['coverage'].get('tie', {})
            entry = {'rc': rc, 'lines': lines, 'wall_s': round(time.time() - t0, 1), 'translation': tie.get('translation'),
                     'tie_checked': tie.get('checked'), 'tie_problems': tie.get('problems', [])[:4],
                     'obligations': ev['coverage'].get('obligations'), 'discharged': ev['coverage'].get('discharged'),
                     'stream_disagreements': {k: v['disagreements'] for k, v in ev['coverage'].get('streams', {}).items() if v['disagreements']}}
            for l in lines:
                if l.startswith('VIOLATION') and 'replay=' in l:
                    try:
                        rp = json.load(open(os.path.join(HERE, l.split('replay=')[1].split()[0])))
                        entry['replay'] = {k: str(v)[:160] for k, v in rp.items() if k in ('kind', 'what', 'observed', 'expected', 'file_hex', 'message', 'reference')}
                    except Exception:
                        pass
            res[pid] = entry
    finally:
        shutil.rmtree(scratch, ignore_errors=True)
    return res

def main():
    if sys.argv[1:2] == ['--tie-only']:
        out = []
        try:
            for n in (sys.argv[2:] or list(SMALL)):
                r = tie_only(n)
                out.append(r)
                print(json.dumps(r), flush=True)
        finally:
            sh(['/venv/bin/python', os.path.join(HERE, 'tools/translate/mo2lean.py'), '/repo'])
            sh(['lake', 'build', 'I18n.Props.C08Tie', 'driver'], cwd=os.path.join(HERE, 'lean'))
        json.dump(out, open(os.path.join(HERE, 'DESIGN-notes', 'mo-tie-small-edits.json'), 'w'), indent=1)
        return
    names = sys.argv[1:] or ['seeded/C08-a', 'seeded/C08-b', 'seeded/C08-c', 'seeded/C08-d', 'seeded/C09-a', 'seeded/C09-b', 'seeded/C09-c', 'seeded/C09-d', 'bp-rename', 'bp-split']
    out = []
    try:
        for n in names:
            r = run_case(n)
            out.append(r)
            print(json.dumps(r, indent=1), flush=True)
    finally:
        # leave Generated/MoParser.lean and the driver in step with the real /repo
        sh(['/venv/bin/python', os.path.join(HERE, 'tools/translate/mo2lean.py'), '/repo'])
        sh(['lake', 'build', 'I18n.Props.C08Tie', 'driver'], cwd=os.path.join(HERE, 'lean'))
    json.dump(out, open(os.path.join(HERE, 'DESIGN-notes', 'mo-tie-runs.json'), 'w'), indent=1)

if __name__ == '__main__':
    main()
