#!/usr/bin/env python3
"""Run the C08/C09 checks against edited copies of /repo's lib/moparser.py and report what the TIE
(tools/translate/mo2lean.py + Props/C08Tie.lean) says next to what the falsifiers find.
usage: tools/mo_tie_runs.py [case …]      cases: seeded/C08-a … seeded/C09-d, bp-rename, bp-split
Never touches /repo: every case runs on a fresh clone under /tmp; Generated/MoParser.lean is regenerated from /repo at the end."""
import json, os, re, shutil, subprocess, sys, tempfile, time
HERE = os.path.dirname(os.path.dirname(os.path.abspath(__file__)))

def sh(cmd, cwd=None, env=None):
    p = subprocess.run(cmd, cwd=cwd, env=env, capture_output=True, text=True)
    return p.returncode, p.stdout + p.stderr

def edit(path, pairs, count=1):
    s = open(path, encoding='utf-8').read()
    for a, b in pairs:
        if a not in s: raise SystemExit(f'edit: {a!r} not found')
        s = s.replace(a, b)
    open(path, 'w', encoding='utf-8').write(s)

def c08a_rebased(repo):
    # seeded/C08-a was written before the fix ded8ac2 (`x.decode(enc)` -> `encodings.decode(x, enc)`); same change on the current text
    edit(os.path.join(repo, 'lib/moparser.py'), [
        ("        if len(msgids) == 1:\n            assert [msgstr] == msgstrs\n", "        if len(msgstrs) == 1:\n            # single translation string\n            [msgstr] = msgstrs\n"),
        ("            assert len(msgids) == 2\n            assert len(msgstrs) >= 1\n", "            assert len(msgids) == 2\n"),
    ])

def bp_rename(repo):
    """rename locals of the Parser methods (behaviour-preserving): NAME tokens only, not attributes, not keyword arguments"""
    import io, tokenize
    p = os.path.join(repo, 'lib/moparser.py')
    src = open(p, encoding='utf-8').read()
    ren = {'length': 'size', 'offset': 'start', 'msgids': 'key_parts', 'msgstrs': 'forms', 'kwargs': 'fields', 'begin': 'lo', 'end': 'hi',
           'possible_hidden_strings': 'hidden', 'revision': 'rev', 'n_strings': 'count', 'magic': 'head', 'view': 'buf', 'match': 'found',
           'n_sysdep_strings': 'nsys', 'msgctxt': 'context', 's': 'form'}
    lines = src.split('\n')
    first = next(i for i, l in enumerate(lines) if l.startswith('class Parser')) + 1
    last = next(i for i, l in enumerate(lines) if l.startswith('__all__'))
    toks = list(tokenize.generate_tokens(io.StringIO(src).readline))
    depth, edits = 0, []
    for k, t in enumerate(toks):
        if t.type == tokenize.OP and t.string in '([{': depth += 1
        if t.type == tokenize.OP and t.string in ')]}': depth -= 1
        if t.type == tokenize.NAME and t.string in ren and first <= t.start[0] <= last:
            prev, nxt = toks[k - 1], toks[k + 1]
            if prev.type == tokenize.OP and prev.string == '.': continue          # attribute
            if depth > 0 and nxt.type == tokenize.OP and nxt.string == '=' and prev.string in '(,': continue   # keyword argument
            edits.append((t.start[0] - 1, t.start[1], t.end[1], ren[t.string]))
    for ln, c0, c1, new in sorted(edits, reverse=True):
        lines[ln] = lines[ln][:c0] + new + lines[ln][c1:]
    open(p, 'w', encoding='utf-8').write('\n'.join(lines))

def bp_split(repo):
    """split _parse_entry into two methods (behaviour-preserving)"""
    edit(os.path.join(repo, 'lib/moparser.py'), [
        ("        encoding = self._encoding\n        if i == 0:\n",
         "        return self._make_entry(i, msgid, msgids, msgstr, msgstrs)\n\n    def _make_entry(self, i, msgid, msgids, msgstr, msgstrs):\n        encoding = self._encoding\n        if i == 0:\n"),
    ])

CASES = {'bp-rename': bp_rename, 'bp-split': bp_split, 'seeded/C08-a': c08a_rebased}

def run_case(name):
    scratch = tempfile.mkdtemp(prefix='motr-scratch.')
    repo = os.path.join(scratch, 'repo')
    res = {'case': name}
    try:
        subprocess.run(['git', 'clone', '-q', '/repo', repo], check=True)
        if name in CASES:
            CASES[name](repo)
        else:
            rc, out = sh(['git', 'apply', os.path.join(HERE, name, 'patch.diff')], cwd=repo)
            if rc != 0:
                res['error'] = 'patch does not apply: ' + out[-300:]
                return res
        rc, out = sh(['git', 'diff', '--stat'], cwd=repo)
        res['diff'] = out.strip().splitlines()[-1] if out.strip() else ''
        rc, out = sh(['/venv/bin/python', '-m', 'pytest', '-q', '-p', 'no:cacheprovider', '-x', 'tests/test_moparser.py'], cwd=repo)
        res['moparser_tests'] = out.strip().splitlines()[-1] if out.strip() else ''
        env = dict(os.environ, VERIF_REPO=repo)
        for pid in ('C08', 'C09'):
            t0 = time.time()
            rc, out = sh([os.path.join(HERE, 'check'), pid, 'quick'], cwd=HERE, env=env)
            lines = [l for l in out.splitlines() if l.startswith(('VIOLATION', 'KNOWN-FINDING', 'OK ', 'INFRA'))]
            ev = json.load(open(os.path.join(HERE, 'evidence', pid + '.json')))
            tie = ev['coverage'].get('tie', {})
            entry = {'rc': rc, 'lines': lines, 'wall_s': round(time.time() - t0, 1), 'translation': tie.get('translation'),
                     'tie_checked': tie.get('checked'), 'tie_problems': tie.get('problems', [])[:4],
                     'obligations': ev['coverage'].get('obligations'), 'discharged': ev['coverage'].get('discharged'),
                     'stream_disagreements': {k: v['disagreements'] for k, v in ev['coverage'].get('streams', {}).items() if v['disagreements']}}
            for l in lines:
                if l.startswith('VIOLATION') and 'replay=' in l:
                    try:
                        rp = json.load(open(os.path.join(HERE, l.split('replay=')[1].split()[0])))
                        entry['replay'] = {k: str(v)[:160] for k, v in rp.items() if k in ('kind', 'what', 'observed', 'expected', 'file_hex', 'message', 'reference')}
                    except Exception:
                        pass
            res[pid] = entry
    finally:
        shutil.rmtree(scratch, ignore_errors=True)
    return res

def main():
    names = sys.argv[1:] or ['seeded/C08-a', 'seeded/C08-b', 'seeded/C08-c', 'seeded/C08-d', 'seeded/C09-a', 'seeded/C09-b', 'seeded/C09-c', 'seeded/C09-d', 'bp-rename', 'bp-split']
    out = []
    try:
        for n in names:
            r = run_case(n)
            out.append(r)
            print(json.dumps(r, indent=1), flush=True)
    finally:
        # leave Generated/MoParser.lean and the driver in step with the real /repo
        sh(['/venv/bin/python', os.path.join(HERE, 'tools/translate/mo2lean.py'), '/repo'])
        sh(['lake', 'build', 'I18n.Props.C08Tie', 'driver'], cwd=os.path.join(HERE, 'lean'))
    json.dump(out, open(os.path.join(HERE, 'DESIGN-notes', 'mo-tie-runs.json'), 'w'), indent=1)

if __name__ == '__main__':
    main()
