#!/usr/bin/env python3
"""ling2lean: regenerate lean/I18n/Generated/LingFn.lean from the CURRENT source of lib/ling.py:

    Language._simple_format, Language.get_unrepresentable_characters

`Props/C20Tie.lean` (third part) proves them equal, for ALL languages, character lists and encoders, to `languageCharacters` +
`getUnrepresentable` of `Model/Charset.lean`.  Statement layer: tools/translate/pytr (+ pytr/tryexc.py).  The target kit is
`Model/LingPy.lean` (namespace `I18n.Charset.LPy`); its header states what each Python operation is taken to be — the trusted base.
What the translator itself decides (also trusted): `_get_characters` must be a module-level function (bound once) and becomes the
parameter `chars`; `x.encode(encoding)` with the method's own `encoding` parameter is the parameter `encode`; `self.territory_code`
is narrowed by an `is not None` conjunct of the enclosing `if`.

Anything else raises Untranslatable: exit 3, marker file that does not compile, dependent obligations broken.
"""
import ast, os, sys
sys.path.insert(0, os.path.dirname(os.path.abspath(__file__)))
from pytr import (Untranslatable, bad, lname, atom, render, bind, joinc, tuple_pat, Style, Stmts, _mangled, assigned_names, read_names)
from pytr import tryexc

def mk(*a): return tuple(a)
INT, BOOL, STR, NONE, LSTR, LANG, EXC, ENCNAME = mk('int'), mk('bool'), mk('str'), mk('none'), mk('lstr'), mk('lang'), mk('exc'), mk('encname')
def OPT(t): return t if t[0] == 'opt' else ('opt', t)
SIMPLE = {'int': 'Int', 'bool': 'Bool', 'str': 'Name', 'none': 'Unit', 'lstr': 'List Name', 'lang': 'LPy.Language', 'exc': 'LPy.Exn', 'encname': 'Unit'}
def lean_type(t):
    if t[0] in SIMPLE: return SIMPLE[t[0]]
    if t[0] == 'opt': return f'Option {atom(lean_type(t[1]))}'
    raise Untranslatable(f'no Lean type for {t}')
def join(a, b, node=None):
    if a == b: return a
    if a is None: return b
    if b is None: return a
    if a == NONE: return OPT(b)
    if b == NONE: return OPT(a)
    if a[0] == 'opt' and a[1] == b: return a
    if b[0] == 'opt' and b[1] == a: return b
    bad(node, f'incompatible types {a} and {b}')
def coerce(text, frm, to, node=None):
    if frm == to: return text
    if to[0] == 'opt' and frm == NONE: return 'none'
    if to[0] == 'opt' and to[1] == frm: return f'(some {atom(text)})'
    bad(node, f'cannot use a value of type {frm} where {to} is expected')
def tuple_type(types):
    if not types: return 'Unit'
    if len(types) == 1: return atom(lean_type(types[0]))
    return '(' + ' × '.join(lean_type(t) for t in types) + ')'
class Types:
    NONE, INT = NONE, INT
    join = staticmethod(join); coerce = staticmethod(coerce); tuple_type = staticmethod(tuple_type)

class LStyle(Style):
    def extra(self, node, ind):
        if node[0] == 'foreachbrk':
            _, xs, x, pat, body, init, rest = node
            pad = '  ' * ind
            return ([pad + f'match LPy.forEachBrk {xs} (fun {x} {pat} =>'] + render(body, ind + 2, self) + [pad + f'  ) {init} with',
                    pad + '| .error e => .error e', pad + f'| .ok {pat} =>'] + render(rest, ind + 1, self))
        return tryexc.render_extra(node, ind, self, render)
STYLE = LStyle('LPy.Exn', 'PyKit.tryExcept', 'PyKit.forRange')

def dotted(e):
    try: return ast.unparse(e)
    except Exception: return ''
class NoWrites(dict):
    def get(self, k, d=None): return False
def safe_lit(v): return isinstance(v, str) and v.isascii() and '"' not in v and '\\' not in v

ATTRS = {'language_code': STR, 'territory_code': OPT(STR), 'modifier': OPT(STR)}

class Fn(tryexc.TryExcept, Stmts):
    T = Types
    STATE = '#no-state'
    DUPLICATE_ON_RETURN = True
    CAUGHT = {'UnicodeError': 'LPy.Exn.isUnicodeError'}
    EXC_TYPE = EXC
    EXC_ASSERT = '.error .other'
    EXC_UNREACHABLE = '.other'
    style = STYLE

    def __init__(self, unit, fdef, ret_type, probing):
        self.u, self.f, self.name, self.pyname = unit, fdef, lname(fdef.name), 'Language.' + fdef.name
        self.writes = False
        self.writes_map = NoWrites()
        self.ret_types = [] if probing else None
        self.ret_type = ret_type
        self.ntmp = 0
        self.uses = set()
        self.loops = []
        self.te_init()

    def note(self, msg): self.u.dropped.add(msg)
    def result_lean_type(self): return atom(lean_type(self.ret_type)) if self.ret_type else 'Unit'
    def ok(self, value_text, ty, env, node=None):
        if self.loops: bad(node, 'return inside a for loop')
        if self.ret_types is not None:
            if ty is not None: self.ret_types.append(ty)
            return ('raw', '.ok default')
        v = coerce(value_text, ty, self.ret_type, node)
        if self.try_depth: return ('raw', f'.ok (.inl {atom(v)})')
        return ('raw', f'.ok {atom(v)}')
    def value(self, e, env, B):
        t, ty = self.expr(e, env, B)
        return 'pure', t, ty, False
    def raise_(self, s, env, B):
        bad(s, f'raise {dotted(s.exc)[:60]}')

    def narrowed(self, attr, env):
        return env.get('#attr:' + attr)

    def expr(self, e, env, B):
        if isinstance(e, ast.Constant):
            v = e.value
            if v is None: return '()', NONE
            if isinstance(v, bool): return ('true' if v else 'false'), BOOL
            if safe_lit(v): return (f'(LPy.lit "{v}")' if v else '([] : Name)'), STR
            bad(e, f'literal {v!r}')
        if isinstance(e, ast.Name):
            if e.id in env: return lname(e.id), env[e.id]
            bad(e, f'unknown name {e.id}')
        if isinstance(e, ast.List) and not e.elts: return '([] : List Name)', LSTR
        if isinstance(e, ast.List):
            items = [self.expr(x, env, B) for x in e.elts]
            if all(ty == STR for _, ty in items): return '[' + ', '.join(t for t, _ in items) + ']', LSTR
            bad(e, 'list')
        if isinstance(e, ast.Attribute) and isinstance(e.value, ast.Name) and env.get(e.value.id) == LANG and e.attr in ATTRS:
            n = self.narrowed(e.attr, env)
            if n: return n, ATTRS[e.attr][1]
            return f'{lname(e.value.id)}.{e.attr}', ATTRS[e.attr]
        if isinstance(e, ast.BinOp) and isinstance(e.op, ast.Add):
            a, aty = self.expr(e.left, env, B)
            b, bty = self.expr(e.right, env, B)
            if aty == bty and aty in (STR, LSTR): return f'({atom(a)} ++ {atom(b)})', aty
            bad(e, f'+ on {aty} and {bty}')
        if isinstance(e, ast.UnaryOp) and isinstance(e.op, ast.Not):
            return f'(!{atom(self.cond(e.operand, env, B))})', BOOL
        if isinstance(e, ast.Compare) and len(e.ops) == 1 and isinstance(e.ops[0], (ast.Is, ast.IsNot)) and isinstance(e.comparators[0], ast.Constant) and e.comparators[0].value is None:
            t, ty = self.expr(e.left, env, B)
            if ty[0] != 'opt': bad(e, 'is None on a non-optional')
            return (f'{atom(t)}.isNone' if isinstance(e.ops[0], ast.Is) else f'{atom(t)}.isSome'), BOOL
        if isinstance(e, ast.Call):
            return self.call(e, env, B)
        bad(e, f'expression {type(e).__name__}')

    def call(self, e, env, B):
        f, a, d = e.func, e.args, dotted(e.func)
        kw = {k.arg: k.value for k in e.keywords}
        if isinstance(f, ast.Name) and f.id in env: bad(e, f'call of a local {d}')
        if d == 'self._simple_format' and env.get('self') == LANG and not a and set(kw) <= {'territory'} and '_simple_format' in self.u.done:
            t = 'true'
            if 'territory' in kw:
                t, ty = self.expr(kw['territory'], env, B)
                if ty != BOOL: bad(e, 'territory=')
            return self.hoist(B, f'_simple_format self {atom(t)}'), STR
        if d == '_get_characters' and self.u.get_characters_ok and len(a) == 2 and set(kw) == {'strict'}:
            c, cty = self.expr(a[0], env, B)
            m, mty = self.expr(a[1], env, B)
            s, sty = self.expr(kw['strict'], env, B)
            if (cty, mty, sty) != (STR, OPT(STR), BOOL): bad(e, 'arguments of _get_characters')
            self.uses.add('chars')
            return f'(chars {atom(c)} {atom(m)} {atom(s)})', OPT(LSTR)
        if d == 'str.join' and len(a) == 2 and not kw and isinstance(a[0], ast.Constant) and a[0].value == '':
            t, ty = self.expr(a[1], env, B)
            if ty != LSTR: bad(e, 'str.join of a non-list')
            return f'{atom(t)}.flatten', STR
        if d == 'getattr' and len(a) == 3 and not kw and isinstance(a[0], ast.Name) and env.get(a[0].id) == EXC and isinstance(a[1], ast.Constant) and a[1].value == 'reason' and \
           isinstance(a[2], ast.Constant) and a[2].value == '':
            return lname(a[0].id), ('reason',)
        if isinstance(f, ast.Attribute):
            t, ty = self.expr(f.value, env, B)
            if ty == ('reason',) and f.attr == 'startswith' and len(a) == 1 and not kw and isinstance(a[0], ast.Constant) and a[0].value == 'iconv:':
                return f'{atom(t)}.reasonIsIconv', BOOL
            if ty == STR and f.attr == 'encode' and len(a) == 1 and not kw and isinstance(a[0], ast.Name) and env.get(a[0].id) == ENCNAME:
                self.uses.add('encode')
                return self.hoist(B, f'LPy.strEncode encode {atom(t)}'), NONE
        bad(e, f'call {dotted(e)[:60]}')

    def cond(self, e, env, B):
        if isinstance(e, ast.BoolOp) and isinstance(e.op, ast.And):
            parts = []
            for x in e.values:
                n0 = len(B)
                parts.append(atom(self.cond(x, env, B)))
                if len(B) != n0: bad(e, 'and over a partial operation')
            return '(' + ' && '.join(parts) + ')'
        t, ty = self.expr(e, env, B)
        if ty == BOOL: return t
        bad(e, f'truth value of {ty}')

    def if_(self, s, env, go, live):
        """`if … and self.X is not None [and …]:` narrows `self.X` in the body: match on it first"""
        conj = s.test.values if isinstance(s.test, ast.BoolOp) and isinstance(s.test.op, ast.And) else [s.test]
        for i, c in enumerate(conj):
            if isinstance(c, ast.Compare) and len(c.ops) == 1 and isinstance(c.ops[0], ast.IsNot) and isinstance(c.comparators[0], ast.Constant) and \
               c.comparators[0].value is None and isinstance(c.left, ast.Attribute) and isinstance(c.left.value, ast.Name) and env.get(c.left.value.id) == LANG and \
               c.left.attr in ATTRS and ATTRS[c.left.attr][0] == 'opt' and not self.narrowed(c.left.attr, env) and \
               any(isinstance(n, ast.Attribute) and n.attr == c.left.attr for st in s.body for n in ast.walk(st)):
                rest_conj = conj[:i] + conj[i + 1:]
                var = c.left.attr + '_'
                env_some = dict(env); env_some['#attr:' + c.left.attr] = var
                if rest_conj:
                    test = rest_conj[0] if len(rest_conj) == 1 else ast.BoolOp(op=ast.And(), values=rest_conj)
                    inner = ast.copy_location(ast.If(test=test, body=s.body, orelse=s.orelse), s)
                    some_tree = self.block([inner], env_some, lambda e2: go(self.unnarrow(e2, c.left.attr)), live)
                else:
                    some_tree = self.block(list(s.body), env_some, lambda e2: go(self.unnarrow(e2, c.left.attr)), live)
                none_tree = self.block(list(s.orelse), dict(env), go, live)
                return ('match', f'{lname(c.left.value.id)}.{c.left.attr}', [('none', none_tree), (f'some {var}', some_tree)])
        return super().if_(s, env, go, live)

    def join_vars(self, blocks, env, live):
        # a name bound on one path only and not before can only be read later after being assigned again (else Python raises
        # NameError, and the generated text would not compile): it takes no part in the join
        per = [assigned_names(b, self.writes_map) for b in blocks]
        names = set().union(*per) if per else set()
        return sorted(n for n in names if n in live and (n in env or all(n in p for p in per)))

    def unnarrow(self, env, attr):
        e2 = dict(env); e2.pop('#attr:' + attr, None)
        return e2

    def assign(self, target, value, s, env, go):
        if not isinstance(target, ast.Name): bad(s, 'assignment target')
        x = target.id
        B = []
        text, ty = self.expr(value, env, B)
        env2 = dict(env); env2[x] = ty
        if B and getattr(B[-1], '__defaults__', None) and len(B[-1].__defaults__) == 2 and text == B[-1].__defaults__[0]:
            comp = B[-1].__defaults__[1]; B.pop()
            return self.wrap(B, bind(lname(x), comp, go(env2)))
        return self.wrap(B, ('let', lname(x), text, go(env2)))

    def call_stmt(self, c, s, env, go):
        B = []
        t, ty = self.expr(c, env, B)
        if ty != NONE: bad(s, 'call statement with a value')
        return self.wrap(B, go(env))

    def other_stmt(self, s, rest, env, k, live):
        if isinstance(s, ast.Break) and self.loops:
            return self.loops[-1](env, True)
        return super().other_stmt(s, rest, env, k, live)

    def for_(self, s, env, go, live):
        """for x in <list of str>: body, `break` allowed (no continue / return / else)"""
        if s.orelse or not isinstance(s.target, ast.Name): bad(s, 'for/else or tuple target')
        for n in s.body:
            for x in ast.walk(n):
                if isinstance(x, (ast.Return, ast.Continue)): bad(x, 'return/continue inside for')
        B = []
        xs, xty = self.expr(s.iter, env, B)
        if xty != LSTR: bad(s, 'for over something other than a list of str')
        x = s.target.id
        assigned = assigned_names(s.body, self.writes_map) - {x}
        vars_ = sorted(v for v in assigned if v in env)
        for v in assigned:
            if v not in env and v in live: bad(s, f'{v} is assigned in the loop and read after it but not bound before')
        if x in live: bad(s, 'loop variable used after the loop')
        types = [env[v] for v in vars_]
        env_body = dict(env); env_body[x] = STR
        def final(env2, broke=False):
            for v, t in zip(vars_, types):
                if env2.get(v) != t: bad(s, f'type of {v} changes in the loop')
            return ('raw', f'.ok ({"true" if broke else "false"}, ' + tuple_pat([self.lvar(v) for v in vars_]) + ')')
        self.loops.append(final)
        depth = self.try_depth
        self.try_depth = 0
        try:
            body = self._seq(s.body, env_body, final, set(vars_))
        finally:
            self.loops.pop()
            self.try_depth = depth
        pat = tuple_pat([self.lvar(v) for v in vars_])
        return self.wrap(B, ('foreachbrk', atom(xs), lname(x), pat, body, pat, go(dict(env))))


class Unit:
    def __init__(self, repo):
        self.tree = ast.parse(open(os.path.join(repo, 'lib', 'ling.py'), encoding='utf-8').read())
        for n in ast.walk(self.tree):
            if isinstance(n, (ast.Global, ast.Nonlocal)): bad(n, 'global / nonlocal')
        bound = {}
        for n in self.tree.body:
            if isinstance(n, (ast.FunctionDef, ast.ClassDef)):
                bound[n.name] = bound.get(n.name, 0) + 1
                continue
            for x in ast.walk(n):
                if isinstance(x, ast.Name) and isinstance(x.ctx, ast.Store): bound[x.id] = bound.get(x.id, 0) + 1
        self.get_characters_ok = bound.get('_get_characters') == 1 and not any(k in bound for k in ('str', 'getattr'))
        self.classes = {n.name: n for n in self.tree.body if isinstance(n, ast.ClassDef)}
        self.done = {}
        self.dropped = set()

HEADER = '''/-
GENERATED by tools/translate/ling2lean.py from lib/ling.py (`Language._simple_format`, `Language.get_unrepresentable_characters`) — do not edit.
Regenerated from the repository's working tree on every check; `I18n/Props/C20Tie.lean` (third part) proves the definitions equal to
`languageCharacters` + `getUnrepresentable` of `Model/Charset.lean`.  The target kit is `Model/LingPy.lean`.
-/
import I18n.Model.LingPy
set_option linter.unusedVariables false
namespace I18n.Generated.LingFn
open I18n I18n.Charset

'''

def method(u, c, name, pos, kwonly, env_extra, want):
    ms = [n for n in c.body if isinstance(n, ast.FunctionDef) and n.name == name]
    if len(ms) != 1: raise Untranslatable(f'Language.{name} not found (or defined twice)')
    f = ms[0]
    a = f.args
    if f.decorator_list or a.vararg or a.kwarg or a.posonlyargs or a.defaults or [x.arg for x in a.args] != ['self'] + [p for p, _ in pos] or \
       [x.arg for x in a.kwonlyargs] != [k for k, _, _ in kwonly]: bad(f, f'signature of {name}')
    for x, dflt, (k, ty, want_d) in zip(a.kwonlyargs, a.kw_defaults, kwonly):
        if not (isinstance(dflt, ast.Constant) and dflt.value is want_d): bad(f, f'default of {k}')
    for n in ast.walk(f):
        if isinstance(n, ast.Name) and n.id in ('chars', 'encode', 'exc_'): bad(n, f'the name {n.id} is taken by the translation')
    env = {'self': LANG}
    env.update({p: t for p, t in pos})
    env.update({k: t for k, t, _ in kwonly})
    def run(probe, rt=None):
        fn = Fn(u, f, rt, probe)
        return fn, fn.block(list(f.body), dict(env), fn.fall_off, set())
    fn, _ = run(True)
    rt = None
    for t in fn.ret_types: rt = join(rt, t, f)
    if rt != want: raise Untranslatable(f'Language.{name} returns {rt}')
    fn, tree = run(False, rt)
    binders = []
    if 'chars' in fn.uses: binders.append('(chars : Name → Option Name → Bool → Option (List Name))')
    if 'encode' in fn.uses: binders.append('(encode : List Nat → Enc)')
    binders += ['(self : LPy.Language)'] + [f'({lname(p)} : {lean_type(t)})' for p, t in pos if t != ENCNAME] + [f'({lname(k)} : {lean_type(t)})' for k, t, _ in kwonly]
    u.done[name] = True
    return (f'/-- `lib.ling.Language.{name}` -/\ndef {lname(name)} {" ".join(binders)} : Except LPy.Exn {atom(lean_type(rt))} :=\n' + '\n'.join(render(tree, 1, STYLE)) + '\n')

def generate(repo):
    _mangled.clear()
    u = Unit(repo)
    c = u.classes.get('Language')
    if c is None: raise Untranslatable('class Language not found')
    out = [HEADER]
    out.append(method(u, c, '_simple_format', [], [('territory', BOOL, True)], {}, STR))
    out.append(method(u, c, 'get_unrepresentable_characters', [('encoding', ENCNAME)], [('strict', BOOL, False)], {}, OPT(LSTR)))
    out.append('/- Statements discharged statically by the translator:\n' + ''.join(f'  {d}\n' for d in sorted(u.dropped)) + '-/\n')
    out.append('end I18n.Generated.LingFn\n')
    return '\n'.join(out)

def main():
    repo = sys.argv[1] if len(sys.argv) > 1 else '/repo'
    dest = sys.argv[2] if len(sys.argv) > 2 else os.path.join(os.path.dirname(os.path.abspath(__file__)), '..', '..', 'lean', 'I18n', 'Generated', 'LingFn.lean')
    try:
        try:
            text = generate(repo)
        except (SyntaxError, KeyError, AttributeError, TypeError, IndexError, ValueError, AssertionError, RecursionError, OSError) as exc:
            raise Untranslatable(f'{type(exc).__name__} while translating: {exc}')
    except Untranslatable as exc:
        msg = str(exc).replace('"', "'").replace('\\', '/')
        text = HEADER + (f'-- UNTRANSLATABLE: {msg}\n'
                         '/-- deliberately does not compile: the current lib/ling.py is outside the translator\'s subset (see above) -/\n'
                         'def untranslatable : Unit := the_current_source_of_lib_ling_is_untranslatable\n'
                         'end I18n.Generated.LingFn\n')
        print(f'untranslatable: {exc}', file=sys.stderr)
        old = open(dest, encoding='utf-8').read() if os.path.exists(dest) else None
        if old != text: open(dest, 'w', encoding='utf-8').write(text)
        sys.exit(3)
    old = open(dest, encoding='utf-8').read() if os.path.exists(dest) else None
    if old != text:
        open(dest, 'w', encoding='utf-8').write(text)
        print('changed')
    else:
        print('unchanged')

if __name__ == '__main__':
    main()
