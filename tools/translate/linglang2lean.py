#!/usr/bin/env python3
"""linglang2lean: regenerate lean/I18n/Generated/Ling.lean from the CURRENT source of lib/ling.py:

  class Language: __init__, _get_tuple, clone, __eq__, __ne__, is_almost_equal, fix_codes, get_principal_territory_code,
                  remove_principal_territory_code, remove_encoding, remove_nonlinguistic_modifier, __str__
  _lookup_language_code(language), lookup_territory_code(cc), parse_language(s)

(the locale-name code of property C19).  `Props/C19Tie.lean` proves each regenerated function equal, for ALL inputs, to the hand-written
model the theorems of C19 are about (`Locale.parseLanguageE`, `fixCodes`, `removeEncoding`, `removeNonlinguisticModifier`,
`removePrincipalTerritory`, `isAlmostEqual`, `Language.str`, `lookupLanguage`, `lookupTerritory`).
Statement layer: tools/translate/pytr (core + objfn).  What is specific here — the trusted base of this tie:

  Language       an instance is the record `Locale.Language`: the attributes language_code / territory_code / encoding / modifier are the
                 fields ll / cc / enc / mod (a str is `List Char`, None-or-str is `Option`); a method that assigns attributes returns the
                 object next to its result.  `isinstance(x, Language)` is decided by the typing of the signatures below.
  the regex      `_language_regexp.match(s)` is the kit's scanner `Locale.Py.languageMatch s` — `none` for None, else `match.groups()` =
                 (group 1, …, group 4) — on BOTH sides of the equality (the hand model's `parseLanguage` is that scanner followed by the
                 constructor: `LingLangPy: parseLanguage_eq_match`); the scanner is tied to the `re._parser` tree of the live pattern by C19's
                 `regex_pin`, `parse_sound`, `parse_complete`.  Required here: `_language_regexp` is assigned once, by `re.compile(…)`,
                 and the method called is `.match`.
  str.upper      `encoding.upper()` is `Locale.Py.upper` = ASCII letters to upper case, everything else unchanged: exact on what group 3 of
                 the regex (`[a-zA-Z0-9+-]+`) and an already upper-cased encoding (`clone`) can be.
  the tables     `_iso_639.get(k)` is `Locale.Py.iso639Get` (`Locale.lookupLanguage`), `cc in _iso_3166` is `Locale.Py.iso3166Has`, both over
                 the tables dumped from the live module by locale2lean.py; required here: `[_iso_639, _iso_3166] = _read_iso_codes()` is
                 their only assignment.  `_get_principal_territory_code(ll)` is `Locale.principalTerritory` (dumped table; its source text is
                 pinned here).
  exceptions     `raise LanguageSyntaxError / FixingLanguageCodesFailed() / ValueError / LookupError(…)` are `Locale.LErr` values; the class
                 hierarchy (LanguageError(ValueError) and its two subclasses) is checked here.

Anything else raises Untranslatable: exit 3, marker file that does not compile, dependent obligations broken.
"""
import ast, os, sys
sys.path.insert(0, os.path.dirname(os.path.abspath(__file__)))
from pytr import Untranslatable, bad, lname, atom, Style, _mangled
from pytr.objfn import (TypeSys, Unit, ObjFn, Sig, translate, writes_attrs, INT, BOOL, STR, NONE, OPT, TUP, REC, chars)

LANG = REC('Language')
OSTR = OPT(STR)
GROUPS = TUP(STR, OSTR, OSTR, OSTR)
T = TypeSys(recs={'Language': 'Language'})
STYLE = Style('LErr', 'PyKit.tryExcept', 'PyKit.forRange')

FIELDS = {'language_code': ('ll', STR), 'territory_code': ('cc', OSTR), 'encoding': ('enc', OSTR), 'modifier': ('mod', OSTR)}
RAISES = {'LanguageSyntaxError': '.syntax', 'FixingLanguageCodesFailed': '.fixingCodes', 'ValueError': '.valueError', 'LookupError': '.lookupError'}
HIERARCHY = {'LanguageError': 'ValueError', 'LanguageSyntaxError': 'LanguageError', 'FixingLanguageCodesFailed': 'LanguageError',
             'FixingLanguageEncodingFailed': 'LanguageError'}
PRINCIPAL = ("def _get_principal_territory_code(language):\n    try:\n        section = _primary_languages[language]\n    except KeyError:\n        return\n"
             "    return section.get('principal-territory')")

# signatures: parameters (name, type, has a None default) without self
METHODS = [
    ('__init__', [('language_code', STR, False), ('territory_code', OSTR, True), ('encoding', OSTR, True), ('modifier', OSTR, True)]),
    ('_get_tuple', []), ('clone', []), ('__eq__', [('other', LANG, False)]), ('__ne__', [('other', LANG, False)]),
    ('get_principal_territory_code', []), ('remove_principal_territory_code', []),
    ('is_almost_equal', [('other', LANG, False)]), ('fix_codes', []), ('remove_encoding', []), ('remove_nonlinguistic_modifier', []), ('__str__', []),
]
FUNCS = [('_lookup_language_code', [('language', STR, False)]), ('lookup_territory_code', [('cc', STR, False)]), ('parse_language', [('s', STR, False)])]

class Fn(ObjFn):
    EXC_ASSERT = '.error .assertion'

    def raise_(self, s, env, B):
        x = s.exc
        if isinstance(x, ast.Call) and not x.keywords: x = x.func          # arguments are message material
        if s.cause is None and isinstance(x, ast.Name) and x.id in RAISES and x.id not in env and self.u.errors_ok:
            return f'.error {RAISES[x.id]}'
        bad(s, f'raise {ast.unparse(s.exc) if s.exc else ""}')

    def global_name(self, e, env, B):
        if e.id == 'NotImplemented': bad(e, '`NotImplemented` on a path the types do not exclude')
        bad(e, f'unknown name {e.id}')

    def contains_(self, e, L, R, env, B):
        if isinstance(R, ast.Name) and R.id == '_iso_3166' and R.id not in env and self.u.tables_ok:
            t, ty = self.expr(L, env, B)
            if ty != STR: bad(e, f'`in _iso_3166` of a value of type {ty}')
            return f'(I18n.Locale.Py.iso3166Has {atom(t)})'
        bad(e, f'`in` {ast.unparse(e)[:40]}')

    def prim_call(self, e, env, B):
        f = e.func
        if isinstance(f, ast.Name):
            if f.id == '_get_principal_territory_code' and self.u.principal_ok and len(e.args) == 1 and not e.keywords:
                t, ty = self.expr(e.args[0], env, B)
                if ty != STR: bad(e, 'argument of _get_principal_territory_code')
                return f'(I18n.Locale.principalTerritory {atom(t)})', OSTR
            bad(e, f'call of {f.id}')
        if isinstance(f, ast.Attribute):
            v = f.value
            if isinstance(v, ast.Name) and v.id not in env:
                if v.id == '_iso_639' and f.attr == 'get' and self.u.tables_ok and len(e.args) == 1 and not e.keywords:
                    t, ty = self.expr(e.args[0], env, B)
                    if ty != STR: bad(e, 'argument of _iso_639.get')
                    return f'(I18n.Locale.Py.iso639Get {atom(t)})', OSTR
                if v.id == '_language_regexp' and f.attr == 'match' and self.u.regex_ok and len(e.args) == 1 and not e.keywords:
                    t, ty = self.expr(e.args[0], env, B)
                    if ty != STR: bad(e, 'argument of _language_regexp.match')
                    return f'(I18n.Locale.Py.languageMatch {atom(t)})', OPT(GROUPS)
            vt, vty = self.expr(v, env, B)
            if vty == GROUPS and f.attr == 'groups' and not e.args and not e.keywords:
                return vt, GROUPS
            if vty == STR and f.attr == 'upper' and not e.args and not e.keywords:
                return f'(I18n.Locale.Py.upper {atom(vt)})', STR
            bad(e, f'method .{f.attr} of a value of type {vty}')
        bad(e, 'call')

class LingUnit(Unit):
    def __init__(self, repo):
        super().__init__(T)
        self.tree = ast.parse(open(os.path.join(repo, 'lib', 'ling.py'), encoding='utf-8').read())
        body = self.tree.body
        self.fdefs = {n.name: n for n in body if isinstance(n, ast.FunctionDef)}
        cdefs = {n.name: n for n in body if isinstance(n, ast.ClassDef)}
        if len(self.fdefs) != sum(1 for n in body if isinstance(n, ast.FunctionDef)): raise Untranslatable('a module-level function is defined twice')
        for n in ast.walk(self.tree):
            if isinstance(n, (ast.Global, ast.Nonlocal)): bad(n, 'global / nonlocal')
        # every module-level name that the translation gives a meaning to is bound exactly once, the way it is expected
        stores = {}
        for n in ast.walk(self.tree):
            if isinstance(n, ast.Name) and isinstance(n.ctx, (ast.Store, ast.Del)): stores[n.id] = stores.get(n.id, 0) + 1
        def once(name): return stores.get(name, 0) == 1
        self.regex_ok = self.tables_ok = False
        for n in body:
            if isinstance(n, ast.Assign) and len(n.targets) == 1:
                t, v = n.targets[0], n.value
                if isinstance(t, ast.Name) and t.id == '_language_regexp':
                    self.regex_ok = (once('_language_regexp') and isinstance(v, ast.Call) and ast.unparse(v.func) == 're.compile' and len(v.args) >= 1 and
                                     isinstance(v.args[0], ast.Constant) and isinstance(v.args[0].value, str))
                if isinstance(t, (ast.List, ast.Tuple)) and [ast.unparse(x) for x in t.elts] == ['_iso_639', '_iso_3166']:
                    self.tables_ok = once('_iso_639') and once('_iso_3166') and ast.unparse(v) == '_read_iso_codes()'
        # names of translated functions / primitives must not be rebound
        for name in ['_get_principal_territory_code', '_primary_languages', 'Language', 're'] + [f for f, _ in FUNCS] + list(HIERARCHY):
            if stores.get(name, 0) > (1 if name == '_primary_languages' else 0): raise Untranslatable(f'{name} is re-bound')
        def plain_exc(name, base):
            c = cdefs.get(name)
            return c is not None and [ast.unparse(b) for b in c.bases] == [base] and all(isinstance(s, ast.Pass) for s in c.body) and not c.decorator_list and not c.keywords
        self.errors_ok = all(plain_exc(n, b) for n, b in HIERARCHY.items())
        f = self.fdefs.get('_get_principal_territory_code')
        self.principal_ok = f is not None and ast.unparse(f) == PRINCIPAL
        cls = cdefs.get('Language')
        if cls is None: raise Untranslatable('class Language not found')
        if cls.bases or cls.keywords or cls.decorator_list: bad(cls, 'class Language has bases / decorators')
        self.mdefs = {}
        for n in cls.body:
            if isinstance(n, ast.FunctionDef):
                if n.name in self.mdefs: bad(n, f'Language.{n.name} is defined twice')
                self.mdefs[n.name] = n
            elif not (isinstance(n, ast.Expr) and isinstance(n.value, ast.Constant)) and not isinstance(n, ast.Pass):
                bad(n, 'class Language: a statement other than a method definition')
        for m in ('__getattr__', '__getattribute__', '__setattr__', '__bool__', '__len__', '__hash__', '__new__', '__init_subclass__', '__slots__'):
            if m in self.mdefs: raise Untranslatable(f'Language.{m} is defined')
        self.methods_defined = {('Language', m) for m in self.mdefs}
        self.records['Language'] = dict(FIELDS)
        self.classes['Language'] = 'Language'

    # helpers without a declared signature: inlined at their call sites
    def helper_def(self, rec, name):
        if rec is None:
            if name in self.fdefs and name not in self.funcs and name not in PRIMITIVE_FUNCS: return (self.fdefs[name], False)
            return None
        if rec == 'Language' and name in self.mdefs and (rec, name) not in self.methods and not name.startswith('__'):
            return (self.mdefs[name], name in self.writing)
        return None

PRIMITIVE_FUNCS = {'_get_principal_territory_code', '_read_iso_codes', '_read_primary_languages', '_munch_language_name'}

def generate(repo):
    _mangled.clear()
    u = LingUnit(repo)
    out = [HEADER]
    # which methods assign attributes (fixpoint over calls through self)
    writing = set()
    for _ in range(len(u.mdefs) + 1):
        new = {m for m in u.mdefs if m != '__init__' and writes_attrs(u.mdefs[m], writing)}
        if new == writing: break
        writing = new
    u.writing = writing
    for name, params in METHODS:
        if name not in u.mdefs:
            if name == '__ne__': continue
            raise Untranslatable(f'Language.{name} not found')
        u.methods[('Language', name)] = Sig(f'Language.{name}', params, u.mdefs[name], rec='Language', writes=(name in writing or name == '__init__'), ctor=(name == '__init__'))
    for name, params in FUNCS:
        if name not in u.fdefs: raise Untranslatable(f'{name} not found')
        u.funcs[name] = Sig(name, params, u.fdefs[name])
    # __init__: every field is assigned unconditionally at the top level, and none is read
    init = u.mdefs['__init__']
    top = {s.targets[0].attr for s in init.body if isinstance(s, ast.Assign) and len(s.targets) == 1 and isinstance(s.targets[0], ast.Attribute) and
           isinstance(s.targets[0].value, ast.Name) and s.targets[0].value.id == 'self'}
    if top != set(FIELDS): bad(init, f'__init__ assigns {sorted(top)} at its top level, expected {sorted(FIELDS)}')
    for n in ast.walk(init):
        if isinstance(n, ast.Attribute) and isinstance(n.value, ast.Name) and n.value.id == 'self' and isinstance(n.ctx, ast.Load): bad(n, '__init__ reads an attribute of self')
        if isinstance(n, ast.Name) and n.id == 'self' and isinstance(n.ctx, ast.Load) and not any(isinstance(p, ast.Attribute) and p.value is n for p in ast.walk(init)):
            bad(n, '__init__ uses self as a value')
        if isinstance(n, ast.Return): bad(n, 'return in __init__')
    def translate_sig(sig):
        name = sig.node.name
        doc = f'`lib.ling.Language.{name}`' if sig.rec else f'`lib.ling.{name}`'
        if sig.rec and sig.writes and name != '__init__': doc += ': the result and the object afterwards'
        return translate(u, sig.rec, sig, doc, STYLE, fn_class=Fn)
    u.translate_sig = translate_sig
    for name, _ in METHODS:
        if ('Language', name) in u.methods: u.ensure(u.methods[('Language', name)])
    for name, _ in FUNCS: u.ensure(u.funcs[name])
    out += u.emitted
    out.append('/- Statements discharged statically by the translator:\n' + ''.join(f'  {d}\n' for d in sorted(u.dropped)) + '-/\n')
    out.append('end I18n.Generated.Ling\n')
    return '\n'.join(out)

HEADER = '''/-
GENERATED by tools/translate/linglang2lean.py from lib/ling.py (class `Language`, `parse_language`, the two code look-ups) — do not edit.
Regenerated from the repository's working tree on every check; `I18n/Props/C19Tie.lean` proves each definition equal to the model the
theorems of C19 are about (`Locale.parseLanguageE`, `fixCodes`, `removeEncoding`, `removeNonlinguisticModifier`, `isAlmostEqual`, `Language.str`, …).
-/
import I18n.PyKit
import I18n.Model.LingLangPy
set_option linter.unusedVariables false
namespace I18n.Generated.Ling
open I18n I18n.Locale

'''

def main():
    repo = sys.argv[1] if len(sys.argv) > 1 else '/repo'
    dest = sys.argv[2] if len(sys.argv) > 2 else os.path.join(os.path.dirname(os.path.abspath(__file__)), '..', '..', 'lean', 'I18n', 'Generated', 'Ling.lean')
    try:
        try:
            text = generate(repo)
        except (SyntaxError, KeyError, AttributeError, TypeError, IndexError, ValueError, AssertionError, RecursionError, OSError, StopIteration) as exc:
            raise Untranslatable(f'{type(exc).__name__} while translating: {exc}')
    except Untranslatable as exc:
        msg = str(exc).replace('"', "'").replace('\\', '/')
        text = HEADER + (f'-- UNTRANSLATABLE: {msg}\n'
                         '/-- deliberately does not compile: the current lib/ling.py is outside the translator\'s subset (see above) -/\n'
                         'def untranslatable : Unit := the_current_source_of_lib_ling_is_untranslatable\n'
                         'end I18n.Generated.Ling\n')
        print(f'untranslatable: {exc}', file=sys.stderr)
        old = open(dest, encoding='utf-8').read() if os.path.exists(dest) else None
        if old != text: open(dest, 'w', encoding='utf-8').write(text)
        sys.exit(3)
    old = open(dest, encoding='utf-8').read() if os.path.exists(dest) else None
    if old != text:
        open(dest, 'w', encoding='utf-8').write(text)
        print('changed')
    else:
        print('unchanged')

if __name__ == '__main__':
    main()
