#!/usr/bin/env python3
"""fmtargs2lean: regenerate lean/I18n/Generated/FmtArgs.lean from the CURRENT source of

  lib/check/msgformat/c.py          Checker.check_args
  lib/check/msgformat/python.py     Checker.check_args
  lib/check/msgformat/pybrace.py    Checker.check_args
  lib/check/msgformat/perlbrace.py  Checker.check_args
  lib/strformat/c.py                FormatString.get_last_integer_conversion

(the decision logic of property C14: which argument tags a pair of parsed format strings gets).  `Props/C14Tie.lean` proves
each regenerated function equal, for ALL inputs, to the hand-written model the theorems of C14 are about
(`FmtCheck.checkArgsC / checkArgsPython / checkArgsPyBrace / checkArgsPerlBrace / getLastIntConv`).

Statement layer: tools/translate/pytr (see its docstring).  What is specific here — the trusted base of this tie:

  objects        a parsed C format string is `FmtCheck.CFmtX` (`.arguments`: per argument its uses), a Python-% one `PyFmt.Result`
                 (`.seq_arguments` -> .seq, `.map_arguments` -> .map), python-brace `FmtSig.PyBraceSig` (`.argument_map` -> .args; a use
                 is its `.types`: `FmtSig.TySet`), perl-brace `FmtSig.PerlBraceSig` (`.arguments` -> .args).  A use of a C argument is a
                 `Spec.Printf.Entry`: `isinstance(arg, (VariableWidth, VariablePrecision))` is `kind = width ∨ kind = prec`,
                 `isinstance(arg, Conversion)` is `kind = conv`; the IDENTITY of a Conversion object is its item index
                 (`arg.parent`; for the conversion's own entry `parent` is its own index), `conv.integer` is `self.integer[conv]`;
                 a Conversion object is truthy (class Conversion defines neither __bool__ nor __len__: checked here).
  ints           `Int`; `len(x)` is `(x.length : Int)`; `xs[i]` with an int `i` is `PyKit.listGetInt` (negative indices), `xs[0]`
                 `PyKit.listGet`; `range(a, b)` is `PyKit.rangeInt a b`.
  str            `List Char` (`.type` attributes are Lean `String`s: `x.type.toList` where a str is needed); f'({loc})' is a concatenation.
  dicts / sets   dicts are association lists with distinct keys in dict order, sets duplicate-free lists: `d[k]` PyKit.dictGet (KeyError),
                 `d.keys()` PyKit.keys, `a & b` / `a - b` PyKit.setInter / setDiff (order of `a`), `sorted(s)` on str `FmtSig.sortBy strLt`,
                 `sorted(s, key=sort_key)` with the local `sort_key(item) = (isinstance(item, str), item)`: `sortBy BKey.lt` on
                 int-or-str keys, `sortBy strLt` on str keys; `len`, `[x] = s` (ValueError unless one element), `set()` / `()` the empty list;
                 on type sets: `a & b` TySet.inter, truth value TySet.nonempty, `'int' in t` the field, `str.join(', ', sorted(t))` TySet.joined.
  self.tag(n, *extras)   out := out ++ [⟨n, extras⟩] with typed extras: a str is `.str` (escaped on output), `tags.safestr(s)` `.safe`, an int
                 `.int`, an int-or-str key `BKey.extra`; `message_repr(message, template='{}:')` is the parameter `msgPrefix`.
  loops          `for x in xs` / `for a, b in zip(xs, ys)` / `for i in range(a, b)`: PyKit.forEach over the loop-carried variables;
                 with a `return` inside: PyKit.forEachRet (`.inl r` leaves the function with r).  `all(p(x) for x in xs)` is `xs.all`.

Anything else raises Untranslatable: exit 3, marker file that does not compile, dependent obligations broken.
"""
import ast, os, sys
sys.path.insert(0, os.path.dirname(os.path.abspath(__file__)))
from pytr import (Untranslatable, bad, lname, atom, render, bind, joinc, tuple_pat, Style, Stmts, _mangled,
                  assigned_names, read_names, read_before_write, terminates, contains)

# ----------------------------------------------------------------------------- types

def mk(*a): return tuple(a)
INT, BOOL, STR, LSTR, EXTRA, NONE, EMPTY = mk('int'), mk('bool'), mk('str'), mk('lstr'), mk('extra'), mk('none'), mk('empty')
CFMT, PYFMT, BSIG, PSIG, CENTRY, PENTRY, TYSET, BKEY, CONV, MSG, SORTKEY, TAGS = (mk('cfmt'), mk('pyfmt'), mk('bsig'), mk('psig'), mk('centry'),
    mk('pentry'), mk('tyset'), mk('bkey'), mk('conv'), mk('msg'), mk('sortkey'), mk('tags'))
def OPT(t): return t if t[0] == 'opt' else ('opt', t)
def LIST(t): return ('list', t)
def SET(t): return ('set', t)
def DICT(k, v): return ('dict', k, v)
def PAIR(a, b): return ('pair', a, b)

SIMPLE = {'int': 'Int', 'bool': 'Bool', 'str': 'List Char', 'lstr': 'String', 'extra': 'Extra', 'none': 'Unit', 'cfmt': 'FmtCheck.CFmtX',
          'pyfmt': 'PyFmt.Result', 'bsig': 'FmtSig.PyBraceSig', 'psig': 'FmtSig.PerlBraceSig', 'centry': 'FmtCheck.CEntry', 'pentry': 'FmtCheck.PEntry',
          'tyset': 'FmtSig.TySet', 'bkey': 'FmtSig.BKey', 'conv': 'Nat', 'msg': 'Unit', 'tags': 'List TagCall'}

def lean_type(t):
    k = t[0]
    if k in SIMPLE: return SIMPLE[k]
    if k == 'opt': return f'Option {atom(lean_type(t[1]))}'
    if k in ('list', 'set'): return f'List {atom(lean_type(t[1]))}'
    if k == 'dict': return f'List ({lean_type(t[1])} × {lean_type(t[2])})'
    if k == 'pair': return f'({lean_type(t[1])} × {lean_type(t[2])})'
    raise Untranslatable(f'no Lean type for {t}')

def join(a, b, node=None):
    if a == b: return a
    if a == NONE: return OPT(b)
    if b == NONE: return OPT(a)
    if a[0] == 'opt' and a[1] == b: return a
    if b[0] == 'opt' and b[1] == a: return b
    if a == EMPTY and b[0] in ('set', 'list'): return b
    if b == EMPTY and a[0] in ('set', 'list'): return a
    if {a, b} == {BOOL, OPT(CONV)}: return BOOL          # a Conversion object is truthy, None is falsy
    bad(node, f'incompatible types {a} and {b}')

def coerce(text, frm, to, node=None):
    if frm == to: return text
    if to[0] == 'opt':
        if frm == NONE: return 'none'
        if frm == to[1]: return f'(some {text})'
    if frm == EMPTY and to[0] in ('set', 'list'): return '[]'
    if frm == OPT(CONV) and to == BOOL: return f'{atom(text)}.isSome'
    bad(node, f'cannot use a value of type {frm} where {to} is expected')

def tuple_type(types):
    if not types: return 'Unit'
    if len(types) == 1: return atom(lean_type(types[0]))
    return '(' + ' × '.join(lean_type(t) for t in types) + ')'

class Types:
    NONE, INT = NONE, INT
    join = staticmethod(join)
    coerce = staticmethod(coerce)
    tuple_type = staticmethod(tuple_type)

def chars(s):
    if not s.isascii() or '"' in s or '\\' in s: raise Untranslatable(f'str literal {s!r}')
    return f'"{s}".toList'

class FmtStyle(Style):
    def extra(self, node, ind):
        pad = '  ' * ind
        k = node[0]
        if k == 'foreach':
            _, fn, xs, epat, spat, body, init = node
            return [pad + f'{fn} {xs} (fun {epat} {spat} =>'] + render(body, ind + 2, self) + [pad + f'  ) {init}']
        if k == 'matchret':
            _, comp, ret, spat, rest = node
            return ([pad + 'match ('] + render(comp, ind + 2, self) + [pad + '  ) with', pad + '| .error e => .error e',
                    pad + '| .ok (.inl r) =>'] + render(ret, ind + 1, self) + [pad + f'| .ok (.inr {spat}) =>'] + render(rest, ind + 1, self))
        raise AssertionError(k)

STYLE = FmtStyle('Py.Exc', 'PyKit.tryExcept', 'PyKit.forRange')

SORT_KEY_BODY = "Return(value=Tuple(elts=[Call(func=Name(id='isinstance', ctx=Load()), args=[Name(id='item', ctx=Load()), Name(id='str', ctx=Load())], keywords=[]), Name(id='item', ctx=Load())], ctx=Load()))"

# attributes: (receiver type, attribute) -> (Lean projection, type)
ATTRS = {
    (CFMT, 'arguments'): ('.arguments', LIST(LIST(CENTRY))),
    (PYFMT, 'seq_arguments'): ('.seq', LIST(PENTRY)),
    (PYFMT, 'map_arguments'): ('.map', DICT(STR, LIST(PENTRY))),
    (BSIG, 'argument_map'): ('.args', DICT(BKEY, LIST(TYSET))),
    (PSIG, 'arguments'): ('.args', SET(STR)),
    (CENTRY, 'type'): ('.type', LSTR),
    (PENTRY, 'type'): ('.type', LSTR),
    (CENTRY, 'parent'): ('.parent', CONV),
    (TYSET, 'types'): ('', TYSET),          # a use of a python-brace argument is represented by its `.types`
}
TY_FIELDS = {'int': '.int', 'str': '.str', 'float': '.float'}

class Fn(Stmts):
    T = Types
    EXC_ASSERT = '.error .AssertionError'
    CAUGHT = {}
    DUPLICATE_ON_RETURN = True
    STATE_L = 'out'

    def __init__(self, unit, name, writes, state):
        self.u, self.name, self.writes = unit, name, writes
        self.STATE = state if writes else '#no-state'
        self.writes_map = {}
        self.ret_types, self.ret_type = None, None
        self.ntmp = 0
        self.depth = 0          # nesting of loops that may `return`
        self.quiet = 0

    def note(self, msg):
        if not self.quiet: self.u.dropped.add(msg)

    # ---------------- results
    def ok(self, value_text, ty, env, node=None):
        if self.ret_types is not None:
            self.ret_types.append(ty)
            return ('raw', '.ok default')
        v = coerce(value_text, ty, self.ret_type, node)
        if self.writes:
            v = 'out' if self.ret_type == NONE else f'({v}, out)'
        return ('raw', f'.ok (.inl {atom(v)})' if self.depth else f'.ok {atom(v)}')

    # ---------------- expressions
    def expr(self, e, env, B):
        if isinstance(e, ast.Constant):
            v = e.value
            if v is None: return '()', NONE
            if v is True: return 'true', BOOL
            if v is False: return 'false', BOOL
            if isinstance(v, int): return (f'({v} : Int)' if v >= 0 else f'(-{-v} : Int)'), INT
            if isinstance(v, str): return chars(v), STR
            bad(e, f'literal {v!r}')
        if isinstance(e, ast.Name):
            if e.id in env:
                if env[e.id] == SORTKEY: bad(e, 'sort_key used as a value')
                return lname(e.id), env[e.id]
            bad(e, f'unknown name {e.id}')
        if isinstance(e, ast.Tuple) and not e.elts:
            return '[]', EMPTY
        if isinstance(e, ast.Attribute):
            vt, vty = self.expr(e.value, env, B)
            if (vty, e.attr) in ATTRS:
                proj, ty = ATTRS[(vty, e.attr)]
                return f'{vt}{proj}', ty
            if vty == CONV and e.attr == 'integer' and env.get(self.u.fmt_self) == CFMT:
                # conv.integer, looked up in the format string's per-item table
                return f'({lname(self.u.fmt_self)}.integer.getD {vt} false)', BOOL
            bad(e, f'attribute .{e.attr} of a value of type {vty}')
        if isinstance(e, ast.JoinedStr):
            parts = []
            for p in e.values:
                if isinstance(p, ast.Constant) and isinstance(p.value, str): parts.append(chars(p.value))
                elif isinstance(p, ast.FormattedValue) and p.conversion == -1 and p.format_spec is None:
                    t, ty = self.expr(p.value, env, B)
                    if ty != STR: bad(e, f'formatted value of type {ty}')
                    parts.append(t)
                else: bad(e, 'f-string')
            return '(' + ' ++ '.join(parts) + ')', STR
        if isinstance(e, ast.BinOp):
            op = type(e.op).__name__
            lt, lty = self.expr(e.left, env, B)
            rt, rty = self.expr(e.right, env, B)
            if lty == INT and rty == INT and op in ('Add', 'Sub', 'Mult'):
                return f'({lt} {dict(Add="+", Sub="-", Mult="*")[op]} {rt})', INT
            if lty == STR and rty == STR and op == 'Add': return f'({lt} ++ {rt})', STR
            if lty[0] == 'set' and lty == rty and op in ('BitAnd', 'Sub'):
                return f'(PyKit.{"setInter" if op == "BitAnd" else "setDiff"} {lt} {rt})', lty
            if lty == TYSET and rty == TYSET and op == 'BitAnd':
                return f'({lt}.inter {rt})', TYSET
            bad(e, f'operator {op} on {lty}, {rty}')
        if isinstance(e, ast.UnaryOp) and isinstance(e.op, ast.Not):
            return f'(!{self.cond(e.operand, env, B)})', BOOL
        if isinstance(e, ast.BoolOp):
            parts = []
            for i, v in enumerate(e.values):
                B2 = []
                parts.append(self.cond(v, env, B2))
                if B2:
                    if i > 0: bad(e, 'partial operation on the right of and/or')
                    B.extend(B2)
            return '(' + (' && ' if isinstance(e.op, ast.And) else ' || ').join(parts) + ')', BOOL
        if isinstance(e, ast.Compare):
            return self.compare(e, env, B)
        if isinstance(e, ast.Subscript):
            if isinstance(e.slice, ast.Slice): bad(e, 'slice')
            vt, vty = self.expr(e.value, env, B)
            if vty[0] == 'dict':
                k, kty = self.expr(e.slice, env, B)
                if kty != vty[1]: bad(e, f'key of type {kty} for a dict keyed by {vty[1]}')
                return self.hoist(B, f'PyKit.dictGet {vt} {atom(k)}'), vty[2]
            if vty[0] == 'list':
                if isinstance(e.slice, ast.Constant) and isinstance(e.slice.value, int) and e.slice.value >= 0:
                    return self.hoist(B, f'PyKit.listGet {vt} {e.slice.value}'), vty[1]
                it, ity = self.expr(e.slice, env, B)
                if ity != INT: bad(e, 'index')
                return self.hoist(B, f'PyKit.listGetInt {vt} {atom(it)}'), vty[1]
            bad(e, f'subscript of {vty}')
        if isinstance(e, ast.Call):
            return self.call(e, env, B)
        bad(e, f'expression {type(e).__name__}')

    def as_conv(self, e, env, B):
        """an object compared by identity / stored as a Conversion: its item index"""
        t, ty = self.expr(e, env, B)
        if ty == CONV or ty == OPT(CONV): return t, ty
        if ty == CENTRY and isinstance(e, ast.Name) and env.get('#isconv:' + e.id):
            return f'{t}.parent', CONV
        bad(e, f'object identity of a value of type {ty}')

    def compare(self, e, env, B):
        if len(e.ops) != 1: bad(e, 'chained comparison')
        op = type(e.ops[0]).__name__
        L, R = e.left, e.comparators[0]
        if op in ('Is', 'IsNot'):
            if isinstance(R, ast.Constant) and R.value is None:
                lt, lty = self.expr(L, env, B)
                if lty == NONE: return ('true' if op == 'Is' else 'false'), BOOL
                if lty[0] != 'opt': return ('false' if op == 'Is' else 'true'), BOOL
                return (f'{lt}.isNone' if op == 'Is' else f'{lt}.isSome'), BOOL
            lt, lty = self.as_conv(L, env, B)
            rt, rty = self.as_conv(R, env, B)
            if lty == CONV and rty == OPT(CONV): lt, lty = f'(some {lt})', rty
            if rty == CONV and lty == OPT(CONV): rt, rty = f'(some {rt})', lty
            return f'(decide ({lt} {"=" if op == "Is" else "≠"} {rt}))', BOOL
        if op == 'In':
            if isinstance(L, ast.Constant) and L.value in TY_FIELDS:
                rt, rty = self.expr(R, env, B)
                if rty == TYSET: return f'{rt}{TY_FIELDS[L.value]}', BOOL
            bad(e, '`in`')
        def is_lit(x): return isinstance(x, ast.Constant) and isinstance(x.value, str)
        lt, lty = (None, None) if is_lit(L) else self.expr(L, env, B)
        rt, rty = (None, None) if is_lit(R) else self.expr(R, env, B)
        def lit(x, other):
            # a str literal against a `.type` (a Lean String) stays a String literal
            chars(x.value)
            return (f'"{x.value}"', LSTR) if other == LSTR else (chars(x.value), STR)
        if lt is None: lt, lty = lit(L, rty)
        if rt is None: rt, rty = lit(R, lty)
        if op in ('Eq', 'NotEq'):
            if lty != rty or lty not in (INT, LSTR, STR, BKEY, BOOL): bad(e, f'== between {lty} and {rty}')
            return f'(decide ({lt} {"=" if op == "Eq" else "≠"} {rt}))', BOOL
        if lty == INT and rty == INT:
            return f'(decide ({lt} {dict(Lt="<", LtE="≤", Gt=">", GtE="≥")[op]} {rt}))', BOOL
        bad(e, f'comparison {op} between {lty} and {rty}')

    def cond(self, e, env, B):
        text, ty = self.expr(e, env, B)
        if ty == BOOL: return text
        if ty[0] in ('list', 'set') or ty == STR: return f'(!{atom(text)}.isEmpty)'
        if ty == TYSET: return f'{atom(text)}.nonempty'
        if ty == OPT(CONV): return f'{atom(text)}.isSome'
        if ty == EMPTY: return 'false'
        bad(e, f'truth value of {ty}')

    def sorted_(self, e, env, B):
        if len(e.args) != 1: bad(e, 'sorted')
        key = None
        for k in e.keywords:
            if k.arg != 'key' or not isinstance(k.value, ast.Name) or env.get(k.value.id) != SORTKEY: bad(e, 'sorted(…, key=…) with a key other than the local sort_key')
            key = k.value.id
        t, ty = self.expr(e.args[0], env, B)
        if ty == EMPTY: return '[]', EMPTY
        if ty[0] not in ('set', 'list'): bad(e, f'sorted of {ty}')
        if ty[1] == STR: return f'(FmtSig.sortBy FmtSig.strLt {t})', LIST(STR)         # with sort_key: (True, s) — the same order
        if ty[1] == BKEY:
            if key is None: bad(e, 'sorted() of int-or-str keys without key=sort_key (TypeError on mixed keys)')
            return f'(FmtSig.sortBy FmtSig.BKey.lt {t})', LIST(BKEY)
        bad(e, f'sorted of {ty}')

    def call(self, e, env, B):
        f = e.func
        if isinstance(f, ast.Name) and f.id not in env:
            if f.id == 'len' and len(e.args) == 1 and not e.keywords:
                t, ty = self.expr(e.args[0], env, B)
                if ty == EMPTY: return '(0 : Int)', INT
                if ty[0] not in ('list', 'set', 'dict') and ty != STR: bad(e, f'len of {ty}')
                return f'({atom(t)}.length : Int)', INT
            if f.id == 'sorted':
                return self.sorted_(e, env, B)
            if f.id == 'set' and not e.args and not e.keywords:
                return '[]', EMPTY
            if f.id == 'all' and len(e.args) == 1 and isinstance(e.args[0], ast.GeneratorExp):
                g = e.args[0]
                if len(g.generators) != 1 or g.generators[0].ifs or not isinstance(g.generators[0].target, ast.Name): bad(e, 'generator expression')
                xs, xty = self.expr(g.generators[0].iter, env, B)
                if xty[0] not in ('list', 'set'): bad(e, f'all() over {xty}')
                env2 = dict(env); env2[g.generators[0].target.id] = xty[1]
                B2 = []
                p = self.cond(g.elt, env2, B2)
                if B2: bad(e, 'partial operation inside all()')
                return f'({atom(xs)}.all (fun {lname(g.generators[0].target.id)} => {p}))', BOOL
            if f.id == 'message_repr' and self.u.imports.get('message_repr') == 'lib.check.msgrepr.message_repr':
                ok = len(e.args) == 1 and isinstance(e.args[0], ast.Name) and env.get(e.args[0].id) == MSG and len(e.keywords) == 1 and \
                     e.keywords[0].arg == 'template' and isinstance(e.keywords[0].value, ast.Constant) and e.keywords[0].value.value == '{}:'
                if not ok: bad(e, "message_repr other than message_repr(message, template='{}:')")
                return 'msgPrefix', EXTRA
            bad(e, f'call of {f.id}')
        if not isinstance(f, ast.Attribute): bad(e, 'call')
        # str.join(', ', sorted(x.types))
        if isinstance(f.value, ast.Name) and f.value.id == 'str' and 'str' not in env and f.attr == 'join' and len(e.args) == 2 and not e.keywords:
            sep, arg = e.args
            if isinstance(sep, ast.Constant) and sep.value == ', ' and isinstance(arg, ast.Call) and isinstance(arg.func, ast.Name) and \
               arg.func.id == 'sorted' and len(arg.args) == 1 and not arg.keywords:
                t, ty = self.expr(arg.args[0], env, B)
                if ty == TYSET: return f'{atom(t)}.joined', STR
            bad(e, "str.join other than str.join(', ', sorted(<type set>))")
        if isinstance(f.value, ast.Name) and f.value.id not in env and self.u.imports.get(f.value.id) == 'lib.tags' and f.attr == 'safestr' and \
           len(e.args) == 1 and not e.keywords:
            t, ty = self.expr(e.args[0], env, B)
            if ty == STR: return f'(Extra.safe {atom(t)})', EXTRA
            if ty == LSTR: return f'(Extra.safe {atom(t)}.toList)', EXTRA
            bad(e, f'safestr of {ty}')
        vt, vty = self.expr(f.value, env, B)
        if vty[0] == 'dict' and f.attr == 'keys' and not e.args and not e.keywords:
            return f'(PyKit.keys {vt})', SET(vty[1])
        if vty == CFMT and f.attr == 'get_last_integer_conversion':
            if e.args or len(e.keywords) != 1 or e.keywords[0].arg != 'n': bad(e, 'get_last_integer_conversion arguments')
            n, nty = self.expr(e.keywords[0].value, env, B)
            if nty != INT: bad(e, 'n')
            self.u.need_lastint = True
            return self.hoist(B, f'get_last_integer_conversion {atom(vt)} {atom(n)}'), OPT(CONV)
        bad(e, f'method .{f.attr} of a value of type {vty}')

    def extra(self, e, env, B):
        t, ty = self.expr(e, env, B)
        if ty == EXTRA: return t
        if ty == INT: return f'(Extra.int {atom(t)})'
        if ty == STR: return f'(Extra.str {atom(t)})'
        if ty == BKEY: return f'{atom(t)}.extra'
        bad(e, f'tag argument of type {ty}')

    def value(self, e, env, B):
        text, ty = self.expr(e, env, B)
        return 'pure', text, ty, False

    # ---------------- statements
    def raise_(self, s, env, B):
        x = s.exc
        if s.cause is None and isinstance(x, ast.Name) and x.id in ('IndexError', 'KeyError', 'ValueError', 'TypeError') and x.id not in env:
            return f'.error .{x.id}'
        bad(s, f'raise {ast.unparse(x) if x else ""}')

    def other_stmt(self, s, rest, env, k, live):
        if isinstance(s, ast.FunctionDef):
            ok = not s.decorator_list and [a.arg for a in s.args.args] == ['item'] and len(s.body) == 1 and \
                 ast.dump(s.body[0]) == SORT_KEY_BODY and not (s.args.vararg or s.args.kwarg or s.args.kwonlyargs or s.args.defaults)
            if not ok: bad(s, 'local function other than `def sort_key(item): return (isinstance(item, str), item)`')
            env2 = dict(env); env2[s.name] = SORTKEY
            return self.block(rest, env2, k, live)
        bad(s, f'statement {type(s).__name__}')

    def assign(self, target, value, s, env, go):
        B = []
        if isinstance(target, ast.Name):
            x = target.id
            if x == self.STATE: bad(s, 'assignment to self')
            # `vconv = arg` for a Conversion: the identity
            if isinstance(value, ast.Name) and env.get(value.id) == CENTRY:
                text, ty = self.as_conv(value, env, B)
            else:
                text, ty = self.expr(value, env, B)
            if ty == SORTKEY: bad(s, 'sort_key')
            env2 = dict(env); env2[x] = ty
            env2.pop('#isconv:' + x, None)
            if ty == EMPTY:
                return self.wrap(B, go(env2))      # the empty collection: every use is the literal `[]`
            if B and B[-1].__defaults__ and text == B[-1].__defaults__[0]:
                # x = <partial op>: bind the name directly
                comp = B[-1].__defaults__[1]
                B.pop()
                return self.wrap(B, bind(lname(x), comp, go(env2)))
            return self.wrap(B, ('let', lname(x), text, go(env2)))
        if isinstance(target, (ast.List, ast.Tuple)) and len(target.elts) == 1 and isinstance(target.elts[0], ast.Name):
            text, ty = self.expr(value, env, B)
            if ty[0] not in ('set', 'list'): bad(s, f'unpacking a value of type {ty}')
            x = target.elts[0].id
            env2 = dict(env); env2[x] = ty[1]
            return self.wrap(B, ('match', text, [(f'[{lname(x)}]', go(env2)), ('_', ('raw', '.error .ValueError'))]))
        bad(s, f'assignment target {ast.unparse(target)}')

    def call_stmt(self, c, s, env, go):
        B = []
        f = c.func
        if isinstance(f, ast.Attribute) and isinstance(f.value, ast.Name) and f.value.id == self.STATE and f.attr == 'tag' and self.writes:
            if c.keywords or not c.args or any(isinstance(a, ast.Starred) for a in c.args): bad(s, 'self.tag arguments')
            n = c.args[0]
            if not (isinstance(n, ast.Constant) and isinstance(n.value, str)): bad(s, 'tag name is not a literal')
            chars(n.value)
            extras = [self.extra(a, env, B) for a in c.args[1:]]
            call = f'⟨"{n.value}", [' + ', '.join(extras) + ']⟩'
            return self.wrap(B, ('let', 'out', f'out ++ [{call}]', go(env)))
        bad(s, f'call statement {ast.unparse(c)[:60]}')

    def if_(self, s, env, go, live):
        # flow fact of `isinstance(arg, Conversion)`: inside the branch `arg` may stand for the Conversion object
        t = s.test
        if isinstance(t, ast.Call) and isinstance(t.func, ast.Name) and t.func.id == 'isinstance' and len(t.args) == 2 and isinstance(t.args[0], ast.Name):
            kind = self.isinstance_kind(t, env)
            if kind == 'conv':
                x = t.args[0].id
                orig_seq = self._seq
                def seq(stmts, env2, k, live2, _first=[True]):
                    if stmts is s.body:
                        env2 = dict(env2); env2['#isconv:' + x] = True
                    return orig_seq(stmts, env2, k, live2)
                self._seq = seq
                try:
                    return super().if_(s, env, go, live)
                finally:
                    self._seq = orig_seq
        return super().if_(s, env, go, live)

    def isinstance_kind(self, t, env):
        a, c = t.args
        if env.get(a.id) != CENTRY: bad(t, 'isinstance of something other than a use of a C argument')
        names = [x.id for x in c.elts] if isinstance(c, ast.Tuple) else ([c.id] if isinstance(c, ast.Name) else None)
        if names is None or not all(isinstance(x, ast.Name) for x in (c.elts if isinstance(c, ast.Tuple) else [c])): bad(t, 'isinstance classes')
        for n in names:
            if n not in self.u.classes: bad(t, f'class {n}')
        if sorted(names) == ['VariablePrecision', 'VariableWidth']: return 'var'
        if names == ['Conversion']: return 'conv'
        bad(t, f'isinstance({", ".join(names)})')

    # isinstance in conditions
    def call_isinstance(self, t, env):
        kind = self.isinstance_kind(t, env)
        x = lname(t.args[0].id)
        if kind == 'var': return f'(decide ({x}.kind = .width) || decide ({x}.kind = .prec))'
        return f'(decide ({x}.kind = .conv))'

    def for_(self, s, env, go, live):
        if s.orelse: bad(s, 'for/else')
        if contains(s.body, (ast.Break, ast.Continue)): bad(s, 'break/continue')
        B = []
        it = s.iter
        # what is iterated
        if isinstance(it, ast.Call) and isinstance(it.func, ast.Name) and it.func.id == 'zip' and 'zip' not in env and len(it.args) == 2 and not it.keywords:
            a, aty = self.expr(it.args[0], env, B)
            b, bty = self.expr(it.args[1], env, B)
            if aty[0] != 'list' or bty[0] != 'list': bad(s, 'zip of non-lists')
            xs, ety = f'(List.zip {a} {b})', PAIR(aty[1], bty[1])
        elif isinstance(it, ast.Call) and isinstance(it.func, ast.Name) and it.func.id == 'range' and 'range' not in env and len(it.args) in (1, 2) and not it.keywords:
            args = [self.expr(x, env, B) for x in it.args]
            if any(t != INT for _, t in args): bad(s, 'range of non-ints')
            lo, hi = ('(0 : Int)', args[0][0]) if len(args) == 1 else (args[0][0], args[1][0])
            xs, ety = f'(PyKit.rangeInt {atom(lo)} {atom(hi)})', INT
        else:
            xs, xty = self.expr(it, env, B)
            if xty == EMPTY: return go(env)
            if xty[0] not in ('list', 'set'): bad(s, f'for over {xty}')
            ety = xty[1]
        # targets
        tg = s.target
        if isinstance(tg, ast.Name):
            targets, ttypes, epat = [tg.id], [ety], lname(tg.id)
        elif isinstance(tg, ast.Tuple) and len(tg.elts) == 2 and all(isinstance(x, ast.Name) for x in tg.elts) and ety[0] == 'pair':
            targets, ttypes = [x.id for x in tg.elts], [ety[1], ety[2]]
            epat = '(' + ', '.join(lname(x) for x in targets) + ')'
        else:
            bad(s, 'loop target')
        has_ret = contains(s.body, (ast.Return,))
        vars_ = self.loop_vars(s, env, live, targets)
        types = [env[v] for v in vars_]
        def body_env(types):
            eb = dict(env)
            for v, t in zip(vars_, types): eb[v] = t
            for x, t in zip(targets, ttypes):
                eb[x] = t
                eb.pop('#isconv:' + x, None)
            return eb
        if has_ret: self.depth += 1
        try:
            # the types of the loop-carried variables: least fixpoint of the joins at the end of the body
            self.quiet += 1
            saved_rt = self.ret_types
            for _ in range(6):
                ends = []
                def probe(env2):
                    ends.append(env2); return ('raw', '.ok default')
                saved = self.ntmp
                self.ret_types = [] if saved_rt is None else saved_rt
                self._seq(s.body, body_env(types), probe, set(vars_))
                self.ntmp = saved
                new = list(types)
                for en in ends:
                    new = [join(t, en[v], s) for v, t in zip(vars_, new)]
                if new == types: break
                types = new
            else:
                bad(s, 'types of the loop variables do not stabilise')
            self.ret_types = saved_rt
            self.quiet -= 1
            def final(env2):
                tup = tuple_pat([coerce(self.lvar(v), env2[v], t, s) for v, t in zip(vars_, types)])
                return ('raw', f'.ok (.inr {atom(tup)})' if has_ret else f'.ok {atom(tup)}')
            body = self._seq(s.body, body_env(types), final, set(vars_))
        finally:
            if has_ret: self.depth -= 1
        pat = tuple_pat([self.lvar(v) for v in vars_])
        init = tuple_pat([coerce(self.lvar(v), env[v], t, s) for v, t in zip(vars_, types)])
        env2 = dict(env)
        for v, t in zip(vars_, types): env2[v] = t
        if has_ret:
            node = ('foreach', 'PyKit.forEachRet', xs, epat, pat, body, atom(init))
            ret = ('raw', '.ok (.inl r)' if self.depth else '.ok r')
            return self.wrap(B, ('matchret', node, ret, pat, go(env2)))
        node = ('foreach', 'PyKit.forEach', xs, epat, pat, body, atom(init))
        return self.wrap(B, joinc(pat, node, tuple_type(types), go(env2)))

# isinstance(...) in expression position
_orig_call = Fn.call
def _call(self, e, env, B):
    f = e.func
    if isinstance(f, ast.Name) and f.id == 'isinstance' and 'isinstance' not in env and len(e.args) == 2 and isinstance(e.args[0], ast.Name) and not e.keywords:
        return self.call_isinstance(e, env), BOOL
    return _orig_call(self, e, env, B)
Fn.call = _call

# ----------------------------------------------------------------------------- modules

class Module:
    def __init__(self, repo, rel):
        self.rel = rel
        self.tree = ast.parse(open(os.path.join(repo, rel), encoding='utf-8').read())
        self.imports, self.classes = {}, {}
        for node in self.tree.body:
            if isinstance(node, ast.Import):
                for a in node.names: self.imports[a.asname or a.name] = a.name
            elif isinstance(node, ast.ImportFrom):
                for a in node.names: self.imports[a.asname or a.name] = f'{node.module}.{a.name}'
            elif isinstance(node, ast.ClassDef):
                self.classes[node.name] = node
        self.dropped = set()
        self.need_lastint = False
        self.fmt_self = None

    def method(self, cls, name):
        if cls not in self.classes: raise Untranslatable(f'{self.rel}: class {cls} not found')
        for n in self.classes[cls].body:
            if isinstance(n, ast.FunctionDef) and n.name == name:
                if n.decorator_list: bad(n, f'{self.rel}: decorated method {name}')
                return n
        raise Untranslatable(f'{self.rel}: {cls}.{name} not found')

def translate_function(mod, fnode, params, lean_name, writes, doc, state='self', extra_params=''):
    """params: [(python name, type)] in the order of the Lean parameters (all parameters of the Python function except self when it is the state)"""
    a = fnode.args
    if a.vararg or a.kwarg or a.posonlyargs: bad(fnode, 'signature')
    names = [x.arg for x in a.args] + [x.arg for x in a.kwonlyargs]
    want = ([state] if writes else []) + [p for p, _ in params]
    if names != want: bad(fnode, f'{mod.rel}: parameters {names}, expected {want}')
    env = {p: t for p, t in params}
    if writes: env[state] = TAGS
    def run(probe):
        fn = Fn(mod, lean_name, writes, state)
        if probe: fn.ret_types = []
        else: fn.ret_type = rt
        tree = fn.block(list(fnode.body), dict(env), fn.fall_off, set())
        return fn, tree
    fn, _ = run(True)
    rt = None
    for t in fn.ret_types: rt = t if rt is None else join(rt, t, fnode)
    rt = rt or NONE
    fn, tree = run(False)
    res = lean_type(rt) if not writes else ('List TagCall' if rt == NONE else f'({lean_type(rt)} × List TagCall)')
    sig = ''.join(f' ({lname(p)} : {lean_type(t)})' for p, t in params)
    head = ('(out : List TagCall) (msgPrefix : Extra)' if writes else '')
    text = f'/-- {doc} -/\ndef {lean_name} {head}{sig} : Except Py.Exc {atom(res)} :=\n' + '\n'.join(render(tree, 1, STYLE)) + '\n'
    return text.replace('  :', ' :').replace('def ' + lean_name + '  ', 'def ' + lean_name + ' '), rt

HEADER = '''/-
GENERATED by tools/translate/fmtargs2lean.py from lib/check/msgformat/{c,python,pybrace,perlbrace}.py (`Checker.check_args`) and
lib/strformat/c.py (`FormatString.get_last_integer_conversion`) — do not edit.
Regenerated from the repository's working tree on every check; `I18n/Props/C14Tie.lean` proves each definition equal to the
model the theorems of C14 are about (`FmtCheck.checkArgsC`, `checkArgsPython`, `checkArgsPyBrace`, `checkArgsPerlBrace`, `getLastIntConv`).
-/
import I18n.PyKit
import I18n.Model.FmtCheck
set_option linter.unusedVariables false
namespace I18n.Generated.FmtArgs
open I18n

'''

CHECK_ARGS = ['message', 'src_loc', 'src_fmt', 'dst_loc', 'dst_fmt', 'omitted_int_conv_ok']

def generate(repo):
    _mangled.clear()
    out = [HEADER]
    dropped = []
    # lib/strformat/c.py
    sc = Module(repo, 'lib/strformat/c.py')
    for c in ('Conversion', 'VariableWidth', 'VariablePrecision', 'FormatString'):
        if c not in sc.classes: raise Untranslatable(f'lib/strformat/c.py: class {c} not found')
    for n in ast.walk(sc.classes['Conversion']):
        if isinstance(n, ast.FunctionDef) and n.name in ('__bool__', '__len__', '__eq__', '__hash__'):
            raise Untranslatable(f'lib/strformat/c.py: Conversion.{n.name} (identity / truthiness of Conversion objects is no longer the default one)')
    for c in ('VariableWidth', 'VariablePrecision'):
        for n in ast.walk(sc.classes[c]):
            if isinstance(n, ast.FunctionDef) and n.name in ('__eq__', '__hash__'): raise Untranslatable(f'lib/strformat/c.py: {c}.{n.name}')
    sc.fmt_self = 'self'
    f = sc.method('FormatString', 'get_last_integer_conversion')
    text, rt = translate_function(sc, f, [('self', CFMT), ('n', INT)], 'get_last_integer_conversion', False,
                                  '`lib.strformat.c.FormatString.get_last_integer_conversion(n=n)`: the item index of the returned Conversion, `none` for `None`')
    if rt != OPT(CONV): raise Untranslatable(f'get_last_integer_conversion returns {rt}')
    out.append(text)
    dropped += sorted(sc.dropped)
    for rel, ns, fmt, doc in (('lib/check/msgformat/c.py', 'C', CFMT, 'C'), ('lib/check/msgformat/python.py', 'Python', PYFMT, 'Python %'),
                              ('lib/check/msgformat/pybrace.py', 'PyBrace', BSIG, 'python-brace'), ('lib/check/msgformat/perlbrace.py', 'PerlBrace', PSIG, 'perl-brace')):
        m = Module(repo, rel)
        f = m.method('Checker', 'check_args')
        kd = f.args.kw_defaults
        if len(kd) != 1 or not (isinstance(kd[0], ast.Constant) and kd[0].value is False) or f.args.defaults: bad(f, f'{rel}: defaults of check_args')
        params = [('message', MSG), ('src_loc', STR), ('src_fmt', fmt), ('dst_loc', STR), ('dst_fmt', fmt), ('omitted_int_conv_ok', BOOL)]
        text, rt = translate_function(m, f, params, f'{ns}.check_args', True, f'`{rel}` `Checker.check_args` ({doc}): the tag calls appended to `out`')
        if rt != NONE: raise Untranslatable(f'{rel}: check_args returns {rt}')
        out.append(text)
        dropped += sorted(m.dropped)
    out.append('/- Statements discharged statically by the translator:\n' + ''.join(f'  {d}\n' for d in dropped) + '-/\n')
    out.append('end I18n.Generated.FmtArgs\n')
    return '\n'.join(out)

def main():
    repo = sys.argv[1] if len(sys.argv) > 1 else '/repo'
    dest = sys.argv[2] if len(sys.argv) > 2 else os.path.join(os.path.dirname(os.path.abspath(__file__)), '..', '..', 'lean', 'I18n', 'Generated', 'FmtArgs.lean')
    try:
        try:
            text = generate(repo)
        except (SyntaxError, KeyError, AttributeError, TypeError, IndexError, ValueError, AssertionError, RecursionError, OSError) as exc:
            raise Untranslatable(f'{type(exc).__name__} while translating: {exc}')
    except Untranslatable as exc:
        msg = str(exc).replace('"', "'").replace('\\', '/')
        text = HEADER + (f'-- UNTRANSLATABLE: {msg}\n'
                         '/-- deliberately does not compile: the current source is outside the translator\'s subset (see above) -/\n'
                         'def untranslatable : Unit := the_current_source_of_check_args_is_untranslatable\n'
                         'end I18n.Generated.FmtArgs\n')
        print(f'untranslatable: {exc}', file=sys.stderr)
        old = open(dest, encoding='utf-8').read() if os.path.exists(dest) else None
        if old != text: open(dest, 'w', encoding='utf-8').write(text)
        sys.exit(3)
    old = open(dest, encoding='utf-8').read() if os.path.exists(dest) else None
    if old != text:
        open(dest, 'w', encoding='utf-8').write(text)
        print('changed')
    else:
        print('unchanged')

if __name__ == '__main__':
    main()
