"""chktr — the expression / mutation / loop layer shared by the translators of properties C15 and C16
(domains2lean, gettexthdr2lean, hdrchk2lean, msgchk2lean), on top of the statement layer `pytr.core`.

Python                                   Lean (kit: `I18n.PyKit`, `I18n.HdrPy`)
  str                                    `List Char` (code points); a one-character literal used as a separator / member is a `Char`
  list / tuple of T                      `List T`;   set of T: `List T` read up to membership (every operation on it is invariant under
                                         order and repetition: `sorted(s)` sorts AND removes duplicates, `len(s)` counts distinct members)
  dict                                   association list with distinct keys in insertion order; `defaultdict(list)` reads `[]` for a missing key
  None | T                               `Option T`; `x is None` is a `match` (flow typing of the statement layer)
  generator function                     the list of yielded values, eagerly (`yield v` is `yielded := yielded ++ [v]`)
  self.tag(name, *extras)                `out := out ++ [⟨name, extras⟩]` with typed extras (`str` → `.str`, `tags.safestr(s)` → `.safe`)
  mutation of a local container          rebinding of the local (`x.pop()` is `x := pop x`, `d[k] += v` is `d := iadd d k v`, `x += e` is `x := x ++ e`);
                                         sound because a container that is mutated is never aliased: `a = b` between container names with a
                                         later mutation of either is untranslatable
  ctx.attr (a namespace parameter)       reads are parameters `ctx_attr`, writes are hidden results `ctx_attr`
  for x in xs: … continue / break        `PyKit.forEachBrk` (`.next s` / `.brk s`), plain loops `PyKit.forEach`

Everything returns `Except Py.Exc τ`: the partial operations (`xs[-1]`, `a, b = …`, `assert`, `[x] = s`) are explicit.
Anything outside the subset raises `Untranslatable`."""
import ast, os, sys
sys.path.insert(0, os.path.dirname(os.path.abspath(__file__)))
from pytr import (Untranslatable, bad, lname, atom, render, bind, joinc, tuple_pat, Style, Stmts, _mangled,
                  assigned_names, read_names, read_before_write, terminates, contains)

# ----------------------------------------------------------------------------- types

def mk(*a): return tuple(a)
STR, CH, BOOL, INT, NONE, EMPTY, EMPTYD, EXTRA, TAG, TRUTH = (mk('str'), mk('ch'), mk('bool'), mk('int'), mk('none'), mk('empty'), mk('emptyd'),
    mk('extra'), mk('tag'), mk('truth'))
def OPT(t): return t if t[0] == 'opt' else ('opt', t)
def LIST(t): return ('list', t)
def SET(t): return ('set', t)
def DICT(k, v): return ('dict', k, v)
def DDICT(k, v): return ('ddict', k, v)          # collections.defaultdict(list) / Counter: a missing key reads the default
def TUP(*ts): return ('tuple',) + tuple(ts)

SIMPLE = {'str': 'List Char', 'ch': 'Char', 'bool': 'Bool', 'int': 'Int', 'none': 'Unit', 'extra': 'Extra', 'tag': 'TagCall', 'truth': 'Bool'}

def lean_type(t):
    k = t[0]
    if k in SIMPLE: return SIMPLE[k]
    if k == 'opt': return f'Option {atom(lean_type(t[1]))}'
    if k in ('list', 'set'): return f'List {atom(lean_type(t[1]))}'
    if k in ('dict', 'ddict'): return f'List ({lean_type(t[1])} × {lean_type(t[2])})'
    if k == 'tuple': return '(' + ' × '.join(lean_type(x) for x in t[1:]) + ')'
    if k == 'bottom': return 'Unit'
    if k == 'maybe': return f'Option {atom(lean_type(t[1]))}'        # a local that is unbound on some paths (`none`)
    raise Untranslatable(f'no Lean type for {t}')

JOIN_HOOKS = []       # functions (a, b) -> type | None, for the sums of a translator's domain

def join(a, b, node=None):
    if a == b: return a
    if a == ('bottom',): return b        # the type of a local before its first assignment
    if b == ('bottom',): return a
    for h in JOIN_HOOKS:
        r = h(a, b)
        if r is not None: return r
    if a == NONE: return OPT(b)
    if b == NONE: return OPT(a)
    if a[0] == 'opt' and b[0] == 'opt': return OPT(join(a[1], b[1], node))
    if a[0] == 'opt' and join(a[1], b, node) == a[1]: return a
    if b[0] == 'opt' and join(b[1], a, node) == b[1]: return b
    if a == EMPTY and b[0] in ('set', 'list'): return b
    if b == EMPTY and a[0] in ('set', 'list'): return a
    if a == EMPTYD and b[0] in ('dict', 'ddict'): return b
    if b == EMPTYD and a[0] in ('dict', 'ddict'): return a
    if a[0] == b[0] and a[0] in ('list', 'set') : return (a[0], join(a[1], b[1], node))
    bad(node, f'incompatible types {a} and {b}')

COERCE_HOOKS = []     # functions (text, frm, to) -> text | None

def coerce(text, frm, to, node=None):
    if frm == to: return text
    if frm == ('bottom',): return 'default'
    for h in COERCE_HOOKS:
        r = h(text, frm, to)
        if r is not None: return r
    if to[0] == 'opt':
        if frm == NONE: return 'none'
        if frm[0] != 'opt': return f'(some {coerce(text, frm, to[1], node)})'
    if frm == EMPTY and to[0] in ('set', 'list'): return '[]'
    if frm == EMPTYD and to[0] in ('dict', 'ddict'): return '[]'
    if frm[0] == to[0] and frm[0] in ('list', 'set') and frm[1] == EMPTY: return text
    if frm[0] in ('list', 'set') and to[0] == frm[0]:
        return f'({atom(text)}.map (fun x__ => {coerce("x__", frm[1], to[1], node)}))'
    bad(node, f'cannot use a value of type {frm} where {to} is expected')

def tuple_type(types):
    if not types: return 'Unit'
    if len(types) == 1: return atom(lean_type(types[0]))
    return '(' + ' × '.join(lean_type(t) for t in types) + ')'

class Types:
    NONE, INT = NONE, INT
    join = staticmethod(join); coerce = staticmethod(coerce); tuple_type = staticmethod(tuple_type)

MUTABLE = ('list', 'set', 'dict', 'ddict')
NEGATED = {ast.Eq: ast.NotEq, ast.NotEq: ast.Eq, ast.In: ast.NotIn, ast.NotIn: ast.In, ast.Is: ast.IsNot, ast.IsNot: ast.Is}

def lean_char(c):
    o = ord(c)
    if c == '\n': return "'\\n'"
    if c == '\t': return "'\\t'"
    if 0x20 <= o < 0x7f and c not in "'\\": return f"'{c}'"
    return f'(Char.ofNat {o})'

def chars(s):
    """a str literal as `List Char`"""
    if s == '': return '([] : List Char)'
    out = []
    for c in s:
        o = ord(c)
        if c == '"': out.append('\\"')
        elif c == '\\': out.append('\\\\')
        elif c == '\n': out.append('\\n')
        elif c == '\t': out.append('\\t')
        elif c == '\r': out.append('\\r')
        elif 0x20 <= o < 0x7f: out.append(c)
        elif o < 0x100: out.append('\\x%02x' % o)
        elif o < 0x10000: out.append('\\u%04x' % o)
        else: raise Untranslatable(f'str literal with the code point U+{o:X}')
    return '"' + ''.join(out) + '".toList'

_chars_list_char = chars

def lean_string(s):
    c = _chars_list_char(s)
    return '""' if s == '' else c[:-len('.toList')]

class ChkStyle(Style):
    def extra(self, node, ind):
        pad = '  ' * ind
        k = node[0]
        if k == 'foreach':
            _, fn, xs, epat, spat, body, init = node
            return [pad + f'{fn} {xs} (fun {epat} {spat} =>'] + render(body, ind + 2, self) + [pad + f'  ) {init}']
        if k == 'tryelse':
            _, body, caught, handler, bpat, orelse, bty = node
            return ([pad + 'PyKit.tryExceptElse (show Except ' + self.err + ' ' + bty + ' from'] + render(body, ind + 2, self) + [pad + f'  ) {caught} ('] +
                    render(handler, ind + 2, self) + [pad + f'  ) (fun {bpat} =>'] + render(orelse, ind + 2, self) + [pad + '  )'])
        raise AssertionError(k)

STYLE = ChkStyle('Py.Exc', 'PyKit.tryExcept', 'PyKit.forRange')

# ----------------------------------------------------------------------------- normalisation of the ast (mutation → rebinding)

OUT = 'out__'            # the list of tag calls
YIELDED = 'yielded__'    # the values a generator has yielded

def _name(id_, ctx, at):
    return ast.copy_location(ast.Name(id=id_, ctx=ctx), at)

def _call(fn, args, at):
    return ast.copy_location(ast.Call(func=_name(fn, ast.Load(), at), args=args, keywords=[]), at)

def _assign(target_id, value, at):
    return ast.copy_location(ast.Assign(targets=[_name(target_id, ast.Store(), at)], value=value), at)

def _load(node):
    """a copy of an assignment target usable as an expression"""
    n = ast.parse(ast.unparse(node), mode='eval').body
    for x in ast.walk(n): ast.copy_location(x, node)
    return n

class Normalize(ast.NodeTransformer):
    """rewrites, inside ONE function: `yield`, `self.tag(…)`, attribute paths of namespace parameters, container mutation statements,
    augmented assignment.  The pseudo-functions `__…__` it introduces are understood by `Fn.call`."""
    def __init__(self, namespaces=(), self_name=None, tag_method='tag', known=None):
        self.known = known              # the flattened paths the translator knows (None: any)
        self.local_namespaces = set()   # namespace objects created by the function itself (types.SimpleNamespace()) and returned
        self.returned_namespace = None
        self.namespaces = set(namespaces)       # names whose attribute paths are flattened: ctx.file.header -> ctx_file_header
        self.self_name, self.tag_method = self_name, tag_method
        self.is_generator = False
        self.emits = False
        self.ns_reads, self.ns_writes = [], []

    # ---- attribute paths
    def path(self, node):
        parts = []
        while isinstance(node, ast.Attribute):
            parts.append(node.attr); node = node.value
        if isinstance(node, ast.Name) and node.id in self.namespaces:
            return '_'.join([node.id] + parts[::-1])
        return None

    def visit_Attribute(self, node):
        p = self.path(node)
        if p is not None:
            # the longest known prefix of the path is the namespace variable; what follows are ordinary attributes / methods of its value
            parts = p.split('_')      # (attribute names of namespaces contain no further structure we rely on: prefixes are tried longest first)
            chain = []
            n = node
            while isinstance(n, ast.Attribute):
                chain.append(n); n = n.value
            chain = chain[::-1]       # outermost namespace attribute first
            best = None
            if self.known is not None:
                for k in range(len(chain), 0, -1):
                    cand = '_'.join([n.id] + [c.attr for c in chain[:k]])
                    if cand in self.known:
                        best = k; p = cand; break
                if best is None: bad(node, f'{ast.unparse(node)}: an attribute path of {n.id} the translator does not know')
            else:
                best = len(chain)
            top = chain[best - 1]
            ctx = node.ctx if best == len(chain) else ast.Load()
            if isinstance(ctx, ast.Load):
                if p not in self.ns_reads: self.ns_reads.append(p)
            else:
                if p not in self.ns_writes: self.ns_writes.append(p)
            res = _name(p, ctx, node)
            for c in chain[best:]:
                res = ast.copy_location(ast.Attribute(value=res, attr=c.attr, ctx=c.ctx), c)
            return res
        return self.generic_visit(node)

    def visit_Name(self, node):
        if node.id in self.namespaces: bad(node, f'the namespace object {node.id} used as a value')
        return node

    def visit_FunctionDef(self, node):
        return node         # nested functions are left to the translator (which rejects them)

    def visit_Lambda(self, node): bad(node, 'lambda')

    # ---- statements
    def visit_Expr(self, node):
        v = node.value
        if isinstance(v, ast.Yield):
            self.is_generator = True
            if v.value is None: bad(node, 'bare yield')
            val = self.visit(v.value)
            lst = ast.copy_location(ast.List(elts=[val], ctx=ast.Load()), node)
            return _assign(YIELDED, ast.copy_location(ast.BinOp(left=_name(YIELDED, ast.Load(), node), op=ast.Add(), right=lst), node), node)
        if isinstance(v, ast.Call) and isinstance(v.func, ast.Attribute) and isinstance(v.func.value, ast.Name):
            f, recv = v.func, v.func.value.id
            if self.self_name is not None and recv == self.self_name and f.attr == self.tag_method:
                self.emits = True
                if v.keywords: bad(node, 'self.tag with keyword arguments')
                args = [self.visit(a) for a in v.args]
                tag = _call('__tag__', args, node)
                lst = ast.copy_location(ast.List(elts=[tag], ctx=ast.Load()), node)
                return _assign(OUT, ast.copy_location(ast.BinOp(left=_name(OUT, ast.Load(), node), op=ast.Add(), right=lst), node), node)
            if recv not in self.namespaces and recv != self.self_name and f.attr in ('pop', 'add', 'append', 'update', 'extend', 'clear', 'discard', 'remove', 'sort', 'reverse', 'insert', 'setdefault', 'popitem'):
                if v.keywords: bad(node, f'.{f.attr} with keyword arguments')
                args = [self.visit(a) for a in v.args]
                return _assign(recv, _call(f'__{f.attr}__', [_name(recv, ast.Load(), node)] + args, node), node)
        return self.generic_visit(node)

    def visit_Yield(self, node): bad(node, 'yield in expression position')
    def visit_YieldFrom(self, node): bad(node, 'yield from')
    def visit_Await(self, node): bad(node, 'await')
    def visit_NamedExpr(self, node): bad(node, 'assignment expression')

    def visit_AugAssign(self, node):
        value = self.visit(node.value)
        tgt = node.target
        if isinstance(tgt, ast.Attribute):
            p = self.path(tgt)
            if p is None: bad(node, 'augmented assignment to an attribute')
            if p not in self.ns_writes: self.ns_writes.append(p)
            if p not in self.ns_reads: self.ns_reads.append(p)
            tgt = _name(p, ast.Store(), node)
        if isinstance(tgt, ast.Name):
            val = ast.copy_location(ast.BinOp(left=_name(tgt.id, ast.Load(), node), op=node.op, right=value), node)
            val.augmented = True
            return _assign(tgt.id, val, node)
        if isinstance(tgt, ast.Subscript) and isinstance(tgt.value, ast.Name) and not isinstance(tgt.slice, ast.Slice):
            # d[k] op= v   is   d = __setitem__(d, k, d[k] op v)   (k is evaluated once: it must be free of effects, which every expression here is)
            d = tgt.value.id
            key = self.visit(tgt.slice)
            cur = ast.copy_location(ast.Subscript(value=_name(d, ast.Load(), node), slice=_load(key), ctx=ast.Load()), node)
            val = ast.copy_location(ast.BinOp(left=cur, op=node.op, right=value), node)
            val.augmented = True
            return _assign(d, _call('__setitem__', [_name(d, ast.Load(), node), key, val], node), node)
        if isinstance(tgt, ast.Subscript) and isinstance(tgt.value, ast.Subscript) and isinstance(tgt.value.value, ast.Name) and \
           not isinstance(tgt.slice, ast.Slice) and not isinstance(tgt.value.slice, ast.Slice):
            # d[k1][k2] op= v   is   d = __setitem__(d, k1, __setitem__(d[k1], k2, d[k1][k2] op v))
            d = tgt.value.value.id
            k1, k2 = self.visit(tgt.value.slice), self.visit(tgt.slice)
            def inner(): return ast.copy_location(ast.Subscript(value=_name(d, ast.Load(), node), slice=_load(k1), ctx=ast.Load()), node)
            cur = ast.copy_location(ast.Subscript(value=inner(), slice=_load(k2), ctx=ast.Load()), node)
            val = ast.copy_location(ast.BinOp(left=cur, op=node.op, right=value), node)
            val.augmented = True
            return _assign(d, _call('__setitem__', [_name(d, ast.Load(), node), k1, _call('__setitem__', [inner(), k2, val], node)], node), node)
        bad(node, f'augmented assignment to {ast.unparse(node.target)}')

    def visit_Assign(self, node):
        node.value = self.visit(node.value)
        if len(node.targets) == 1:
            tgt = node.targets[0]
            if isinstance(tgt, ast.Subscript) and isinstance(tgt.value, ast.Name):
                d = tgt.value.id
                if isinstance(tgt.slice, ast.Slice):
                    sl = tgt.slice
                    if sl.step is not None: bad(node, 'slice assignment with a step')
                    none = ast.copy_location(ast.Constant(value=None), node)
                    lo = self.visit(sl.lower) if sl.lower is not None else none
                    hi = self.visit(sl.upper) if sl.upper is not None else none
                    return _assign(d, _call('__setslice__', [_name(d, ast.Load(), node), lo, hi, node.value], node), node)
                key = self.visit(tgt.slice)
                return _assign(d, _call('__setitem__', [_name(d, ast.Load(), node), key, node.value], node), node)
            if isinstance(tgt, ast.Subscript) and isinstance(tgt.value, ast.Subscript) and isinstance(tgt.value.value, ast.Name) and \
               not isinstance(tgt.slice, ast.Slice) and not isinstance(tgt.value.slice, ast.Slice):
                d = tgt.value.value.id
                k1, k2 = self.visit(tgt.value.slice), self.visit(tgt.slice)
                inner = ast.copy_location(ast.Subscript(value=_name(d, ast.Load(), node), slice=_load(k1), ctx=ast.Load()), node)
                return _assign(d, _call('__setitem__', [_name(d, ast.Load(), node), k1, _call('__setitem__', [inner, k2, node.value], node)], node), node)
            # a local namespace object: `info = types.SimpleNamespace()` is dropped, its attributes are locals
            if isinstance(tgt, ast.Name) and tgt.id in self.local_namespaces and ast.unparse(node.value) == 'types.SimpleNamespace()':
                return ast.copy_location(ast.Pass(), node)
        node.targets = [self.visit(t) for t in node.targets]
        return node

    def visit_Return(self, node):
        if isinstance(node.value, ast.Name) and node.value.id in self.local_namespaces:
            ns = node.value.id
            paths = [p for p in self.ns_writes if p.startswith(ns + '_')]
            tup = ast.copy_location(ast.Tuple(elts=[_name(p, ast.Load(), node) for p in paths], ctx=ast.Load()), node)
            self.returned_namespace = paths
            return ast.copy_location(ast.Return(value=tup), node)
        return self.generic_visit(node)

    def visit_Delete(self, node):
        out = []
        for t in node.targets:
            if isinstance(t, ast.Name):
                out.append(ast.copy_location(ast.Expr(value=_call('__del__', [ast.copy_location(ast.Constant(value=t.id), node)], node)), node))
            elif isinstance(t, ast.Attribute) and self.path(t) is not None:
                out.append(ast.copy_location(ast.Expr(value=_call('__delattr__', [ast.copy_location(ast.Constant(value=self.path(t)), node)], node)), node))
            else:
                bad(node, f'del {ast.unparse(t)}')
        return out

def mutated_after(fnode):
    """For the aliasing rule: per statement id, the container names that may be mutated after the statement ran
    (later in the text, or anywhere in a loop that encloses it).  Works on the NORMALISED ast: a mutation is `x = __op__(x, …)` or
    `x = x + …` coming from an augmented assignment."""
    muts = []          # (lineno, name, enclosing loops)
    aliases = []
    def is_mut(s):
        if isinstance(s, ast.Assign) and len(s.targets) == 1 and isinstance(s.targets[0], ast.Name):
            v = s.value
            if isinstance(v, ast.Call) and isinstance(v.func, ast.Name) and v.func.id.startswith('__') and v.args and isinstance(v.args[0], ast.Name) and v.args[0].id == s.targets[0].id:
                return s.targets[0].id
            if isinstance(v, ast.BinOp) and getattr(v, 'augmented', False):
                return s.targets[0].id
        return None
    def walk(stmts, loops):
        for s in stmts:
            m = is_mut(s)
            if m: muts.append((s.lineno, m, loops))
            for fld in ('body', 'orelse', 'finalbody'):
                sub = getattr(s, fld, None)
                if isinstance(sub, list) and sub and isinstance(sub[0], ast.stmt):
                    walk(sub, loops + ([s] if isinstance(s, (ast.For, ast.While)) and fld == 'body' else []))
            for h in getattr(s, 'handlers', []) or []:
                walk(h.body, loops)
            s._loops = loops
    walk(fnode.body, [])
    def after(s):
        out = set()
        for ln, name, loops in muts:
            if ln > s.lineno or any(l in loops for l in s._loops): out.add(name)
        return out
    return after


def reads(nodes):
    """names read by the nodes, the targets of comprehensions / generator expressions being local to them"""
    out = set()
    def walk(n, bound):
        if isinstance(n, (ast.GeneratorExp, ast.ListComp, ast.SetComp, ast.DictComp)):
            b = set(bound)
            for g in n.generators:
                walk(g.iter, b)
                _target_names(g.target, b)
                for c in g.ifs: walk(c, b)
            for fld in ('elt', 'key', 'value'):
                if hasattr(n, fld): walk(getattr(n, fld), b)
            return
        if isinstance(n, ast.Name):
            if isinstance(n.ctx, ast.Load) and n.id not in bound: out.add(n.id)
            return
        for c in ast.iter_child_nodes(n): walk(c, bound)
    for n in nodes: walk(n, set())
    return out

def _target_names(t, out):
    if isinstance(t, ast.Name): out.add(t.id)
    elif isinstance(t, (ast.Tuple, ast.List)):
        for x in t.elts: _target_names(x, out)
    elif isinstance(t, ast.Starred): _target_names(t.value, out)

def assignment_order(blocks, names):
    """the names ordered by where the statements first assign them (the hidden tag list first): stable under renaming"""
    pos = {}
    def target(t, at):
        if isinstance(t, ast.Name): pos.setdefault(t.id, at)
        elif isinstance(t, (ast.Tuple, ast.List)):
            for x in t.elts: target(x, at)
        elif isinstance(t, ast.Starred): target(t.value, at)
    k = 0
    for b in blocks:
        for st in b:
            for n in ast.walk(st):
                at = (k, getattr(n, 'lineno', 0), getattr(n, 'col_offset', 0))
                if isinstance(n, ast.Assign):
                    for t in n.targets: target(t, at)
                elif isinstance(n, (ast.AugAssign, ast.AnnAssign)): target(n.target, at)
                elif isinstance(n, ast.For): target(n.target, at)
        k += 1
    return sorted(names, key=lambda v: ((0,) if v == OUT else (1,) + pos.get(v, (9, 0, 0)), v))

def reads_before_writes(stmts, written):
    """names that may be read in the statements before the statements themselves assign them (flow-sensitive over if / for / try);
    `written` (a set, updated) = names definitely assigned before / after"""
    out = set()
    for s in stmts:
        if isinstance(s, ast.Assign):
            out |= reads([s.value]) - written
            for t in s.targets:
                for n in ast.walk(t):
                    if isinstance(n, ast.Name) and isinstance(n.ctx, ast.Load) : out |= {n.id} - written
                _target_names(t, written)
        elif isinstance(s, ast.If):
            out |= reads([s.test]) - written
            w1, w2 = set(written), set(written)
            out |= reads_before_writes(s.body, w1)
            out |= reads_before_writes(s.orelse, w2)
            def leaves(b): return bool(b) and isinstance(b[-1], (ast.Continue, ast.Break, ast.Return, ast.Raise))
            if leaves(s.body) and leaves(s.orelse): pass
            elif leaves(s.body): written |= w2
            elif leaves(s.orelse): written |= w1
            else: written |= (w1 & w2)
        elif isinstance(s, ast.For):
            out |= reads([s.iter]) - written
            w = set(written); _target_names(s.target, w)
            out |= reads_before_writes(s.body, w)
            out |= reads_before_writes(s.orelse, set(written))
        elif isinstance(s, ast.Try):
            w = set(written)
            out |= reads_before_writes(s.body, w)
            out |= reads_before_writes(s.orelse, w)
            ws = [w]
            for h in s.handlers:
                wh = set(written)
                out |= reads_before_writes(h.body, wh)
                if not (h.body and isinstance(h.body[-1], (ast.Continue, ast.Break, ast.Return, ast.Raise))): ws.append(wh)
            out |= reads_before_writes(s.finalbody, set(written))
            if not s.finalbody:
                common = set.intersection(*ws)
                written |= common
        else:
            out |= reads([s]) - written
    return out

# ----------------------------------------------------------------------------- expressions and statements

class Fn(Stmts):
    T = Types
    EXC_ASSERT = '.error .AssertionError'
    CAUGHT = {}
    DUPLICATE_ON_RETURN = True
    STATE = '#no-state'

    def __init__(self, unit, name, outvars=()):
        self.u, self.name, self.writes = unit, name, False
        self.writes_map = {}
        self.outvars = list(outvars)     # hidden results, appended to every returned value
        self.probe, self.result_types = None, None
        self.ntmp = 0
        self.quiet = 0
        self.loops = []                  # innermost last: (vars, types, has_brk)
        self.after = None
        self.oracles = []                # oracle parameters this function needs (in order of first use)

    def note(self, msg):
        if not self.quiet: self.u.dropped.add(msg)

    def oracle(self, name):
        if name not in self.oracles: self.oracles.append(name)
        return name

    # ---------------- results
    def ok(self, value_text, ty, env, node=None):
        outs = []
        for v in self.outvars:
            if v not in env: bad(node, f'{v} is not set on this path')
            outs.append((lname(v), env[v]))
        if self.probe is not None:
            self.probe.append([ty] + [t for _, t in outs])
            return ('raw', '.ok default')
        rt = self.result_types
        vals = []
        if rt[0] != NONE: vals.append(coerce(value_text, ty, rt[0], node))
        elif ty != NONE: bad(node, 'a value returned on one path and nothing on another')
        for (t, frm), to in zip(outs, rt[1:]): vals.append(coerce(t, frm, to, node))
        return ('raw', '.ok ' + atom(tuple_pat(vals)))

    def value(self, e, env, B):
        t, ty = self.expr(e, env, B)
        return 'pure', t, ty, False

    # ---------------- expressions
    def expr(self, e, env, B):
        m = getattr(self, 'expr_' + type(e).__name__, None)
        if m is None: bad(e, f'expression {type(e).__name__}')
        return m(e, env, B)

    def expr_Constant(self, e, env, B):
        v = e.value
        if v is None: return '()', NONE
        if v is True: return 'true', BOOL
        if v is False: return 'false', BOOL
        if isinstance(v, int): return (f'({v} : Int)' if v >= 0 else f'(-{-v} : Int)'), INT
        if isinstance(v, str): return chars(v), STR
        bad(e, f'literal {v!r}')

    def expr_Name(self, e, env, B):
        if e.id in env:
            ty = env[e.id]
            if ty in (EMPTY, EMPTYD): return '[]', ty
            if ty[0] == '#': bad(e, f'{e.id} used as a value')
            if ty[0] == 'maybe':       # unbound on some path: reading it there is UnboundLocalError
                return self.hoist(B, f'PyKit.bound {lname(e.id)}'), ty[1]
            return lname(e.id), ty
        r = self.u.global_name(self, e, env, B)
        if r is not None: return r
        bad(e, f'unknown name {e.id}')

    def expr_Tuple(self, e, env, B):
        if not e.elts: return '[]', EMPTY
        items = [self.expr(x, env, B) for x in e.elts]
        tys = {ty for _, ty in items}
        if len(tys) == 1 and all(not isinstance(x, ast.Starred) for x in e.elts):
            # a homogeneous tuple is also usable as a sequence; keep it a product and let the uses decide
            return '(' + ', '.join(t for t, _ in items) + ')', TUP(*[ty for _, ty in items])
        return '(' + ', '.join(t for t, _ in items) + ')', TUP(*[ty for _, ty in items])

    def expr_List(self, e, env, B):
        if not e.elts: return '[]', EMPTY
        items = [self.expr(x, env, B) for x in e.elts]
        ty = None
        for _, t in items: ty = t if ty is None else join(ty, t, e)
        return '[' + ', '.join(coerce(t, t0, ty, e) for t, t0 in items) + ']', LIST(ty)

    def expr_Set(self, e, env, B):
        items = [self.expr(x, env, B) for x in e.elts]
        ty = None
        for _, t in items: ty = t if ty is None else join(ty, t, e)
        return '[' + ', '.join(coerce(t, t0, ty, e) for t, t0 in items) + ']', SET(ty)

    def expr_Dict(self, e, env, B):
        if not e.keys: return '[]', EMPTYD
        r = self.u.dict_display(self, e, env, B)
        if r is not None: return r
        bad(e, 'dict display')

    def expr_JoinedStr(self, e, env, B):
        parts = []
        for p in e.values:
            if isinstance(p, ast.Constant) and isinstance(p.value, str): parts.append(chars(p.value))
            elif isinstance(p, ast.FormattedValue) and p.conversion == -1:
                r = self.u.formatted_value(self, p, env, B)
                if r is None:
                    if p.format_spec is not None: bad(e, 'format spec')
                    t, ty = self.expr(p.value, env, B)
                    if ty != STR: bad(e, f'formatted value of type {ty}')
                    r = t
                parts.append(r)
            else: bad(e, 'f-string')
        if not parts: return chars(''), STR
        return '(' + ' ++ '.join(parts) + ')', STR

    def expr_BinOp(self, e, env, B):
        op = type(e.op).__name__
        lt, lty = self.expr(e.left, env, B)
        if op == 'Add' and isinstance(e.right, ast.List) and e.right.elts and (lty[0] == 'list' or lty == EMPTY):
            items = [self.expr(x, env, B) for x in e.right.elts]
            ety = lty[1] if lty != EMPTY else None
            for _, t in items: ety = t if ety is None else join(ety, t, e)
            rtext = '[' + ', '.join(coerce(t, t0, ety, e) for t, t0 in items) + ']'
            if lty == EMPTY: return rtext, LIST(ety)
            return f'({coerce(lt, lty, LIST(ety), e)} ++ {rtext})', LIST(ety)
        rt, rty = self.expr(e.right, env, B)
        if lty == INT and rty == INT and op in ('Add', 'Sub', 'Mult'):
            return f'({lt} {dict(Add="+", Sub="-", Mult="*")[op]} {rt})', INT
        if lty == STR and rty == STR and op == 'Add': return f'({lt} ++ {rt})', STR
        if op == 'Add' and (lty[0] == 'list' or lty == EMPTY) and (rty[0] in ('list', 'set') or rty == EMPTY):
            # list + list;  `xs += s` (augmented, s any iterable: the elements in iteration order — for a set the caller must not depend on it)
            if rty[0] == 'set' and not getattr(e, 'augmented', False): bad(e, 'list + set')
            if rty[0] == 'set': self.note(f'{self.name} line {e.lineno}: a list extended by a set (the iteration order of the set is the order of its representation)')
            if lty == EMPTY: return rt, (LIST(rty[1]) if rty != EMPTY else EMPTY)
            if rty == EMPTY: return lt, lty
            ty = join(lty, LIST(rty[1]), e)
            return f'({lt} ++ {rt})', ty
        if op in ('BitOr', 'BitAnd', 'Sub') and (lty[0] == 'set' or lty == EMPTY) and (rty[0] == 'set' or rty == EMPTY):
            if lty == EMPTY and rty == EMPTY: return '[]', EMPTY
            ety = (lty if lty != EMPTY else rty)
            if lty != EMPTY and rty != EMPTY: ety = join(lty, rty, e)
            l2, r2 = coerce(lt, lty, ety, e), coerce(rt, rty, ety, e)
            if op == 'BitOr': return f'({l2} ++ {r2})', ety
            return f'(PyKit.{"setInter" if op == "BitAnd" else "setDiff"} {atom(l2)} {atom(r2)})', ety
        r = self.u.binop(self, e, op, (lt, lty), (rt, rty), env, B)
        if r is not None: return r
        bad(e, f'operator {op} on {lty}, {rty}')

    def expr_UnaryOp(self, e, env, B):
        if isinstance(e.op, ast.Not):
            o = e.operand
            # `not (a == b)` is `a != b` (likewise != / in / not in / is / is not): one spelling in the output
            if isinstance(o, ast.Compare) and len(o.ops) == 1 and type(o.ops[0]) in NEGATED:
                flipped = ast.copy_location(ast.Compare(left=o.left, ops=[NEGATED[type(o.ops[0])]()], comparators=o.comparators), o)
                return self.expr(flipped, env, B)
            if isinstance(o, ast.UnaryOp) and isinstance(o.op, ast.Not):
                return self.cond(o.operand, env, B), BOOL
            return f'(!{self.cond(e.operand, env, B)})', BOOL
        if isinstance(e.op, ast.USub) and isinstance(e.operand, ast.Constant) and isinstance(e.operand.value, int):
            return f'(-{e.operand.value} : Int)', INT
        bad(e, f'unary {type(e.op).__name__}')

    def expr_BoolOp(self, e, env, B):
        """`and` / `or` in VALUE position return one of their operands: only the all-bool case (and `x or ''`) is that simple"""
        if isinstance(e.op, ast.Or) and len(e.values) == 2 and isinstance(e.values[1], ast.Constant) and e.values[1].value == '':
            t, ty = self.expr(e.values[0], env, B)
            if ty == STR: return t, STR                      # '' or '' is ''
            if ty == OPT(STR): return f'({atom(t)}.getD [])', STR
            r = self.u.or_empty(self, e, (t, ty), env, B)
            if r is not None: return r
            bad(e, f"`x or ''` for x of type {ty}")
        parts = []
        for i, v in enumerate(e.values):
            B2 = []
            t, ty = self.expr(v, env, B2)
            if ty not in (BOOL, TRUTH): bad(e, f'and/or of a {ty} in value position')
            parts.append(t)
            if B2:
                if i > 0: bad(e, 'partial operation on the right of and/or')
                B.extend(B2)
        return '(' + (' && ' if isinstance(e.op, ast.And) else ' || ').join(parts) + ')', BOOL

    def cond_BoolOp(self, e, env, B):
        parts = []
        for i, v in enumerate(e.values):
            B2 = []
            parts.append(self.cond(v, env, B2))
            if B2:
                if i > 0: bad(e, 'partial operation on the right of and/or')
                B.extend(B2)
        return '(' + (' && ' if isinstance(e.op, ast.And) else ' || ').join(parts) + ')'

    def expr_IfExp(self, e, env, B):
        c = self.cond(e.test, env, B)
        B1, B2 = [], []
        a, aty = self.expr(e.body, env, B1)
        b, bty = self.expr(e.orelse, env, B2)
        if B1 or B2: bad(e, 'partial operation inside a conditional expression')
        ty = join(aty, bty, e)
        return f'(if {c} then {coerce(a, aty, ty, e)} else {coerce(b, bty, ty, e)})', ty

    def expr_Compare(self, e, env, B):
        if len(e.ops) != 1: bad(e, 'chained comparison')
        op = type(e.ops[0]).__name__
        L, R = e.left, e.comparators[0]
        if op in ('Is', 'IsNot'):
            if isinstance(R, ast.Constant) and R.value is None:
                lt, lty = self.expr(L, env, B)
                if lty == NONE: return ('true' if op == 'Is' else 'false'), BOOL
                if lty[0] != 'opt': return ('false' if op == 'Is' else 'true'), BOOL
                return (f'{atom(lt)}.isNone' if op == 'Is' else f'{atom(lt)}.isSome'), BOOL
            r = self.u.identity(self, e, op, env, B)
            if r is not None: return r
            bad(e, 'object identity')
        if op in ('In', 'NotIn'):
            neg = '!' if op == 'NotIn' else ''
            rt, rty = self.expr(R, env, B)
            if rty == STR:
                if isinstance(L, ast.Constant) and isinstance(L.value, str) and len(L.value) == 1:
                    return f'({neg}{atom(rt)}.contains {lean_char(L.value)})', BOOL
                bad(e, 'substring test other than with a one-character literal')
            lt, lty = self.expr(L, env, B)
            if rty in (EMPTY, EMPTYD): return ('false' if op == 'In' else 'true'), BOOL
            if rty[0] in ('list', 'set') and join(rty[1], lty, e) == rty[1]:
                return f'({neg}{atom(rt)}.contains {atom(coerce(lt, lty, rty[1], e))})', BOOL
            if rty[0] in ('dict', 'ddict') and (lty == rty[1] or (lty[0] == 'opt' and lty[1] == rty[1])):
                if lty[0] == 'opt':
                    # `None in d` for a dict keyed by str: False
                    return f'({neg}(match {lt} with | some k => (PyKit.keys {atom(rt)}).contains k | none => false))', BOOL
                return f'({neg}(PyKit.keys {atom(rt)}).contains {atom(lt)})', BOOL
            r = self.u.contains(self, e, op, (lt, lty), (rt, rty), env, B)
            if r is not None: return r
            bad(e, f'`in` between {lty} and {rty}')
        if op in ('Eq', 'NotEq') and isinstance(L, ast.Constant) and not isinstance(R, ast.Constant):
            L, R = R, L          # `==` between a literal and a value is symmetric and both sides are free of effects: literal on the right
        if op in ('Lt', 'LtE', 'Gt', 'GtE') and isinstance(L, ast.Constant) and not isinstance(R, ast.Constant):
            L, R = R, L
            op = dict(Lt='Gt', LtE='GtE', Gt='Lt', GtE='LtE')[op]
        lt, lty = self.expr(L, env, B)
        rt, rty = self.expr(R, env, B)
        if op in ('Eq', 'NotEq'):
            sym = '=' if op == 'Eq' else '≠'
            if (lty == NONE) != (rty == NONE) and NONE in (lty, rty) and (lty if rty == NONE else rty)[0] != 'opt':
                return ('false' if op == 'Eq' else 'true'), BOOL         # None == <a value that is not None>
            if lty == EMPTY and rty[0] in ('list', 'set'): lty = rty
            if rty == EMPTY and lty[0] in ('list', 'set'): rty = lty
            if lty[0] == 'list' and rty[0] == 'list':
                ty = join(lty, rty, e)
                return f'(decide ({coerce(lt, lty, ty, e)} {sym} {coerce(rt, rty, ty, e)}))', BOOL
            if lty == rty and lty in (INT, STR, BOOL, CH):
                return f'(decide ({lt} {sym} {rt}))', BOOL
            if lty[0] == 'opt' and lty[1] == rty and rty in (INT, STR, BOOL): return f'(decide ({lt} {sym} some {atom(rt)}))', BOOL
            if rty[0] == 'opt' and rty[1] == lty and lty in (INT, STR, BOOL): return f'(decide (some {atom(lt)} {sym} {rt}))', BOOL
            if lty[0] == 'opt' and lty == rty and lty[1] in (INT, STR, BOOL): return f'(decide ({lt} {sym} {rt}))', BOOL
            r = self.u.compare(self, e, op, (lt, lty), (rt, rty), env, B)
            if r is not None: return r
            bad(e, f'== between {lty} and {rty}')
        if lty == INT and rty == INT:
            return f'(decide ({lt} {dict(Lt="<", LtE="≤", Gt=">", GtE="≥")[op]} {rt}))', BOOL
        r = self.u.compare(self, e, op, (lt, lty), (rt, rty), env, B)
        if r is not None: return r
        bad(e, f'comparison {op} between {lty} and {rty}')

    def expr_Subscript(self, e, env, B):
        if isinstance(e.slice, ast.Slice):
            r = self.u.slice(self, e, env, B)
            if r is not None: return r
            sl = e.slice
            vt, vty = self.expr(e.value, env, B)
            def const(x): return isinstance(x, ast.Constant) and isinstance(x.value, int) and not isinstance(x.value, bool)
            if vty == STR or vty[0] == 'list':
                if sl.step is None and sl.upper is None and const(sl.lower) and sl.lower.value >= 0:
                    return f'({atom(vt)}.drop {sl.lower.value})', vty
                if sl.step is None and sl.lower is None and const(sl.upper) and sl.upper.value >= 0:
                    return f'({atom(vt)}.take {sl.upper.value})', vty
                if sl.step is None and sl.lower is None and const(sl.upper) and sl.upper.value < 0:
                    return f'(HdrPy.dropLastN {-sl.upper.value} {atom(vt)})', vty
                if sl.step is None and const(sl.upper) and sl.upper.value < 0 and sl.lower is not None:
                    lo, loty = self.expr(sl.lower, env, B)
                    if loty == INT: return f'(HdrPy.sliceFromTo {atom(vt)} {atom(lo)} (-{-sl.upper.value} : Int))', vty
            bad(e, 'slice')
        vt, vty = self.expr(e.value, env, B)
        if vty[0] == 'dict':
            k, kty = self.expr(e.slice, env, B)
            if kty != vty[1]: bad(e, f'key of type {kty} for a dict keyed by {vty[1]}')
            return self.hoist(B, f'PyKit.dictGet {atom(vt)} {atom(k)}'), vty[2]
        if vty[0] == 'ddict':
            k, kty = self.expr(e.slice, env, B)
            if kty != vty[1]: bad(e, f'key of type {kty} for a dict keyed by {vty[1]}')
            # reading a missing key of a defaultdict also INSERTS it; that is invisible unless the keys are enumerated afterwards: the
            # translators that enumerate keys (`sorted(d.items())`, `len(d)`, `k in d`) use `__getitem_insert__` semantics explicitly
            self.u.ddict_read(self, e, env)
            return f'(HdrPy.ddGet {atom(vt)} {atom(k)})', vty[2]
        if vty[0] == 'list':
            if isinstance(e.slice, ast.Constant) and isinstance(e.slice.value, int) and e.slice.value >= 0:
                return self.hoist(B, f'PyKit.listGet {atom(vt)} {e.slice.value}'), vty[1]
            it, ity = self.expr(e.slice, env, B)
            if ity != INT: bad(e, 'index')
            return self.hoist(B, f'PyKit.listGetInt {atom(vt)} {atom(it)}'), vty[1]
        if vty == EMPTY:
            return self.hoist(B, '(.error .IndexError : Except Py.Exc Unit)'), NONE
        r = self.u.subscript(self, e, (vt, vty), env, B)
        if r is not None: return r
        bad(e, f'subscript of {vty}')

    def expr_Attribute(self, e, env, B):
        r = self.u.attribute(self, e, env, B)
        if r is not None: return r
        bad(e, f'attribute {ast.unparse(e)[:40]}')

    def expr_Call(self, e, env, B):
        return self.call(e, env, B)

    def expr_GeneratorExp(self, e, env, B):
        bad(e, 'generator expression outside a supported call')

    def cond(self, e, env, B):
        if isinstance(e, ast.BoolOp): return self.cond_BoolOp(e, env, B)
        if isinstance(e, ast.UnaryOp) and isinstance(e.op, ast.Not) and isinstance(e.operand, ast.BoolOp):
            return f'(!{self.cond_BoolOp(e.operand, env, B)})'
        text, ty = self.expr(e, env, B)
        if ty in (BOOL, TRUTH): return text
        if ty[0] in ('list', 'set', 'dict', 'ddict') or ty == STR: return f'(!{atom(text)}.isEmpty)'
        if ty in (EMPTY, EMPTYD): return 'false'
        if ty == NONE: return 'false'
        if ty[0] == 'opt' and ty[1] in self.u.TRUTHY: return f'{atom(text)}.isSome'
        if ty[0] == 'opt' and ty[1] == STR: return f'(match {text} with | some s => !s.isEmpty | none => false)'
        if ty in self.u.TRUTHY: return 'true'
        bad(e, f'truth value of {ty}')

    # ---------------- calls
    def args_plain(self, e):
        return not e.keywords and not any(isinstance(a, ast.Starred) for a in e.args)

    def str_method(self, e, vt, attr, env, B):
        """methods of a str value"""
        a = e.args
        def lit1(x): return isinstance(x, ast.Constant) and isinstance(x.value, str) and len(x.value) == 1
        def lits(x): return isinstance(x, ast.Constant) and isinstance(x.value, str)
        if e.keywords: bad(e, f'str.{attr} with keyword arguments')
        if attr == 'lower' and not a:
            return f'({self.u.lower_fn(self)} {atom(vt)})', STR
        if attr == 'split' and len(a) == 1 and lit1(a[0]):
            return f'(HdrPy.split {lean_char(a[0].value)} {atom(vt)})', LIST(STR)
        if attr in ('split', 'rsplit') and len(a) == 2 and lit1(a[0]) and isinstance(a[1], ast.Constant) and a[1].value == 1:
            return f'(HdrPy.{attr}1 {lean_char(a[0].value)} {atom(vt)})', LIST(STR)
        if attr in ('strip', 'rstrip', 'lstrip') and len(a) == 1 and lits(a[0]):
            return f'(HdrPy.{attr} {chars(a[0].value)} {atom(vt)})', STR
        if attr in ('startswith', 'endswith') and len(a) == 1:
            if isinstance(a[0], ast.Tuple) and a[0].elts and all(lits(x) for x in a[0].elts):
                return '(' + ' || '.join(f'HdrPy.{attr} {chars(x.value)} {atom(vt)}' for x in a[0].elts) + ')', BOOL
            pt, pty = self.expr(a[0], env, B)
            if pty == STR: return f'(HdrPy.{attr} {atom(pt)} {atom(vt)})', BOOL
        if attr == 'splitlines' and not a:
            return f'(HdrPy.splitlines {atom(vt)})', LIST(STR)
        if attr == 'replace' and len(a) == 2:
            (x, xty), (y, yty) = self.expr(a[0], env, B), self.expr(a[1], env, B)
            if xty == STR and yty == STR: return f'(HdrPy.replace {atom(vt)} {atom(x)} {atom(y)})', STR
        bad(e, f'str method .{attr}({", ".join(ast.unparse(x) for x in a)})')

    def call(self, e, env, B):
        r = self.u.call(self, e, env, B)
        if r is not None: return r
        f = e.func
        if isinstance(f, ast.Name) and f.id not in env:
            n = f.id
            if n == 'len' and len(e.args) == 1 and self.args_plain(e):
                t, ty = self.expr(e.args[0], env, B)
                if ty in (EMPTY, EMPTYD): return '(0 : Int)', INT
                if ty[0] == 'set': return f'((HdrPy.distinct {atom(t)}).length : Int)', INT
                if ty[0] in ('list', 'dict', 'ddict') or ty == STR: return f'({atom(t)}.length : Int)', INT
                bad(e, f'len of {ty}')
            if n == 'sorted' and len(e.args) == 1 and self.args_plain(e):
                t, ty = self.expr(e.args[0], env, B)
                if ty == EMPTY: return '[]', EMPTY
                if ty == SET(STR): return f'(HdrPy.sortedSet {atom(t)})', LIST(STR)
                if ty == LIST(STR): return f'(HdrPy.sortedList {atom(t)})', LIST(STR)
                r = self.u.sorted(self, e, (t, ty), env, B)
                if r is not None: return r
                bad(e, f'sorted of {ty}')
            if n in ('set', 'frozenset') and self.args_plain(e):
                if not e.args: return '[]', EMPTY
                if len(e.args) == 1:
                    t, ty = self.expr(e.args[0], env, B)
                    if ty == EMPTY: return '[]', EMPTY
                    if ty[0] in ('list', 'set'): return t, SET(ty[1])
                    if ty[0] in ('dict', 'ddict'): return f'(PyKit.keys {atom(t)})', SET(ty[1])
                    bad(e, f'set of {ty}')
            if n == 'list' and self.args_plain(e):
                if not e.args: return '[]', EMPTY
                if len(e.args) == 1:
                    t, ty = self.expr(e.args[0], env, B)
                    if ty[0] == 'list' or ty == EMPTY: return t, ty
                    bad(e, f'list of {ty}')
            if n == 'bool' and len(e.args) == 1 and self.args_plain(e):
                return self.cond(e.args[0], env, B), BOOL
            if n in ('any', 'all') and len(e.args) == 1 and self.args_plain(e):
                a = e.args[0]
                if isinstance(a, ast.GeneratorExp):
                    g = a
                    if len(g.generators) != 1 or g.generators[0].ifs or not isinstance(g.generators[0].target, ast.Name) or g.generators[0].is_async: bad(e, 'generator expression')
                    xs, xty = self.expr(g.generators[0].iter, env, B)
                    if xty[0] not in ('list', 'set'): bad(e, f'{n}() over {xty}')
                    env2 = dict(env); env2[g.generators[0].target.id] = xty[1]
                    B2 = []
                    p = self.cond(g.elt, env2, B2)
                    if B2: bad(e, f'partial operation inside {n}()')
                    return f'({atom(xs)}.{n} (fun {lname(g.generators[0].target.id)} => {p}))', BOOL
                xs, xty = self.expr(a, env, B)
                if xty[0] in ('list', 'set'):
                    env2 = dict(env); env2['x__'] = xty[1]
                    p = self.cond(ast.copy_location(ast.Name(id='x__', ctx=ast.Load()), e), env2, [])
                    return f'({atom(xs)}.{n} (fun x__ => {p}))', BOOL
                bad(e, f'{n}() of {xty}')
            if n == '__tag__':
                return self.tag_call(e, env, B), TAG
            if n.startswith('__') and n.endswith('__'):
                return self.pseudo(e, n[2:-2], env, B)
            fi = self.u.get_function(n, e)
            if fi is not None:
                return self.call_function(fi, e, env, B)
            bad(e, f'call of {n}')
        if isinstance(f, ast.Attribute):
            # str.join(sep, xs) / str.lower(s)
            if isinstance(f.value, ast.Name) and f.value.id == 'str' and 'str' not in env and self.args_plain(e):
                if f.attr == 'join' and len(e.args) == 2:
                    sep, sty = self.expr(e.args[0], env, B)
                    r = self.u.str_join(self, e, (sep, sty), env, B)
                    if r is not None: return r
                    xs, xty = self.expr(e.args[1], env, B)
                    if sty != STR: bad(e, 'str.join separator')
                    if xty == TUP(STR, STR): return f'(HdrPy.join {atom(sep)} [{xs}.1, {xs}.2])', STR
                    if xty != LIST(STR): bad(e, f'str.join of {xty}')
                    return f'(HdrPy.join {atom(sep)} {atom(xs)})', STR
                if len(e.args) >= 1:
                    vt, vty = self.expr(e.args[0], env, B)
                    if vty == STR:
                        e2 = ast.copy_location(ast.Call(func=f, args=e.args[1:], keywords=[]), e)
                        return self.str_method(e2, vt, f.attr, env, B)
                bad(e, f'str.{f.attr}')
            r = self.u.method(self, e, env, B)
            if r is not None: return r
            vt, vty = self.expr(f.value, env, B)
            if vty == STR:
                return self.str_method(e, vt, f.attr, env, B)
            if vty[0] in ('dict', 'ddict') and self.args_plain(e):
                if f.attr == 'keys' and not e.args: return f'(PyKit.keys {atom(vt)})', SET(vty[1])
                if f.attr == 'values' and not e.args: return f'(HdrPy.values {atom(vt)})', LIST(vty[2])
                if f.attr == 'items' and not e.args: return vt, LIST(TUP(vty[1], vty[2]))
                if f.attr == 'get' and len(e.args) == 1 and vty[0] == 'dict':
                    k, kty = self.expr(e.args[0], env, B)
                    if kty != vty[1]: bad(e, '.get key')
                    return f'(HdrPy.dictGet? {atom(vt)} {atom(k)})', OPT(vty[2])
            if vty == EMPTYD and f.attr == 'get' and len(e.args) == 1 and self.args_plain(e):
                self.expr(e.args[0], env, B)
                return 'none', NONE
            bad(e, f'method .{f.attr} of a value of type {vty}')
        bad(e, f'call {ast.unparse(e)[:60]}')

    def call_function(self, fi, e, env, B):
        """a call of another translated function of the unit"""
        if any(isinstance(a, ast.Starred) for a in e.args) or any(k.arg is None for k in e.keywords): bad(e, 'call arguments')
        if len(e.args) > len(fi.params): bad(e, 'too many arguments')
        given = {}
        for (p, _), a in zip(fi.params, e.args): given[p] = a
        for k in e.keywords:
            if k.arg in given or k.arg not in dict(fi.params): bad(e, f'keyword argument {k.arg}')
            given[k.arg] = k.value
        args = []
        for p, pty in fi.params:
            if p in given:
                t, ty = self.expr(given[p], env, B)
                args.append(atom(coerce(t, ty, pty, e)))
            elif p in fi.defaults:
                args.append(fi.defaults[p])
            else:
                bad(e, f'missing argument {p}')
        for o in fi.oracles: self.oracle(o)
        comp = ' '.join([fi.lean_name] + list(fi.oracles) + args)
        return self.hoist(B, comp), fi.ret

    def tag_extra(self, a, env, B):
        r = self.u.tag_extra(self, a, env, B)
        if r is not None: return r
        t, ty = self.expr(a, env, B)
        if ty == EXTRA: return t
        if ty == STR: return f'(Extra.str {atom(t)})'
        if ty == INT: return f'(Extra.int {atom(t)})'
        bad(a, f'tag argument of type {ty}')

    def tag_call(self, e, env, B):
        if not e.args: bad(e, 'self.tag without a name')
        n = e.args[0]
        if not (isinstance(n, ast.Constant) and isinstance(n.value, str)): bad(e, 'tag name is not a literal')
        fixed, star = [], None
        for a in e.args[1:]:
            if isinstance(a, ast.Starred):
                if star is not None or a is not e.args[-1]: bad(e, 'starred tag argument that is not the last one')
                star = a.value
            else:
                fixed.append(self.tag_extra(a, env, B))
        lst = '[' + ', '.join(fixed) + ']'
        if star is not None:
            st = self.u.tag_star(self, star, env, B)
            if st is None:
                t, ty = self.expr(star, env, B)
                if ty != LIST(STR): bad(e, f'starred tag argument of type {ty}')
                st = f'({atom(t)}.map Extra.str)'
            lst = f'({lst} ++ {st})' if fixed else st
        return f'(TagCall.mk {lean_string(n.value)} {lst})'

    def pseudo(self, e, op, env, B):
        """the pseudo-functions of `Normalize` (mutation as rebinding)"""
        a = e.args
        r = self.u.pseudo(self, e, op, env, B)
        if r is not None: return r
        if op == 'pop' and len(a) == 1:
            t, ty = self.expr(a[0], env, B)
            if ty[0] == 'list': return self.hoist(B, f'HdrPy.pop {atom(t)}'), ty
            if ty == EMPTY: return self.hoist(B, '(.error .IndexError : Except Py.Exc (List Unit))'), EMPTY
            bad(e, f'.pop() of {ty}')
        if op in ('append', 'add') and len(a) == 2:
            t, ty = self.expr(a[0], env, B)
            v, vty = self.expr(a[1], env, B)
            kind = 'list' if op == 'append' else 'set'
            if ty == EMPTY: return f'[{v}]', (kind, vty)
            if ty[0] != kind: bad(e, f'.{op} on {ty}')
            ety = join(ty[1], vty, e)
            if ety != ty[1]: bad(e, f'.{op} of a {vty} to {ty}')
            return f'({t} ++ [{coerce(v, vty, ety, e)}])', ty
        if op == 'setitem' and len(a) == 3:
            d, dty = self.expr(a[0], env, B)
            r = self.u.setitem(self, e, (d, dty), env, B)
            if r is not None: return r
            k, kty = self.expr(a[1], env, B)
            v, vty = self.expr(a[2], env, B)
            if dty == EMPTYD: return f'[({k}, {v})]', DICT(kty, vty)
            if dty[0] in ('dict', 'ddict') and dty[1] == kty and join(dty[2], vty, e) == dty[2]:
                return f'(HdrPy.dictSet {atom(k)} {atom(coerce(v, vty, dty[2], e))} {atom(d)})', dty
            bad(e, f'item assignment on {dty} with key {kty} and value {vty}')
        if op == 'setslice' and len(a) == 4:
            d, dty = self.expr(a[0], env, B)
            v, vty = self.expr(a[3], env, B)
            lo, hi = a[1], a[2]
            if dty[0] == 'list' and isinstance(lo, ast.Constant) and isinstance(lo.value, int) and lo.value >= 0 and isinstance(hi, ast.Constant) and hi.value is None and join(dty, vty, e) == dty:
                return f'({atom(d)}.take {lo.value} ++ {v})', dty
            bad(e, 'slice assignment')
        if op in ('del', 'delattr') and len(a) == 1:
            return '()', ('#del', a[0].value)
        bad(e, f'mutation .{op}')

    # ---------------- statements
    def raise_(self, s, env, B):
        x = s.exc
        if s.cause is None and isinstance(x, ast.Name) and x.id in ('IndexError', 'KeyError', 'ValueError', 'TypeError', 'AssertionError') and x.id not in env:
            return f'.error .{x.id}'
        r = self.u.raise_(self, s, env, B)
        if r is not None: return r
        bad(s, f'raise {ast.unparse(x) if x else ""}')

    def fresh(self, value, env):
        """does the expression denote a container no other name refers to"""
        if isinstance(value, (ast.List, ast.Set, ast.Dict, ast.ListComp, ast.SetComp, ast.DictComp, ast.BinOp, ast.Tuple, ast.Constant, ast.JoinedStr)): return True
        if isinstance(value, ast.Call):
            f = value.func
            if isinstance(f, ast.Name): return True       # sorted(), set(), list(), pseudo-functions, translated functions (they return fresh values or immutable ones)
            if isinstance(f, ast.Attribute) and f.attr in ('get', 'setdefault', 'pop', 'popitem'): return False     # may hand out a container stored inside another
            return True
        if isinstance(value, ast.IfExp): return self.fresh(value.body, env) and self.fresh(value.orelse, env)
        return False

    def assign(self, target, value, s, env, go):
        B = []
        if isinstance(target, ast.Name):
            x = target.id
            text, ty = self.expr(value, env, B)
            if ty[0] == '#del':
                env2 = dict(env); env2.pop(ty[1], None)
                return self.wrap(B, go(env2))
            if ty[0] == '#': bad(s, f'{ast.unparse(value)[:30]} used as a value')
            # aliasing rule
            if (ty[0] in MUTABLE or ty in (EMPTY, EMPTYD)) and not self.fresh(value, env):
                later = self.after(s) if self.after else set()
                src = value.id if isinstance(value, ast.Name) else None
                if x in later or (src is not None and src in later) or src is None and x in later:
                    bad(s, f'{x} = {ast.unparse(value)[:30]}: a container that is mutated later would be shared between two names')
            env2 = dict(env); env2[x] = ty
            if ty in (EMPTY, EMPTYD):
                return self.wrap(B, go(env2))      # the empty collection: every use is the literal `[]`
            if B and getattr(B[-1], '__defaults__', None) and len(B[-1].__defaults__) == 2 and text == B[-1].__defaults__[0]:
                comp = B[-1].__defaults__[1]; B.pop()
                return self.wrap(B, bind(lname(x), comp, go(env2)))
            return self.wrap(B, ('let', lname(x), text, go(env2)))
        if isinstance(target, (ast.List, ast.Tuple)):
            return self.unpack(target, value, s, env, go)
        bad(s, f'assignment target {ast.unparse(target)}')

    def pattern(self, target, ty, env2, s):
        """Lean pattern for an unpacking target against a value of type ty; binds the names in env2.  -> (pattern, refutable)"""
        if isinstance(target, ast.Name):
            if target.id == '_': return '_', False
            if target.id in self._pat_names: bad(s, 'a name twice in an unpacking target')
            self._pat_names.add(target.id)
            env2[target.id] = ty
            return lname(target.id), False
        if isinstance(target, (ast.Tuple, ast.List)):
            elts = target.elts
            star = [i for i, x in enumerate(elts) if isinstance(x, ast.Starred)]
            if ty[0] == 'tuple':
                if star or len(ty) - 1 != len(elts): bad(s, 'unpacking a tuple of another length')
                ps = [self.pattern(x, t, env2, s) for x, t in zip(elts, ty[1:])]
                return '(' + ', '.join(p for p, _ in ps) + ')', any(r for _, r in ps)
            if ty[0] == 'list':
                if not star:
                    ps = [self.pattern(x, ty[1], env2, s) for x in elts]
                    return '[' + ', '.join(p for p, _ in ps) + ']', True
                if star == [len(elts) - 1] and isinstance(elts[-1].value, ast.Name):
                    ps = [self.pattern(x, ty[1], env2, s) for x in elts[:-1]]
                    last = self.pattern(elts[-1].value, ty, env2, s)
                    return ' :: '.join([p for p, _ in ps] + [last[0]]), True
                bad(s, 'starred target that is not the last one')
        bad(s, f'unpacking target {ast.unparse(target)} for a value of type {ty}')

    def unpack(self, target, value, s, env, go):
        B = []
        r = self.u.unpack(self, target, value, s, env, go)
        if r is not None: return r
        text, ty = self.expr(value, env, B)
        if ty[0] == 'set':
            if len(target.elts) != 1 or isinstance(target.elts[0], ast.Starred): bad(s, 'unpacking a set into several names (iteration order)')
            text, ty = f'HdrPy.distinct {atom(text)}', LIST(ty[1])
        env2 = dict(env)
        self._pat_names = set()
        pat, refutable = self.pattern(target, ty, env2, s)
        arms = [(pat, go(env2))]
        if refutable: arms.append(('_', ('raw', '.error .ValueError')))
        return self.wrap(B, ('match', text, arms))

    def call_stmt(self, c, s, env, go):
        f = c.func
        if isinstance(f, ast.Name) and f.id in ('__del__', '__delattr__'):
            name = c.args[0].value
            env2 = dict(env); env2.pop(name, None)
            return go(env2)
        r = self.u.call_stmt(self, c, s, env, go)
        if r is not None: return r
        bad(s, f'call statement {ast.unparse(c)[:60]}')

    def other_stmt(self, s, rest, env, k, live):
        if isinstance(s, (ast.Break, ast.Continue)):
            if not self.loops: bad(s, 'break/continue outside a loop')
            vars_, types, final = self.loops[-1]
            return final(env, 'brk' if isinstance(s, ast.Break) else 'next', s)
        r = self.u.other_stmt(self, s, rest, env, k, live)
        if r is not None: return r
        bad(s, f'statement {type(s).__name__}')

    # ---------------- if (the statement layer's, with one refinement: `break` / `continue` of an INNER loop do not leave the branch)
    def escapes(self, stmts):
        def walk(sts, in_loop):
            for st in sts:
                if isinstance(st, ast.Return): return True
                if isinstance(st, (ast.Break, ast.Continue)) and not in_loop: return True
                inner = in_loop or isinstance(st, (ast.For, ast.While))
                for fld in ('body', 'orelse', 'finalbody'):
                    sub = getattr(st, fld, None)
                    if isinstance(sub, list) and sub and isinstance(sub[0], ast.stmt) and walk(sub, inner if fld == 'body' else in_loop): return True
                for h in getattr(st, 'handlers', []) or []:
                    if walk(h.body, in_loop): return True
            return False
        return walk(stmts, False)

    def if_(self, s, env, go, live):
        if contains(s.body + s.orelse, (ast.Break, ast.Continue)) and not self.escapes(s.body + s.orelse) and \
           not terminates(s.body) and not terminates(s.orelse) and self.none_test(s.test, env) is None:
            # every break / continue inside belongs to a loop nested in the branch: an ordinary join
            B = []
            c = self.cond(s.test, env, B)
            vars_ = self.join_vars([s.body, s.orelse], env, live)
            brs = [lambda k: self._seq(s.body, dict(env), k, set(vars_)), lambda k: self._seq(s.orelse, dict(env), k, set(vars_))]
            trees, types, views = self.run_join(brs, env, vars_, s)
            env2 = dict(env)
            for v, t in zip(vars_, types): env2[v] = t
            env2.update(views)
            return self.wrap(B, joinc(tuple_pat([self.lvar(v) for v in vars_]), ('if', c, trees[0], trees[1]), tuple_type(types), go(env2)))
        return super().if_(s, env, go, live)

    # ---------------- try / except [/ else]
    def caught_pred(self, t, env):
        if t is None: bad(t, 'bare except')
        r = self.u.caught(self, t, env)
        if r is not None: return r
        if isinstance(t, ast.Name) and t.id in self.CAUGHT and t.id not in env: return self.CAUGHT[t.id]
        bad(t, f'except clause {ast.unparse(t)}')

    def try_(self, s, env, go, live):
        if s.finalbody: return self.try_finally(s, env, go, live)
        if len(s.handlers) != 1: bad(s, 'several except clauses')
        h = s.handlers[0]
        if h.name is not None: bad(s, 'except … as name')
        caught = self.caught_pred(h.type, env)
        if contains(s.body + h.body + s.orelse, (ast.Return, ast.Break, ast.Continue)): bad(s, 'return / break / continue inside try')
        if not s.orelse:
            vars_ = self.join_vars([s.body, h.body], env, live)
            brs = [lambda k: self._seq(s.body, dict(env), k, set(vars_)), lambda k: self._seq(h.body, dict(env), k, set(vars_))]
            trees, types, views = self.run_join(brs, env, vars_, s)
            env2 = dict(env)
            for v, t in zip(vars_, types): env2[v] = t
            env2.update(views)
            ty = tuple_type(types)
            return joinc(tuple_pat([self.lvar(v) for v in vars_]), ('tryexpr', trees[0], caught, trees[1], ty), ty, go(env2))
        # try / except / else: the else block runs after a body that raised nothing, outside the protection of the handler
        body_vars = self.join_vars([s.body], env, read_names(s.orelse) | live)
        tb, types_b, _ = self.run_join([lambda k: self._seq(s.body, dict(env), k, set(body_vars))], env, body_vars, s)
        env_else = dict(env)
        for v, t in zip(body_vars, types_b): env_else[v] = t
        vars_ = self.join_vars([s.body + s.orelse, h.body], env, live)
        brs = [lambda k: self._seq(s.orelse, dict(env_else), k, set(vars_)), lambda k: self._seq(h.body, dict(env), k, set(vars_))]
        trees, types, views = self.run_join(brs, env, vars_, s)
        env2 = dict(env)
        for v, t in zip(vars_, types): env2[v] = t
        env2.update(views)
        ty = tuple_type(types)
        node = ('tryelse', tb[0], caught, trees[1], tuple_pat([self.lvar(v) for v in body_vars]), trees[0], tuple_type(types_b))
        return joinc(tuple_pat([self.lvar(v) for v in vars_]), node, ty, go(env2))

    # ---------------- loops
    def iterable(self, it, env, B, s):
        """-> (Lean list, element type)"""
        r = self.u.iterable(self, it, env, B, s)
        if r is not None: return r
        if isinstance(it, ast.Call) and isinstance(it.func, ast.Name) and it.func.id == 'zip' and 'zip' not in env and len(it.args) == 2 and not it.keywords:
            a, aty = self.expr(it.args[0], env, B)
            b, bty = self.expr(it.args[1], env, B)
            if aty[0] != 'list' or bty[0] != 'list': bad(s, 'zip of non-lists')
            return f'(List.zip {a} {b})', TUP(aty[1], bty[1])
        if isinstance(it, ast.Tuple) and it.elts:
            items = [self.expr(x, env, B) for x in it.elts]
            ty = None
            for _, t in items: ty = t if ty is None else join(ty, t, s)
            return '[' + ', '.join(coerce(t, t0, ty, s) for t, t0 in items) + ']', ty
        xs, xty = self.expr(it, env, B)
        if xty == EMPTY: return None, None
        if xty[0] == 'set':
            bad(s, 'iteration over a set (order)')
        if xty[0] != 'list': bad(s, f'for over {xty}')
        return xs, xty[1]

    def for_(self, s, env, go, live):
        if s.orelse: bad(s, 'for/else')
        if contains(s.body, (ast.Return,)): bad(s, '`return` inside a loop')
        B = []
        xs, ety = self.iterable(s.iter, env, B, s)
        if xs is None: return self.wrap(B, go(env))
        tg = s.target
        if isinstance(tg, ast.Name):
            targets, ttypes, epat = [tg.id], [ety], lname(tg.id)
        elif isinstance(tg, ast.Tuple) and all(isinstance(x, ast.Name) for x in tg.elts) and ety[0] == 'tuple' and len(ety) - 1 == len(tg.elts):
            targets, ttypes = [x.id for x in tg.elts], list(ety[1:])
            epat = '(' + ', '.join(lname(x) for x in targets) + ')'
        else:
            bad(s, 'loop target')
        # break/continue that belong to THIS loop
        def own(stmts):
            for st in stmts:
                if isinstance(st, (ast.Break, ast.Continue)): yield st
                elif isinstance(st, (ast.For, ast.While)): continue
                else:
                    for fld in ('body', 'orelse', 'finalbody'):
                        sub = getattr(st, fld, None)
                        if isinstance(sub, list): yield from own(sub)
                    for h in getattr(st, 'handlers', []) or []: yield from own(h.body)
        has_brk = any(isinstance(x, ast.Break) for x in own(s.body))
        # a loop target assigned in the body is a plain local of the iteration
        vars_ = self.loop_vars(s, env, live, [t for t in targets if t not in assigned_names(s.body, self.writes_map)])
        vars_ = [v for v in vars_ if v not in targets]
        BOTTOM = ('bottom',)
        types = [env[v] if v in env else ('maybe', BOTTOM) for v in vars_]
        def jmaybe(t, u):
            """join of the loop type t with the type u a variable has at the end of the body (None: unbound there)"""
            tm = t[0] == 'maybe'; ti = t[1] if tm else t
            if u is None: um, ui = True, BOTTOM
            else:
                um = u[0] == 'maybe'; ui = u[1] if um else u
            inner = ui if ti == BOTTOM else (ti if ui == BOTTOM else join(ti, ui, s))
            return ('maybe', inner) if (tm or um) else inner
        def carry(v, env2, t, node):
            """the value of v at the end of an iteration (or before the loop), as the loop type t"""
            if t[0] != 'maybe': return coerce(self.lvar(v), env2[v], t, node)
            if v not in env2: return 'none'
            if env2[v][0] == 'maybe' and env2[v][1] == BOTTOM: return 'none'
            if env2[v][0] == 'maybe': return self.lvar(v)
            return f'(some {coerce(self.lvar(v), env2[v], t[1], node)})'
        def body_env(types):
            eb = dict(env)
            for v, t in zip(vars_, types): eb[v] = t
            for x, t in zip(targets, ttypes): eb[x] = t
            return eb
        # the types of the loop-carried variables: least fixpoint of the joins at the end of the body
        self.quiet += 1
        saved_probe = self.probe
        try:
            for _ in range(8):
                ends = []
                def probe_final(env2, kind, node):
                    ends.append(env2); return ('raw', '.ok default')
                self.loops.append((vars_, types, probe_final))
                saved = self.ntmp
                if saved_probe is None: self.probe = []
                try:
                    self._seq(s.body, body_env(types), lambda env2: probe_final(env2, 'next', s), set(vars_) | live)
                finally:
                    self.loops.pop()
                    self.ntmp = saved
                    self.probe = saved_probe
                new = list(types)
                for en in ends:
                    for v in vars_:
                        if v not in en and not self.MAYBE_UNBOUND: bad(s, f'{v} is deleted inside the loop')
                    new = [jmaybe(t, en.get(v)) for v, t in zip(vars_, new)]
                if new == types: break
                types = new
            else:
                bad(s, 'types of the loop variables do not stabilise')
        finally:
            self.quiet -= 1
        def final(env2, kind, node):
            tup = tuple_pat([carry(v, env2, t, node) for v, t in zip(vars_, types)])
            if has_brk: return ('raw', f'.ok (.{kind} {atom(tup)})')
            return ('raw', f'.ok {atom(tup)}')
        self.loops.append((vars_, types, final))
        try:
            body = self._seq(s.body, body_env(types), lambda env2: final(env2, 'next', s), set(vars_) | live)
        finally:
            self.loops.pop()
        pat = tuple_pat([self.lvar(v) for v in vars_])
        init = tuple_pat([carry(v, env, t, s) for v, t in zip(vars_, types)])
        env2 = dict(env)
        for v, t in zip(vars_, types): env2[v] = t
        node = ('foreach', 'PyKit.forEachBrk' if has_brk else 'PyKit.forEach', atom(xs), epat, pat, body, atom(init))
        return self.wrap(B, joinc(pat, node, tuple_type(types), go(env2)))

    def lvar(self, v):
        return lname(v)

    MAYBE_UNBOUND = False      # carry locals that are bound on some paths only as `Option` (`none` = unbound) instead of leaving them out

    def join_vars(self, blocks, env, live):
        """variables assigned in the blocks that the continuation reads.  A name not bound before and not assigned in EVERY block is
        left out (`live` is flow-insensitive; if the continuation really read it the output would mention an unbound identifier and not
        compile) — or, with MAYBE_UNBOUND, carried as an `Option` whose reading is `UnboundLocalError` when `none`."""
        per = [assigned_names(b, self.writes_map) for b in blocks]
        names = set().union(*per) if per else set()
        return assignment_order(blocks, [n for n in names if n in live and (self.MAYBE_UNBOUND or n in env or all(n in p for p in per))])

    def run_join(self, branches, env, vars_, node):
        if not self.MAYBE_UNBOUND: return super().run_join(branches, env, vars_, node)
        ends = []
        def probe(env2):
            ends.append(env2); return ('raw', '.ok default')
        saved = self.ntmp
        for br in branches: br(probe)
        self.ntmp = saved
        types = []
        for v in vars_:
            ty, missing = None, False
            for en in ends:
                if v not in en: missing = True; continue
                t = en[v]
                if t[0] == 'maybe': missing, t = True, t[1]
                ty = t if ty is None else join(ty, t, node)
            if ty is None:
                ty = env.get(v, NONE)
                if ty[0] == 'maybe': missing, ty = True, ty[1]
            types.append(('maybe', ty) if missing else ty)
        def final(env2):
            vals = []
            for v, t in zip(vars_, types):
                if t[0] == 'maybe':
                    if v not in env2: vals.append('none')
                    elif env2[v][0] == 'maybe' and env2[v][1] == ('bottom',): vals.append('none')
                    elif env2[v][0] == 'maybe': vals.append(coerce(self.lvar(v), OPT(env2[v][1]), OPT(t[1]), node) if env2[v][1] != t[1] else self.lvar(v))
                    else: vals.append(f'(some {coerce(self.lvar(v), env2[v], t[1], node)})')
                else:
                    vals.append(coerce(self.lvar(v), env2[v], t, node))
            return ('raw', '.ok ' + tuple_pat(vals))
        trees = [br(final) for br in branches]
        return trees, types, {}

    def loop_vars(self, s, env, live, targets):
        """the loop-carried variables: assigned in the body and read in a later iteration (before being assigned again) or after the loop"""
        assigned = assigned_names(s.body, self.writes_map)
        tnames = set()
        _target_names(s.target, tnames)
        inner = reads_before_writes(s.body, set(tnames))
        carried = inner | live
        vars_ = assignment_order([s.body], [v for v in assigned if v in carried and v not in tnames])
        for v in list(vars_):
            if v not in env:
                if v in inner and self.MAYBE_UNBOUND: continue        # carried as an Option, `none` before the loop
                if v in inner: bad(s, f'{v} is assigned in the loop and read in a later iteration but not bound before the loop')
                # only the (flow-insensitive) `live` set asks for it: a local of one iteration, unless the code after the loop really reads its
                # last value — then the output mentions an unbound identifier and does not compile (never silently wrong)
                vars_.remove(v)
        for t in tnames:
            if t in live and t in env: bad(s, 'loop variable used after the loop')
        return vars_

# ----------------------------------------------------------------------------- units

class FnInfo:
    def __init__(self, name, lean_name, params, ret, oracles, defaults=None):
        self.name, self.lean_name, self.params, self.ret, self.oracles, self.defaults = name, lean_name, params, ret, oracles, defaults or {}

class Unit:
    """one Python module: hooks for what is specific to a translator (all return None = not mine)"""
    TRUTHY = ()
    FN = Fn
    def __init__(self, repo, rel):
        self.rel = rel
        self.src = open(os.path.join(repo, rel), encoding='utf-8').read()
        self.tree = ast.parse(self.src)
        self.imports, self.classes, self.defs, self.assigns = {}, {}, {}, {}
        for node in self.tree.body:
            if isinstance(node, ast.Import):
                for a in node.names: self.imports[a.asname or a.name.split('.')[0]] = a.name if a.asname else a.name.split('.')[0]
            elif isinstance(node, ast.ImportFrom):
                for a in node.names: self.imports[a.asname or a.name] = f'{node.module}.{a.name}'
            elif isinstance(node, ast.ClassDef):
                self.classes[node.name] = node
            elif isinstance(node, ast.FunctionDef):
                if node.name in self.defs: raise Untranslatable(f'{rel}: {node.name} defined twice')
                self.defs[node.name] = node
            elif isinstance(node, ast.Assign) and len(node.targets) == 1 and isinstance(node.targets[0], ast.Name):
                self.assigns.setdefault(node.targets[0].id, []).append(node)
        for n in ast.walk(self.tree):
            if isinstance(n, (ast.Global, ast.Nonlocal)): bad(n, f'{rel}: global / nonlocal')
        self.functions = {}       # translated functions: name -> FnInfo
        self.dropped = set()
        self.texts = []

    def single_assign(self, name):
        a = self.assigns.get(name, [])
        return a[0].value if len(a) == 1 else None

    def method_node(self, cls, name, decorators_ok=False):
        if cls not in self.classes: raise Untranslatable(f'{self.rel}: class {cls} not found')
        found = [n for n in self.classes[cls].body if isinstance(n, ast.FunctionDef) and n.name == name]
        if len(found) != 1: raise Untranslatable(f'{self.rel}: {cls}.{name} not found (or defined twice)')
        if found[0].decorator_list and not decorators_ok: bad(found[0], f'{self.rel}: decorated method {name}')
        return found[0]

    def get_function(self, name, at): return self.functions.get(name)
    def lower_fn(self, fn): return fn.oracle('lower')       # str.lower: an oracle (Unicode)

    # hooks
    def global_name(self, fn, e, env, B): return None
    def dict_display(self, fn, e, env, B): return None
    def formatted_value(self, fn, p, env, B): return None
    def binop(self, fn, e, op, l, r, env, B): return None
    def identity(self, fn, e, op, env, B): return None
    def contains(self, fn, e, op, l, r, env, B): return None
    def compare(self, fn, e, op, l, r, env, B): return None
    def slice(self, fn, e, env, B): return None
    def subscript(self, fn, e, v, env, B): return None
    def attribute(self, fn, e, env, B): return None
    def call(self, fn, e, env, B): return None
    def method(self, fn, e, env, B): return None
    def sorted(self, fn, e, v, env, B): return None
    def str_join(self, fn, e, sep, env, B): return None
    def tag_extra(self, fn, a, env, B): return None
    def tag_star(self, fn, a, env, B): return None
    def setitem(self, fn, e, d, env, B): return None
    def pseudo(self, fn, e, op, env, B): return None
    def or_empty(self, fn, e, v, env, B): return None
    def caught(self, fn, t, env): return None
    def raise_(self, fn, s, env, B): return None
    def unpack(self, fn, target, value, s, env, go): return None
    def call_stmt(self, fn, c, s, env, go): return None
    def other_stmt(self, fn, s, rest, env, k, live): return None
    def iterable(self, fn, it, env, B, s): return None
    def ddict_read(self, fn, e, env): pass
    def fresh_call(self, fn, value, env): return False

    # ---- translation of one function
    def translate(self, fnode, params, lean_name, doc, *, namespaces=(), self_name=None, ns_types=None, oracle_types=None, defaults=None,
                  want_ret=None, skip_first=0, register=True, attrs='', local_ns=()):
        """params: [(python name, type)] for the parameters of the Python function after the first `skip_first` (self, ctx, …).
        ns_types: flattened namespace path -> type, for the paths the function reads / writes."""
        a = fnode.args
        if a.vararg or a.kwarg or a.posonlyargs: bad(fnode, f'{self.rel}: signature of {fnode.name}')
        names = [x.arg for x in a.args] + [x.arg for x in a.kwonlyargs]
        if names[skip_first:] != [p for p, _ in params]: bad(fnode, f'{self.rel}: parameters of {fnode.name} are {names}, expected … {[p for p, _ in params]}')
        # normalise a deep copy
        import copy
        f2 = copy.deepcopy(fnode)
        nz = Normalize(namespaces=tuple(namespaces) + tuple(local_ns), self_name=self_name, known=(set(ns_types) if ns_types is not None else None))
        nz.local_namespaces = set(local_ns)
        body = []
        for st in f2.body:
            r = nz.visit(st)
            body += r if isinstance(r, list) else [r]
        f2.body = body
        ns_types = ns_types or {}
        for p in nz.ns_reads + nz.ns_writes:
            if p not in ns_types and not any(p.startswith(n + '_') for n in local_ns): bad(fnode, f'{self.rel}: {fnode.name} uses {p.replace("_", ".", 1)}, which the translator does not know')
        outvars = []
        env = {p: t for p, t in params}
        hidden = []
        if nz.is_generator:
            if contains(f2.body, (ast.Return,)): bad(fnode, 'return inside a generator')
            f2.body.insert(0, _assign(YIELDED, ast.copy_location(ast.List(elts=[], ctx=ast.Load()), fnode), fnode))
            f2.body.append(ast.copy_location(ast.Return(value=_name(YIELDED, ast.Load(), fnode)), f2.body[-1]))
            f2.body[-1].lineno = 10 ** 9
        is_local = lambda p: any(p.startswith(n + '_') for n in local_ns)
        written = [p for p in nz.ns_writes if not is_local(p)]
        read_first = [p for p in nz.ns_reads if not is_local(p) and (p not in written or p in read_before_write(f2.body))]
        for p in read_first:
            env[p] = ns_types[p]; hidden.append((p, ns_types[p]))
        if nz.emits:
            env[OUT] = LIST(TAG); hidden.append((OUT, LIST(TAG))); outvars.append(OUT)
        outvars += written
        ast.fix_missing_locations(f2)
        after = mutated_after(f2)
        def run(probe, rts=None):
            fn = self.FN(self, lean_name, outvars)
            fn.after = after
            if probe: fn.probe = []
            else: fn.result_types = rts
            tree = fn.block(list(f2.body), dict(env), fn.fall_off, set(outvars))       # the hidden results are read when the function returns
            return fn, tree
        fn, _ = run(True)
        rts = None
        for tys in fn.probe:
            rts = list(tys) if rts is None else [join(x, y, fnode) for x, y in zip(rts, tys)]
        if rts is None: bad(fnode, f'{fnode.name} never returns')
        for v, t in zip(outvars, rts[1:]):
            if v in ns_types and v != OUT:
                rts[1 + outvars.index(v)] = join(t, ns_types[v], fnode) if join(t, ns_types[v], fnode) == ns_types[v] else bad(fnode, f'{v} is left with type {t}')
        fn, tree = run(False, rts)
        ret = rts[0]
        if want_ret is not None and ret != want_ret: bad(fnode, f'{self.rel}: {fnode.name} returns {ret}, expected {want_ret}')
        res_types = ([ret] if ret != NONE else []) + rts[1:]
        oracle_types = oracle_types or {}
        for o in fn.oracles:
            if o not in oracle_types: bad(fnode, f'{fnode.name} needs the oracle {o}')
        sig = ''.join(f' ({o} : {oracle_types[o]})' for o in fn.oracles)
        sig += ''.join(f' ({lname(p)} : {lean_type(t)})' for p, t in hidden)
        sig += ''.join(f' ({lname(p)} : {lean_type(t)})' for p, t in params)
        text = f'/-- {doc} -/\n{attrs}def {lean_name}{sig} : Except Py.Exc {atom(tuple_type(res_types)) if res_types else "Unit"} :=\n' + '\n'.join(render(tree, 1, STYLE)) + '\n'
        info = FnInfo(fnode.name, lean_name, list(params), ret, list(fn.oracles), defaults)
        info.hidden, info.outvars, info.result_types = hidden, outvars, rts
        info.returned_namespace = nz.returned_namespace
        if register: self.functions[fnode.name] = info
        self.texts.append(text)
        return info

def write_out(dest, text, untranslatable_exc=None):
    old = open(dest, encoding='utf-8').read() if os.path.exists(dest) else None
    if old != text:
        open(dest, 'w', encoding='utf-8').write(text)
        return 'changed'
    return 'unchanged'

def main_wrapper(generate, header, namespace, default_dest, what):
    """the common `main` of the translators: generate(repo) -> text; exit 3 + a marker file that does not compile when untranslatable"""
    repo = sys.argv[1] if len(sys.argv) > 1 else '/repo'
    dest = sys.argv[2] if len(sys.argv) > 2 else default_dest
    try:
        try:
            _mangled.clear()
            text = generate(repo)
        except (SyntaxError, KeyError, AttributeError, TypeError, IndexError, ValueError, AssertionError, RecursionError, OSError) as exc:
            import traceback
            if os.environ.get('CHKTR_DEBUG'): traceback.print_exc()
            raise Untranslatable(f'{type(exc).__name__} while translating: {exc}')
    except Untranslatable as exc:
        msg = str(exc).replace('"', "'").replace('\\', '/').replace('-/', '- /')
        text = header + (f'-- UNTRANSLATABLE: {msg}\n'
                         f'/-- deliberately does not compile: the current source is outside the translator\'s subset (see above) -/\n'
                         f'def untranslatable : Unit := the_current_source_of_{what}_is_untranslatable\n'
                         f'end {namespace}\n')
        print(f'untranslatable: {exc}', file=sys.stderr)
        write_out(dest, text)
        sys.exit(3)
    print(write_out(dest, text))
