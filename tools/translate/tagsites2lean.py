#!/usr/bin/env python3
"""Inventory of every place where lib/ can put text on stdout unescaped.

An `ast` walk over /repo/lib finds
  * every `tags.safestr(X)` / `tags.safe_format(T, …)` call (and every other mention of those two names), and
    classifies the provenance of X (resp. of the template T; the other arguments of safe_format go through the escaper)
    with the small rule set below  ->  lean/I18n/Generated/SafestrSites.lean
  * every `….tag(<name>, …)` call  ->  lean/I18n/Generated/TagSites.lean

The rule set is part of the TRUSTED BASE of C02 (listed, with every site, in the evidence):

  literal        a str constant; concatenations / f-strings / str.join / str.format of such
  int            an int constant; len(), ord(), int(), divmod(), range objects; the loop variable of range()/enumerate();
                 a name guarded by `assert isinstance(name, int)`; f-strings of those; misc.format_range(range);
                 n and expr(i) of gettext.parse_plural_forms (signature probed on the live function)
  toolTable      `exc.message` when every exception class the handler can catch carries `message` as a str class attribute
                 (checked on the live classes); `.type` / `.types` of strformat arguments (type names from the tool's tables);
                 a message flag re-assembled from a literal prefix, a key of gettext.string_formats and '-format'
                 (stores guarded by startswith/endswith/`in gettext.string_formats`)
  regexGuarded   a name inside `if re.fullmatch(<const>, name):` or `m.group(k)` of `re.fullmatch(<const>, …)` whose
                 (sub)pattern admits printable ASCII only (checked on the re parse tree)
  libraryMessage `exc.strerror` of an OSError; str() of lib.moparser.SyntaxError (all `raise` sites re-classified: literal/int);
                 str() of expat's ExpatError (message table + line/column numbers)
  unicodeName    encinfo.get_character_name(ch)
  formatOfEscaped  the one `safestr(template.format(*args, **kwargs))` inside tags.safe_format (shape pinned)
  fileDerived    exception arguments of the strformat parsers that are neither literal nor int, message / header attributes
  unknown        anything else (including any use of safestr/safe_format that is not a direct call)

Name resolution is per function: the dominating assignment in the same block if there is one, otherwise the join of all
bindings; parameters are resolved through all call sites in lib/ (by function name).
"""
import ast, os, sys, tempfile, shutil, importlib, re

ORDER = ['literal', 'int', 'unicodeName', 'regexGuarded', 'libraryMessage', 'toolTable', 'formatOfEscaped', 'fileDerived', 'unknown']

def lean_str(s):
    out = ['"']
    for ch in s:
        if ch in '\\"':
            out.append('\\' + ch)
        elif ch == '\n':
            out.append('\\n')
        elif ch == '\t':
            out.append('\\t')
        elif ord(ch) < 32 or ord(ch) == 127:
            out.append('\\x%02x' % ord(ch))
        else:
            out.append(ch)
    out.append('"')
    return ''.join(out)

def name_key(name):
    """injective numeric encoding of a string: code points as base-2^21 digits, after a leading 1"""
    k = 1
    for ch in name:
        k = k * (1 << 21) + ord(ch)
    return k

class P:
    """a provenance with the rules that produced it"""
    def __init__(self, kind, rules=()):
        self.kind = kind
        self.rules = frozenset(rules)
    def __or__(self, other):
        k = self.kind if ORDER.index(self.kind) >= ORDER.index(other.kind) else other.kind
        return P(k, self.rules | other.rules)

def join(ps):
    res = None
    for p in ps:
        res = p if res is None else (res | p)
    return res if res is not None else P('unknown', ['empty'])

LIT = lambda: P('literal', ['literal'])
INT = lambda r='int': P('int', [r])
UNK = lambda why: P('unknown', ['unknown: ' + why])
FILE = lambda why: P('fileDerived', ['fileDerived: ' + why])

def clean_text(s):
    return all(' ' <= ch <= '~' for ch in s)

# --------------------------------------------------------------------------------------------- regex screening

def regex_clean(pattern, group=None):
    """True iff every string the (sub)pattern can match consists of printable ASCII only"""
    try:
        import re._parser as sp, re._constants as sc
    except ImportError:
        import sre_parse as sp, sre_constants as sc
    try:
        tree = sp.parse(pattern)
    except Exception:
        return False
    def ok(items):
        for op, av in items:
            if op is sc.LITERAL:
                if not 32 <= av <= 126:
                    return False
            elif op is sc.IN:
                for o2, a2 in av:
                    if o2 is sc.LITERAL:
                        if not 32 <= a2 <= 126:
                            return False
                    elif o2 is sc.RANGE:
                        if not (32 <= a2[0] and a2[1] <= 126):
                            return False
                    else:
                        return False     # NEGATE, CATEGORY …
            elif op in (sc.MAX_REPEAT, sc.MIN_REPEAT):
                if not ok(av[2]):
                    return False
            elif op is sc.SUBPATTERN:
                if not ok(av[3]):
                    return False
            elif op is sc.BRANCH:
                if not all(ok(b) for b in av[1]):
                    return False
            elif op is sc.AT:
                pass
            else:
                return False             # ANY, NOT_LITERAL, CATEGORY, GROUPREF, ASSERT …
        return True
    def find(items, g):
        for op, av in items:
            if op is sc.SUBPATTERN:
                if av[0] == g:
                    return av[3]
                r = find(av[3], g)
                if r is not None:
                    return r
            elif op in (sc.MAX_REPEAT, sc.MIN_REPEAT):
                r = find(av[2], g)
                if r is not None:
                    return r
            elif op is sc.BRANCH:
                for b in av[1]:
                    r = find(b, g)
                    if r is not None:
                        return r
        return None
    if group is None or group == 0:
        return ok(tree)
    sub = find(tree, group)
    return sub is not None and ok(sub)

# --------------------------------------------------------------------------------------------- the source model

class Module:
    def __init__(self, repo, rel):
        self.rel = rel
        self.path = os.path.join(repo, rel)
        self.src = open(self.path, encoding='utf-8').read()
        self.tree = ast.parse(self.src)
        self.modname = rel[:-3].replace('/', '.')
        if self.modname.endswith('.__init__'):
            self.modname = self.modname[:-9]
        for node in ast.walk(self.tree):
            for ch in ast.iter_child_nodes(node):
                ch._parent = node
        self.tree._parent = None
        self._live = None
    def live(self):
        if self._live is None:
            self._live = importlib.import_module(self.modname)
        return self._live
    def text(self, node):
        return ' '.join((ast.get_source_segment(self.src, node) or ast.dump(node)).split())

def enclosing(node, types):
    n = getattr(node, '_parent', None)
    while n is not None and not isinstance(n, types):
        n = getattr(n, '_parent', None)
    return n

def qualname(node):
    parts = []
    n = node
    while n is not None:
        if isinstance(n, (ast.FunctionDef, ast.AsyncFunctionDef, ast.ClassDef)):
            parts.append(n.name)
        n = getattr(n, '_parent', None)
    return '.'.join(reversed(parts)) or '<module>'

def stmt_of(node):
    n = node
    while n is not None and not isinstance(n, ast.stmt):
        n = getattr(n, '_parent', None)
    return n

def block_of(stmt):
    """(list of statements containing stmt, index)"""
    par = getattr(stmt, '_parent', None)
    if par is None:
        return None, None
    for field in ('body', 'orelse', 'finalbody'):
        lst = getattr(par, field, None)
        if isinstance(lst, list) and stmt in lst:
            return lst, lst.index(stmt)
    if isinstance(par, ast.Try):
        for h in par.handlers:
            if stmt in h.body:
                return h.body, h.body.index(stmt)
    return None, None

def binds(node, name):
    """does the subtree (re)bind `name`?"""
    for n in ast.walk(node):
        if isinstance(n, ast.Name) and n.id == name and isinstance(n.ctx, (ast.Store, ast.Del)):
            return True
        if isinstance(n, ast.ExceptHandler) and n.name == name:
            return True
        if isinstance(n, ast.arg) and n.arg == name:
            return True
    return False

class Classifier:
    def __init__(self, repo):
        self.repo = repo
        self.modules = {}
        for root, _dirs, files in os.walk(os.path.join(repo, 'lib')):
            for f in sorted(files):
                if f.endswith('.py'):
                    rel = os.path.relpath(os.path.join(root, f), repo)
                    self.modules[rel] = Module(repo, rel)
        self.probes = {}

    # ---- live probes of the few library signatures the rules name
    def probe(self, name):
        if name in self.probes:
            return self.probes[name]
        ok = False
        try:
            if name == 'gettext.parse_plural_forms':
                from lib import gettext
                n, expr, lj, rj = gettext.parse_plural_forms('x nplurals=3; plural=n%3; y', strict=False)
                ok = type(n) is int and all(type(expr(i)) is int for i in range(5))
            elif name == 'misc.format_range':
                from lib import misc
                ok = all(re.fullmatch(r'[0-9]+(, [0-9]+)*(, \.\.\., [0-9]+)?', misc.format_range(r, max=m))
                         for r in (range(1), range(3, 9), range(10 ** 6), range(5, 6)) for m in (4, 5, 7))
            elif name == 'encinfo.get_character_name':
                from lib import encodings as encinfo
                ok = True
                for cp in list(range(0x300)) + [0x200B, 0x202E, 0xFEFF, 0xFFFD, 0xFFFE, 0xFFFF, 0x1F600, 0xE0001, 0x10FFFF]:
                    try:
                        s = encinfo.get_character_name(chr(cp))
                    except ValueError:
                        continue
                    ok = ok and type(s) is str and clean_text(s)
            elif name == 'gettext.string_formats':
                from lib import gettext
                ok = all(type(k) is str and re.fullmatch(r'[a-z0-9-]+', k) for k in gettext.string_formats)
            elif name == 'expat':
                import xml.parsers.expat as E
                from lib import xml as lx
                ok = lx.SyntaxError is E.ExpatError and all(clean_text(E.ErrorString(i) or '') for i in range(1, 60))
        except Exception:
            ok = False
        self.probes[name] = ok
        return ok

    # ---- exception classes caught by a handler (live objects)
    def handler_classes(self, mod, handler):
        if handler.type is None:
            return None
        texprs = handler.type.elts if isinstance(handler.type, ast.Tuple) else [handler.type]
        res = []
        for t in texprs:
            try:
                obj = eval(compile(ast.Expression(t), '<handler>', 'eval'), vars(mod.live()))
            except Exception:
                return None
            if not isinstance(obj, type):
                return None
            res.append(obj)
        return res

    @staticmethod
    def subclasses(cls):
        seen, todo = [], [cls]
        while todo:
            c = todo.pop()
            if c not in seen:
                seen.append(c)
                todo += c.__subclasses__()
        return seen

    def module_of_class(self, cls):
        for m in self.modules.values():
            if m.modname == cls.__module__:
                return m
        return None

    def raise_args(self, classes, index):
        """provenance of positional argument `index` over all `raise C(...)` sites of the given classes (and subclasses)"""
        ps = []
        for cls in classes:
            for c in self.subclasses(cls):
                m = self.module_of_class(c)
                if m is None:
                    return UNK(f'exception class {c.__module__}.{c.__qualname__} outside lib')
                found = False
                for node in ast.walk(m.tree):
                    if isinstance(node, ast.Raise) and isinstance(node.exc, ast.Call):
                        f = node.exc.func
                        nm = f.id if isinstance(f, ast.Name) else (f.attr if isinstance(f, ast.Attribute) else None)
                        if nm != c.__name__:
                            continue
                        found = True
                        args = node.exc.args
                        if any(isinstance(a, ast.Starred) for a in args) or node.exc.keywords:
                            ps.append(UNK('starred raise arguments'))
                        elif index < len(args):
                            p = self.cls(m, args[index], depth=2)
                            if p.kind == 'unknown' and m.rel.startswith('lib/strformat/'):
                                p = FILE(f'piece of the parsed format string ({m.rel}: raise {c.__name__}(… {m.text(args[index])} …))')
                            ps.append(p)
                        # fewer arguments at this site: the handler would fail to unpack; not our concern
                    elif isinstance(node, ast.Raise) and isinstance(node.exc, ast.Name) and node.exc.id == c.__name__:
                        found = True
                del found
        return join(ps) if ps else UNK('no raise site found')

    # ---- bindings of a name inside a function
    def bindings(self, func, name, use=None):
        """list of (kind, node, extra) for every binding of `name` in `func`; comprehension variables are visible
        only inside their comprehension"""
        res = []
        scope = func if func is not None else None
        nodes = ast.walk(scope) if scope is not None else []
        for n in nodes:
            if isinstance(n, ast.Assign):
                for t in n.targets:
                    res += self._target(t, n.value, name, n)
            elif isinstance(n, ast.AnnAssign) and n.value is not None:
                res += self._target(n.target, n.value, name, n)
            elif isinstance(n, ast.AugAssign):
                if isinstance(n.target, ast.Name) and n.target.id == name:
                    res.append(('aug', n, n.value))
            elif isinstance(n, (ast.For, ast.AsyncFor)):
                res += self._itertarget(n.target, n.iter, name, n)
            elif isinstance(n, ast.comprehension):
                comp = getattr(n, '_parent', None)
                inside = False
                u = use
                while u is not None:
                    if u is comp:
                        inside = True
                        break
                    u = getattr(u, '_parent', None)
                if inside:
                    res += self._itertarget(n.target, n.iter, name, n)
            elif isinstance(n, ast.ExceptHandler) and n.name == name:
                res.append(('except', n, None))
            elif isinstance(n, (ast.FunctionDef, ast.AsyncFunctionDef, ast.Lambda)):
                a = n.args
                allargs = a.posonlyargs + a.args + a.kwonlyargs + ([a.vararg] if a.vararg else []) + ([a.kwarg] if a.kwarg else [])
                for x in allargs:
                    if x.arg == name:
                        res.append(('param', n, x))
            elif isinstance(n, (ast.With, ast.AsyncWith)):
                for it in n.items:
                    if it.optional_vars is not None and binds(it.optional_vars, name):
                        res.append(('other', n, None))
            elif isinstance(n, (ast.Import, ast.ImportFrom)):
                for al in n.names:
                    if (al.asname or al.name.split('.')[0]) == name:
                        res.append(('other', n, None))
            elif isinstance(n, ast.NamedExpr) and n.target.id == name:
                res.append(('assign', n, n.value))
        return res

    def _target(self, t, value, name, stmt):
        if isinstance(t, ast.Name):
            return [('assign', stmt, value)] if t.id == name else []
        if isinstance(t, (ast.Tuple, ast.List)):
            out = []
            for i, e in enumerate(t.elts):
                star = isinstance(e, ast.Starred)
                ee = e.value if star else e
                if isinstance(ee, ast.Name) and ee.id == name:
                    out.append(('unpack', stmt, (value, i, star, len(t.elts))))
                elif isinstance(ee, (ast.Tuple, ast.List)) and binds(ee, name):
                    out.append(('other', stmt, None))
            return out
        return []

    def _itertarget(self, t, it, name, node):
        if isinstance(t, ast.Name):
            return [('iter', node, (it, None))] if t.id == name else []
        if isinstance(t, (ast.Tuple, ast.List)):
            out = []
            for i, e in enumerate(t.elts):
                if isinstance(e, ast.Name) and e.id == name:
                    out.append(('iter', node, (it, i)))
                elif binds(e, name):
                    out.append(('other', node, None))
            return out
        return []

    # ---- the classifier proper
    def cls(self, mod, e, depth=3, exclude=None):
        if isinstance(e, ast.Constant):
            if isinstance(e.value, str):
                return LIT() if clean_text(e.value) else UNK('literal with non-printable or non-ASCII text')
            if isinstance(e.value, bool) or isinstance(e.value, int):
                return INT('int constant')
            return UNK(f'constant {e.value!r}')
        if isinstance(e, ast.JoinedStr):
            ps = []
            for part in e.values:
                if isinstance(part, ast.Constant):
                    ps.append(self.cls(mod, part, depth))
                else:
                    ps.append(self.cls(mod, part.value, depth, exclude))
                    if part.format_spec is not None and not all(isinstance(v, ast.Constant) for v in part.format_spec.values):
                        ps.append(UNK('computed format spec'))
            return join(ps) if ps else LIT()
        if isinstance(e, ast.BinOp) and isinstance(e.op, ast.Add):
            return self.cls(mod, e.left, depth, exclude) | self.cls(mod, e.right, depth, exclude)
        if isinstance(e, (ast.Tuple, ast.List, ast.Set)):
            return join(self.cls(mod, x, depth, exclude) for x in e.elts) if e.elts else LIT()
        if isinstance(e, (ast.GeneratorExp, ast.ListComp, ast.SetComp)):
            return self.cls(mod, e.elt, depth, exclude)
        if isinstance(e, ast.IfExp):
            return self.cls(mod, e.body, depth, exclude) | self.cls(mod, e.orelse, depth, exclude)
        if isinstance(e, ast.Name):
            return self.name(mod, e, depth, exclude)
        if isinstance(e, ast.Attribute):
            return self.attribute(mod, e, depth, exclude)
        if isinstance(e, ast.Subscript):
            return self.subscript(mod, e, depth, exclude)
        if isinstance(e, ast.Call):
            return self.call(mod, e, depth, exclude)
        return UNK(f'expression {type(e).__name__}')

    def call(self, mod, e, depth, exclude):
        f = e.func
        fn = mod.text(f)
        args = e.args
        if fn in ('len', 'ord', 'int', 'divmod', 'range', 'abs', 'sum'):
            return INT(fn + '()')
        if fn in ('sorted', 'set', 'frozenset', 'list', 'tuple', 'reversed', 'min', 'max', 'iter') and len(args) >= 1:
            return self.cls(mod, args[0], depth, exclude)
        if fn == 'str' and len(args) == 1:
            return self.cls(mod, args[0], depth, exclude)
        if fn == 'str.join' and len(args) == 2:
            return self.cls(mod, args[0], depth, exclude) | self.cls(mod, args[1], depth, exclude)
        if isinstance(f, ast.Attribute) and f.attr == 'join' and len(args) == 1 and isinstance(f.value, ast.Constant):
            return self.cls(mod, f.value, depth, exclude) | self.cls(mod, args[0], depth, exclude)
        if isinstance(f, ast.Attribute) and f.attr == 'format':
            ps = [self.cls(mod, f.value, depth, exclude)]
            ps += [self.cls(mod, a.value if isinstance(a, ast.Starred) else a, depth, exclude) for a in args]
            ps += [self.cls(mod, k.value, depth, exclude) for k in e.keywords]
            return join(ps)
        if isinstance(f, ast.Attribute) and f.attr in ('lower', 'upper', 'strip', 'rstrip', 'lstrip') and not e.keywords:
            return self.cls(mod, f.value, depth, exclude)
        if isinstance(f, ast.Attribute) and f.attr in ('keys', 'values', 'items') and not args:
            return self.cls(mod, f.value, depth, exclude)
        if fn == 'misc.format_range':
            return INT('misc.format_range (probed)') if self.probe('misc.format_range') else UNK('misc.format_range probe failed')
        if fn == 'encinfo.get_character_name':
            return P('unicodeName', ['unicodeName: encinfo.get_character_name (probed)']) if self.probe('encinfo.get_character_name') else UNK('get_character_name probe failed')
        if fn in ('tags.safestr', 'safestr') and len(args) == 1:
            return self.cls(mod, args[0], depth, exclude)      # re-classified at its own site as well
        if fn in ('tags.safe_format', 'safe_format') and args:
            return self.cls(mod, args[0], depth, exclude)
        # m.group(k) of a pinned regex
        if isinstance(f, ast.Attribute) and f.attr == 'group' and isinstance(f.value, ast.Name) and len(args) == 1 \
                and isinstance(args[0], ast.Constant) and isinstance(args[0].value, int):
            func = enclosing(e, (ast.FunctionDef, ast.AsyncFunctionDef))
            bs = self.bindings(func, f.value.id, use=e)
            pats = []
            for kind, node, extra in bs:
                v = extra if kind == 'assign' else None
                if isinstance(v, ast.Call) and mod.text(v.func) in ('re.fullmatch', 're.match', 're.search') and v.args \
                        and isinstance(v.args[0], ast.Constant) and isinstance(v.args[0].value, str) and len(v.args) == 2 and not v.keywords:
                    pats.append(v.args[0].value)
                else:
                    return UNK(f'{f.value.id} is not only bound to re.fullmatch(<const>, …)')
            if pats and all(regex_clean(p, args[0].value) for p in pats):
                return P('regexGuarded', [f'regexGuarded: group {args[0].value} of ' + ' | '.join(repr(p) for p in pats)])
            return UNK('regex group admits unsafe text')
        # call of a plural Expression: expr(i)
        if isinstance(f, ast.Name) and len(args) == 1 and not e.keywords:
            func = enclosing(e, (ast.FunctionDef, ast.AsyncFunctionDef))
            bs = self.bindings(func, f.id, use=e)
            if bs and all(k == 'unpack' and isinstance(x[0], ast.Call) and mod.text(x[0].func) == 'gettext.parse_plural_forms'
                          and x[1] == 1 and x[3] == 4 and not x[2] for k, _n, x in bs):
                return INT('expr(i) of gettext.parse_plural_forms (probed)') if self.probe('gettext.parse_plural_forms') else UNK('parse_plural_forms probe failed')
        return UNK(f'call {fn}(…)')

    def attribute(self, mod, e, depth, exclude):
        func = enclosing(e, (ast.FunctionDef, ast.AsyncFunctionDef))
        if isinstance(e.value, ast.Name) and func is not None:
            base = e.value.id
            bs = self.bindings(func, base, use=e)
            handlers = [n for k, n, _x in bs if k == 'except']
            if handlers and len(handlers) == len(bs):
                # the innermost handler that encloses the expression
                h = enclosing(e, ast.ExceptHandler)
                while h is not None and h.name != base:
                    h = enclosing(h, ast.ExceptHandler)
                if h is None:
                    return UNK('exception variable used outside its handler')
                classes = self.handler_classes(mod, h)
                if classes is None:
                    return UNK('handler type not resolvable')
                if e.attr == 'message':
                    for cls in classes:
                        for c in self.subclasses(cls):
                            msg = None
                            for k in c.__mro__:
                                if 'message' in vars(k):
                                    msg = vars(k)['message']
                                    break
                            if not (type(msg) is str and clean_text(msg)):
                                return UNK(f'{c.__qualname__}.message is not a clean str class attribute')
                            m = self.module_of_class(c)
                            if m is None:
                                return UNK('exception class outside lib')
                            for n in ast.walk(m.tree):
                                if isinstance(n, ast.Attribute) and n.attr == 'message' and isinstance(n.ctx, ast.Store):
                                    return UNK(f'{m.rel} assigns to a .message attribute')
                    return P('toolTable', ['toolTable: class-attribute message of ' + ', '.join(sorted(c.__module__ + '.' + c.__qualname__ for c in classes))])
                if e.attr == 'strerror' and all(issubclass(c, OSError) for c in classes):
                    return P('libraryMessage', ['libraryMessage: OSError.strerror'])
                return UNK(f'exception attribute .{e.attr}')
        if e.attr in ('type', 'types'):
            return P('toolTable', ['toolTable: .type/.types of a strformat argument'])
        if e.attr in ('msgid', 'msgstr', 'msgctxt', 'msgid_plural', 'comment', 'tcomment', 'flags', 'occurrences', 'msgstr_plural',
                      'previous_msgid', 'previous_msgctxt', 'previous_msgid_plural', 'metadata', 'header'):
            return FILE(f'.{e.attr} of a catalog entry')
        # attribute of a local record object: join of all `X.attr = value` in the function
        if func is not None:
            vals = [n.value for n in ast.walk(func) if isinstance(n, ast.Assign)
                    for t in n.targets if isinstance(t, ast.Attribute) and t.attr == e.attr and isinstance(t.value, ast.Name)]
            if vals:
                return join(self.cls(mod, v, depth, exclude) for v in vals)
        return UNK(f'attribute .{e.attr}')

    def subscript(self, mod, e, depth, exclude):
        # exc.args[i]
        if isinstance(e.value, ast.Attribute) and e.value.attr == 'args' and isinstance(e.value.value, ast.Name) \
                and isinstance(e.slice, ast.Constant) and isinstance(e.slice.value, int):
            return self.exc_arg(mod, e, e.value.value.id, e.slice.value)
        # registry-checked dictionary of message flags
        if isinstance(e.value, ast.Name):
            p = self.flag_table(mod, e, e.value.id)
            if p is not None:
                return p
        return UNK('subscript ' + mod.text(e))

    def exc_arg(self, mod, e, base, index):
        h = enclosing(e, ast.ExceptHandler)
        while h is not None and h.name != base:
            h = enclosing(h, ast.ExceptHandler)
        if h is None:
            return UNK('exception variable used outside its handler')
        classes = self.handler_classes(mod, h)
        if classes is None:
            return UNK('handler type not resolvable')
        return self.raise_args(classes, index)

    def flag_table(self, mod, e, dname):
        """`D[k]` where D = T[<const>] and every store `T[..][..] = v` re-assembles v from a literal prefix,
        a key of gettext.string_formats and '-format'"""
        func = enclosing(e, (ast.FunctionDef, ast.AsyncFunctionDef))
        if func is None:
            return None
        bs = self.bindings(func, dname, use=e)
        tables = set()
        for kind, node, extra in bs:
            if kind == 'assign' and isinstance(extra, ast.Subscript) and isinstance(extra.value, ast.Name):
                tables.add(extra.value.id)
            else:
                return None
        if len(tables) != 1:
            return None
        tname = tables.pop()
        stores = [n for n in ast.walk(func) if isinstance(n, ast.Assign) for t in n.targets
                  if isinstance(t, ast.Subscript) and isinstance(t.value, ast.Subscript) and isinstance(t.value.value, ast.Name) and t.value.value.id == tname]
        other = [n for n in ast.walk(func) if isinstance(n, (ast.Assign, ast.AugAssign)) for t in (n.targets if isinstance(n, ast.Assign) else [n.target])
                 if isinstance(t, ast.Subscript) and isinstance(t.value, ast.Name) and t.value.id == tname]
        if not stores or other:
            return UNK(f'{tname}: stores not of the shape {tname}[..][..] = flag')
        for st in stores:
            v = st.value
            if not isinstance(v, ast.Name):
                return UNK('stored flag is not a name')
            flag = v.id
            guard = enclosing(st, ast.If)
            if not (guard is not None and isinstance(guard.test, ast.Compare) and len(guard.test.ops) == 1 and isinstance(guard.test.ops[0], ast.In)
                    and mod.text(guard.test.comparators[0]) == 'gettext.string_formats' and isinstance(guard.test.left, ast.Name) and st in guard.body):
                return UNK('store not guarded by `<x> in gettext.string_formats`')
            key = guard.test.left.id
            blk, i = block_of(guard)
            prev = blk[:i] if blk else []
            slice_ok = any(isinstance(s, ast.Assign) and len(s.targets) == 1 and isinstance(s.targets[0], ast.Name) and s.targets[0].id == key
                           and mod.text(s.value) == f'{flag}[len(prefix):-7]' for s in prev)
            starts_ok = any(isinstance(s, ast.If) and mod.text(s.test) == f'not {flag}.startswith(prefix)'
                            and len(s.body) == 1 and isinstance(s.body[0], ast.Continue) for s in prev)
            loop = enclosing(guard, ast.For)
            loop_ok = loop is not None and isinstance(loop.target, ast.Name) and loop.target.id == 'prefix' and isinstance(loop.iter, ast.Tuple) \
                and all(isinstance(x, ast.Constant) and isinstance(x.value, str) and clean_text(x.value) and '{' not in x.value and '}' not in x.value for x in loop.iter.elts)
            outer = enclosing(loop, ast.If) if loop is not None else None
            ends_ok = outer is not None and mod.text(outer.test) == f"{flag}.endswith('-format')" and loop in outer.body
            if not (slice_ok and starts_ok and loop_ok and ends_ok):
                return UNK('flag store without the startswith / endswith / slice guards')
        if not self.probe('gettext.string_formats'):
            return UNK('gettext.string_formats has a key outside [a-z0-9-]+')
        return P('toolTable', ['toolTable: flag = literal prefix + key of gettext.string_formats (probed: [a-z0-9-]+) + "-format"'])

    def name(self, mod, e, depth, exclude):
        name = e.id
        func = enclosing(e, (ast.FunctionDef, ast.AsyncFunctionDef))
        if func is None:
            return UNK(f'module-level name {name}')
        st = stmt_of(e)
        # `assert isinstance(name, int)` earlier in the same block (or an enclosing one)
        g = st
        while g is not None and g is not func:
            blk, i = block_of(g)
            if blk:
                for j, s in enumerate(blk[:i]):
                    if isinstance(s, ast.Assert) and mod.text(s.test) == f'isinstance({name}, int)' and not any(binds(x, name) for x in blk[j + 1:i]):
                        return INT(f'assert isinstance({name}, int)')
            g = getattr(g, '_parent', None)
        # a comprehension variable, or the exception bound by the innermost enclosing handler
        u = getattr(e, '_parent', None)
        while u is not None and u is not func:
            if isinstance(u, (ast.GeneratorExp, ast.ListComp, ast.SetComp, ast.DictComp)):
                for gen in u.generators:
                    bs = self._itertarget(gen.target, gen.iter, name, gen)
                    if bs:
                        return join(self.element(mod, x[0], x[1], depth, exclude) if k == 'iter' else UNK('comprehension target') for k, _n, x in bs)
            if isinstance(u, ast.ExceptHandler) and u.name == name:
                return self.exception_str(mod, u)
            if isinstance(u, (ast.For, ast.AsyncFor)) and binds(u.target, name) and not any(binds(s, name) for s in u.body):
                inbody = False
                v = e
                while v is not u:
                    if getattr(v, '_parent', None) is u and v in u.body:
                        inbody = True
                    v = getattr(v, '_parent', None)
                if inbody:
                    bs = self._itertarget(u.target, u.iter, name, u)
                    return join(self.element(mod, x[0], x[1], depth, exclude) if k == 'iter' else UNK('loop target') for k, _n, x in bs)
            u = getattr(u, '_parent', None)
        # guarded by `if re.fullmatch(<const>, name):`
        g = st
        while g is not None and g is not func:
            par = getattr(g, '_parent', None)
            if isinstance(par, ast.If) and g in par.body:
                t = par.test
                if isinstance(t, ast.Call) and mod.text(t.func) == 're.fullmatch' and len(t.args) == 2 and not t.keywords \
                        and isinstance(t.args[0], ast.Constant) and isinstance(t.args[0].value, str) \
                        and isinstance(t.args[1], ast.Name) and t.args[1].id == name:
                    idx = par.body.index(g)
                    if not any(binds(s, name) for s in par.body[:idx]) and regex_clean(t.args[0].value):
                        return P('regexGuarded', [f'regexGuarded: re.fullmatch({t.args[0].value!r}, {name})'])
            g = par
        # dominating assignment in the same block (or an enclosing block)
        g = st
        while g is not None and g is not func:
            blk, i = block_of(g)
            if blk:
                for j in range(i - 1, -1, -1):
                    s = blk[j]
                    if isinstance(s, ast.Assign) and len(s.targets) == 1 and isinstance(s.targets[0], ast.Name) and s.targets[0].id == name:
                        if s is exclude:
                            continue
                        return self.cls(mod, s.value, depth, exclude=s)
                    if binds(s, name):
                        g = None
                        break
                if g is None:
                    break
            if isinstance(g, (ast.For, ast.While, ast.AsyncFor)) and binds(g, name):
                break          # loop-carried bindings: fall back to the join
            g = getattr(g, '_parent', None)
        ps = []
        for kind, node, extra in self.bindings(func, name, use=e):
            if node is exclude:
                continue
            if kind == 'assign':
                ps.append(self.cls(mod, extra, depth, exclude=node))
            elif kind == 'aug':
                ps.append(self.cls(mod, extra, depth, exclude=node))
            elif kind == 'iter':
                ps.append(self.element(mod, extra[0], extra[1], depth, exclude))
            elif kind == 'unpack':
                ps.append(self.unpack(mod, node, extra, depth, exclude))
            elif kind == 'param':
                ps.append(self.param(mod, node, extra, depth))
            elif kind == 'except':
                ps.append(self.exception_str(mod, node))
            else:
                ps.append(UNK(f'binding of {name} by {type(node).__name__}'))
        return join(ps) if ps else UNK(f'free name {name}')

    def exception_str(self, mod, handler):
        """str(exc) for the exception bound by this handler"""
        classes = self.handler_classes(mod, handler)
        if classes is None:
            return UNK('handler type not resolvable')
        ps = []
        for cls in classes:
            if cls.__module__ == 'lib.moparser' and cls.__str__ is Exception.__str__ and cls.__init__ is Exception.__init__:
                p = self.raise_args([cls], 0)
                ps.append(P('libraryMessage', ['libraryMessage: lib.moparser.SyntaxError, every raise site re-classified']) if p.kind in ('literal', 'int') else p)
            elif cls.__module__ in ('pyexpat', 'xml.parsers.expat') and cls.__name__ in ('ExpatError', 'error'):
                ps.append(P('libraryMessage', ['libraryMessage: expat error string + line/column (probed)']) if self.probe('expat') else UNK('expat probe failed'))
            else:
                ps.append(UNK(f'str() of {cls.__module__}.{cls.__qualname__}'))
        return join(ps)

    def element(self, mod, it, index, depth, exclude):
        """element (or index-th component of the element) of an iterable expression"""
        if isinstance(it, ast.Call):
            fn = mod.text(it.func)
            if fn == 'range':
                return INT('range() loop variable')
            if fn == 'enumerate' and it.args:
                if index == 0:
                    return INT('enumerate() index')
                if index == 1:
                    return self.element(mod, it.args[0], None, depth, exclude)
            if fn in ('sorted', 'set', 'frozenset', 'list', 'tuple', 'reversed') and it.args:
                return self.element(mod, it.args[0], index, depth, exclude)
            if isinstance(it.func, ast.Attribute) and it.func.attr in ('items', 'keys', 'values') and not it.args and isinstance(it.func.value, ast.Name):
                which = {'keys': 0, 'values': 1}.get(it.func.attr, index)
                if which in (0, 1):
                    return self.dict_part(mod, it, it.func.value.id, which, depth, exclude)
            if fn == 'zip' and index is not None and index < len(it.args):
                return self.element(mod, it.args[index], None, depth, exclude)
        if isinstance(it, (ast.Tuple, ast.List)) and index is None:
            return join(self.cls(mod, x, depth, exclude) for x in it.elts) if it.elts else LIT()
        if index is None:
            return self.cls(mod, it, depth, exclude)
        return UNK('tuple component of ' + mod.text(it))

    def dict_part(self, mod, use, dname, which, depth, exclude):
        """keys (which=0) / values (which=1) of a local dict that is only ever filled by `D[k] = v`"""
        func = enclosing(use, (ast.FunctionDef, ast.AsyncFunctionDef))
        if func is None:
            return UNK('dict at module level')
        for kind, node, extra in self.bindings(func, dname, use=use):
            if kind == 'assign' and ((isinstance(extra, ast.Dict) and not extra.keys) or
                                     (isinstance(extra, ast.Call) and mod.text(extra.func) in ('dict', 'collections.defaultdict', 'collections.Counter') and
                                      all(isinstance(a, ast.Name) for a in extra.args) and not extra.keywords)):
                continue
            if kind == 'unpack' and isinstance(extra[0], ast.Call) and mod.text(extra[0]) == f'{dname}.keys()' and which == 0:
                continue
            return UNK(f'{dname} is not a locally filled dict')
        ps = []
        for n in ast.walk(func):
            if isinstance(n, ast.Assign):
                for t in n.targets:
                    if isinstance(t, ast.Subscript) and isinstance(t.value, ast.Name) and t.value.id == dname:
                        ps.append(self.cls(mod, t.slice if which == 0 else n.value, depth, exclude))
            elif isinstance(n, ast.AugAssign) and isinstance(n.target, ast.Subscript) and isinstance(n.target.value, ast.Name) and n.target.value.id == dname:
                ps.append(self.cls(mod, n.target.slice, depth, exclude) if which == 0 else UNK('augmented dict value'))
        return join(ps) if ps else UNK(f'no store into {dname}')

    def unpack(self, mod, stmt, extra, depth, exclude):
        value, i, star, n = extra
        if isinstance(value, (ast.Tuple, ast.List)) and len(value.elts) == n and not star:
            return self.cls(mod, value.elts[i], depth, exclude)
        if isinstance(value, ast.Attribute) and value.attr == 'args' and isinstance(value.value, ast.Name) and not star:
            return self.exc_arg(mod, value, value.value.id, i)
        if isinstance(value, ast.Call):
            fn = mod.text(value.func)
            if fn == 'map' and value.args and mod.text(value.args[0]) == 'int':
                return INT('map(int, …)')
            if fn == 'divmod':
                return INT('divmod()')
            if fn == 'gettext.parse_plural_forms' and i == 0:
                return INT('n of gettext.parse_plural_forms (probed)') if self.probe('gettext.parse_plural_forms') else UNK('probe failed')
        return UNK('unpacking of ' + mod.text(value))

    def param(self, mod, func, arg, depth):
        if depth <= 0:
            return UNK('parameter chain too deep')
        a = func.args
        pos = [x.arg for x in a.posonlyargs + a.args]
        is_method = isinstance(getattr(func, '_parent', None), ast.ClassDef) and pos and pos[0] in ('self', 'cls')
        if arg.arg in ('self', 'cls') or (a.vararg and arg is a.vararg) or (a.kwarg and arg is a.kwarg):
            return UNK(f'parameter {arg.arg}')
        default = None
        if arg.arg in pos:
            k = pos.index(arg.arg) - (len(pos) - len(a.defaults))
            if k >= 0:
                default = a.defaults[k]
        else:
            kw = [x.arg for x in a.kwonlyargs]
            default = a.kw_defaults[kw.index(arg.arg)]
        ps = []
        ncalls = 0
        for m in self.modules.values():
            for node in ast.walk(m.tree):
                if not isinstance(node, ast.Call):
                    continue
                f = node.func
                nm = f.id if isinstance(f, ast.Name) else (f.attr if isinstance(f, ast.Attribute) else None)
                if nm != func.name:
                    continue
                ncalls += 1
                if any(isinstance(x, ast.Starred) for x in node.args) or any(k.arg is None for k in node.keywords):
                    ps.append(UNK(f'starred call of {func.name} in {m.rel}'))
                    continue
                val = None
                for k in node.keywords:
                    if k.arg == arg.arg:
                        val = k.value
                if val is None and arg.arg in pos:
                    idx = pos.index(arg.arg) - (1 if is_method and isinstance(f, ast.Attribute) else 0)
                    if 0 <= idx < len(node.args):
                        val = node.args[idx]
                if val is None:
                    if default is None:
                        ps.append(UNK(f'call of {func.name} in {m.rel} does not pass {arg.arg}'))
                    else:
                        ps.append(self.cls(mod, default, depth - 1))
                else:
                    ps.append(self.cls(m, val, depth - 1))
        if ncalls == 0:
            return UNK(f'no call site of {func.name} in lib/')
        p = join(ps)
        return P(p.kind, set(p.rules) | {f'parameter {arg.arg} of {func.name}: {ncalls} call sites in lib/'})

# --------------------------------------------------------------------------------------------- site extraction

SAFE_FORMAT_SRC = '''
def safe_format(template, *args, **kwargs):
    args = [_escape(s) for s in args]
    kwargs = {k: _escape(v) for k, v in kwargs.items()}
    return safestr(template.format(*args, **kwargs))
'''

def _norm(node):
    """ast.dump with local variable names of comprehensions normalised away"""
    names = {}
    class N(ast.NodeTransformer):
        def visit_comprehension(self, c):
            for t in ast.walk(c.target):
                if isinstance(t, ast.Name):
                    names.setdefault(t.id, f'v{len(names)}')
            return self.generic_visit(c)
    class R(ast.NodeTransformer):
        def visit_Name(self, n):
            return ast.copy_location(ast.Name(id=names.get(n.id, n.id), ctx=n.ctx), n)
    import copy
    node = copy.deepcopy(node)
    N().visit(node)
    return ast.dump(R().visit(node))

def safe_format_shape_ok(fn):
    """safe_format escapes every positional and keyword argument (in either order) and returns
    safestr(template.format(*args, **kwargs)); nothing else happens in the body"""
    ref = ast.parse(SAFE_FORMAT_SRC).body[0]
    body = [s for s in fn.body if not (isinstance(s, ast.Expr) and isinstance(s.value, ast.Constant))]     # docstring allowed
    if len(body) != 3 or ast.dump(fn.args) != ast.dump(ref.args) or fn.decorator_list:
        return False
    return sorted(_norm(s) for s in body[:2]) == sorted(_norm(s) for s in ref.body[:2]) and ast.dump(body[2]) == ast.dump(ref.body[2])

def extract(repo):
    C = Classifier(repo)
    safes, tagsites, prints = [], [], []
    for rel, m in sorted(C.modules.items()):
        for node in ast.walk(m.tree):
            # ---- any mention of safestr / safe_format
            nm = None
            if isinstance(node, ast.Attribute) and node.attr in ('safestr', 'safe_format'):
                nm = node.attr
            elif isinstance(node, ast.Name) and node.id in ('safestr', 'safe_format'):
                nm = node.id
            if nm is not None:
                par = getattr(node, '_parent', None)
                is_call = isinstance(par, ast.Call) and par.func is node
                fq = qualname(node)
                if is_call and par.args and not isinstance(par.args[0], ast.Starred):
                    arg = par.args[0]
                    if rel == 'lib/tags.py' and fq == 'safe_format' and nm == 'safestr':
                        fn = enclosing(node, ast.FunctionDef)
                        if safe_format_shape_ok(fn):
                            p = P('formatOfEscaped', ['formatOfEscaped: template.format over _escape()d arguments (function shape pinned)'])
                        else:
                            p = UNK('tags.safe_format no longer has the pinned shape')
                    else:
                        p = C.cls(m, arg)
                    extra_ok = True
                    if nm == 'safestr' and (len(par.args) != 1 or par.keywords):
                        p = p | UNK('safestr() with several arguments')
                    safes.append(dict(file=rel, line=node.lineno, col=node.col_offset, func=fq, kind=nm, expr=m.text(arg), prov=p))
                    del extra_ok
                elif rel == 'lib/tags.py' and isinstance(par, ast.Call) and mod_text_is(m, par.func, 'isinstance') and node in par.args[1:]:
                    pass        # isinstance(s, safestr) in _escape
                elif isinstance(node, ast.Name) and isinstance(node.ctx, ast.Store):
                    safes.append(dict(file=rel, line=node.lineno, func=fq, kind='indirect', expr=m.text(getattr(node, '_parent', node)), prov=UNK('rebinding of ' + nm)))
                else:
                    safes.append(dict(file=rel, line=node.lineno, func=fq, kind='indirect', expr=m.text(par if par is not None else node), prov=UNK(nm + ' used other than by a direct call')))
            if isinstance(node, (ast.ClassDef, ast.FunctionDef)) and node.name in ('safestr', 'safe_format') and rel != 'lib/tags.py':
                safes.append(dict(file=rel, line=node.lineno, func=qualname(node), kind='indirect', expr='def ' + node.name, prov=UNK('redefinition of ' + node.name)))
            if isinstance(node, ast.ClassDef) and rel == 'lib/tags.py' and node.name == 'safestr':
                if ast.dump(node) != "ClassDef(name='safestr', bases=[Name(id='str', ctx=Load())], keywords=[], body=[Pass()], decorator_list=[], type_params=[])" \
                        and ast.dump(node) != "ClassDef(name='safestr', bases=[Name(id='str', ctx=Load())], keywords=[], body=[Pass()], decorator_list=[])":
                    safes.append(dict(file=rel, line=node.lineno, func='safestr', kind='indirect', expr='class safestr', prov=UNK('class safestr is no longer `class safestr(str): pass`')))
            # ---- tag() calls
            if isinstance(node, ast.Call) and isinstance(node.func, ast.Attribute) and node.func.attr == 'tag':
                fq = qualname(node)
                if node.args and isinstance(node.args[0], ast.Constant) and isinstance(node.args[0].value, str):
                    kinds = []
                    for a in node.args[1:]:
                        if isinstance(a, ast.Starred):
                            kinds.append('*')
                        elif isinstance(a, ast.Call) and m.text(a.func) in ('tags.safestr', 'tags.safe_format', 'message_repr'):
                            kinds.append('safe')
                        else:
                            kinds.append('esc')
                    argkeys = []
                    for a in node.args[1:]:
                        if isinstance(a, ast.Call) and m.text(a.func) in ('tags.safestr', 'tags.safe_format') and a.args:
                            argkeys.append(f"{rel}:{fq}:{m.text(a.func).split('.')[-1]}({m.text(a.args[0])})")
                        else:
                            argkeys.append(None if not isinstance(a, ast.Starred) else '*')
                    tagsites.append(dict(file=rel, line=node.lineno, end_line=node.end_lineno, func=fq, name=node.args[0].value, dyn='literal',
                                         extras=''.join(k[0] for k in kinds), argkeys=argkeys))
                else:
                    fn = enclosing(node, ast.FunctionDef)
                    fwd = (fn is not None and fn.name == 'tag' and m.text(node) == 'self.parent.tag(tagname, *extra)'
                           and [a.arg for a in fn.args.args] == ['self', 'tagname'] and fn.args.vararg is not None and fn.args.vararg.arg == 'extra')
                    tagsites.append(dict(file=rel, line=node.lineno, end_line=node.end_lineno, func=fq, name=m.text(node.args[0]) if node.args else '',
                                         dyn='forwarder' if fwd else 'dynamic', extras='*', argkeys=['*']))
            if isinstance(node, ast.Call) and m.text(node.func) in ('print', 'sys.stdout.write', 'sys.stdout.buffer.write'):
                prints.append(dict(file=rel, line=node.lineno, func=qualname(node), call=m.text(node.func)))
    safes.sort(key=lambda x: (x['file'], x['line'], x.get('col', 0)))
    tagsites.sort(key=lambda x: (x['file'], x['line']))
    prints.sort(key=lambda x: (x['file'], x['line']))
    return safes, tagsites, prints, C.probes

def mod_text_is(m, node, s):
    return m.text(node) == s

HEADER_S = '''/-
GENERATED by tools/translate/tagsites2lean.py (ast walk over /repo/lib + provenance classifier) — do not edit.
Every mention of `safestr` / `safe_format` in lib/, with the provenance of the text that bypasses the escaper.
-/
import I18n.Spec.Provenance
namespace I18n.Generated.SafestrSites
open I18n.Spec (Provenance Site)

'''
HEADER_T = '''/-
GENERATED by tools/translate/tagsites2lean.py (ast walk over /repo/lib) — do not edit.
Every `….tag(name, …)` call in lib/: (file, function, tag name as written, how the name is given: 0 = string literal,
1 = the pure forwarder `return self.parent.tag(tagname, *extra)`, 2 = computed; the literal name as a base-2^21 number
(same encoding as Generated.TagRegistry); shape of the extras: `s` safestr/safe_format/message_repr call, `e` goes
through the escaper, `*` starred).
-/
namespace I18n.Generated.TagSites

'''

def render(safes, tagsites, prints):
    s = [HEADER_S, 'def sites : List Site := [\n']
    rows = []
    for x in safes:
        key = f"{x['file']}:{x['func']}:{x['kind']}({x['expr']})"
        rows.append('  { key := %s,\n    provenance := .%s,\n    rules := %s }' % (
            lean_str(key), x['prov'].kind, lean_str('; '.join(sorted(x['prov'].rules)))))
    s.append(',\n'.join(rows) + ']\n\nend I18n.Generated.SafestrSites\n')
    t = [HEADER_T, 'def sites : List (String × String × String × Nat × Nat × String) := [\n']
    t.append(',\n'.join('  (%s, %s, %s, %d, %d, %s)' % (lean_str(x['file']), lean_str(x['func']), lean_str(x['name']),
                                                        {'literal': 0, 'forwarder': 1, 'dynamic': 2}[x['dyn']],
                                                        name_key(x['name']) if x['dyn'] == 'literal' else 0, lean_str(x['extras']))
                        for x in tagsites))
    t.append(']\n\n/-- other writers to stdout in lib/ (informational) -/\ndef printSites : List (String × String × String) := [\n')
    t.append(',\n'.join('  (%s, %s, %s)' % (lean_str(x['file']), lean_str(x['func']), lean_str(x['call'])) for x in prints))
    t.append(']\n\nend I18n.Generated.TagSites\n')
    return ''.join(s), ''.join(t)

def write(dest, text):
    old = open(dest, encoding='utf-8').read() if os.path.exists(dest) else None
    if old != text:
        open(dest, 'w', encoding='utf-8').write(text)
        return True
    return False

def main():
    repo = sys.argv[1] if len(sys.argv) > 1 else '/repo'
    gen = os.path.join(os.path.dirname(os.path.abspath(__file__)), '..', '..', 'lean', 'I18n', 'Generated')
    dest_s = os.path.join(gen, 'SafestrSites.lean')
    dest_t = os.path.join(gen, 'TagSites.lean')
    cache = tempfile.mkdtemp(prefix='i18n-verif-tr.')
    os.environ['XDG_CACHE_HOME'] = cache
    sys.dont_write_bytecode = True
    sys.path.insert(0, repo)
    try:
        try:
            safes, tagsites, prints, probes = extract(repo)
            ts, tt = render(safes, tagsites, prints)
        except Exception as exc:
            bad = f'-- UNTRANSLATABLE: {exc!r}\n#eval (throwError "untranslatable" : Lean.Elab.Command.CommandElabM Unit)\n'
            open(dest_s, 'w', encoding='utf-8').write(HEADER_S + bad + 'end I18n.Generated.SafestrSites\n')
            open(dest_t, 'w', encoding='utf-8').write(HEADER_T + bad + 'end I18n.Generated.TagSites\n')
            print(f'untranslatable: {exc!r}', file=sys.stderr)
            sys.exit(3)
        if '--json' in sys.argv:
            import json
            json.dump({'safestr_sites': [dict(x, prov=x['prov'].kind, rules=sorted(x['prov'].rules),
                                              key=f"{x['file']}:{x['func']}:{x['kind']}({x['expr']})") for x in safes],
                       'tag_sites': tagsites, 'print_sites': prints, 'probes': probes}, sys.stdout, indent=1)
            print()
            return
        ch = write(dest_s, ts) | write(dest_t, tt)
        print('changed' if ch else 'unchanged')
    finally:
        shutil.rmtree(cache, ignore_errors=True)

if __name__ == '__main__':
    main()
