#!/usr/bin/env python3
"""polib4us2lean: regenerate lean/I18n/Generated/Polib4us.lean from the CURRENT source of lib/polib4us.py:

    _wrap_octal_escape, polib_unescape (with its inner `unescape(match)`)
    the `POEntry.flags` setter (`set_flags` inside `poentry_flags_patch`), `translated` (inside `poentry_translated_patch`)
    Codecs._is_ignored_comment, Codecs.open          (a generator: the list of lines it yields)

`Props/C10Tie.lean` proves them equal, for ALL inputs and environments, to the hand-written model of `Model/Po.lean` (`unescape`,
`setFlags`, `translated`, `isIgnoredComment`, `decodeFile` + `preprocess`).  Statement layer: tools/translate/pytr (+ pytr/tryexc.py).
The target kit is `Model/PoPy.lean` (namespace `I18n.Po.Py`); its header states what each Python operation is taken to be — the trusted
base.  What the translator itself decides (also trusted):

  regexes        pinned by pattern text (VERBOSE patterns with their white space removed) and flags: `_escapes_re`, `_short_x_escape_re`,
                 `_big_octal_escape_re`, `Codecs._iterlines` (`.findall`), `Codecs._atypical_comment` (`.match`); each must be bound once.
  the hack       `inspect.stack()[2][0]` / `.f_locals['self']` / `.instance.encoding` is the parameter `file_encoding`.
  patch functions  `set_flags` must be the setter of `polib.POEntry.flags = property(get_flags, set_flags)` with `get_flags` returning the
                 attribute it assigns; `translated` must be assigned to `polib.POEntry.translated`; `polib_unescape` to `polib.unescape`.
  `Codecs.open`  `with open(path, 'rb') as file: contents = file.read()` is the parameter `file_bytes`; `yield` appends to the result.

Anything else raises Untranslatable: exit 3, marker file that does not compile, dependent obligations broken.
"""
import ast, os, re as _re, sys
sys.path.insert(0, os.path.dirname(os.path.abspath(__file__)))
from pytr import (Untranslatable, bad, lname, atom, render, bind, joinc, tuple_pat, Style, Stmts, _mangled, assigned_names, read_names)
from pytr import tryexc

def mk(*a): return tuple(a)
INT, BOOL, STR, BYTES, NONE, NAME, RUN, RUNMATCH, FRAME, PARSER, LSTR, ENTRY, EXC, OPTSTR, OCTMATCH = (
    mk('int'), mk('bool'), mk('str'), mk('bytes'), mk('none'), mk('name'), mk('run'), mk('runmatch'), mk('frame'), mk('parser'), mk('lstr'),
    mk('entry'), mk('exc'), mk('optstr'), mk('octmatch'))

SIMPLE = {'int': 'Int', 'bool': 'Bool', 'str': 'Text', 'bytes': 'Bytes', 'none': 'Unit', 'name': 'Bytes', 'run': 'Py.Run', 'runmatch': 'Py.Run',
          'lstr': 'List Text', 'entry': 'Entry', 'exc': 'Py.Exn', 'optstr': 'Option Text', 'octmatch': 'Text'}
def lean_type(t):
    if t[0] in SIMPLE: return SIMPLE[t[0]]
    raise Untranslatable(f'no Lean type for {t}')

def join(a, b, node=None):
    if a == b: return a
    if a is None: return b
    if b is None: return a
    bad(node, f'incompatible types {a} and {b}')
def coerce(text, frm, to, node=None):
    if frm == to: return text
    bad(node, f'cannot use a value of type {frm} where {to} is expected')
def tuple_type(types):
    if not types: return 'Unit'
    if len(types) == 1: return atom(lean_type(types[0]))
    return '(' + ' × '.join(lean_type(t) for t in types) + ')'
class Types:
    NONE, INT = NONE, INT
    join = staticmethod(join); coerce = staticmethod(coerce); tuple_type = staticmethod(tuple_type)

class PStyle(Style):
    def extra(self, node, ind):
        if node[0] == 'foreach':
            _, xs, x, pat, body, init, rest_pat, rest = node
            pad = '  ' * ind
            return ([pad + f'match Py.forEach {xs} (fun {x} {pat} =>'] + render(body, ind + 2, self) + [pad + f'  ) {init} with',
                    pad + '| .error e => .error e', pad + f'| .ok {rest_pat} =>'] + render(rest, ind + 1, self))
        return tryexc.render_extra(node, ind, self, render)
STYLE = PStyle('Py.Exn', 'PyKit.tryExcept', 'PyKit.forRange')

def char_lit(c):
    o = ord(c)
    if c == "'": return "'\\''"
    if c == '\\': return "'\\\\'"
    if 32 <= o < 127: return f"'{c}'"
    return f'(Char.ofNat {o})'
def text_lit(s):
    return '[' + ', '.join(char_lit(c) for c in s) + ']'

PINS = {
    '_escapes_re': ('(\\\\(?:[ntbrfva]|\\\\|"|[0-7]{1,3}|x[0-9a-fA-F]{1,2}))+', 're.VERBOSE', None),
    '_short_x_escape_re': ('\\\\x([0-9a-fA-F])(?=\\\\|$)', 're.VERBOSE', None),
    '_big_octal_escape_re': ('\\\\([4-7][0-7]{2})', 're.VERBOSE', None),
    '_iterlines': ('[^\\n]*(?:\\n|\\Z)', None, 'findall'),
    '_atypical_comment': ('#[^ .:,|~]', None, 'match'),
}

def dotted(e):
    try: return ast.unparse(e)
    except Exception: return ''

class NoWrites(dict):
    def get(self, k, d=None): return False

OUT = 'out_'

class Fn(tryexc.TryExcept, Stmts):
    T = Types
    STATE = '#no-state'
    DUPLICATE_ON_RETURN = True
    CAUGHT = {'UnicodeDecodeError': 'Py.Exn.isUnicodeDecodeError'}
    EXC_TYPE = EXC
    EXC_ASSERT = '.error .other'
    EXC_UNREACHABLE = '.other'
    style = STYLE

    def __init__(self, unit, fdef, ret_type, probing, generator=False, pyname=None):
        self.u, self.f, self.name, self.pyname = unit, fdef, lname(fdef.name), pyname or fdef.name
        self.writes = False
        self.writes_map = NoWrites()
        self.ret_types = [] if probing else None
        self.ret_type = ret_type
        self.ntmp = 0
        self.uses = set()
        self.generator = generator
        self.te_init()

    def note(self, msg): self.u.dropped.add(msg)
    def result_lean_type(self): return atom(lean_type(self.ret_type)) if self.ret_type else 'Unit'

    def ok(self, value_text, ty, env, node=None):
        if self.generator:
            # the end of a generator: what it has yielded
            if ty != NONE: bad(node, 'return with a value in a generator')
            value_text, ty = lname(OUT), LSTR
        if self.ret_types is not None:
            if ty is not None: self.ret_types.append(ty)
            return ('raw', '.ok default')
        v = coerce(value_text, ty, self.ret_type, node)
        if self.try_depth: return ('raw', f'.ok (.inl {atom(v)})')
        return ('raw', f'.ok {atom(v)}')

    def value(self, e, env, B):
        t, ty = self.expr(e, env, B)
        return 'pure', t, ty, False

    def raise_(self, s, env, B):
        x = s.exc
        if x is None:
            if not self.handler_exc: bad(s, 'bare raise outside a handler')
            return '.error exc_'
        if isinstance(x, ast.Name) and x.id == 'NotImplementedError' and s.cause is None: return '.error .notImplemented'
        bad(s, f'raise {dotted(x)[:60]}')

    # ---- expressions
    def truth(self, e, env, B):
        """truth value of an expression (bool, str, None-or-str)"""
        if isinstance(e, ast.BoolOp):
            return self.boolop(e, env, B)
        t, ty = self.expr(e, env, B)
        if ty == BOOL: return t
        if ty == STR: return f'Py.truthy {atom(t)}'
        if ty == OPTSTR: return f'Py.truthyOpt {atom(t)}'
        bad(e, f'truth value of {ty}')

    def boolop(self, e, env, B):
        """`a or b` / `a and b` as truth values; a partial operand keeps the short circuit: `if a then true else b`"""
        is_or = isinstance(e.op, ast.Or)
        parts = []
        for x in e.values:
            Bx = []
            t = self.truth(x, env, Bx)
            parts.append((t, Bx))
        if not any(Bx for _, Bx in parts[1:]):
            for _, Bx in parts[:1]: B.extend(Bx)
            return '(' + (' || ' if is_or else ' && ').join(atom(t) for t, _ in parts) + ')'
        # short circuit with partial right operands: a computation of a Bool, hoisted
        B.extend(parts[0][1])
        def comp(i):
            t, Bx = parts[i]
            if i == len(parts) - 1:
                return self.wrap(Bx, ('raw', f'.ok {atom(t)}'))
            rest = comp(i + 1)
            stop = ('raw', '.ok true' if is_or else '.ok false')
            inner = ('if', t, stop, rest) if is_or else ('if', t, rest, stop)
            return self.wrap(Bx if i else [], inner)
        tree = comp(0)
        t = self.tmp()
        B.append(lambda rest, t=t, tree=tree: joinc(t, tree, 'Bool', rest))
        return t

    def cond(self, e, env, B):
        return self.truth(e, env, B)

    def expr(self, e, env, B):
        if isinstance(e, ast.Constant):
            v = e.value
            if v is None: return '()', NONE
            if isinstance(v, bool): return ('true' if v else 'false'), BOOL
            if isinstance(v, int) and v >= 0: return str(v), INT
            if isinstance(v, str): return text_lit(v), STR
            bad(e, f'literal {v!r}')
        if isinstance(e, ast.Name):
            if e.id in env: return lname(e.id), env[e.id]
            bad(e, f'unknown name {e.id}')
        if isinstance(e, ast.UnaryOp) and isinstance(e.op, ast.Not):
            return f'(!{atom(self.truth(e.operand, env, B))})', BOOL
        if isinstance(e, ast.BoolOp):
            return self.boolop(e, env, B), BOOL
        if isinstance(e, ast.BinOp) and isinstance(e.op, ast.Add):
            a, aty = self.expr(e.left, env, B)
            b, bty = self.expr(e.right, env, B)
            if aty == STR and bty == STR: return f'({atom(a)} ++ {atom(b)})', STR
            if aty == LSTR and bty == LSTR: return f'({atom(a)} ++ {atom(b)})', LSTR
            bad(e, f'+ on {aty} and {bty}')
        if isinstance(e, ast.List):
            items = [self.expr(x, env, B) for x in e.elts]
            if not items: return '([] : List Text)', LSTR
            if all(ty == STR for _, ty in items): return '[' + ', '.join(t for t, _ in items) + ']', LSTR
            bad(e, 'list of non-str')
        if isinstance(e, ast.Compare) and len(e.ops) == 1:
            return self.compare(e, env, B)
        if isinstance(e, ast.Subscript):
            return self.subscript(e, env, B)
        if isinstance(e, ast.Attribute):
            return self.attribute(e, env, B)
        if isinstance(e, ast.JoinedStr):
            return self.fstring(e, env, B)
        if isinstance(e, ast.Call):
            return self.call(e, env, B)
        if isinstance(e, ast.ListComp):
            return self.listcomp(e, env, B)
        bad(e, f'expression {type(e).__name__}')

    def compare(self, e, env, B):
        op = type(e.ops[0]).__name__
        L, R = e.left, e.comparators[0]
        if op in ('In', 'NotIn'):
            a, aty = self.expr(L, env, B)
            if isinstance(R, (ast.Set, ast.Tuple, ast.List)):
                items = [self.expr(x, env, B) for x in R.elts]
                if not all(ty == aty for _, ty in items) or aty not in (STR, LSTR): bad(e, 'membership')
                t = '(' + ' || '.join(f'{atom(a)} == {t}' for t, _ in items) + ')'
            else:
                b, bty = self.expr(R, env, B)
                if aty == STR and bty == LSTR: t = f'{atom(b)}.contains {atom(a)}'
                else: bad(e, f'membership in {bty}')
            return (t if op == 'In' else f'(!{t})'), BOOL
        if op in ('Eq', 'NotEq'):
            a, aty = self.expr(L, env, B)
            b, bty = self.expr(R, env, B)
            if aty == bty and aty in (STR, LSTR, INT): t = f'({atom(a)} == {atom(b)})'
            else: bad(e, f'== on {aty} and {bty}')
            return (t if op == 'Eq' else f'(!{t})'), BOOL
        bad(e, f'comparison {dotted(e)[:60]}')

    def subscript(self, e, env, B):
        sl = e.slice
        t, ty = self.expr(e.value, env, B)
        if ty == ('stack',) and isinstance(sl, ast.Constant) and sl.value == 2: return '#', ('stack2',)
        if ty == ('stack2',) and isinstance(sl, ast.Constant) and sl.value == 0: return '#', FRAME
        if ty == ('f_locals',) and isinstance(sl, ast.Constant) and sl.value == 'self': return '#', PARSER
        if isinstance(sl, ast.Slice) and ty == STR and sl.step is None:
            lo = sl.lower.value if isinstance(sl.lower, ast.Constant) and isinstance(sl.lower.value, int) and sl.lower.value >= 0 else None
            hi = sl.upper.value if isinstance(sl.upper, ast.Constant) and isinstance(sl.upper.value, int) and sl.upper.value >= 0 else None
            if sl.lower is not None and lo is None or sl.upper is not None and hi is None: bad(e, 'slice bounds')
            if sl.lower is None and hi is not None: return f'({atom(t)}.take {hi})', STR
            if sl.upper is None and lo is not None: return f'({atom(t)}.drop {lo})', STR
            bad(e, 'slice')
        if ty == LSTR and isinstance(sl, ast.Constant) and isinstance(sl.value, int) and sl.value >= 0 and not isinstance(sl.value, bool):
            return self.hoist(B, f'Py.listGet {atom(t)} {sl.value}'), STR
        bad(e, f'subscript of {ty}')

    def attribute(self, e, env, B):
        t, ty = self.expr(e.value, env, B)
        if ty == FRAME and e.attr == 'f_locals': return '#', ('f_locals',)
        if ty == PARSER and e.attr == 'instance': return '#', ('pofile',)
        if ty == ('pofile',) and e.attr == 'encoding':
            self.uses.add('file_encoding')
            self.note(f'{self.pyname}: `inspect.stack()[2][0].f_locals[\'self\'].instance.encoding` is the parameter file_encoding')
            return 'file_encoding', NAME
        if ty == ENTRY:
            if e.attr == 'obsolete': return f'{atom(t)}.obsolete', BOOL
            if e.attr == 'flags': return f'{atom(t)}.flags', LSTR
            if e.attr == 'msgstr': return f'{atom(t)}.msgstr', OPTSTR
            if e.attr == 'msgstr_plural': return f'{atom(t)}.msgstrPlural', ('intdict',)
        bad(e, f'attribute {dotted(e)}')

    def fstring(self, e, env, B):
        # f"b'{s}'" is handled at the call of ast.literal_eval; f'\\{<int>:o}' here
        parts = []
        for v in e.values:
            if isinstance(v, ast.Constant) and isinstance(v.value, str): parts.append(text_lit(v.value))
            elif isinstance(v, ast.FormattedValue) and v.conversion == -1 and isinstance(v.format_spec, ast.JoinedStr) and \
                 len(v.format_spec.values) == 1 and isinstance(v.format_spec.values[0], ast.Constant) and v.format_spec.values[0].value == 'o':
                n, nty = self.int_expr(v.value, env, B)
                parts.append(f'Py.formatOct {atom(n)}')
            else: bad(e, 'f-string')
        return '(' + ' ++ '.join(parts) + ')', STR

    def int_expr(self, e, env, B):
        """a non-negative int expression as a Nat"""
        if isinstance(e, ast.Constant) and isinstance(e.value, int) and not isinstance(e.value, bool) and e.value >= 0: return str(e.value), INT
        if isinstance(e, ast.BinOp) and isinstance(e.op, ast.BitAnd):
            a, _ = self.int_expr(e.left, env, B)
            b, _ = self.int_expr(e.right, env, B)
            return f'({atom(a)} &&& {atom(b)})', INT
        if isinstance(e, ast.Call) and dotted(e.func) == 'int' and len(e.args) == 2 and not e.keywords and isinstance(e.args[1], ast.Constant) and e.args[1].value == 8:
            g = e.args[0]
            if isinstance(g, ast.Call) and isinstance(g.func, ast.Attribute) and g.func.attr == 'group' and len(g.args) == 1 and isinstance(g.args[0], ast.Constant) and \
               g.args[0].value == 1 and isinstance(g.func.value, ast.Name) and env.get(g.func.value.id) == OCTMATCH:
                return f'(Py.intOct {lname(g.func.value.id)})', INT
        bad(e, f'int expression {dotted(e)[:50]}')

    def call(self, e, env, B):
        f = e.func
        d = dotted(f)
        a = e.args
        if e.keywords: bad(e, f'keyword arguments in {d}')
        if isinstance(f, ast.Name) and f.id in env: bad(e, f'call of a local {d}')
        # regexes
        if d == '_short_x_escape_re.sub' and len(a) == 2 and self.u.pins_ok.get('_short_x_escape_re') and isinstance(a[0], ast.Constant) and a[0].value == '\\\\x0\\1':
            t, ty = self.expr(a[1], env, B)
            if ty != RUN: bad(e, '_short_x_escape_re.sub on something other than a run of escapes')
            return f'(Py.shortXSub {atom(t)})', RUN
        if d == '_big_octal_escape_re.sub' and len(a) == 2 and self.u.pins_ok.get('_big_octal_escape_re') and isinstance(a[0], ast.Name) and a[0].id == '_wrap_octal_escape' and self.u.wrap_ok:
            t, ty = self.expr(a[1], env, B)
            if ty != RUN: bad(e, '_big_octal_escape_re.sub on something other than a run of escapes')
            return f'(Py.bigOctalSub _wrap_octal_escape {atom(t)})', RUN
        if d == '_escapes_re.sub' and len(a) == 2 and self.u.pins_ok.get('_escapes_re') and isinstance(a[0], ast.Name) and a[0].id in self.u.nested_done:
            t, ty = self.expr(a[1], env, B)
            if ty != STR: bad(e, '_escapes_re.sub of a non-str')
            inner = self.u.nested_done[a[0].id]
            self.uses |= inner[1]
            args = ' '.join(p for p in ('env', 'file_encoding') if p in inner[1])
            return self.hoist(B, f'Py.escapesSub ({inner[0]}{" " + args if args else ""}) ({atom(t)}.length + 1) {atom(t)}'), STR
        if d == 'ast.literal_eval' and len(a) == 1 and self.u.imports_ok:
            j = a[0]
            if isinstance(j, ast.JoinedStr) and len(j.values) == 3 and isinstance(j.values[0], ast.Constant) and j.values[0].value == "b'" and \
               isinstance(j.values[2], ast.Constant) and j.values[2].value == "'" and isinstance(j.values[1], ast.FormattedValue) and \
               j.values[1].conversion == -1 and j.values[1].format_spec is None:
                t, ty = self.expr(j.values[1].value, env, B)
                if ty != RUN: bad(e, 'literal_eval of something other than a run of escapes')
                return self.hoist(B, f'Py.literalEval {atom(t)}'), BYTES
            bad(e, 'ast.literal_eval')
        if d == 'inspect.stack' and not a and self.u.imports_ok: return '#', ('stack',)
        if d == 'encodings.decode' and len(a) == 2 and self.u.imports_ok:
            t, ty = self.expr(a[0], env, B)
            n, nty = self.expr(a[1], env, B)
            if ty != BYTES or nty != NAME: bad(e, 'encodings.decode arguments')
            self.uses.add('env')
            return self.hoist(B, f'Py.encodingsDecode env {atom(t)} {atom(n)}'), STR
        if d == 'encodings.is_ascii_compatible_encoding' and len(a) == 1 and self.u.imports_ok:
            n, nty = self.expr(a[0], env, B)
            if nty != NAME: bad(e, 'is_ascii_compatible_encoding argument')
            self.uses.add('env')
            return f'(env.asciiCompatible {atom(n)})', BOOL
        if d == 'any' and len(a) == 1:
            x = a[0]
            if isinstance(x, ast.Call) and isinstance(x.func, ast.Attribute) and x.func.attr == 'values' and not x.args:
                t, ty = self.expr(x.func.value, env, B)
                if ty == ('intdict',): return f'({atom(t)}.any fun kv => Py.truthy kv.2)', BOOL
            bad(e, 'any')
        # methods
        if isinstance(f, ast.Attribute):
            if dotted(f.value) == 'self' and f.attr in self.u.class_regex and env.get('self') == ('codecs',):
                kind = self.u.class_regex[f.attr]
                if not self.u.pins_ok.get(f.attr) or len(a) != 1: bad(e, f'{d}: the pattern is not the pinned one')
                t, ty = self.expr(a[0], env, B)
                if ty != STR: bad(e, f'{d} of a non-str')
                if f.attr == '_iterlines': return f'(Po.iterlines {atom(t)})', LSTR
                if f.attr == '_atypical_comment': return f'(Po.atypical {atom(t)})', BOOL     # only its truth value is used
            if dotted(f.value) == 'self' and f.attr == '_is_ignored_comment' and env.get('self') == ('codecs',) and len(a) == 1 and 'Codecs__is_ignored_comment' in self.u.done:
                t, ty = self.expr(a[0], env, B)
                if ty != STR: bad(e, d)
                self.uses.add('env')
                return self.hoist(B, f'Codecs__is_ignored_comment env {atom(t)}'), BOOL
            t, ty = self.expr(f.value, env, B)
            if ty == RUNMATCH and f.attr == 'group' and not a: return t, RUN
            if ty == BYTES and f.attr == 'decode' and len(a) == 1 and isinstance(a[0], ast.Constant) and a[0].value == 'ASCII':
                return self.hoist(B, f'Py.decodeAsciiBytes {atom(t)}'), STR
            if ty == STR and f.attr == 'strip' and len(a) == 1 and isinstance(a[0], ast.Constant) and isinstance(a[0].value, str):
                return f'(Py.stripCodes {atom(t)} [' + ', '.join(str(ord(c)) for c in a[0].value) + '])', STR
            if ty == STR and f.attr == 'split' and len(a) == 1 and isinstance(a[0], ast.Constant) and isinstance(a[0].value, str) and len(a[0].value) == 1:
                return f'(Po.splitOn {char_lit(a[0].value)} {atom(t)})', LSTR
            if ty == STR and f.attr == 'split' and len(a) == 2 and isinstance(a[0], ast.Constant) and a[0].value is None and isinstance(a[1], ast.Constant) and \
               isinstance(a[1].value, int) and a[1].value >= 0:
                self.uses.add('env')
                return f'(Po.splitWs env.isSpace {a[1].value} {atom(t)})', LSTR
            if ty == STR and f.attr == 'isspace' and not a:
                self.uses.add('env')
                return f'(Po.allIn env.isSpace {atom(t)})', BOOL
        bad(e, f'call {dotted(e)[:60]}')

    def listcomp(self, e, env, B):
        """[f(x) for a in xs for x in g(a)] without conditions: flatMap / map"""
        if any(g.ifs or g.is_async or not isinstance(g.target, ast.Name) for g in e.generators): bad(e, 'comprehension')
        env2 = dict(env)
        binders = []
        for g in e.generators:
            Bx = []
            t, ty = self.expr(g.iter, env2, Bx)
            if Bx or ty != LSTR: bad(e, 'comprehension over something other than a list of str')
            env2[g.target.id] = STR
            binders.append((t, lname(g.target.id)))
        Bx = []
        body, bty = self.expr(e.elt, env2, Bx)
        if Bx or bty != STR: bad(e, 'comprehension element')
        text = f'({atom(binders[-1][0])}.map fun {binders[-1][1]} => {body})'
        for t, x in reversed(binders[:-1]):
            text = f'({atom(t)}.flatMap fun {x} => {text})'
        return text, LSTR

    # ---- statements
    def assign(self, target, value, s, env, go):
        if not isinstance(target, ast.Name): bad(s, 'assignment target')
        x = target.id
        B = []
        if env.get(x) == NAME and isinstance(value, ast.Constant) and isinstance(value.value, str) and value.value.isascii():
            # a charset name: the bytes of its ASCII spelling
            text, ty = ('Po.asciiName' if value.value == 'ASCII' else '[' + ', '.join(str(ord(c)) for c in value.value) + ']'), NAME
        else:
            text, ty = self.expr(value, env, B)
        env2 = dict(env); env2[x] = ty
        if text == '#':
            if B: bad(s, 'hoisted computation in the stack-frame hack')
            return go(env2)
        if B and getattr(B[-1], '__defaults__', None) and len(B[-1].__defaults__) == 2 and text == B[-1].__defaults__[0]:
            comp = B[-1].__defaults__[1]; B.pop()
            return self.wrap(B, bind(lname(x), comp, go(env2)))
        return self.wrap(B, ('let', lname(x), text, go(env2)))

    def call_stmt(self, c, s, env, go):
        bad(s, 'call statement')

    def with_(self, s, env, go):
        # with open(path, 'rb') as file: contents = file.read()
        want = "with open(path, 'rb') as file:\n    contents = file.read()"
        if ast.unparse(s) == want and env.get('path') == ('path',):
            self.uses.add('file_bytes')
            self.note(f'{self.pyname}: `with open(path, \'rb\') as file: contents = file.read()` is the parameter file_bytes')
            env2 = dict(env); env2['contents'] = BYTES
            return ('let', 'contents', 'file_bytes', go(env2))
        bad(s, 'with')

    def other_stmt(self, s, rest, env, k, live):
        if self.generator and isinstance(s, ast.Expr) and isinstance(s.value, (ast.Yield, ast.YieldFrom)):
            B = []
            v = s.value.value
            t, ty = self.expr(v, env, B)
            if isinstance(s.value, ast.Yield):
                if ty != STR: bad(s, 'yield of a non-str')
                new = f'({lname(OUT)} ++ [{t}])'
            else:
                if ty != LSTR: bad(s, 'yield from a non-list')
                new = f'({lname(OUT)} ++ {atom(t)})'
            env2 = dict(env)
            return self.wrap(B, ('let', lname(OUT), new, self.block(rest, env2, k, live)))
        return super().other_stmt(s, rest, env, k, live)

    def join_vars(self, blocks, env, live):
        names = set()
        for b in blocks:
            names |= assigned_names(b, self.writes_map)
            if self.generator and any(isinstance(n, (ast.Yield, ast.YieldFrom)) for st in b for n in ast.walk(st)): names.add(OUT)
        live = set(live) | ({OUT} if self.generator else set())
        return sorted(n for n in names if n in live)

    def for_(self, s, env, go, live):
        """for x in <list of str>: body   (no break / continue / return / else); x may be reassigned in the body"""
        if s.orelse or not isinstance(s.target, ast.Name): bad(s, 'for/else or tuple target')
        for n in s.body:
            for x in ast.walk(n):
                if isinstance(x, (ast.Return, ast.Break, ast.Continue)): bad(x, 'return/break/continue inside for')
        B = []
        xs, xty = self.expr(s.iter, env, B)
        if xty != LSTR: bad(s, 'for over something other than a list of str')
        x = s.target.id
        assigned = assigned_names(s.body, self.writes_map) - {x}
        if self.generator and any(isinstance(n, (ast.Yield, ast.YieldFrom)) for st in s.body for n in ast.walk(st)): assigned.add(OUT)
        vars_ = sorted(v for v in assigned if v in env)
        for v in assigned:
            if v not in env and v in live: bad(s, f'{v} is assigned in the loop and read after it but not bound before')
        if x in live: bad(s, 'loop variable used after the loop')
        types = [env[v] for v in vars_]
        env_body = dict(env); env_body[x] = STR
        def final(env2):
            for v, t in zip(vars_, types):
                if env2.get(v) != t: bad(s, f'type of {v} changes in the loop')
            return ('raw', '.ok ' + tuple_pat([self.lvar(v) for v in vars_]))
        body = self._seq(s.body, env_body, final, set(vars_))
        pat = tuple_pat([self.lvar(v) for v in vars_])
        return self.wrap(B, ('foreach', atom(xs), lname(x), pat, body, pat, pat, go(dict(env))))


class Unit:
    def __init__(self, repo):
        self.tree = ast.parse(open(os.path.join(repo, 'lib', 'polib4us.py'), encoding='utf-8').read())
        top = [ast.unparse(n) for n in self.tree.body]
        imports = [t for t in top if t.startswith(('import ', 'from '))]
        self.imports_ok = all(w in imports for w in ('import ast', 'import inspect', 'import re', 'import polib', 'from lib import encodings'))
        for n in ast.walk(self.tree):
            if isinstance(n, (ast.Global, ast.Nonlocal)): bad(n, 'global / nonlocal')
        bound = {}
        for n in self.tree.body:
            if isinstance(n, (ast.FunctionDef, ast.ClassDef)):
                bound[n.name] = bound.get(n.name, 0) + 1
                continue
            for x in ast.walk(n):
                if isinstance(x, ast.Name) and isinstance(x.ctx, ast.Store): bound[x.id] = bound.get(x.id, 0) + 1
                if isinstance(x, ast.alias):
                    k = (x.asname or x.name).split('.')[0]
                    bound[k] = bound.get(k, 0) + 1
        for m in ('ast', 'inspect', 're', 'polib', 'encodings'):
            if bound.get(m, 0) != 1: self.imports_ok = False
        for m in ('int', 'any', 'open', 'len', 'property'):
            if m in bound: self.imports_ok = False
        self.functions = {n.name: n for n in self.tree.body if isinstance(n, ast.FunctionDef)}
        self.classes = {n.name: n for n in self.tree.body if isinstance(n, ast.ClassDef)}
        # regex pins
        self.pins_ok = {}
        self.class_regex = {}
        def pin(name, node, in_class):
            want = PINS[name]
            v = node.value
            meth = None
            if isinstance(v, ast.Attribute) and isinstance(v.value, ast.Call):
                meth, v = v.attr, v.value
            if not (isinstance(v, ast.Call) and dotted(v.func) == 're.compile' and not v.keywords and 1 <= len(v.args) <= 2 and isinstance(v.args[0], ast.Constant) and isinstance(v.args[0].value, str)):
                return False
            flags = dotted(v.args[1]) if len(v.args) == 2 else None
            pat = v.args[0].value
            if flags == 're.VERBOSE': pat = _re.sub(r'\s+', '', pat)
            return (pat, flags, meth) == want
        for n in self.tree.body:
            if isinstance(n, ast.Assign) and len(n.targets) == 1 and isinstance(n.targets[0], ast.Name) and n.targets[0].id in PINS:
                self.pins_ok[n.targets[0].id] = pin(n.targets[0].id, n, False) and bound.get(n.targets[0].id) == 1 and self.imports_ok
        c = self.classes.get('Codecs')
        if c is not None:
            cb = {}
            for n in c.body:
                for x in ast.walk(n) if not isinstance(n, ast.FunctionDef) else [n]:
                    if isinstance(x, ast.Name) and isinstance(x.ctx, ast.Store): cb[x.id] = cb.get(x.id, 0) + 1
                    if isinstance(x, ast.FunctionDef): cb[x.name] = cb.get(x.name, 0) + 1
            for n in c.body:
                if isinstance(n, ast.Assign) and len(n.targets) == 1 and isinstance(n.targets[0], ast.Name) and n.targets[0].id in PINS:
                    k = n.targets[0].id
                    self.pins_ok[k] = pin(k, n, True) and cb.get(k) == 1 and self.imports_ok
                    self.class_regex[k] = PINS[k][2]
            self.class_bound = cb
        self.wrap_ok = False
        self.nested_done = {}
        self.done = {}
        self.dropped = set()

def fn_def(name, binders, rt, tree, doc):
    return (f'/-- {doc} -/\ndef {name} {" ".join(binders)} : Except Py.Exn {atom(lean_type(rt))} :=\n' + '\n'.join(render(tree, 1, STYLE)) + '\n')

def run_fn(u, f, env, generator=False, pyname=None, want=None):
    def run(probe, rt=None):
        fn = Fn(u, f, rt, probe, generator=generator, pyname=pyname)
        env0 = dict(env)
        if generator: env0[OUT] = LSTR
        tree = fn.block(list(f.body), env0, fn.fall_off, set())
        if generator: tree = ('let', lname(OUT), '([] : List Text)', tree)
        return fn, tree
    fn, _ = run(True)
    rt = None
    for t in fn.ret_types: rt = join(rt, t, f)
    if rt is None: raise Untranslatable(f'{f.name} returns nothing')
    if want is not None and rt != want: raise Untranslatable(f'{f.name} returns {rt}')
    fn, tree = run(False, rt)
    return fn, tree, rt

def check_names(f, taken):
    for n in ast.walk(f):
        if isinstance(n, ast.Name) and n.id in taken: bad(n, f'the name {n.id} is taken by the translation')

TAKEN = ('env', 'file_encoding', 'file_bytes', 'exc_', OUT)
ENVB = {'env': '(env : Env)', 'file_encoding': '(file_encoding : Bytes)', 'file_bytes': '(file_bytes : Bytes)'}

def plain_sig(f, params):
    a = f.args
    return not (f.decorator_list or a.vararg or a.kwarg or a.posonlyargs or a.kwonlyargs or a.defaults) and [x.arg for x in a.args] == params

def nested_fn(outer, name):
    fs = [n for n in outer.body if isinstance(n, ast.FunctionDef) and n.name == name]
    if len(fs) != 1: raise Untranslatable(f'{name} not found in {outer.name}')
    return fs[0]

def generate(repo):
    _mangled.clear()
    u = Unit(repo)
    out = [HEADER]
    # ---- _wrap_octal_escape
    f = u.functions.get('_wrap_octal_escape')
    if f is None or not plain_sig(f, ['match']): raise Untranslatable('_wrap_octal_escape')
    check_names(f, TAKEN)
    fn = Fn(u, f, STR, False)
    if len(f.body) != 1 or not isinstance(f.body[0], ast.Return): bad(f, '_wrap_octal_escape: body')
    B = []
    t, ty = fn.expr(f.body[0].value, {'match': OCTMATCH}, B)
    if B or ty != STR: bad(f, '_wrap_octal_escape: result')
    out.append(f'/-- `lib.polib4us._wrap_octal_escape`; `match_` is group 1 of a match of `_big_octal_escape_re` -/\ndef _wrap_octal_escape (match_ : Text) : Text :=\n  {t}\n')
    u.wrap_ok = True
    # ---- polib_unescape and its inner function
    f = u.functions.get('polib_unescape')
    if f is None or not plain_sig(f, ['s']): raise Untranslatable('polib_unescape')
    check_names(f, TAKEN)
    if "def unescape_patch():\n    polib.unescape = polib_unescape" not in [ast.unparse(n).split('\n', 1)[-1] if isinstance(n, ast.FunctionDef) and n.decorator_list else '' for n in u.tree.body]:
        raise Untranslatable('polib_unescape is not what unescape_patch installs')
    inner = nested_fn(f, 'unescape')
    if not plain_sig(inner, ['match']): bad(inner, 'signature of unescape')
    fn, tree, rt = run_fn(u, inner, {'match': RUNMATCH}, pyname='polib_unescape.unescape', want=STR)
    binders = [ENVB[p] for p in ('env', 'file_encoding') if p in fn.uses] + ['(match_ : Py.Run)']
    out.append(fn_def('polib_unescape_unescape', binders, rt, tree, 'the inner `unescape(match)` of `lib.polib4us.polib_unescape`; `match_`: a match of `_escapes_re`'))
    u.nested_done['unescape'] = ('polib_unescape_unescape', set(fn.uses))
    outer_body = [n for n in f.body if n is not inner]
    fo = ast.FunctionDef(name='polib_unescape', args=f.args, body=outer_body, decorator_list=[], lineno=f.lineno)
    fn, tree, rt = run_fn(u, fo, {'s': STR}, want=STR)
    binders = [ENVB[p] for p in ('env', 'file_encoding') if p in fn.uses] + ['(s : Text)']
    out.append(fn_def('polib_unescape', binders, rt, tree, '`lib.polib4us.polib_unescape` (installed as `polib.unescape`)'))
    # ---- the flags setter
    p = u.functions.get('poentry_flags_patch')
    if p is None: raise Untranslatable('poentry_flags_patch not found')
    setter, getter = nested_fn(p, 'set_flags'), nested_fn(p, 'get_flags')
    if ast.unparse(getter) != 'def get_flags(self):\n    return self._i18nspector_flags' or not plain_sig(setter, ['self', 'flags']) or \
       'polib.POEntry.flags = property(get_flags, set_flags)' not in [ast.unparse(n) for n in p.body] or len(p.body) != 3:
        raise Untranslatable('poentry_flags_patch: getter / property')
    if len(setter.body) != 1 or not isinstance(setter.body[0], ast.Assign) or ast.unparse(setter.body[0].targets[0]) != 'self._i18nspector_flags':
        bad(setter, 'set_flags: body')
    check_names(setter, TAKEN)
    fr = ast.FunctionDef(name='set_flags', args=setter.args, body=[ast.copy_location(ast.Return(value=setter.body[0].value), setter.body[0])], decorator_list=[], lineno=setter.lineno)
    fn, tree, rt = run_fn(u, fr, {'flags': LSTR}, want=LSTR)
    out.append(fn_def('set_flags', ['(flags : List Text)'], rt, tree, 'the `POEntry.flags` setter of `lib.polib4us.poentry_flags_patch`: the list it stores'))
    # ---- translated
    p = u.functions.get('poentry_translated_patch')
    if p is None: raise Untranslatable('poentry_translated_patch not found')
    tr = nested_fn(p, 'translated')
    if not plain_sig(tr, ['self']) or 'polib.POEntry.translated = translated' not in [ast.unparse(n) for n in p.body] or len(p.body) != 2:
        raise Untranslatable('poentry_translated_patch')
    check_names(tr, TAKEN)
    fn, tree, rt = run_fn(u, tr, {'self': ENTRY}, want=BOOL)
    out.append(fn_def('translated', ['(self : Entry)'], rt, tree, '`POEntry.translated` as patched by `lib.polib4us.poentry_translated_patch` (its truth value)'))
    # ---- Codecs._is_ignored_comment, Codecs.open
    c = u.classes.get('Codecs')
    if c is None: raise Untranslatable('class Codecs not found')
    meths = {n.name: n for n in c.body if isinstance(n, ast.FunctionDef)}
    m = meths.get('_is_ignored_comment')
    if m is None or [dotted(d) for d in m.decorator_list] != ['staticmethod'] or u.class_bound.get('_is_ignored_comment') != 1: raise Untranslatable('Codecs._is_ignored_comment')
    m2 = ast.FunctionDef(name='Codecs__is_ignored_comment', args=m.args, body=m.body, decorator_list=[], lineno=m.lineno)
    if not plain_sig(m2, ['line']): bad(m, 'signature')
    check_names(m, TAKEN)
    fn, tree, rt = run_fn(u, m2, {'line': STR}, pyname='Codecs._is_ignored_comment', want=BOOL)
    out.append(fn_def('Codecs__is_ignored_comment', ['(env : Env)', '(line : Text)'], rt, tree, '`lib.polib4us.Codecs._is_ignored_comment`'))
    u.done['Codecs__is_ignored_comment'] = True
    m = meths.get('open')
    if m is None or m.decorator_list or u.class_bound.get('open') != 1: raise Untranslatable('Codecs.open')
    m2 = ast.FunctionDef(name='Codecs_open', args=m.args, body=m.body, decorator_list=[], lineno=m.lineno)
    if not plain_sig(m2, ['self', 'path', 'mode', 'encoding']): bad(m, 'signature')
    check_names(m, TAKEN)
    fn, tree, rt = run_fn(u, m2, {'self': ('codecs',), 'path': ('path',), 'mode': STR, 'encoding': NAME}, generator=True, pyname='Codecs.open', want=LSTR)
    out.append(fn_def('Codecs_open', ['(env : Env)', '(file_bytes : Bytes)', '(mode : Text)', '(encoding : Bytes)'], rt, tree,
                      '`lib.polib4us.Codecs.open(path, mode, encoding)`: the lines the generator yields; `file_bytes` = the content of `path`'))
    out.append('/- Statements discharged statically by the translator:\n' + ''.join(f'  {d}\n' for d in sorted(u.dropped)) + '-/\n')
    out.append('end I18n.Generated.Polib4us\n')
    return '\n'.join(out)

HEADER = '''/-
GENERATED by tools/translate/polib4us2lean.py from lib/polib4us.py — do not edit.
Regenerated from the repository's working tree on every check; `I18n/Props/C10Tie.lean` proves the definitions equal to the model of
`Model/Po.lean`.  The target kit is `Model/PoPy.lean`.
-/
import I18n.Model.PoPy
set_option linter.unusedVariables false
namespace I18n.Generated.Polib4us
open I18n I18n.Po

'''

def main():
    repo = sys.argv[1] if len(sys.argv) > 1 else '/repo'
    dest = sys.argv[2] if len(sys.argv) > 2 else os.path.join(os.path.dirname(os.path.abspath(__file__)), '..', '..', 'lean', 'I18n', 'Generated', 'Polib4us.lean')
    try:
        try:
            text = generate(repo)
        except (SyntaxError, KeyError, AttributeError, TypeError, IndexError, ValueError, AssertionError, RecursionError, OSError) as exc:
            raise Untranslatable(f'{type(exc).__name__} while translating: {exc}')
    except Untranslatable as exc:
        msg = str(exc).replace('"', "'").replace('\\', '/')
        text = HEADER + (f'-- UNTRANSLATABLE: {msg}\n'
                         '/-- deliberately does not compile: the current lib/polib4us.py is outside the translator\'s subset (see above) -/\n'
                         'def untranslatable : Unit := the_current_source_of_lib_polib4us_is_untranslatable\n'
                         'end I18n.Generated.Polib4us\n')
        print(f'untranslatable: {exc}', file=sys.stderr)
        old = open(dest, encoding='utf-8').read() if os.path.exists(dest) else None
        if old != text: open(dest, 'w', encoding='utf-8').write(text)
        sys.exit(3)
    old = open(dest, encoding='utf-8').read() if os.path.exists(dest) else None
    if old != text:
        open(dest, 'w', encoding='utf-8').write(text)
        print('changed')
    else:
        print('unchanged')

if __name__ == '__main__':
    main()
