#!/usr/bin/env python3
"""chkplurals2lean: regenerate lean/I18n/Generated/ChkPlurals.lean from the CURRENT source of

  lib/misc.py            `format_range(rng, *, max)`
  lib/check/__init__.py  `Checker.check_plurals(self, ctx)` — the part after the header value has been parsed (from the first statement after
                         `try: (n, expr, ljunk, rjunk) = gettext.parse_plural_forms(plural_forms, strict=False) except …:` to the end: junk tags, number
                         of forms, comparison with the language registry, the 200-value window loop with its for/else, break and the two arithmetic
                         handlers, the codomain / period gap analysis, the final loop), as the function `check_plurals_tail` of the variables that are
                         live at that point.

`Props/C07ChkTie.lean` proves `format_range (range(a, b)) 5` equal to the model's `formatRange` and `check_plurals_tail` equal to the model's
`CheckPlurals.analyse` (Model/CheckPlurals.lean), for ALL inputs.

Statement layer: tools/translate/pytr (core, loops, trystate).  What is specific here — the trusted base of this tie:

  self, ctx      `self.tag(name, *extras)` appends a typed `TagCall` to `out` (str → .str, tags.safestr / tags.safe_format → .safe, int → .int; the hint, which is
                 a str or a safestr, is an opaque `Extra`); `ctx.plural_preimage` is the variable `ctx_plural_preimage` (in and out); the result is
                 `(out, ctx_plural_preimage)`.
  expr           a parsed plural expression is a value of the type parameter `E` with the record `ops : CheckPlurals.Py.ExprOps E`: `expr(i)` is `ops.call expr i`,
                 `expr.codomain()` / `expr.period()` are `ops.codomain expr` / `ops.period expr` (each may raise); calling a variable that may be None raises
                 TypeError when it is.  (The tie instantiates `ops` with the regenerated evaluators of lib/intexpr.py at 32 bits: `Model/ChkPluralsGen.lean`.)
  numbers        an int known to be non-negative by construction (literals, `len`, loop variables of `range(<such an int>)`, `n`) is `Nat`, otherwise `Int`
                 (mixed operations are done in `Int`; `a - b` is always `Int`); `1e999` is `PyKit.infinity : PyKit.IntInf` and `sum((a, b))`, `<` go through it.
  containers     lists are `List`; a list that receives ints and strs holds `CheckPlurals.Py.IntOrStr`; dicts are association lists in insertion order;
                 `collections.defaultdict(list)` with `d[k] += vs` is `PyKit.defaultListExtend`; `sorted(d)` on int keys is `CheckPlurals.sortedKeys d`; `k in d` is
                 `PyKit.dictMem`; a `range(a, b)` object kept as a value is the pair `(a, b)` and iterating it is `PyKit.rangeInt a b`; `xs[-1]` is
                 `PyKit.listGetInt xs (-1)`; `xs[-k:] = ys` is `PyKit.setTail xs k ys`; one-element unpacking `[x] = xs` raises ValueError on any other length.
  strings        str is `List Char`; f-strings and `str(i)` concatenate `CheckPlurals.natStr` / `intStr`; `tags.safe_format(template, *ints)` with a literal template is
                 the template with each `{}` replaced by `str(int)` (`tags._escape` leaves digits and `-` alone), as a safestr; `tags.safe_format(f'…')` of an
                 f-string without braces outside its replacement fields is that string, as a safestr; `str.join(sep, map(str, xs))` is `sep.intercalate`.
  other modules  `gettext.parse_plural_forms(s)` (strict) is `ops.parse s` (the tie instantiates it with the REGENERATED `GettextPf.parse_plural_forms_strict` of
                 gettextpf2lean.py, its exceptions mapped by `CheckPlurals.Py.pfExc`); `misc.format_range(rng, max=k)` is the regenerated `format_range` of this file.
  exceptions     `try … except OverflowError … except ZeroDivisionError` with the state at the time of the exception: pytr/trystate.py.

Anything else raises Untranslatable: exit 3, marker file that does not compile, dependent obligations broken.
"""
import ast, copy, os, sys
sys.path.insert(0, os.path.dirname(os.path.abspath(__file__)))
from pytr import (Untranslatable, bad, lname, atom, render, bind, joinc, tuple_pat, Style, Stmts, _mangled, contains, terminates)
from pytr.loops import Loops, render_loops, reads_before_writes
from pytr.trystate import TryState, render_try

def mk(*a): return tuple(a)
NAT, INT, INTINF, BOOL, STR, SAFE, EXTRA, NONE, EMPTY, DDEMPTY, EXPR, RANGE, TAGS, IOS, MSGREPR = (mk('nat'), mk('int'), mk('intinf'), mk('bool'), mk('str'),
    mk('safe'), mk('extra'), mk('none'), mk('empty'), mk('ddempty'), mk('expr'), mk('range'), mk('tags'), mk('ios'), mk('msgrepr'))
def OPT(t): return t if t[0] == 'opt' else ('opt', t)
def LIST(t): return ('list', t)
def DICT(k, v): return ('dict', k, v)
def DDICT(k, v): return ('ddict', k, v)        # defaultdict(list): k -> list of v
def TUP(*ts): return ('tup',) + tuple(ts)
PREIMAGE = DICT(INT, LIST(NAT))
NUM = (NAT, INT, INTINF)

SIMPLE = {'nat': 'Nat', 'int': 'Int', 'intinf': 'PyKit.IntInf', 'bool': 'Bool', 'str': 'List Char', 'safe': 'List Char', 'extra': 'Extra', 'none': 'Unit',
          'expr': 'E', 'range': '(Int × Int)', 'tags': 'List TagCall', 'ios': 'CheckPlurals.Py.IntOrStr', 'msgrepr': 'List Char'}
def lean_type(t):
    k = t[0]
    if k in SIMPLE: return SIMPLE[k]
    if k == 'opt': return f'Option {atom(lean_type(t[1]))}'
    if k == 'list': return f'List {atom(lean_type(t[1]))}'
    if k == 'dict': return f'List ({lean_type(t[1])} × {lean_type(t[2])})'
    if k == 'ddict': return f'List ({lean_type(t[1])} × List {atom(lean_type(t[2]))})'
    if k == 'tup': return '(' + ' × '.join(lean_type(x) for x in t[1:]) + ')'
    raise Untranslatable(f'no Lean type for {t}')

def join(a, b, node=None):
    if a == b: return a
    if a == NONE: return OPT(b)
    if b == NONE: return OPT(a)
    if a[0] == 'opt' and b[0] != 'opt': return OPT(join(a[1], b, node))
    if b[0] == 'opt' and a[0] != 'opt': return OPT(join(a, b[1], node))
    if a[0] == 'opt' and b[0] == 'opt': return OPT(join(a[1], b[1], node))
    if a == EMPTY and b[0] in ('list', 'dict'): return b
    if b == EMPTY and a[0] in ('list', 'dict'): return a
    if a == DDEMPTY and b[0] == 'ddict': return b
    if b == DDEMPTY and a[0] == 'ddict': return a
    if a in NUM and b in NUM: return NUM[max(NUM.index(a), NUM.index(b))]
    if a[0] == 'tup' and b[0] == 'tup' and len(a) == len(b): return ('tup',) + tuple(join(x, y, node) for x, y in zip(a[1:], b[1:]))
    if a[0] == 'list' and b[0] == 'list': return LIST(join_elem(a[1], b[1], node))
    bad(node, f'incompatible types {a} and {b}')

def join_elem(a, b, node=None):
    """element types of a list: ints and strs may be mixed"""
    if a == b: return a
    if {a, b} <= {NAT, INT, STR, IOS} and (STR in (a, b) or IOS in (a, b)): return IOS
    return join(a, b, node)

def coerce(text, frm, to, node=None):
    if frm == to: return text
    if to[0] == 'opt':
        if frm == NONE: return 'none'
        if frm[0] != 'opt': return f'(some {atom(coerce(text, frm, to[1], node))})'
    if frm == EMPTY and to[0] in ('list', 'dict'): return '[]'
    if frm == DDEMPTY and to[0] == 'ddict': return '[]'
    if frm == NAT and to == INT: return f'({text} : Int)'
    if frm == INT and to == INTINF: return f'(PyKit.IntInf.fin {atom(text)})'
    if frm == NAT and to == INTINF: return f'(PyKit.IntInf.fin ({text} : Int))'
    if frm[0] == 'tup' and to[0] == 'tup' and len(frm) == len(to):
        n = len(frm) - 1
        projs = [f'{atom(text)}.{"2." * i}1' if i < n - 1 else f'{atom(text)}.{"2." * (i - 1)}2' for i in range(n)]
        return '(' + ', '.join(coerce(p, f, t, node) for p, f, t in zip(projs, frm[1:], to[1:])) + ')'
    if to == IOS:
        if frm == INT: return f'(CheckPlurals.Py.IntOrStr.int {atom(text)})'
        if frm == NAT: return f'(CheckPlurals.Py.IntOrStr.int ({text} : Int))'
        if frm == STR: return f'(CheckPlurals.Py.IntOrStr.str {atom(text)})'
    if frm[0] == 'list' and to[0] == 'list':
        return f'({atom(text)}.map (fun x => {coerce("x", frm[1], to[1], node)}))'
    bad(node, f'cannot use a value of type {frm} where {to} is expected')

def tuple_type(types):
    if not types: return 'Unit'
    if len(types) == 1: return atom(lean_type(types[0]))
    return '(' + ' × '.join(lean_type(t) for t in types) + ')'

class Types:
    NONE, INT = NONE, INT
    join = staticmethod(join); coerce = staticmethod(coerce); tuple_type = staticmethod(tuple_type)

def chars(s):
    if not s.isascii() or '"' in s or '\\' in s: raise Untranslatable(f'str literal {s!r}')
    return f'"{s}".toList'

class PStyle(Style):
    def extra(self, node, ind):
        r = render_loops(node, ind, self, render)
        if r is None: r = render_try(node, ind, self, render)
        if r is None: raise AssertionError(node[0])
        return r
STYLE = PStyle('Py.Exc', 'PyKit.tryExcept', 'PyKit.forRange')

EXC = {'ValueError': '.ValueError', 'TypeError': '.TypeError'}

class NoWrites(dict):
    def get(self, k, d=None): return k == 'tag'

class Fn(TryState, Loops, Stmts):
    T = Types
    EXC_ASSERT = '.error .AssertionError'
    CAUGHT = {}
    CAUGHT_CLASS = {'OverflowError': 'Py.Exc.Overflow', 'ZeroDivisionError': 'Py.Exc.ZeroDivision'}
    STYLE_ERR = 'Py.Exc'
    DUPLICATE_ON_RETURN = True
    STATE, STATE_L = 'self', 'out'

    def __init__(self, unit, name, result, writes):
        self.u, self.name, self.writes = unit, name, writes
        self.writes_map = NoWrites()
        self.ret_types, self.ret_type = None, None
        self.ntmp = 0
        self.quiet = 0
        self.result = result            # (value text, type, env, node) -> Lean text of what the function returns
        self.seams = {}                 # id(first statement) -> (definition name, does it run to the end of the body)
        self.result_type = None
        self.loop_init()

    def note(self, msg):
        if not self.quiet: self.u.dropped.add(msg)

    # ---------------- seams: a top-level statement (or the rest of the body from a statement on) as a definition of its own
    def block(self, stmts, env, k, live):
        if stmts and self.seams and id(stmts[0]) in self.seams and not self.loops and not getattr(self, 'try_depth', 0):
            name, to_end = self.seams[id(stmts[0])]
            return self.outlined(name, to_end, stmts, env, k, live)
        return super().block(stmts, env, k, live)

    def outlined(self, name, to_end, stmts, env, k, live):
        part, rest = (list(stmts), []) if to_end else ([stmts[0]], list(stmts[1:]))
        seams, self.seams = self.seams, {}
        try:
            live_rest = self.live_after(rest, live)
            jvars = [] if to_end else self.join_vars([part], env, live_rest)
            used = reads_before_writes(part)[0] | set(jvars) | ({self.STATE} if self.writes else set())
            params = [v for v in env if v in used and env[v] not in (EMPTY, DDEMPTY, NONE) and v not in self.u.modules]
            sig = ' '.join(f'({self.lvar(v)} : {lean_type(env[v])})' for v in params)
            args = ' '.join(self.lvar(v) for v in params)
            if to_end:
                tree = super().block(part, dict(env), k, live)
                ty = self.result_type
                call = ('raw', f'{name} ops {args}')
            else:
                trees, types, views = self.run_join([lambda kk: self._seq(part, dict(env), kk, set(jvars))], env, jvars, part[0])
                tree = trees[0]
                ty = tuple_type(types)
                env2 = dict(env)
                for v, t in zip(jvars, types): env2[v] = t
                env2.update(views)
        finally:
            self.seams = seams
        if self.ret_types is None:
            doc = f'/-- `Checker.check_plurals`, lines {part[0].lineno}–{part[-1].end_lineno} of the current source ({self.u.seam_docs.get(name, name)}) -/\n'
            self.u.defs[name] = (doc + f'def {name} {{E : Type}} (ops : CheckPlurals.Py.ExprOps E) {sig} :\n    Except Py.Exc {ty} :=\n' +
                                 '\n'.join(render(tree, 1, STYLE)) + '\n')
        if to_end: return call
        return joinc(tuple_pat([self.lvar(v) for v in jvars]), ('raw', f'{name} ops {args}'), ty, self.block(rest, env2, k, live))

    def live_after(self, rest, live):
        return reads_before_writes(rest)[0] | live | ({self.STATE} if self.writes else set())

    def ok(self, value_text, ty, env, node=None):
        if self.ret_types is not None:
            self.ret_types.append(ty)
            return ('raw', '.ok default')
        return ('raw', self.loop_ok(self.result(value_text, ty, env, node)))

    def value(self, e, env, B):
        t, ty = self.expr(e, env, B)
        return 'pure', t, ty, False

    def raise_(self, s, env, B):
        e = s.exc
        if s.cause is None and isinstance(e, ast.Call) and isinstance(e.func, ast.Name) and e.func.id in EXC and e.func.id not in env and \
           all(isinstance(a, ast.Constant) for a in e.args) and not e.keywords:
            return f'.error {EXC[e.func.id]}'
        bad(s, 'raise')

    # ---------------- loops
    def iter_spec(self, it, env, B):
        if isinstance(it, ast.Call) and isinstance(it.func, ast.Name) and it.func.id == 'range' and 'range' not in env and len(it.args) == 1 and not it.keywords:
            n, nty = self.expr(it.args[0], env, B)
            if nty == NAT: return f'(List.range {atom(n)})', NAT
            if nty == INT: return f'(PyKit.rangeInt 0 {atom(n)})', INT
            bad(it, f'range of {nty}')
        xs, xty = self.expr(it, env, B)
        if xty == RANGE: return f'(PyKit.rangeInt {atom(xs)}.1 {atom(xs)}.2)', INT
        if xty == EMPTY: bad(it, 'for over a list that is always empty')
        if xty[0] != 'list': bad(it, f'for over {xty}')
        return atom(xs), xty[1]

    def elem_pattern(self, tg, ety, env):
        if isinstance(tg, ast.Name):
            return [tg.id], [ety], lname(tg.id)
        if isinstance(tg, ast.Tuple) and all(isinstance(x, ast.Name) for x in tg.elts) and ety[0] == 'tup' and len(ety) - 1 == len(tg.elts):
            names = [x.id for x in tg.elts]
            return names, list(ety[1:]), '(' + ', '.join(lname(x) for x in names) + ')'
        bad(tg, 'loop target')

    def for_(self, s, env, go, live):
        return self.for_iter(s, env, go, live)

    def try_(self, s, env, go, live):
        return self.try_state(s, env, go, live)

    # ---------------- expressions
    def num(self, text, frm, to, node):
        return coerce(text, frm, to, node)

    def strof(self, t, ty, node):
        """`str(x)` / a replacement field of an f-string"""
        if ty in (STR, SAFE): return t
        if ty == NAT: return f'CheckPlurals.natStr {atom(t)}'
        if ty == INT: return f'CheckPlurals.intStr {atom(t)}'
        if ty == IOS: return f'CheckPlurals.Py.IntOrStr.toStr {atom(t)}'
        bad(node, f'str() of {ty}')

    def list_lit(self, e, env, B, ety=None):
        items = [self.expr(x, env, B) for x in e.elts]
        if not items: return '[]', EMPTY
        ty = ety
        for _, t in items:
            ty = t if ty is None else join_elem(ty, t, e)
        return '[' + ', '.join(coerce(t, ty0, ty, e) for t, ty0 in items) + ']', LIST(ty)

    def expr(self, e, env, B):
        if isinstance(e, ast.Constant):
            v = e.value
            if v is None: return '()', NONE
            if v is True: return 'true', BOOL
            if v is False: return 'false', BOOL
            if isinstance(v, int) and v >= 0: return str(v), NAT
            if isinstance(v, float) and v == float('inf'): return 'PyKit.infinity', INTINF
            if isinstance(v, str): return chars(v), STR
            bad(e, f'literal {v!r}')
        if isinstance(e, ast.Name):
            if e.id in env:
                if env[e.id] in (EMPTY, DDEMPTY): return '[]', env[e.id]
                return lname(e.id), env[e.id]
            bad(e, f'unknown name {e.id}')
        if isinstance(e, ast.List):
            return self.list_lit(e, env, B)
        if isinstance(e, ast.Tuple):
            items = [self.expr(x, env, B) for x in e.elts]
            if len(items) < 2: bad(e, 'tuple')
            return '(' + ', '.join(t for t, _ in items) + ')', TUP(*[t for _, t in items])
        if isinstance(e, ast.Dict) and not e.keys:
            return '[]', EMPTY
        if isinstance(e, ast.JoinedStr):
            return self.fstring(e, env, B), STR
        if isinstance(e, ast.BinOp) and isinstance(e.op, (ast.Add, ast.Sub)):
            lt, lty = self.expr(e.left, env, B)
            if isinstance(e.op, ast.Add) and (lty == EMPTY or lty[0] == 'list'):
                if isinstance(e.right, ast.List):
                    rt, rty = self.list_lit(e.right, env, B, None if lty == EMPTY else lty[1])
                else:
                    rt, rty = self.expr(e.right, env, B)
                if rty == EMPTY: return lt, lty
                if rty[0] != 'list': bad(e, f'+ on {lty}, {rty}')
                if lty == EMPTY: return rt, rty
                ty = join(lty, rty, e)
                return f'({coerce(lt, lty, ty, e)} ++ {coerce(rt, rty, ty, e)})', ty
            rt, rty = self.expr(e.right, env, B)
            if lty in (NAT, INT) and rty in (NAT, INT):
                if isinstance(e.op, ast.Add):
                    ty = join(lty, rty, e)
                    return f'({coerce(lt, lty, ty, e)} + {coerce(rt, rty, ty, e)})', ty
                return f'({coerce(lt, lty, INT, e)} - {coerce(rt, rty, INT, e)})', INT
            bad(e, f'{type(e.op).__name__} on {lty}, {rty}')
        if isinstance(e, ast.UnaryOp) and isinstance(e.op, ast.Not):
            return f'(!{self.cond(e.operand, env, B)})', BOOL
        if isinstance(e, ast.UnaryOp) and isinstance(e.op, ast.USub) and isinstance(e.operand, ast.Constant) and isinstance(e.operand.value, int) and e.operand.value > 0:
            return f'(-{e.operand.value})', INT
        if isinstance(e, ast.BoolOp):
            return self.boolop(e, env, B)
        if isinstance(e, ast.Compare):
            return self.compare(e, env, B)
        if isinstance(e, ast.Subscript):
            if isinstance(e.slice, ast.Slice): bad(e, 'slice')
            vt, vty = self.expr(e.value, env, B)
            k, kty = self.expr(e.slice, env, B)
            if vty[0] == 'list' and kty in (NAT, INT):
                return self.hoist(B, f'PyKit.listGetInt {atom(vt)} {atom(coerce(k, kty, INT, e))}'), vty[1]
            bad(e, f'subscript of {vty}')
        if isinstance(e, ast.ListComp):
            return self.listcomp(e, env, B)
        if isinstance(e, ast.Call):
            return self.call(e, env, B)
        bad(e, f'expression {type(e).__name__}')

    def fstring(self, e, env, B):
        parts = []
        for p in e.values:
            if isinstance(p, ast.Constant) and isinstance(p.value, str): parts.append(chars(p.value))
            elif isinstance(p, ast.FormattedValue) and p.conversion == -1 and p.format_spec is None:
                t, ty = self.expr(p.value, env, B)
                parts.append(self.strof(t, ty, e))
            else: bad(e, 'f-string')
        return '(' + ' ++ '.join(parts) + ')'

    def boolop(self, e, env, B):
        """and / or; a partial operation on the right of `and` is evaluated only when everything to its left holds"""
        if isinstance(e.op, ast.Or):
            parts = []
            for v in e.values:
                B2 = []
                parts.append(self.cond(v, env, B2))
                if B2: bad(e, 'partial operation under `or`')
            return '(' + ' || '.join(parts) + ')', BOOL
        def go(vals, env, prefix):
            v, rest = vals[0], vals[1:]
            B2 = []
            c = self.cond(v, env, B2)
            for b_ in B2:
                d = getattr(b_, '__defaults__', None)
                if not d or len(d) != 2: bad(e, 'partial operation on the right of `and`')
                t, comp = d
                guard = ' && '.join(prefix) if prefix else None
                comp2 = f'(if {guard} then {comp} else .ok default)' if guard else comp
                B.append(lambda r, t=t, comp2=comp2: bind(t, comp2, r))
            if not rest: return c
            return f'({c} && {go(rest, env, prefix + [c])})'
        return go(list(e.values), env, []), BOOL

    def compare(self, e, env, B):
        if len(e.ops) != 1: bad(e, 'chained comparison')
        op = type(e.ops[0]).__name__
        L, R = e.left, e.comparators[0]
        if op in ('Is', 'IsNot') and isinstance(R, ast.Constant) and R.value is None:
            lt, lty = self.expr(L, env, B)
            if lty == NONE: return ('true' if op == 'Is' else 'false'), BOOL
            if lty[0] != 'opt': return ('false' if op == 'Is' else 'true'), BOOL
            return (f'{atom(lt)}.isNone' if op == 'Is' else f'{atom(lt)}.isSome'), BOOL
        lt, lty = self.expr(L, env, B)
        rt, rty = self.expr(R, env, B)
        if op in ('In', 'NotIn'):
            if rty[0] in ('dict', 'ddict') and join(lty, rty[1], e) == rty[1]:
                t = f'PyKit.dictMem {atom(rt)} {atom(coerce(lt, lty, rty[1], e))}'
                return (f'({t})' if op == 'In' else f'(!{t})'), BOOL
            bad(e, f'membership of {lty} in {rty}')
        if op in ('Eq', 'NotEq'):
            if lty == NONE or rty == NONE: bad(e, '== None')
            ty = join(lty, rty, e)
            base = ty[1] if ty[0] == 'opt' else ty
            if base not in (NAT, INT, STR, BOOL): bad(e, f'== between {lty} and {rty}')
            return f'(decide ({coerce(lt, lty, ty, e)} {"=" if op == "Eq" else "≠"} {coerce(rt, rty, ty, e)}))', BOOL
        sym = dict(Lt='<', LtE='≤', Gt='>', GtE='≥').get(op)
        if sym and lty in NUM and rty in NUM:
            ty = join(lty, rty, e)
            a, b_ = coerce(lt, lty, ty, e), coerce(rt, rty, ty, e)
            if ty == INTINF:
                if op != 'Lt': bad(e, f'{op} with 1e999')
                return f'(PyKit.IntInf.lt {atom(a)} {atom(b_)})', BOOL
            return f'(decide ({a} {sym} {b_}))', BOOL
        bad(e, f'comparison {op} between {lty} and {rty}')

    def cond(self, e, env, B):
        t, ty = self.expr(e, env, B)
        if ty == BOOL: return t
        if ty in (EMPTY, DDEMPTY): return 'false'
        if ty[0] in ('list', 'dict', 'ddict') or ty in (STR, SAFE): return f'(!{atom(t)}.isEmpty)'
        if ty[0] == 'opt' and (ty[1][0] in ('list', 'dict') or ty[1] in (STR, SAFE)):         # None and the empty container are both falsy
            return f'(match {t} with | some x => !x.isEmpty | none => false)'
        bad(e, f'truth value of {ty}')

    def listcomp(self, e, env, B):
        """[(a, b) for a, b in map(gettext.parse_plural_forms, xs) if c]   (c without partial operations)"""
        g = e.generators
        if len(g) != 1 or g[0].is_async or len(g[0].ifs) != 1: bad(e, 'list comprehension')
        it = g[0].iter
        if not (isinstance(it, ast.Call) and isinstance(it.func, ast.Name) and it.func.id == 'map' and 'map' not in env and len(it.args) == 2 and not it.keywords and
                self.is_module_attr(it.args[0], 'gettext', 'parse_plural_forms')):
            bad(e, 'list comprehension over something other than map(gettext.parse_plural_forms, xs)')
        xs, xty = self.expr(it.args[1], env, B)
        if xty != LIST(STR): bad(e, f'map(parse_plural_forms, …) over {xty}')
        ety = TUP(NAT, EXPR)
        names, types, pat = self.elem_pattern(g[0].target, ety, env)
        if not (isinstance(e.elt, ast.Tuple) and [getattr(x, 'id', None) for x in e.elt.elts] == names): bad(e, 'list comprehension element')
        env2 = dict(env)
        for n_, t_ in zip(names, types): env2[n_] = t_
        B2 = []
        c = self.cond(g[0].ifs[0], env2, B2)
        if B2: bad(e, 'partial operation in a comprehension condition')
        parsed = self.hoist(B, f'PyKit.mapM (fun s => ops.parse s) {atom(xs)}')
        return f'({parsed}.filter (fun {pat} => {c}))', LIST(ety)

    def is_module_attr(self, f, mod, attr):
        return isinstance(f, ast.Attribute) and f.attr == attr and isinstance(f.value, ast.Name) and f.value.id == mod and \
            self.u.imports.get(mod) == 'lib.' + mod

    def call(self, e, env, B):
        f = e.func
        if isinstance(f, ast.Name) and f.id in env:
            # expr(i)
            ty = env[f.id]
            base = ty[1] if ty[0] == 'opt' else ty
            if base != EXPR or len(e.args) != 1 or e.keywords: bad(e, f'call of a value of type {ty}')
            a, aty = self.expr(e.args[0], env, B)
            if aty not in (NAT, INT): bad(e, 'argument of a plural expression')
            arg = atom(coerce(a, aty, INT, e))
            if ty[0] == 'opt':
                return self.hoist(B, f'(show Except Py.Exc Int from match {lname(f.id)} with | none => .error .TypeError | some f => ops.call f {arg})'), INT
            return self.hoist(B, f'ops.call {lname(f.id)} {arg}'), INT
        if isinstance(f, ast.Name):
            if f.id == 'len' and len(e.args) == 1 and not e.keywords:
                t, ty = self.expr(e.args[0], env, B)
                if ty in (EMPTY, DDEMPTY): return '0', NAT
                if ty[0] in ('list', 'dict', 'ddict') or ty == STR: return f'{atom(t)}.length', NAT
                bad(e, f'len of {ty}')
            if f.id == 'str' and len(e.args) == 1 and not e.keywords:
                t, ty = self.expr(e.args[0], env, B)
                return f'({self.strof(t, ty, e)})', STR
            if f.id == 'range' and len(e.args) in (1, 2) and not e.keywords:
                a = [self.expr(x, env, B) for x in e.args]
                if any(t not in (NAT, INT) for _, t in a): bad(e, 'range of a non-int')
                a = [coerce(t, ty, INT, e) for t, ty in a]
                if len(a) == 1: a = ['0'] + a
                return f'({a[0]}, {a[1]})', RANGE
            if f.id == 'sorted' and len(e.args) == 1 and not e.keywords:
                t, ty = self.expr(e.args[0], env, B)
                if ty[0] == 'dict' and ty[1] == INT and ty == PREIMAGE: return f'(CheckPlurals.sortedKeys {atom(t)})', LIST(INT)
                bad(e, f'sorted() of {ty}')
            if f.id == 'sum' and len(e.args) == 1 and not e.keywords:
                t, ty = self.expr(e.args[0], env, B)
                if ty[0] == 'tup' and len(ty) == 3 and all(x in NUM for x in ty[1:]):
                    rt = join(ty[1], ty[2], e)
                    a, b_ = coerce(f'{atom(t)}.1', ty[1], rt, e), coerce(f'{atom(t)}.2', ty[2], rt, e)
                    if rt == INTINF: return f'(PyKit.IntInf.add {atom(a)} {atom(b_)})', INTINF
                    return f'({a} + {b_})', rt
                bad(e, f'sum() of {ty}')
            if f.id == 'dict' and len(e.args) == 1 and not e.keywords:
                t, ty = self.expr(e.args[0], env, B)
                if ty == DDEMPTY: return '[]', EMPTY
                if ty[0] == 'ddict': return t, DICT(ty[1], LIST(ty[2]))
                bad(e, f'dict() of {ty}')
            bad(e, f'call of {f.id}')
        if isinstance(f, ast.Attribute):
            if isinstance(f.value, ast.Name) and f.value.id in env and env[f.value.id] == EXPR and f.attr in ('codomain', 'period') and not e.args and not e.keywords:
                return self.hoist(B, f'ops.{f.attr} {lname(f.value.id)}'), OPT(TUP(INT, INT))
            if f.attr == 'keys' and not e.args and not e.keywords:
                t, ty = self.expr(f.value, env, B)
                if ty[0] == 'dict': return f'(PyKit.keys {atom(t)})', LIST(ty[1])
                bad(e, f'.keys() of {ty}')
            if self.is_module_attr(f, 'collections', 'defaultdict') or (isinstance(f.value, ast.Name) and f.value.id == 'collections' and f.attr == 'defaultdict' and
                                                                     self.u.imports.get('collections') == 'collections'):
                if len(e.args) == 1 and isinstance(e.args[0], ast.Name) and e.args[0].id == 'list' and 'list' not in env and not e.keywords:
                    return '[]', DDEMPTY
                bad(e, 'defaultdict of something other than list')
            if self.is_module_attr(f, 'tags', 'safestr') and len(e.args) == 1 and not e.keywords:
                t, ty = self.expr(e.args[0], env, B)
                if ty not in (STR, SAFE): bad(e, f'safestr of {ty}')
                return t, SAFE
            if self.is_module_attr(f, 'tags', 'safe_format') and e.args and not e.keywords:
                return self.safe_format(e, env, B), SAFE
            if self.is_module_attr(f, 'misc', 'format_range'):
                kw = {k.arg: k.value for k in e.keywords}
                if len(e.args) != 1 or set(kw) != {'max'}: bad(e, 'format_range arguments')
                r, rty = self.expr(e.args[0], env, B)
                m, mty = self.expr(kw['max'], env, B)
                if rty != RANGE or mty != NAT: bad(e, f'format_range of {rty}, {mty}')
                self.u.uses_format_range = True
                return self.hoist(B, f'format_range (PyKit.rangeInt {atom(r)}.1 {atom(r)}.2) {atom(m)}'), STR
            if isinstance(f.value, ast.Name) and f.value.id == 'str' and 'str' not in env and f.attr == 'join' and len(e.args) == 2 and not e.keywords:
                sep, sty = self.expr(e.args[0], env, B)
                m = e.args[1]
                if sty == STR and isinstance(m, ast.Call) and isinstance(m.func, ast.Name) and m.func.id == 'map' and 'map' not in env and len(m.args) == 2 and \
                   not m.keywords and isinstance(m.args[0], ast.Name) and m.args[0].id == 'str':
                    xs, xty = self.expr(m.args[1], env, B)
                    if xty == EMPTY: return f'({atom(sep)}.intercalate [])', STR
                    if xty[0] != 'list': bad(e, f'map(str, …) over {xty}')
                    return f'({atom(sep)}.intercalate ({atom(xs)}.map (fun x => {self.strof("x", xty[1], e)})))', STR
                bad(e, 'str.join of something other than map(str, xs)')
        bad(e, f'call {ast.unparse(e)[:60]}')

    def safe_format(self, e, env, B):
        tpl = e.args[0]
        if isinstance(tpl, ast.JoinedStr) and len(e.args) == 1:
            for p in tpl.values:
                if isinstance(p, ast.Constant) and ('{' in p.value or '}' in p.value): bad(e, 'safe_format of an f-string with braces')
                if isinstance(p, ast.FormattedValue):
                    _, ty = self.expr(p.value, env, [])
                    if ty not in (NAT, INT): bad(e, 'safe_format of an f-string with non-int fields')
            return self.fstring(tpl, env, B)
        if isinstance(tpl, ast.Constant) and isinstance(tpl.value, str):
            pieces = tpl.value.split('{}')
            if any('{' in p or '}' in p for p in pieces) or len(pieces) != len(e.args): bad(e, 'safe_format template')
            parts = [chars(pieces[0])] if pieces[0] else []
            for a, p in zip(e.args[1:], pieces[1:]):
                t, ty = self.expr(a, env, B)
                if ty not in (NAT, INT): bad(e, f'safe_format argument of type {ty}')
                parts.append(self.strof(t, ty, e))
                if p: parts.append(chars(p))
            return '(' + ' ++ '.join(parts) + ')'
        bad(e, 'safe_format')

    # ---------------- statements
    def extra_of(self, a, env, B):
        t, ty = self.expr(a, env, B)
        if ty == STR: return f'.str {atom(t)}'
        if ty == SAFE: return f'.safe {atom(t)}'
        if ty == MSGREPR: return f'.safe {atom(t)}'
        if ty == NAT: return f'.int ({t} : Int)'
        if ty == INT: return f'.int {atom(t)}'
        if ty == EXTRA: return t
        bad(a, f'tag argument of type {ty}')

    def call_stmt(self, c, s, env, go):
        B = []
        f = c.func
        if isinstance(f, ast.Attribute) and isinstance(f.value, ast.Name) and f.value.id == 'self' and env.get('self') == TAGS and f.attr == 'tag':
            if c.keywords or not c.args or not (isinstance(c.args[0], ast.Constant) and isinstance(c.args[0].value, str)): bad(s, 'self.tag arguments')
            name = c.args[0].value
            if not all(ch.isalnum() or ch == '-' for ch in name): bad(s, 'tag name')
            extras = [self.extra_of(a, env, B) for a in c.args[1:]]
            return self.wrap(B, ('let', 'out', f'out ++ [⟨"{name}", [{", ".join(extras)}]⟩]', go(env)))
        bad(s, f'call statement {ast.unparse(c)[:60]}')

    def unpack(self, target, ty, node):
        """pattern for `[x] = …` / `[[a, b]] = …` / `(a, b) = …` -> (names, types, Lean pattern, total?)"""
        if isinstance(target, ast.Name):
            return [target.id], [ty], lname(target.id), True
        if isinstance(target, ast.Tuple) and ty[0] == 'tup' and len(target.elts) == len(ty) - 1:
            names, types, pats = [], [], []
            for x, t in zip(target.elts, ty[1:]):
                n, tt, p, tot = self.unpack(x, t, node)
                if not tot: bad(node, 'nested partial pattern')
                names += n; types += tt; pats.append(p)
            return names, types, '(' + ', '.join(pats) + ')', True
        if isinstance(target, ast.List) and len(target.elts) == 1 and ty[0] == 'list':
            n, tt, p, _ = self.unpack(target.elts[0], ty[1], node)
            return n, tt, f'[{p}]', False
        if isinstance(target, ast.List) and ty[0] == 'tup' and len(target.elts) == len(ty) - 1:
            return self.unpack(ast.Tuple(elts=target.elts, ctx=target.ctx), ty, node)
        bad(node, f'assignment target {ast.unparse(target)} for a value of type {ty}')

    def assign(self, target, value, s, env, go):
        B = []
        if isinstance(target, ast.Subscript) and isinstance(target.value, ast.Name) and isinstance(target.slice, ast.Slice):
            # xs[-k:] = ys
            sl = target.slice
            x = target.value.id
            if not (sl.upper is None and sl.step is None and isinstance(sl.lower, ast.UnaryOp) and isinstance(sl.lower.op, ast.USub) and
                    isinstance(sl.lower.operand, ast.Constant) and isinstance(sl.lower.operand.value, int) and sl.lower.operand.value > 0): bad(s, 'slice assignment')
            if x not in env or not (env[x][0] == 'list' or env[x] == EMPTY) or not isinstance(value, ast.List) or not value.elts: bad(s, 'slice assignment')
            _, vty0 = self.list_lit(value, env, [])
            ty = join(env[x], vty0, s)
            v, _ = self.list_lit(value, env, B, ty[1])
            env2 = dict(env); env2[x] = ty
            cur = '[]' if env[x] == EMPTY else coerce(lname(x), env[x], ty, s)
            return self.wrap(B, ('let', lname(x), f'PyKit.setTail {atom(cur)} {sl.lower.operand.value} {v}', go(env2)))
        if isinstance(target, (ast.Tuple, ast.List)):
            text, ty = self.expr(value, env, B)
            names, types, pat, total = self.unpack(target, ty, s)
            env2 = dict(env)
            for n_, t_ in zip(names, types): env2[n_] = t_
            arms = [(pat, go(env2))]
            if not total: arms.append(('_', ('raw', '.error .ValueError')))
            return self.wrap(B, ('match', text, arms))
        if not isinstance(target, ast.Name): bad(s, f'assignment target {ast.unparse(target)}')
        x = target.id
        if x == 'self': bad(s, 'assignment to self')
        text, ty = self.expr(value, env, B)
        env2 = dict(env); env2[x] = ty
        if ty in (EMPTY, DDEMPTY, NONE):
            return self.wrap(B, go(env2))
        if B and getattr(B[-1], '__defaults__', None) and len(B[-1].__defaults__) == 2 and text == B[-1].__defaults__[0]:
            comp = B[-1].__defaults__[1]; B.pop()
            return self.wrap(B, bind(lname(x), comp, go(env2)))
        return self.wrap(B, ('let', lname(x), text, go(env2)))

    def assign_chain(self, s, env, go):
        if isinstance(s.value, ast.Constant) and s.value.value is None and all(isinstance(x, ast.Name) for x in s.targets):
            env2 = dict(env)
            for x in s.targets: env2[x.id] = NONE
            return go(env2)
        return super().assign_chain(s, env, go)

    def other_stmt(self, s, rest, env, k, live):
        if isinstance(s, ast.AugAssign) and isinstance(s.op, ast.Add) and isinstance(s.target, ast.Subscript) and isinstance(s.target.value, ast.Name) and \
           not isinstance(s.target.slice, ast.Slice) and isinstance(s.value, ast.List):
            # d[k] += [v…] on a defaultdict(list)
            d = s.target.value.id
            if d not in env or not (env[d] == DDEMPTY or env[d][0] == 'ddict'): bad(s, 'augmented item assignment on something other than a defaultdict(list)')
            B = []
            kt, kty = self.expr(s.target.slice, env, B)
            vt, vty = self.list_lit(s.value, env, B)
            if vty == EMPTY: bad(s, 'd[k] += []')
            dty = DDICT(kty, vty[1]) if env[d] == DDEMPTY else env[d]
            if dty != DDICT(kty, vty[1]): bad(s, f'd[k] += … of {kty} -> {vty} on {env[d]}')
            env2 = dict(env); env2[d] = dty
            cur = coerce(lname(d), env[d], dty, s) if env[d] != DDEMPTY else '[]'
            go = lambda env3: self.block(rest, env3, k, live)
            return self.wrap(B, ('let', lname(d), f'PyKit.defaultListExtend {atom(cur)} {atom(kt)} {vt}', go(env2)))
        return super().other_stmt(s, rest, env, k, live)

# ----------------------------------------------------------------------------- source rewrites

class CtxAttr(ast.NodeTransformer):
    """`ctx.plural_preimage` is the variable `ctx_plural_preimage`"""
    def visit_Attribute(self, node):
        if isinstance(node.value, ast.Name) and node.value.id == 'ctx':
            if node.attr != 'plural_preimage': bad(node, f'ctx.{node.attr}')
            return ast.copy_location(ast.Name(id='ctx_plural_preimage', ctx=node.ctx), node)
        self.generic_visit(node)
        return node

class SplitAndNone(ast.NodeTransformer):
    """`if A and (x is not None): B` (no else) is `if A: if x is not None: B`, so that the test narrows x"""
    def visit_If(self, node):
        self.generic_visit(node)
        t = node.test
        if not node.orelse and isinstance(t, ast.BoolOp) and isinstance(t.op, ast.And) and len(t.values) >= 2:
            last = t.values[-1]
            if isinstance(last, ast.Compare) and len(last.ops) == 1 and isinstance(last.ops[0], ast.IsNot) and isinstance(last.comparators[0], ast.Constant) and \
               last.comparators[0].value is None and isinstance(last.left, ast.Name):
                first = t.values[0] if len(t.values) == 2 else ast.copy_location(ast.BoolOp(op=ast.And(), values=t.values[:-1]), t)
                inner = ast.copy_location(ast.If(test=last, body=node.body, orelse=[]), node)
                return ast.copy_location(ast.If(test=first, body=[inner], orelse=[]), node)
        return node

# ----------------------------------------------------------------------------- file

HEADER = '''/-
GENERATED by tools/translate/chkplurals2lean.py from lib/misc.py (`format_range`) and lib/check/__init__.py (`Checker.check_plurals`, from the
statement after the header value is parsed to the end) — do not edit.
Regenerated from the repository's working tree on every check; `I18n/Props/C07ChkTie.lean` proves the definitions equal to the model the theorems
of C07 are about (`CheckPlurals.formatRange`, `CheckPlurals.analyse`).
-/
import I18n.PyKit
import I18n.PyLoops
import I18n.Model.CheckPluralsPy
set_option linter.unusedVariables false
namespace I18n.Generated.ChkPlurals
open I18n I18n.Generated

'''

TAIL_PARAMS = [('self', TAGS), ('ctx_plural_preimage', OPT(PREIMAGE)), ('plural_forms', STR), ('plural_forms_hint', EXTRA), ('has_plurals', BOOL),
               ('expected_nplurals', DICT(NAT, MSGREPR)), ('correct_plural_forms', OPT(LIST(STR))), ('n', NAT), ('expr', EXPR), ('ljunk', STR), ('rjunk', STR)]
MODULES = {'tags': 'lib.tags', 'misc': 'lib.misc', 'gettext': 'lib.gettext', 'collections': 'collections'}

def module_imports(tree):
    imports = {}
    for n in tree.body:
        if isinstance(n, ast.Import):
            for a in n.names: imports[a.asname or a.name] = a.name
        elif isinstance(n, ast.ImportFrom) and n.level == 0:
            for a in n.names: imports[a.asname or a.name] = f'{n.module}.{a.name}'
    return imports

class Unit:
    def __init__(self):
        self.dropped = set(); self.imports = {}; self.uses_parse = False; self.uses_format_range = False
        self.defs = {}; self.modules = set(MODULES)
        self.seam_docs = {'check_plurals_registry': 'the comparison with the plural forms the language registry lists',
                          'check_plurals_window': 'the 200-value window loop with its `else:` and the two arithmetic handlers',
                          'check_plurals_gaps': 'codomain / period gap analysis and the final loop'}

def gen_format_range(repo, u):
    tree = ast.parse(open(os.path.join(repo, 'lib/misc.py'), encoding='utf-8').read())
    fs = [n for n in tree.body if isinstance(n, ast.FunctionDef) and n.name == 'format_range']
    if len(fs) != 1: raise Untranslatable('lib/misc.py: format_range not found')
    f = fs[0]
    a = f.args
    if f.decorator_list or a.vararg or a.kwarg or a.posonlyargs or a.defaults or [x.arg for x in a.args] != ['rng'] or [x.arg for x in a.kwonlyargs] != ['max'] or \
       a.kw_defaults != [None]:
        bad(f, 'signature of format_range')
    env = {'rng': LIST(INT), 'max': NAT}
    def result(text, ty, env_, node):
        if ty != STR: bad(node, f'format_range returns {ty}')
        return text
    def run(probe):
        fn = Fn(u, 'format_range', result, False)
        if probe: fn.ret_types = []
        return fn, fn.block(list(f.body), dict(env), fn.fall_off, set())
    fn, _ = run(True)
    if any(t != STR for t in fn.ret_types): raise Untranslatable(f'format_range returns {fn.ret_types}')
    fn, tree_ = run(False)
    return ('/-- `lib.misc.format_range(rng, max=max)` for `rng` given by the list of its elements -/\n'
            'def format_range (rng : List Int) (max : Nat) : Except Py.Exc (List Char) :=\n' + '\n'.join(render(tree_, 1, STYLE)) + '\n')

def find_tail(f):
    """index of the first statement after `try: (n, expr, ljunk, rjunk) = gettext.parse_plural_forms(plural_forms, strict=False) except …`"""
    for i, s in enumerate(f.body):
        if isinstance(s, ast.Try) and len(s.body) == 1 and isinstance(s.body[0], ast.Assign) and \
           len(s.body[0].targets) == 1 and isinstance(s.body[0].targets[0], ast.Tuple) and \
           [getattr(x, 'id', None) for x in s.body[0].targets[0].elts] == ['n', 'expr', 'ljunk', 'rjunk'] and \
           ast.unparse(s.body[0].value) == 'gettext.parse_plural_forms(plural_forms, strict=False)':
            return i + 1
    bad(f, 'the statement that parses the header value was not found')

def gen_tail(repo, u):
    tree = ast.parse(open(os.path.join(repo, 'lib/check/__init__.py'), encoding='utf-8').read())
    u.imports = module_imports(tree)
    for m, full in MODULES.items():
        if u.imports.get(m) != full: raise Untranslatable(f'lib/check/__init__.py: {m} is not {full}')
    cls = [n for n in tree.body if isinstance(n, ast.ClassDef) and n.name == 'Checker']
    if len(cls) != 1: raise Untranslatable('class Checker not found')
    meths = {n.name: n for n in cls[0].body if isinstance(n, ast.FunctionDef)}
    f = meths.get('check_plurals')
    if f is None: raise Untranslatable('Checker.check_plurals not found')
    a = f.args
    if a.vararg or a.kwarg or a.posonlyargs or a.defaults or a.kwonlyargs or [x.arg for x in a.args] != ['self', 'ctx']: bad(f, 'signature of check_plurals')
    if [ast.unparse(d) for d in f.decorator_list] != ["checks_header_fields('Plural-Forms')"]: bad(f, 'decorators of check_plurals')
    k = find_tail(f)
    body = copy.deepcopy(f.body[k:])
    for n in body:
        for x in ast.walk(n):
            if isinstance(x, ast.Attribute) and isinstance(x.ctx, (ast.Store, ast.Del)) and isinstance(x.value, ast.Name) and x.value.id == 'self':
                bad(x, f'assignment to self.{x.attr}')
    mod = ast.Module(body=body, type_ignores=[])
    mod = CtxAttr().visit(mod)
    mod = SplitAndNone().visit(mod)
    ast.fix_missing_locations(mod)
    body = mod.body
    free = reads_before_writes(body)[0]
    known = {p for p, _ in TAIL_PARAMS} | set(MODULES) | {'len', 'map', 'range', 'sorted', 'sum', 'dict', 'list', 'str', 'OverflowError', 'ZeroDivisionError'}
    for x in ast.walk(mod):         # a loop variable read after its loop (by an except clause): bound by the loop, or the output does not compile
        if isinstance(x, ast.For): known |= {t.id for t in ast.walk(x.target) if isinstance(t, ast.Name)}
    if free - known: raise Untranslatable(f'the analysed part of check_plurals reads {sorted(free - known)}, assigned before it')
    env = dict(TAIL_PARAMS)
    def result(text, ty, env_, node):
        if ty != NONE: bad(node, 'check_plurals returns a value')
        return '(out, ' + coerce(lname('ctx_plural_preimage'), env_['ctx_plural_preimage'], OPT(PREIMAGE), node) + ')'
    seams = {}
    for i, st in enumerate(body):
        if isinstance(st, ast.If) and ast.unparse(st.test) == 'correct_plural_forms is not None' and 'check_plurals_registry' not in [v[0] for v in seams.values()]:
            seams[id(st)] = ('check_plurals_registry', False)
        if isinstance(st, ast.Try) and 'check_plurals_window' not in [v[0] for v in seams.values()]:
            seams[id(st)] = ('check_plurals_window', False)
            if i + 1 < len(body): seams[id(body[i + 1])] = ('check_plurals_gaps', True)
    if sorted(v[0] for v in seams.values()) != ['check_plurals_gaps', 'check_plurals_registry', 'check_plurals_window']:
        raise Untranslatable('the seams of check_plurals (registry comparison, window loop, gap analysis) were not found')
    def run(probe):
        fn = Fn(u, 'check_plurals', result, True)
        fn.seams = dict(seams)
        fn.result_type = '(List TagCall × Option CheckPlurals.Preimage)'
        if probe: fn.ret_types = []
        return fn, fn.block(list(body), dict(env), fn.fall_off, {'ctx_plural_preimage'})
    fn, _ = run(True)
    if any(t != NONE for t in fn.ret_types): raise Untranslatable('check_plurals returns a value')
    fn, tree_ = run(False)
    params = ' '.join(f'({"out" if p == "self" else lname(p)} : {lean_type(t)})' for p, t in TAIL_PARAMS)
    first = f.body[k].lineno
    pieces = ''.join(u.defs[n_] + '\n' for n_ in ('check_plurals_registry', 'check_plurals_window', 'check_plurals_gaps'))
    return pieces + (f'/-- `lib/check/__init__.py` `Checker.check_plurals`, lines {first}–{f.end_lineno} of the current source (everything after the header value has parsed), as a function of\n'
            '    the variables live there; `out`: the tag calls so far; the result: (tag calls, `ctx.plural_preimage`) -/\n'
            f'def check_plurals_tail {{E : Type}} (ops : CheckPlurals.Py.ExprOps E) {params} :\n'
            '    Except Py.Exc (List TagCall × Option CheckPlurals.Preimage) :=\n' + '\n'.join(render(tree_, 1, STYLE)) + '\n')

def generate(repo):
    _mangled.clear()
    u = Unit()
    out = [HEADER, gen_format_range(repo, u), gen_tail(repo, u)]
    out.append('/- Statements discharged statically by the translator:\n' + ''.join(f'  {d}\n' for d in sorted(u.dropped)) + '-/\n')
    out.append('end I18n.Generated.ChkPlurals\n')
    return '\n'.join(out)

def main():
    repo = sys.argv[1] if len(sys.argv) > 1 else '/repo'
    dest = sys.argv[2] if len(sys.argv) > 2 else os.path.join(os.path.dirname(os.path.abspath(__file__)), '..', '..', 'lean', 'I18n', 'Generated', 'ChkPlurals.lean')
    try:
        try:
            text = generate(repo)
        except (SyntaxError, KeyError, AttributeError, TypeError, IndexError, ValueError, AssertionError, RecursionError, OSError) as exc:
            raise Untranslatable(f'{type(exc).__name__} while translating: {exc}')
    except Untranslatable as exc:
        msg = str(exc).replace('"', "'").replace('\\', '/')
        text = HEADER + (f'-- UNTRANSLATABLE: {msg}\n'
                         '/-- deliberately does not compile: the current source is outside the translator\'s subset (see above) -/\n'
                         'def untranslatable : Unit := the_current_source_of_check_plurals_is_untranslatable\n'
                         'end I18n.Generated.ChkPlurals\n')
        print(f'untranslatable: {exc}', file=sys.stderr)
        old = open(dest, encoding='utf-8').read() if os.path.exists(dest) else None
        if old != text: open(dest, 'w', encoding='utf-8').write(text)
        sys.exit(3)
    old = open(dest, encoding='utf-8').read() if os.path.exists(dest) else None
    if old != text:
        open(dest, 'w', encoding='utf-8').write(text)
        print('changed')
    else:
        print('unchanged')

if __name__ == '__main__':
    main()
