#!/usr/bin/env python3
"""pyfmtconv2lean: regenerate lean/I18n/Generated/PyFmtConv.lean from the CURRENT source of lib/strformat/python.py:

  Conversion.__init__(self, parent, s, *, key, flags, width, var_width, prec, var_prec, length, conv)
  FormatString.add_argument(self, key, arg)

(the decision code of property C12: which flags / widths / precisions are accepted, warned about, and which arguments are registered).
`Props/C12Tie.lean` proves the regenerated definitions equal, for ALL states and directives, to the hand-written model the theorems of
C12 are about (`PyFmt.conversion`, `PyFmt.addArgument`).  Statement layer: tools/translate/pytr (core + objfn).
What is specific here — the trusted base of this tie (kit: lean/I18n/Model/PyFmtPy.lean, namespace `I18n.PyFmt.Py`):

  parent         the `FormatString` under construction is the record `PyFmt.St`: `_seq_arguments` -> .seq (a list of entries),
                 `_map_arguments` (a `defaultdict(list)`) -> .map, its insertion log: `d[key] += [arg]` appends `(key, arg)`, `if d:` is
                 "log non-empty"; `self._map_arguments is None` is False while `__init__` runs (the attribute is set to None after the
                 scan: decided by typing, noted).  `parent.warn(Cls, …)` is `Py.warn w parent .Cls` (the source text of
                 `FormatString.warn` is pinned; `w` = record warnings or not, as in the model).
  self           the `Conversion` under construction: its identity is the index it will get in `_items` (`Py.objectId parent` on entry);
                 `self.type = tp` is a local; `self` as a value is the entry `Py.convEntry tp id`, `VariableWidth(self)` /
                 `VariablePrecision(self)` are `Py.variableWidth id` / `Py.variablePrecision id` (their class attribute `type` as probed).
  characters     `conv`, the keys of `flags`, `length`, `f1`, `f2` are one-character strs (`Char`): `conv in 'c%'`, `conv in i.int_cvt + …`
                 are membership tests; `i = _info`, `i.<attr>` is the character set dumped from the live class by pyfmt2lean.py
                 (`Generated.PyFormatTables`, pinned by `info_pin`); `flags` (a `collections.Counter` filled one character at a time) is the
                 list of the characters read, `flags.items()` its distinct characters in first-occurrence order with their counts.
  ints           `Int`; `SSIZE_MAX` is the dumped constant; `width > SSIZE_MAX` with `width = None` is `TypeError`; `...` is `Ellipsis`.
  exceptions     `raise <Error subclass>(…)` / `IndexError` / `AssertionError` are `PyFmt.PErr` values (arguments are message
                 material); the class hierarchy is checked; `except IndexError` catches `.crash .IndexError` only.

Anything else raises Untranslatable: exit 3, marker file that does not compile, dependent obligations broken.
"""
import ast, os, sys
sys.path.insert(0, os.path.dirname(os.path.abspath(__file__)))
from pytr import Untranslatable, bad, lname, atom, Style, _mangled
from pytr.objfn import (TypeSys, Unit, ObjFn, ObjStyle, Sig, translate, INT, BOOL, STR, NONE, CHAR, ELL, ELLINT, OPT, TUP, LIST, REC, chars, char_lit)

FS = REC('FormatString')
ENTRY, COUNTER, MAPLOG, INFOCLS = ('entry',), ('counter',), ('maplog',), ('infocls',)
K = 'I18n.PyFmt.Py'
T = TypeSys(simple={'entry': 'PyFmt.Entry', 'counter': 'List Char', 'maplog': 'List (List Char × PyFmt.Entry)', 'infocls': 'Unit', 'selfobj': 'Unit'},
            recs={'FormatString': 'PyFmt.St'})
STYLE = ObjStyle('PyFmt.PErr', 'PyKit.tryExcept', 'PyKit.forRange', binds=True)

FIELDS = {'_seq_arguments': ('seq', LIST(ENTRY)), '_map_arguments': ('map', MAPLOG)}
INFO_ATTRS = {'flags': 'flagChars', 'lengths': 'lengthChars', 'oct_cvt': 'octCvt', 'hex_cvt': 'hexCvt', 'int_cvt': 'intCvt', 'float_cvt': 'floatCvt',
              'other_cvt': 'otherCvt', 'all_cvt': 'allCvt'}
RAISED = ['Error', 'ForbiddenArgumentKey', 'ArgumentIndexingMixture', 'ArgumentTypeMismatch', 'WidthRangeError', 'PrecisionRangeError']
WARNED = ['RedundantFlag', 'RedundantPrecision', 'RedundantLength', 'ObsoleteConversion']
CRASH = {'IndexError': '.crash .IndexError', 'AssertionError': '.crash .AssertionError', 'TypeError': '.crash .TypeError'}
WARN_SRC = "def warn(self, exc_type, *args, **kwargs):\n    self.warnings += [exc_type(*args, **kwargs)]"
VAR_SRC = "class {0}:\n    type = 'int'\n\n    def __init__(self, parent):\n        self.parent = parent"

class Fn(ObjFn):
    EXC_ASSERT = '.error (.crash .AssertionError)'
    EXC_VALUE = '(.crash .ValueError)'
    CAUGHT = {'IndexError': f'{K}.isIndexError'}
    OPT_INT = f'{K}.intOfOpt'

    def __init__(self, unit, name, writes=False, state='self', state_type=None):
        super().__init__(unit, name, writes=writes, state=unit.state_var.get(name, state))
        self.STATE_L = unit.state_var.get(name, state)

    def raise_(self, s, env, B):
        x = s.exc
        if isinstance(x, ast.Call) and not x.keywords: x = x.func          # arguments are message material
        if s.cause is None and isinstance(x, ast.Name) and x.id not in env:
            if x.id in RAISED and self.u.errors_ok: return f'.error .{x.id}'
            if x.id in CRASH: return f'.error ({CRASH[x.id]})'
        bad(s, f'raise {ast.unparse(s.exc) if s.exc else ""}')

    def truth(self, text, ty):
        if ty == MAPLOG: return f'(!{atom(text)}.isEmpty)'
        return None

    def global_name(self, e, env, B):
        if e.id == '_info' and self.u.info_ok: return '()', INFOCLS
        if e.id == 'SSIZE_MAX' and self.u.ssize_ok: return '((I18n.Generated.PyFormatTables.SSIZE_MAX : Nat) : Int)', INT
        bad(e, f'unknown name {e.id}')

    def expr(self, e, env, B):
        if isinstance(e, ast.Name) and env.get(e.id) == ('selfobj',):
            # the Conversion under construction, as a value: the entry that stands for it (needs its type)
            if 'self_type' not in env: bad(e, 'self is used as a value before self.type is assigned')
            return f'({K}.convEntry self_type selfId)', ENTRY
        if isinstance(e, ast.Attribute) and isinstance(e.value, ast.Name):
            v = e.value.id
            if env.get(v) == INFOCLS or (v == '_info' and v not in env and self.u.info_ok):
                if e.attr not in INFO_ATTRS: bad(e, f'_info.{e.attr} is not one of the dumped strings')
                return f'I18n.Generated.PyFormatTables.{INFO_ATTRS[e.attr]}', STR
        return super().expr(e, env, B)

    def subscript(self, e, env, B):
        if isinstance(e.slice, ast.UnaryOp) and isinstance(e.slice.op, ast.USub) and isinstance(e.slice.operand, ast.Constant) and e.slice.operand.value == 1:
            t, ty = self.expr(e.value, env, B)
            if ty == STR: return self.hoist(B, f'{K}.strLast {atom(t)}'), CHAR          # s[-1]: IndexError for ''
        bad(e, f'subscript {ast.unparse(e)[:40]}')

    def contains_(self, e, L, R, env, B):
        if isinstance(R, ast.Name) and env.get(R.id) == COUNTER:
            if isinstance(L, ast.Constant) and isinstance(L.value, str) and len(L.value) == 1:
                return f'({lname(R.id)}.contains {char_lit(L.value)})'
            lt, lty = self.expr(L, env, B)
            if lty == CHAR: return f'({lname(R.id)}.contains {atom(lt)})'
            bad(e, f'`in` a Counter of a value of type {lty}')
        return super().contains_(e, L, R, env, B)

    def prim_call(self, e, env, B):
        f = e.func
        if isinstance(f, ast.Name) and f.id in ('VariableWidth', 'VariablePrecision') and f.id not in env and self.u.var_ok[f.id]:
            if len(e.args) == 1 and not e.keywords and isinstance(e.args[0], ast.Name) and e.args[0].id == 'self' and self.name.endswith('Conversion.__init__'):
                return f'({K}.{"variableWidth" if f.id == "VariableWidth" else "variablePrecision"} selfId)', ENTRY
        if isinstance(f, ast.Attribute) and isinstance(f.value, ast.Name) and env.get(f.value.id) == COUNTER and f.attr == 'items' and not e.args and not e.keywords:
            return f'({K}.counterItems {lname(f.value.id)})', LIST(TUP(CHAR, INT))
        bad(e, f'call {ast.unparse(e)[:60]}')

    def call_stmt(self, c, s, env, go):
        f = c.func
        # parent.warn(Cls, …)
        if isinstance(f, ast.Attribute) and isinstance(f.value, ast.Name) and env.get(f.value.id) == FS and f.attr == 'warn' and self.u.warn_ok:
            if not c.args or not isinstance(c.args[0], ast.Name) or c.args[0].id not in WARNED or c.args[0].id in env or not self.u.errors_ok:
                bad(s, f'{ast.unparse(c)[:50]}: the class is not one of the recorded warnings')
            for a in list(c.args[1:]) + [k.value for k in c.keywords]:
                if not isinstance(a, (ast.Name, ast.Constant)): bad(s, 'argument of warn() that is not a name or a literal')
                if isinstance(a, ast.Name) and a.id not in env: bad(s, f'unknown name {a.id}')
            o = self.lvar(f.value.id)
            return ('let', o, f'{K}.warn w {o} .{c.args[0].id}', go(env))
        return super().call_stmt(c, s, env, go)

    def assign_other(self, target, value, s, env, go):
        # self._map_arguments[key] += [arg]  (rewritten by the statement layer into  d[key] = d[key] + [arg])
        bad(s, f'assignment target {ast.unparse(target)}')

    def block(self, stmts, env, k, live):
        if stmts and isinstance(stmts[0], ast.AugAssign) and isinstance(stmts[0].op, ast.Add) and isinstance(stmts[0].target, ast.Subscript):
            s0 = stmts[0]
            tg = s0.target
            if isinstance(tg.value, ast.Attribute) and isinstance(tg.value.value, ast.Name) and env.get(tg.value.value.id) == FS and tg.value.attr == '_map_arguments' and \
               isinstance(s0.value, ast.List) and len(s0.value.elts) == 1:
                B = []
                kt, kty = self.expr(tg.slice, env, B)
                vt, vty = self.expr(s0.value.elts[0], env, B)
                if kty != STR or vty != ENTRY: bad(s0, f'_map_arguments[{kty}] += [{vty}]')
                o = self.lvar(tg.value.value.id)
                return self.wrap(B, ('let', o, f'{{ {o} with map := {o}.map ++ [({kt}, {vt})] }}', self.block(stmts[1:], env, k, live)))
            bad(s0, 'augmented assignment to a subscript')
        return super().block(stmts, env, k, live)

class AssertFalse(ast.NodeTransformer):
    """`assert False` is `raise AssertionError`"""
    def visit_Assert(self, n):
        if isinstance(n.test, ast.Constant) and n.test.value is False:
            return ast.copy_location(ast.Raise(exc=ast.copy_location(ast.Name(id='AssertionError', ctx=ast.Load()), n), cause=None), n)
        return n

class SelfType(ast.NodeTransformer):
    """in Conversion.__init__: the attribute `self.type` is the local `self_type`"""
    def visit_Attribute(self, n):
        self.generic_visit(n)
        if isinstance(n.value, ast.Name) and n.value.id == 'self':
            if n.attr != 'type': bad(n, f'attribute self.{n.attr} of the Conversion')
            return ast.copy_location(ast.Name(id='self_type', ctx=n.ctx), n)
        return n

class ConvUnit(Unit):
    def __init__(self, repo):
        super().__init__(T)
        src = open(os.path.join(repo, 'lib', 'strformat', 'python.py'), encoding='utf-8').read()
        self.tree = ast.parse(src)
        body = self.tree.body
        cdefs = {}
        for n in body:
            if isinstance(n, ast.ClassDef):
                if n.name in cdefs: raise Untranslatable(f'class {n.name} is defined twice')
                cdefs[n.name] = n
        for n in ast.walk(self.tree):
            if isinstance(n, (ast.Global, ast.Nonlocal)): bad(n, 'global / nonlocal')
        stores = {}
        for n in ast.walk(self.tree):
            if isinstance(n, ast.Name) and isinstance(n.ctx, (ast.Store, ast.Del)): stores[n.id] = stores.get(n.id, 0) + 1
        for name in list(cdefs) + ['isinstance', 'len']:
            if stores.get(name, 0) > 0: raise Untranslatable(f'{name} is re-bound')
        self.ssize_ok = stores.get('SSIZE_MAX', 0) == 1 and any(isinstance(n, ast.Assign) and ast.unparse(n.targets[0]) == 'SSIZE_MAX' for n in body)
        info = cdefs.get('_info')
        self.info_ok = info is not None and not info.bases and not info.decorator_list and \
            all(isinstance(n, ast.Assign) and len(n.targets) == 1 and isinstance(n.targets[0], ast.Name) for n in info.body) and \
            {n.targets[0].id for n in info.body} == set(INFO_ATTRS) and len(info.body) == len(INFO_ATTRS)
        def err_class(name):
            c = cdefs.get(name)
            if c is None or c.decorator_list or c.keywords: return False
            base = [ast.unparse(b) for b in c.bases]
            if base != (['Exception'] if name == 'Error' else ['Error']): return False
            return all(isinstance(n, ast.Assign) and ast.unparse(n.targets[0]) == 'message' and isinstance(n.value, ast.Constant) for n in c.body)
        self.errors_ok = all(err_class(n) for n in RAISED + WARNED)
        self.var_ok = {c: (c in cdefs and ast.unparse(cdefs[c]) == VAR_SRC.format(c)) for c in ('VariableWidth', 'VariablePrecision')}
        fs, cv = cdefs.get('FormatString'), cdefs.get('Conversion')
        if fs is None or cv is None: raise Untranslatable('class FormatString / Conversion not found')
        for c in (fs, cv):
            if c.bases or c.keywords or c.decorator_list: bad(c, f'class {c.name} has bases / decorators')
        def methods(c):
            out = {}
            for n in c.body:
                if isinstance(n, ast.FunctionDef):
                    if n.name in out: bad(n, f'{c.name}.{n.name} is defined twice')
                    out[n.name] = n
            return out
        self.fs_methods, self.cv_methods = methods(fs), methods(cv)
        for m in ('__getattr__', '__getattribute__', '__setattr__'):
            if m in self.fs_methods or m in self.cv_methods: raise Untranslatable(f'{m} is defined')
        w = self.fs_methods.get('warn')
        self.warn_ok = w is not None and ast.unparse(w) == WARN_SRC
        self.fdefs = {}
        for n in body:
            if isinstance(n, ast.FunctionDef):
                if n.name in self.fdefs or stores.get(n.name, 0) > 0: raise Untranslatable(f'{n.name} is defined twice')
                self.fdefs[n.name] = n
        self.records['FormatString'] = dict(FIELDS)
        self.classes['FormatString'] = 'FormatString'
        self.state_var = {}

    # module-level helper functions are inlined at their call sites
    def helper_def(self, rec, name):
        if rec is None and name in self.fdefs: return (self.fdefs[name], False)
        return None

def generate(repo):
    _mangled.clear()
    u = ConvUnit(repo)
    out = [HEADER]
    # FormatString.add_argument(self, key, arg)
    add = u.fs_methods.get('add_argument')
    if add is None: raise Untranslatable('FormatString.add_argument not found')
    sig_add = Sig('add_argument', [('key', OPT(STR), False), ('arg', ENTRY, False)], add, rec='FormatString', writes=True)
    u.methods[('FormatString', 'add_argument')] = sig_add
    u.state_var['add_argument'] = 'self'
    # Conversion.__init__: `parent` is the threaded state, `self.type` a local, the result is the type
    init = u.cv_methods.get('__init__')
    if init is None: raise Untranslatable('Conversion.__init__ not found')
    a = init.args
    want_kw = ['key', 'flags', 'width', 'var_width', 'prec', 'var_prec', 'length', 'conv']
    if [x.arg for x in a.args] != ['self', 'parent', 's'] or [x.arg for x in a.kwonlyargs] != want_kw or a.vararg or a.kwarg or a.posonlyargs or a.defaults or \
       any(d is not None for d in a.kw_defaults) or init.decorator_list:
        bad(init, 'signature of Conversion.__init__')
    for n in ast.walk(init):
        if isinstance(n, ast.Return): bad(n, 'return in Conversion.__init__')
        if isinstance(n, ast.Name) and n.id in ('self_type', 'selfId', 'w'): bad(n, f'the name {n.id} is taken')
        if isinstance(n, ast.Name) and n.id == 'self' and isinstance(n.ctx, ast.Store): bad(n, 'self is assigned')
    body = [SelfType().visit(AssertFalse().visit(st)) for st in init.body]
    ret = ast.Return(value=ast.Name(id='self_type', ctx=ast.Load()))
    ast.copy_location(ret, init.body[-1]); ast.fix_missing_locations(ret)
    fnode = ast.FunctionDef(name='__init__', args=ast.arguments(posonlyargs=[], args=[ast.arg(arg='self')] + [ast.arg(arg=p) for p in ['s'] + want_kw], vararg=None, kwonlyargs=[],
                            kw_defaults=[], kwarg=None, defaults=[]), body=body + [ret], decorator_list=[], returns=None, type_params=[])
    ast.copy_location(fnode, init); ast.fix_missing_locations(fnode)
    params = [('s', STR, False), ('key', OPT(STR), False), ('flags', COUNTER, False), ('width', OPT(INT), False), ('var_width', BOOL, False), ('prec', OPT(INT), False),
              ('var_prec', BOOL, False), ('length', OPT(CHAR), False), ('conv', CHAR, False)]
    sig_init = Sig('Conversion.__init__', params, fnode, rec='FormatString', writes=True)
    u.state_var['Conversion.__init__'] = 'parent'
    def translate_sig(sig):
        if sig is sig_add:
            node = ast.FunctionDef(name=add.name, args=add.args, body=[AssertFalse().visit(st) for st in add.body], decorator_list=add.decorator_list, returns=None, type_params=[])
            ast.copy_location(node, add); ast.fix_missing_locations(node)
            sig.node = node
            return translate(u, 'FormatString', sig, '`lib.strformat.python.FormatString.add_argument(key, arg)`: the object afterwards (`IndexError` = `.crash .IndexError`)', STYLE, fn_class=Fn)
        # Conversion.__init__: the state is `parent`; `self` is not a parameter of the Lean function
        text = translate(u, 'FormatString', sig, '`lib.strformat.python.Conversion.__init__(self, parent, s, key=…, …)`: `self.type` and the parent afterwards; `w`: record warnings', STYLE,
                         fn_class=Fn, extra_env={'parent': FS, 'self': ('selfobj',)}, state_name='parent', extra_params=' (w : Bool)',
                         prelude=[f'let selfId := {K}.objectId parent'])
        return text
    u.translate_sig = translate_sig
    u.ensure(sig_add)
    u.ensure(sig_init)
    if sig_add.ret != NONE: raise Untranslatable(f'add_argument returns {sig_add.ret}')
    if sig_init.ret != STR: raise Untranslatable(f'Conversion.__init__: self.type is {sig_init.ret}')
    out += u.emitted
    out.append('/- Statements discharged statically by the translator:\n' + ''.join(f'  {d}\n' for d in sorted(u.dropped)) + '-/\n')
    out.append('end I18n.Generated.PyFmtConv\n')
    return '\n'.join(out)

HEADER = '''/-
GENERATED by tools/translate/pyfmtconv2lean.py from lib/strformat/python.py (`Conversion.__init__`, `FormatString.add_argument`) — do not edit.
Regenerated from the repository's working tree on every check; `I18n/Props/C12Tie.lean` proves the definitions equal to the model the
theorems of C12 are about (`PyFmt.conversion`, `PyFmt.addArgument`).
-/
import I18n.PyKit
import I18n.Model.PyFmtPy
set_option linter.unusedVariables false
namespace I18n.Generated.PyFmtConv
open I18n

'''

def main():
    repo = sys.argv[1] if len(sys.argv) > 1 else '/repo'
    dest = sys.argv[2] if len(sys.argv) > 2 else os.path.join(os.path.dirname(os.path.abspath(__file__)), '..', '..', 'lean', 'I18n', 'Generated', 'PyFmtConv.lean')
    try:
        try:
            text = generate(repo)
        except (SyntaxError, KeyError, AttributeError, TypeError, IndexError, ValueError, AssertionError, RecursionError, OSError, StopIteration) as exc:
            raise Untranslatable(f'{type(exc).__name__} while translating: {exc}')
    except Untranslatable as exc:
        msg = str(exc).replace('"', "'").replace('\\', '/')
        text = HEADER + (f'-- UNTRANSLATABLE: {msg}\n'
                         '/-- deliberately does not compile: the current lib/strformat/python.py is outside the translator\'s subset (see above) -/\n'
                         'def untranslatable : Unit := the_current_source_of_Conversion_init_is_untranslatable\n'
                         'end I18n.Generated.PyFmtConv\n')
        print(f'untranslatable: {exc}', file=sys.stderr)
        old = open(dest, encoding='utf-8').read() if os.path.exists(dest) else None
        if old != text: open(dest, 'w', encoding='utf-8').write(text)
        sys.exit(3)
    old = open(dest, encoding='utf-8').read() if os.path.exists(dest) else None
    if old != text:
        open(dest, 'w', encoding='utf-8').write(text)
        print('changed')
    else:
        print('unchanged')

if __name__ == '__main__':
    main()
