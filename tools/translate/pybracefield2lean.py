#!/usr/bin/env python3
"""pybracefield2lean: regenerate lean/I18n/Generated/PyBraceField.lean from the CURRENT source of lib/strformat/pybrace.py:

  Field.__init__(self, parent, match)        FormatString.add_argument(self, name, field)

(the typing and numbering rules of property C13: which replacement fields are accepted, with which argument types, under which key).
`Props/C13Tie.lean` proves the regenerated definitions equal, for ALL states and scanned fields, to the hand-written model the theorems
of C13 are about (`PyBrace.fieldInit`, `PyBrace.addArgument`).  Statement layer: tools/translate/pytr (core + objfn).
What is specific here — the trusted base of this tie (kit: lean/I18n/Model/PyBracePy.lean, namespace `I18n.PyBrace.Py`):

  match          a match object of `_field_re` whose group `literal` is None is the model's `PyBrace.RawField` (the scanner `scanField`, tied
                 to the live parse tree by C13's `field_regex`): `match.string[slice(*match.span())]` is `.text`, `match.group('name' |
                 'conversion' | 'format')` the fields; `_simple_field_re.findall(fmt)` for `fmt = match.group('format')` is the list of the
                 nested fields of the format part, braces included (`Py.findallSimple`: the `.nested` names the scanner collected).
  fmatch         `_format_spec_re.match(fmt[1:])` is `PyBrace.scanSpec` (`spec_regex`): None or a `PyBrace.Spec`; `fmatch.group('alt' | 'zero'
                 | 'comma')` are used for their truth value / `is None` only (Bool), `'fill' | 'align' | 'sign' | 'type'` are one character or
                 None, `'width' | 'precision'` a digit string or None.
  parent         the `FormatString` under construction is `PyBrace.State`: `_next_arg_index` -> .next, `_argument_map` (a
                 `defaultdict(list)`) -> .map with `d[k] += [x]` = `PyBrace.mapAdd` under the key `.idx n` (an int) / `.name s` (a str);
                 `self._argument_map is None` is False while `__init__` runs (decided by typing, noted).
  self           the `Field` under construction is stored in the map BEFORE `self.types` is assigned by the last statement and read only after
                 `__init__` has returned: the stored element is `Py.fieldArg selfTypes` where `selfTypes` — the value `self.types` will have —
                 is a PARAMETER of the Lean function; `C13Tie.generated_field_init_types` proves the function returns exactly that value when
                 called with `PyBrace.ownTypes`.  `NestedField(self)` is `Py.nestedArg` (class attribute `types` as pinned here).
  sets of types  set literals over 'str' / 'int' / 'float' are `PyBrace.TySet`s: `&=` is `.inter`, `not tp` is `.isEmpty`, `'str' in tp` the field,
                 `frozenset(tp)` the identity.
  ints           `Nat` (all are non-negative: digit strings and counters); `int(x)` on a run of decimal digits is `PyBrace.pyInt cfg`
                 (`ValueError` above the interpreter's digit limit `cfg.digitLimit`), `SSIZE_MAX` is `cfg.ssizeMax` (the driver can run other values).
  exceptions     `raise <Error subclass>(s)` is `.own <class> (.text s)` (the hierarchy is checked); `IndexError`, `OverflowError`, `AssertionError`,
                 `ValueError` are `.crash …`; `except IndexError` / `except OverflowError` catch exactly those.

Anything else raises Untranslatable: exit 3, marker file that does not compile, dependent obligations broken.
"""
import ast, os, sys
sys.path.insert(0, os.path.dirname(os.path.abspath(__file__)))
from pytr import Untranslatable, bad, lname, atom, Style, _mangled
from pytr.objfn import (TypeSys, Unit, ObjFn, ObjStyle, Sig, translate, INT, BOOL, STR, NONE, CHAR, OPT, TUP, LIST, REC, chars, char_lit)

FS = REC('FormatString')
ARG, TYSET, RAW, SPEC, GFLAG = ('arg',), ('tyset',), ('raw',), ('spec',), ('gflag',)
K = 'I18n.PyBrace.Py'
T = TypeSys(simple={'int': 'Nat', 'arg': 'PyBrace.Arg', 'tyset': 'PyBrace.TySet', 'raw': 'PyBrace.RawField', 'spec': 'PyBrace.Spec', 'gflag': 'Bool', 'selfobj': 'Unit'},
            recs={'FormatString': 'PyBrace.State'})
STYLE = ObjStyle('PyBrace.PErr', 'PyKit.tryExcept', 'PyKit.forRange', binds=True)

FIELDS = {'_next_arg_index': ('next', OPT(INT)), '_argument_map': ('map', ('bmap',))}
T.simple['bmap'] = 'List (PyBrace.Key × List PyBrace.Arg)'
OWN = ['Error', 'ConversionError', 'FormatError', 'FormatTypeMismatch', 'ArgumentNumberingMixture', 'ArgumentRangeError', 'ArgumentTypeMismatch']
CRASH = {'IndexError': '.crash .IndexError', 'OverflowError': '.crash .Overflow', 'AssertionError': '.crash .AssertionError', 'ValueError': '.crash .ValueError'}
MATCH_GROUPS = {'name': ('name', OPT(STR)), 'conversion': ('conversion', OPT(STR)), 'format': ('format', OPT(STR))}
SPEC_GROUPS = {'fill': ('fill', OPT(CHAR)), 'align': ('align', OPT(CHAR)), 'sign': ('sign', OPT(CHAR)), 'alt': ('alt', GFLAG), 'zero': ('zero', GFLAG),
               'width': ('width', OPT(STR)), 'comma': ('comma', GFLAG), 'precision': ('precision', OPT(STR)), 'type': ('type', OPT(CHAR))}
TY_NAMES = ('str', 'int', 'float')
NESTED_SRC = "class NestedField:\n    types = frozenset({'str', 'int', 'float'})\n\n    def __init__(self, parent):\n        self.parent = parent"
TEXT_EXPR = 'match.string[slice(*match.span())]'

def tyset_literal(e):
    """a set literal over 'str' / 'int' / 'float' as a TySet term, or None"""
    if isinstance(e, ast.Set) and e.elts and all(isinstance(x, ast.Constant) and x.value in TY_NAMES for x in e.elts):
        have = {x.value for x in e.elts}
        return '(⟨' + ', '.join('true' if n in have else 'false' for n in TY_NAMES) + '⟩ : PyBrace.TySet)'
    return None

class Fn(ObjFn):
    EXC_ASSERT = '.error (.crash .AssertionError)'
    EXC_VALUE = '(.crash .ValueError)'
    CAUGHT = {'IndexError': f'{K}.isIndexError', 'OverflowError': f'{K}.isOverflowError'}
    OPT_INT = f'{K}.natOfOpt'

    def __init__(self, unit, name, writes=False, state='self', state_type=None):
        super().__init__(unit, name, writes=writes, state=unit.state_var.get(name, state))
        self.STATE_L = unit.state_var.get(name, state)

    def raise_(self, s, env, B):
        x = s.exc
        if s.cause is None and isinstance(x, ast.Call) and isinstance(x.func, ast.Name) and x.func.id in OWN and x.func.id not in env and self.u.errors_ok and \
           len(x.args) == 1 and not x.keywords:
            t, ty = self.expr(x.args[0], env, B)
            if ty != STR: bad(s, f'the argument of {x.func.id} is a value of type {ty}')
            return f'.error (.own .{x.func.id} (.text {atom(t)}))'
        if isinstance(x, ast.Call) and not x.keywords: x = x.func          # arguments of built-in exceptions are message material
        if s.cause is None and isinstance(x, ast.Name) and x.id in CRASH and x.id not in env:
            return f'.error ({CRASH[x.id]})'
        bad(s, f'raise {ast.unparse(s.exc) if s.exc else ""}')

    def truth(self, text, ty):
        if ty == GFLAG: return text
        if ty == TYSET: return f'(!{atom(text)}.isEmpty)'
        if ty == OPT(CHAR): return f'{atom(text)}.isSome'          # a one-character str is truthy
        return None

    def global_name(self, e, env, B):
        if e.id == 'SSIZE_MAX' and self.u.ssize_ok: return 'cfg.ssizeMax', INT
        bad(e, f'unknown name {e.id}')

    def expr(self, e, env, B):
        if isinstance(e, ast.Name) and env.get(e.id) == ('selfobj',):
            return f'({K}.fieldArg selfTypes)', ARG           # the Field under construction, as stored in the map
        ts = tyset_literal(e)
        if ts is not None: return ts, TYSET
        if isinstance(e, ast.BoolOp) and isinstance(e.op, ast.Or) and len(e.values) == 2 and isinstance(e.values[1], ast.Constant) and e.values[1].value is None:
            # x or None   on a str
            t, ty = self.expr(e.values[0], env, B)
            if ty == STR: return f'({K}.orNone {atom(t)})', OPT(STR)
            bad(e, f'`or None` on a value of type {ty}')
        if isinstance(e, ast.BinOp) and isinstance(e.op, ast.BitAnd):
            lt, lty = self.expr(e.left, env, B)
            rt, rty = self.expr(e.right, env, B)
            if lty == TYSET and rty == TYSET: return f'({atom(lt)}.inter {atom(rt)})', TYSET
            bad(e, f'& on {lty}, {rty}')
        return super().expr(e, env, B)

    def compare(self, e, env, B):
        if len(e.ops) == 1 and isinstance(e.ops[0], (ast.Is, ast.IsNot)) and isinstance(e.comparators[0], ast.Constant) and e.comparators[0].value is None:
            t, ty = self.expr(e.left, env, B)
            if ty == GFLAG: return (f'(!{atom(t)})' if isinstance(e.ops[0], ast.Is) else t), BOOL
        return super().compare(e, env, B)

    def static_truth(self, e, env):
        # a group flag is a Bool here: `zero is not None` is not decided by typing
        if isinstance(e, ast.Compare) and len(e.ops) == 1 and isinstance(e.ops[0], (ast.Is, ast.IsNot)) and isinstance(e.left, ast.Name) and env.get(e.left.id) == GFLAG:
            return None
        return super().static_truth(e, env)

    def none_test(self, e, env):
        nt = super().none_test(e, env)
        if nt and env.get(nt[0]) == GFLAG: return None
        return nt

    def contains_(self, e, L, R, env, B):
        if isinstance(L, ast.Constant) and L.value in TY_NAMES:
            rt, rty = self.expr(R, env, B)
            if rty == TYSET: return f'{atom(rt)}.{L.value}'
        return super().contains_(e, L, R, env, B)

    def subscript(self, e, env, B):
        if ast.unparse(e) == TEXT_EXPR and env.get('match') == RAW: return 'match_.text', STR
        t, ty = self.expr(e.value, env, B)
        if ty == STR:
            sl = e.slice
            def const(x): return isinstance(x, ast.Constant) and isinstance(x.value, int) and not isinstance(x.value, bool)
            if const(sl) and sl.value == 0: return self.hoist(B, f'{K}.strFirst {atom(t)}'), CHAR          # s[0]: IndexError for ''
            if isinstance(sl, ast.UnaryOp) and isinstance(sl.op, ast.USub) and const(sl.operand) and sl.operand.value == 1:
                return self.hoist(B, f'{K}.strLast {atom(t)}'), CHAR
            if isinstance(sl, ast.Slice) and sl.step is None and sl.lower is not None and const(sl.lower) and sl.lower.value == 1:
                if sl.upper is None: return f'({atom(t)}.drop 1)', STR                            # s[1:]
                if isinstance(sl.upper, ast.UnaryOp) and isinstance(sl.upper.op, ast.USub) and const(sl.upper.operand) and sl.upper.operand.value == 1:
                    return f'({atom(t)}.drop 1).dropLast', STR                                      # s[1:-1]
        bad(e, f'subscript {ast.unparse(e)[:40]}')

    def prim_call(self, e, env, B):
        f = e.func
        if isinstance(f, ast.Name) and f.id not in env:
            if f.id == 'NestedField' and self.u.nested_ok and len(e.args) == 1 and not e.keywords and isinstance(e.args[0], ast.Name) and env.get(e.args[0].id) == ('selfobj',):
                return f'{K}.nestedArg', ARG
            if f.id == 'frozenset' and len(e.args) == 1 and not e.keywords:
                t, ty = self.expr(e.args[0], env, B)
                if ty == TYSET: return t, TYSET
            if f.id == 'int' and len(e.args) == 1 and not e.keywords:
                t, ty = self.expr(e.args[0], env, B)
                if ty == STR: return self.hoist(B, f'{K}.pyInt cfg {atom(t)}'), INT
            bad(e, f'call {ast.unparse(e)[:60]}')
        if isinstance(f, ast.Attribute):
            v = f.value
            if isinstance(v, ast.Name) and v.id in env:
                vty = env[v.id]
                if f.attr == 'group' and len(e.args) == 1 and not e.keywords and isinstance(e.args[0], ast.Constant):
                    g = e.args[0].value
                    if vty == RAW and g in MATCH_GROUPS: return f'{lname(v.id)}.{MATCH_GROUPS[g][0]}', MATCH_GROUPS[g][1]
                    if vty == SPEC and g in SPEC_GROUPS:
                        fld, ty = SPEC_GROUPS[g]
                        return f'{lname(v.id)}.{fld}', ty
                if vty == STR and f.attr == 'isdecimal' and not e.args and not e.keywords:
                    return f'(PyBrace.isDecimalStr {lname(v.id)})', BOOL
            if isinstance(v, ast.Name) and v.id not in env and len(e.args) == 1 and not e.keywords:
                if v.id == '_format_spec_re' and f.attr == 'match' and self.u.regex_ok['_format_spec_re']:
                    t, ty = self.expr(e.args[0], env, B)
                    if ty == STR: return f'(PyBrace.scanSpec {atom(t)})', OPT(SPEC)
                if v.id == '_simple_field_re' and f.attr == 'findall' and self.u.regex_ok['_simple_field_re']:
                    a = e.args[0]
                    if isinstance(a, ast.Name) and env.get('#group:' + a.id) == ('match', 'format') and env.get('match') == RAW:
                        return f'({K}.findallSimple match_)', LIST(STR)
                    bad(e, '_simple_field_re.findall of something other than the format group of the match')
        bad(e, f'call {ast.unparse(e)[:60]}')

    def assign(self, target, value, s, env, go):
        # remember which local holds which group of the match
        if isinstance(target, ast.Name):
            def go2(env2):
                env3 = {k: v for k, v in env2.items() if k != '#group:' + target.id}
                if isinstance(value, ast.Call) and isinstance(value.func, ast.Attribute) and value.func.attr == 'group' and isinstance(value.func.value, ast.Name) and \
                   value.func.value.id == 'match' and env.get('match') == RAW and len(value.args) == 1 and isinstance(value.args[0], ast.Constant):
                    env3['#group:' + target.id] = ('match', value.args[0].value)
                return go(env3)
            return super().assign(target, value, s, env, go2)
        return super().assign(target, value, s, env, go)

    def block(self, stmts, env, k, live):
        if stmts and isinstance(stmts[0], ast.AugAssign):
            s0 = stmts[0]
            tg = s0.target
            # self._argument_map[k] += [x]
            if isinstance(s0.op, ast.Add) and isinstance(tg, ast.Subscript) and isinstance(tg.value, ast.Attribute) and isinstance(tg.value.value, ast.Name) and \
               env.get(tg.value.value.id) == FS and tg.value.attr == '_argument_map' and isinstance(s0.value, ast.List) and len(s0.value.elts) == 1:
                B = []
                kt, kty = self.expr(tg.slice, env, B)
                vt, vty = self.expr(s0.value.elts[0], env, B)
                if vty != ARG: bad(s0, f'_argument_map[…] += [{vty}]')
                if kty == INT: key = f'(.idx {atom(kt)})'
                elif kty == STR: key = f'(.name {atom(kt)})'
                else: bad(s0, f'_argument_map[{kty}]')
                o = self.lvar(tg.value.value.id)
                return self.wrap(B, ('let', o, f'{{ {o} with map := PyBrace.mapAdd {o}.map {key} {atom(vt)} }}', self.block(stmts[1:], env, k, live)))
            # tp &= {…}
            if isinstance(s0.op, ast.BitAnd) and isinstance(tg, ast.Name) and env.get(tg.id) == TYSET:
                val = ast.copy_location(ast.BinOp(left=ast.copy_location(ast.Name(id=tg.id, ctx=ast.Load()), s0), op=ast.BitAnd(), right=s0.value), s0)
                return self.block([ast.copy_location(ast.Assign(targets=[tg], value=val), s0)] + list(stmts[1:]), env, k, live)
            if isinstance(tg, ast.Subscript): bad(s0, 'augmented assignment to a subscript')
        return super().block(stmts, env, k, live)

class AssertFalse(ast.NodeTransformer):
    def visit_Assert(self, n):
        if isinstance(n.test, ast.Constant) and n.test.value is False:
            return ast.copy_location(ast.Raise(exc=ast.copy_location(ast.Name(id='AssertionError', ctx=ast.Load()), n), cause=None), n)
        return n

class SelfTypes(ast.NodeTransformer):
    """in Field.__init__: the attribute `self.types` is the local `self_types`"""
    def visit_Attribute(self, n):
        self.generic_visit(n)
        if isinstance(n.value, ast.Name) and n.value.id == 'self':
            if n.attr != 'types': bad(n, f'attribute self.{n.attr} of the Field')
            return ast.copy_location(ast.Name(id='self_types', ctx=n.ctx), n)
        return n

class BraceUnit(Unit):
    def __init__(self, repo):
        super().__init__(T)
        src = open(os.path.join(repo, 'lib', 'strformat', 'pybrace.py'), encoding='utf-8').read()
        self.tree = ast.parse(src)
        body = self.tree.body
        cdefs = {}
        for n in body:
            if isinstance(n, ast.ClassDef):
                if n.name in cdefs: raise Untranslatable(f'class {n.name} is defined twice')
                cdefs[n.name] = n
        for n in ast.walk(self.tree):
            if isinstance(n, (ast.Global, ast.Nonlocal)): bad(n, 'global / nonlocal')
        stores = {}
        for n in ast.walk(self.tree):
            if isinstance(n, ast.Name) and isinstance(n.ctx, (ast.Store, ast.Del)): stores[n.id] = stores.get(n.id, 0) + 1
        for name in list(cdefs) + ['frozenset', 'int', 'len', 'slice']:
            if stores.get(name, 0) > 0: raise Untranslatable(f'{name} is re-bound')
        self.ssize_ok = stores.get('SSIZE_MAX', 0) == 1 and any(isinstance(n, ast.Assign) and ast.unparse(n.targets[0]) == 'SSIZE_MAX' for n in body)
        self.regex_ok = {}
        for name in ('_format_spec_re', '_simple_field_re', '_field_re'):
            ok = False
            for n in body:
                if isinstance(n, ast.Assign) and len(n.targets) == 1 and ast.unparse(n.targets[0]) == name:
                    ok = stores.get(name, 0) == 1 and isinstance(n.value, ast.Call) and ast.unparse(n.value.func) == 're.compile'
            self.regex_ok[name] = ok
        def err_class(name):
            c = cdefs.get(name)
            if c is None or c.decorator_list or c.keywords: return False
            if [ast.unparse(b) for b in c.bases] != (['Exception'] if name == 'Error' else ['Error']): return False
            return all(isinstance(n, ast.Assign) and ast.unparse(n.targets[0]) == 'message' and isinstance(n.value, ast.Constant) for n in c.body)
        self.errors_ok = all(err_class(n) for n in OWN)
        self.nested_ok = 'NestedField' in cdefs and ast.unparse(cdefs['NestedField']) == NESTED_SRC
        fs, fld = cdefs.get('FormatString'), cdefs.get('Field')
        if fs is None or fld is None: raise Untranslatable('class FormatString / Field not found')
        for c in (fs, fld):
            if c.bases or c.keywords or c.decorator_list: bad(c, f'class {c.name} has bases / decorators')
        def methods(c):
            out = {}
            for n in c.body:
                if isinstance(n, ast.FunctionDef):
                    if n.name in out: bad(n, f'{c.name}.{n.name} is defined twice')
                    out[n.name] = n
            return out
        self.fs_methods, self.fld_methods = methods(fs), methods(fld)
        for m in ('__getattr__', '__getattribute__', '__setattr__'):
            if m in self.fs_methods or m in self.fld_methods: raise Untranslatable(f'{m} is defined')
        self.fdefs = {}
        for n in body:
            if isinstance(n, ast.FunctionDef):
                if n.name in self.fdefs or stores.get(n.name, 0) > 0: raise Untranslatable(f'{n.name} is defined twice')
                self.fdefs[n.name] = n
        self.records['FormatString'] = dict(FIELDS)
        self.classes['FormatString'] = 'FormatString'
        self.state_var = {}

    # module-level helper functions are inlined at their call sites
    def helper_def(self, rec, name):
        if rec is None and name in self.fdefs and name != '_printable_prefix': return (self.fdefs[name], False)
        return None

def generate(repo):
    _mangled.clear()
    u = BraceUnit(repo)
    out = [HEADER]
    add = u.fs_methods.get('add_argument')
    if add is None: raise Untranslatable('FormatString.add_argument not found')
    sig_add = Sig('add_argument', [('name', OPT(STR), False), ('field', ARG, False)], add, rec='FormatString', writes=True)
    u.methods[('FormatString', 'add_argument')] = sig_add
    u.state_var['add_argument'] = 'self'
    init = u.fld_methods.get('__init__')
    if init is None: raise Untranslatable('Field.__init__ not found')
    a = init.args
    if [x.arg for x in a.args] != ['self', 'parent', 'match'] or a.kwonlyargs or a.vararg or a.kwarg or a.posonlyargs or a.defaults or init.decorator_list:
        bad(init, 'signature of Field.__init__')
    for n in ast.walk(init):
        if isinstance(n, ast.Return): bad(n, 'return in Field.__init__')
        if isinstance(n, ast.Name) and n.id in ('self_types', 'selfTypes', 'cfg'): bad(n, f'the name {n.id} is taken')
        if isinstance(n, ast.Name) and n.id in ('self', 'match', 'parent') and isinstance(n.ctx, ast.Store): bad(n, f'{n.id} is assigned')
    # self.types is assigned exactly once, by the last statement (so the value stored in the map early is that value)
    last = init.body[-1]
    n_store = sum(1 for n in ast.walk(init) if isinstance(n, ast.Attribute) and isinstance(n.ctx, ast.Store) and isinstance(n.value, ast.Name) and n.value.id == 'self')
    if not (isinstance(last, ast.Assign) and len(last.targets) == 1 and ast.unparse(last.targets[0]) == 'self.types' and n_store == 1):
        bad(init, 'self.types is not assigned exactly once, by the last statement of Field.__init__')
    for n in ast.walk(init):
        if isinstance(n, ast.Attribute) and isinstance(n.ctx, ast.Load) and isinstance(n.value, ast.Name) and n.value.id == 'self': bad(n, 'Field.__init__ reads an attribute of self')
    body = [SelfTypes().visit(AssertFalse().visit(st)) for st in init.body]
    ret = ast.Return(value=ast.Name(id='self_types', ctx=ast.Load()))
    ast.copy_location(ret, init.body[-1]); ast.fix_missing_locations(ret)
    fnode = ast.FunctionDef(name='__init__', args=ast.arguments(posonlyargs=[], args=[ast.arg(arg='self'), ast.arg(arg='match')], vararg=None, kwonlyargs=[],
                            kw_defaults=[], kwarg=None, defaults=[]), body=body + [ret], decorator_list=[], returns=None, type_params=[])
    ast.copy_location(fnode, init); ast.fix_missing_locations(fnode)
    sig_init = Sig('Field.__init__', [('match', RAW, False)], fnode, rec='FormatString', writes=True)
    u.state_var['Field.__init__'] = 'parent'
    def translate_sig(sig):
        if sig is sig_add:
            node = ast.FunctionDef(name=add.name, args=add.args, body=[AssertFalse().visit(st) for st in add.body], decorator_list=add.decorator_list, returns=None, type_params=[])
            ast.copy_location(node, add); ast.fix_missing_locations(node)
            sig.node = node
            return translate(u, 'FormatString', sig, '`lib.strformat.pybrace.FormatString.add_argument(name, field)`: the object afterwards (`IndexError`, `OverflowError` = `.crash …`)',
                             STYLE, fn_class=Fn, extra_params=' (cfg : PyBrace.Cfg)')
        return translate(u, 'FormatString', sig, '`lib.strformat.pybrace.Field.__init__(self, parent, match)`: `self.types` and the parent afterwards; `selfTypes`: the value '
                         '`self.types` will have (the object is stored in the map before it is assigned)', STYLE, fn_class=Fn,
                         extra_env={'parent': FS, 'self': ('selfobj',)}, state_name='parent', extra_params=' (cfg : PyBrace.Cfg) (selfTypes : PyBrace.TySet)')
    u.translate_sig = translate_sig
    u.ensure(sig_add)
    u.ensure(sig_init)
    if sig_add.ret != NONE: raise Untranslatable(f'add_argument returns {sig_add.ret}')
    if sig_init.ret != TYSET: raise Untranslatable(f'Field.__init__: self.types is {sig_init.ret}')
    text = '\n'.join(u.emitted)
    # calls of add_argument pass the configuration
    text = text.replace('add_argument parent ', 'add_argument cfg parent ')
    out.append(text)
    out.append('/- Statements discharged statically by the translator:\n' + ''.join(f'  {d}\n' for d in sorted(u.dropped)) + '-/\n')
    out.append('end I18n.Generated.PyBraceField\n')
    return '\n'.join(out)

HEADER = '''/-
GENERATED by tools/translate/pybracefield2lean.py from lib/strformat/pybrace.py (`Field.__init__`, `FormatString.add_argument`) — do not edit.
Regenerated from the repository's working tree on every check; `I18n/Props/C13Tie.lean` proves the definitions equal to the model the
theorems of C13 are about (`PyBrace.fieldInit`, `PyBrace.addArgument`).
-/
import I18n.PyKit
import I18n.Model.PyBracePy
set_option linter.unusedVariables false
namespace I18n.Generated.PyBraceField
open I18n

'''

def main():
    repo = sys.argv[1] if len(sys.argv) > 1 else '/repo'
    dest = sys.argv[2] if len(sys.argv) > 2 else os.path.join(os.path.dirname(os.path.abspath(__file__)), '..', '..', 'lean', 'I18n', 'Generated', 'PyBraceField.lean')
    try:
        try:
            text = generate(repo)
        except (SyntaxError, KeyError, AttributeError, TypeError, IndexError, ValueError, AssertionError, RecursionError, OSError, StopIteration) as exc:
            raise Untranslatable(f'{type(exc).__name__} while translating: {exc}')
    except Untranslatable as exc:
        msg = str(exc).replace('"', "'").replace('\\', '/')
        text = HEADER + (f'-- UNTRANSLATABLE: {msg}\n'
                         '/-- deliberately does not compile: the current lib/strformat/pybrace.py is outside the translator\'s subset (see above) -/\n'
                         'def untranslatable : Unit := the_current_source_of_Field_init_is_untranslatable\n'
                         'end I18n.Generated.PyBraceField\n')
        print(f'untranslatable: {exc}', file=sys.stderr)
        old = open(dest, encoding='utf-8').read() if os.path.exists(dest) else None
        if old != text: open(dest, 'w', encoding='utf-8').write(text)
        sys.exit(3)
    old = open(dest, encoding='utf-8').read() if os.path.exists(dest) else None
    if old != text:
        open(dest, 'w', encoding='utf-8').write(text)
        print('changed')
    else:
        print('unchanged')

if __name__ == '__main__':
    main()
